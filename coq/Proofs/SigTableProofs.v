(* The signal-reference table of the hierarchy (hierarchy.rs handle_to_node / num_unique_signals / get_signal_tpe;
   property C08): for every hierarchy built by any sequence of builder calls, the signal reference of every variable
   lies below num_unique_signals and resolves to the encoding of a variable that carries the same signal reference. *)
From Coq Require Import Lia.
From WV Require Import Model.Base Model.Bits Model.WaveMem Model.Hierarchy Proofs.HierProofs.
Open Scope nat_scope.

Definition sigs_of (b : builder) : list (nat * sig_enc) := map (fun v => (v_signal v, v_enc v)) (hb_vars b).

Definition sig_inv (b : builder) : Prop :=
  forall i sg enc, nth_error (sigs_of b) i = Some (sg, enc) ->
  exists w e', nth_error (hb_handles b) sg = Some (Some w) /\ nth_error (sigs_of b) w = Some (sg, e').

Lemma map_update {A B} (f : A -> B) : forall l i x, map f (list_update l i x) = list_update (map f l) i (f x).
Proof. induction l as [|a l IH]; intros [|i] x; cbn [list_update map]; try reflexivity. now rewrite IH. Qed.

Lemma update_same {A} : forall (l : list A) i x, nth_error l i = Some x -> list_update l i x = l.
Proof. induction l as [|a l IH]; intros [|i] x H; cbn in *; try discriminate; [now inversion H|]. now rewrite IH. Qed.

Lemma set_var_next_sigs vars c n vs : set_var_next vars c n = Ok vs ->
  map (fun v => (v_signal v, v_enc v)) vs = map (fun v => (v_signal v, v_enc v)) vars.
Proof.
  unfold set_var_next. intros H. destruct (nth_error vars c) as [v|] eqn:E; [|discriminate].
  destruct (v_next v); [discriminate|]. inversion H; subst vs. rewrite map_update. cbn [v_signal v_enc].
  apply update_same. now rewrite nth_error_map, E.
Qed.

Lemma add_to_tree_sigs b node b2 parent : add_to_tree b node = Ok (b2, parent) ->
  sigs_of b2 = sigs_of b /\ hb_handles b2 = hb_handles b.
Proof.
  unfold add_to_tree. intros H.
  destruct (find_parent_pos (hb_stack b)) as [pos| |]; try discriminate. cbn [bind] in H.
  destruct (nth_error (hb_stack b) pos) as [entry|]; [|discriminate]. cbn [of_option bind] in H.
  destruct (se_last_child entry) as [[c|c]|].
  - destruct (set_scope_next (hb_scopes b) c (Some node)) as [ss| |]; try discriminate. cbn [bind] in H. inversion H; subst. split; reflexivity.
  - destruct (set_var_next (hb_vars b) c (Some node)) as [vs| |] eqn:E; try discriminate. cbn [bind] in H. inversion H; subst.
    split; [|reflexivity]. unfold sigs_of. cbn [hb_vars]. exact (set_var_next_sigs _ _ _ _ E).
  - destruct (se_scope entry) as [p|].
    + destruct (set_scope_child (hb_scopes b) p (Some node)) as [ss| |]; try discriminate. cbn [bind] in H. inversion H; subst. split; reflexivity.
    + cbn [bind] in H. inversion H; subst. split; reflexivity.
Qed.

Lemma resize_nth : forall l n j, j < length l -> nth_error (resize_handles l n) j = nth_error l j.
Proof.
  induction l as [|x l IH]; intros n j Hj; [cbn in Hj; lia|]. destruct n as [|n]; [reflexivity|]. cbn [resize_handles].
  destruct j as [|j]; [reflexivity|]. cbn [nth_error]. apply IH. cbn in Hj. lia.
Qed.

Lemma resize_len : forall n l, n <= length (resize_handles l n).
Proof.
  induction n as [|n IH]; intros l; [lia|]. cbn [resize_handles]. destruct l as [|x l]; cbn [length].
  - specialize (IH []). lia.
  - specialize (IH l). lia.
Qed.

Lemma step_sig_inv b op b' : sig_inv b -> hier_step b op = Ok b' -> sig_inv b'.
Proof.
  intros Hinv H. destruct op as [nm c t dl f|nm t d e ix sidx tn|]; cbn [hier_step] in H.
  - (* add_scope: variables' signals and the table are untouched *)
    assert (E : sigs_of b' = sigs_of b /\ hb_handles b' = hb_handles b).
    { unfold add_scope in H. destruct (find_duplicate_scope b nm) as [dup| |]; try discriminate. cbn [bind] in H. destruct dup as [dd|].
      - destruct (find_last_child b dd) as [lc| |]; try discriminate. cbn [bind] in H. inversion H; subst. split; reflexivity.
      - destruct f; [inversion H; subst; split; reflexivity|].
        destruct (add_to_tree _ _) as [[b2 parent]| |] eqn:Et; try discriminate. cbn [bind] in H. inversion H; subst.
        destruct (add_to_tree_sigs _ _ _ _ Et) as [E1 E2]. split; [exact E1|exact E2]. }
    destruct E as [E1 E2]. unfold sig_inv. rewrite E1, E2. exact Hinv.
  - (* add_var *)
    unfold add_var in H. destruct (add_to_tree _ _) as [[b2 parent]| |] eqn:Et; try discriminate. cbn [bind] in H. inversion H; subst b'. clear H.
    destruct (add_to_tree_sigs _ _ _ _ Et) as [E1 E2]. unfold sigs_of in E1. cbn [hb_vars hb_handles] in E1, E2.
    assert (Hlen : length (hb_vars b2) = length (hb_vars b)).
    { apply (f_equal (@length _)) in E1. now rewrite !map_length in E1. }
    unfold sig_inv, sigs_of. cbn [hb_vars hb_handles]. rewrite map_app, E1, E2. cbn [map v_signal v_enc]. fold (sigs_of b).
    set (n := length (hb_vars b)). set (h' := list_update (resize_handles (hb_handles b) (S sidx)) sidx (Some n)).
    assert (Hn : nth_error (sigs_of b ++ [(sidx, e)]) n = Some (sidx, e)).
    { rewrite nth_error_app2 by (unfold sigs_of; rewrite map_length; lia). unfold sigs_of. rewrite map_length. fold n. now rewrite Nat.sub_diag. }
    assert (Hh : nth_error h' sidx = Some (Some n)).
    { unfold h'. pose proof (resize_len (S sidx) (hb_handles b)) as Hl.
      destruct (nth_error (resize_handles (hb_handles b) (S sidx)) sidx) as [y|] eqn:Ey; [|apply nth_error_None in Ey; lia].
      exact (nth_error_update_eq _ _ _ _ Ey). }
    intros i sg enc Hi. destruct (Nat.eq_dec sg sidx) as [->|Hne].
    + exists n, e. split; [exact Hh|exact Hn].
    + assert (Hi' : nth_error (sigs_of b) i = Some (sg, enc)).
      { destruct (Nat.lt_ge_cases i (length (sigs_of b))) as [Hlt|Hge]; [now rewrite nth_error_app1 in Hi|].
        rewrite nth_error_app2 in Hi by exact Hge. destruct (i - length (sigs_of b)) as [|k]; cbn in Hi; [inversion Hi; congruence|destruct k; discriminate]. }
      destruct (Hinv i sg enc Hi') as (w & e' & Hw & Hsw). exists w, e'. split.
      * unfold h'. rewrite nth_error_update_neq by congruence.
        change (match hb_handles b with [] => None :: resize_handles [] sidx | x :: r => x :: resize_handles r sidx end) with (resize_handles (hb_handles b) (S sidx)). rewrite resize_nth; [exact Hw|]. apply nth_error_Some. congruence.
      * rewrite nth_error_app1; [exact Hsw|]. apply nth_error_Some. congruence.
  - (* pop_scope *)
    unfold pop_scope in H. destruct (hb_stack b); [discriminate|]. inversion H; subst. exact Hinv.
Qed.

Theorem signal_refs_resolve ops b : hier_run hb_new ops = Ok b ->
  forall v vr, nth_error (hb_vars b) v = Some vr ->
  v_signal vr < num_unique_signals b /\
  exists w vw, nth_error (hb_vars b) w = Some vw /\ v_signal vw = v_signal vr /\ get_signal_tpe b (v_signal vr) = Some (v_enc vw).
Proof.
  intros H.
  assert (Hinv : sig_inv b).
  { assert (G : forall ops b0 b1, sig_inv b0 -> hier_run b0 ops = Ok b1 -> sig_inv b1).
    { induction ops0 as [|op ops0 IH]; intros b0 b1 H0 Hr; cbn [hier_run] in Hr; [inversion Hr; subst; exact H0|].
      destruct (hier_step b0 op) as [bm| |] eqn:Es; try discriminate. cbn [bind] in Hr. exact (IH bm b1 (step_sig_inv b0 op bm H0 Es) Hr). }
    apply (G ops hb_new b); [|exact H]. intros i sg enc Hi. destruct i; discriminate. }
  intros v vr Hv.
  assert (Hs : nth_error (sigs_of b) v = Some (v_signal vr, v_enc vr)) by (unfold sigs_of; now rewrite nth_error_map, Hv).
  destruct (Hinv v _ _ Hs) as (w & e' & Hw & Hsw). unfold sigs_of in Hsw. rewrite nth_error_map in Hsw.
  destruct (nth_error (hb_vars b) w) as [vw|] eqn:Ew; [|discriminate]. cbn [option_map] in Hsw. injection Hsw as Hsig He.
  split; [unfold num_unique_signals; apply nth_error_Some; congruence|].
  exists w, vw. split; [exact Ew|]. split; [exact Hsig|]. unfold get_signal_tpe. now rewrite Hw, Ew.
Qed.
