"""C01 - VCD value changes are reported faithfully."""
from .. import core, gen
from . import vcdfam

PID = "C01"
LEVEL = "proof"
RULE = ("abstract histories (signals x time steps x values) are serialised to VCD text with random legal syntax "
        "(scalar/vector/real/string, upper case, shortened vectors, 0b prefix, LF/CRLF, several changes per line, "
        "$dumpvars/$comment/$dumpoff blocks, values before the first timestamp, repeated and backwards timestamps, "
        "dense / gapped / hashed identifier codes) and loaded through st/rd/hc/hf entry points; the oracle is the "
        "meaning computed from the abstract history, never from the text. Exhaustive sweeps: every byte as scalar and "
        "as vector character (model-vs-implementation outcome class), every leading character x (declared width, "
        "written length) up to 20; signals quiet for 4095..40000 (thorough: ..70000) steps; files that end directly after their last token. Non-trivial: the file has >= 2 changes of one signal and uses at least one of "
        "{shortened vector, upper case, 0b, implicit first step, non-increasing timestamp, hashed ids, width > 8}.")
ASSUMPTIONS = ["f64 parsing: Rust str::parse::<f64> and OCaml float_of_string agree on the decimal syntax the generator emits (A-f64-parse)",
               "lz4_flex round trip (A-lz4)", "header parsing is covered by C09; the signal table is passed to the model"]
TRUSTED_BASE = ["Python oracle gen.expected_obs", "VCD text printer gen.body_text/header_text"]


def nontrivial_key(line, sigs, steps, imp, meta):
    per = {}
    for _, ch in steps:
        for si, _ in ch:
            per[si] = per.get(si, 0) + 1
    if not per or max(per.values()) < 2:
        return None
    body = meta["body"]
    times = [t for t, _ in steps]
    special = imp or meta["kind"] == "M" or any(b <= a for a, b in zip(times, times[1:])) \
        or any(s.tpe == "b" and s.width > 8 for s in sigs) or b"0b" in body or any(c in body for c in b"XZBRSHUWL")
    return hash(line) if special else None


def sweep_cases():
    cases = []
    hdr1 = b"$scope module t $end\n$var wire 1 ! a $end\n$var wire 2 \" b $end\n$upscope $end\n$enddefinitions $end"
    sigs = "D;b1,b2;-"
    valid = {}
    for c, n in zip("01xzhuwl-", range(9)):
        valid[ord(c)] = c
        valid[ord(c.upper())] = c
    for b in range(256):
        if b in (9, 10, 13, 32):
            continue
        body = b"\n#0\n" + bytes([b]) + b"!\n"
        exp = None
        if b in valid:
            exp = "tt=0 s0=0:%s:%s s1=-" % (gen.min_kind(valid[b]), valid[b])
        cases.append({"line": "vcd st %s %s %s" % (sigs, hdr1.hex(), body.hex()), "expect": exp, "klass": "sweep-scalar-char",
                      "key": ("sc", b) if exp else None})
        body = b"\n#0\nb" + bytes([b, b]) + b" \"\n"
        exp = None
        if b in valid:
            v = valid[b] * 2
            exp = "tt=0 s0=- s1=0:%s:%s" % (gen.min_kind(v), v)
        cases.append({"line": "vcd st %s %s %s" % (sigs, hdr1.hex(), body.hex()), "expect": exp, "klass": "sweep-vector-char",
                      "key": ("vc", b) if exp else None})
    # leading character x (declared width, written length)
    for w in range(1, 21):
        hdr = ("$scope module t $end\n$var wire %d ! a $end\n$upscope $end\n$enddefinitions $end" % w).encode()
        for k in range(1, w + 1):
            for c in "01xzXZhu-":
                txt = c + "1" * (k - 1)
                body = ("\n#3\nb%s !\n" % txt).encode()
                exp = None
                lc = c.lower()
                if k == w:
                    v = lc + "1" * (k - 1)
                    exp = "tt=3 s0=0:%s:%s" % (gen.min_kind(v), v)
                elif lc in "01xz":
                    ext = "0" if lc in "01" else lc
                    v = ext * (w - k) + lc + "1" * (k - 1)
                    exp = "tt=3 s0=0:%s:%s" % (gen.min_kind(v), v)
                cases.append({"line": "vcd st D;b%d;- %s %s" % (w, hdr.hex(), body.hex()), "expect": exp,
                              "klass": "sweep-extension", "key": ("ext", w, k, c) if exp else None})
    return cases


def run(res, rng, tier, model_ok, replay=None):
    cases = []
    if replay:
        line = replay.get("case") or replay["broken_correspondence"]["case"]
        exp = replay.get("expected")
        cases.append({"line": line, "expect": exp if isinstance(exp, str) and exp.startswith("tt=") else None})
    else:
        cases += sweep_cases()
        res.exhaustive = True
        n = 1500 if tier == "quick" else 30000
        for i in range(n):
            big = tier == "thorough" and i % 50 == 0
            sigs, steps, imp = gen.gen_history(rng, max_steps=(40 if big else 12),
                                               widths=([512, 1023, 1024, 4096] if big else None))
            mode = rng.choice(["st", "st", "rd", "hc", "hf:0", "rb"])
            line, exp, meta = gen.vcd_case(rng, mode, sigs, steps, imp, strip_end=(rng.random() < 0.25))
            cases.append({"line": line, "expect": exp, "key": nontrivial_key(line, sigs, steps, imp, meta),
                          "klass": "random-" + mode.split(":")[0] + "-" + meta["kind"]})
        # signals that stay quiet for many time steps inside one storage block, then change
        for gap in ([4095, 4096, 4097, 16383, 16384, 16385, 40000] if tier == "quick" else
                    [255, 256, 4095, 4096, 4097, 8192, 16383, 16384, 16385, 32768, 40000, 65534, 65535, 65536, 70000]):
            sigs, steps = gen.gap_history(rng, gap)
            for mode in ("st", "rd"):
                line, exp, meta = gen.vcd_case(rng, mode, sigs, steps, False, ws="plain", regime="dense")
                cases.append({"line": line, "expect": exp, "key": ("gap", gap, mode), "klass": "quiet-gap"})
    vcdfam.run_both(res, cases, "c01", model_ok)
    res.samples = [c["line"][:400] for c in cases[-2:]] + [cases[0]["line"][:300]]


def check_known(entry):
    io = core.run_cases(core.WV_DEBUG, [entry["case"]], "c01k")[0]
    return vcdfam.strip_bl(io) != entry["expected"]
