(* Model of format detection: viewers::detect_file_format, vcd::is_vcd / read_command,
   ghw::is_ghw / read_ghw_header and - from the dependency's source - fst_reader::is_fst_file
   (block walk).  A seekable input is a byte list plus a position; every probe rewinds to 0. *)
From WV Require Import Model.Base Model.Bits Model.VcdBody.
Open Scope N_scope.

Inductive file_format := FVcd | FFst | FGhw | FUnknown.
(* result of a probe: a verdict, a panic, or a walk that never ends *)
Inductive probe := PBool (b : bool) | PPanicked | PHang.

(* ---------- VCD: read_command ---------- *)

Fixpoint skip_ws (l : list byte) : option (byte * list byte) :=
  match l with
  | [] => None
  | b :: r => if is_white_space b then skip_ws r else Some (b, r)
  end.

(* read_token: bytes up to the next blank; None at end of input *)
Fixpoint read_token (l : list byte) (acc : list byte) : option (list byte * list byte) :=
  match l with
  | [] => None
  | b :: r => if is_white_space b then Some (rev_append acc [], r) else read_token r (b :: acc)
  end.

Definition vcd_commands : list (list byte) :=
  [ [100;97;116;101];                                  (* date *)
    [116;105;109;101;115;99;97;108;101];               (* timescale *)
    [118;97;114];                                      (* var *)
    [115;99;111;112;101];                              (* scope *)
    [117;112;115;99;111;112;101];                      (* upscope *)
    [99;111;109;109;101;110;116];                      (* comment *)
    [118;101;114;115;105;111;110];                     (* version *)
    [101;110;100;100;101;102;105;110;105;116;105;111;110;115];  (* enddefinitions *)
    [97;116;116;114;98;101;103;105;110] ].             (* attrbegin *)

Definition is_vcd_command (w : list byte) : bool := existsb (list_eqb w) vcd_commands.

(* read_until_end_token's matcher: end_index 0..3 over `$end`; any mismatch resets to 0 *)
Fixpoint find_end (l : list byte) (end_index : N) : bool :=
  match l with
  | [] => false                                        (* read_byte fails: Err *)
  | b :: r =>
    if (end_index =? 0) && (b =? 36) then find_end r 1
    else if (end_index =? 1) && (b =? 101) then find_end r 2
    else if (end_index =? 2) && (b =? 110) then find_end r 3
    else if (end_index =? 3) && (b =? 100) then true
    else find_end r 0
  end.

(* an unknown command is VcdParseError::VcdUnknownCommand: not a VCD *)
Definition is_vcd (input : list byte) : probe :=
  match skip_ws input with
  | None => PBool false
  | Some (c, r) =>
    if negb (c =? 36) then PBool false
    else match read_token r [] with
         | None => PBool false
         | Some (w, r2) =>
           if is_vcd_command w then PBool (find_end r2 0) else PBool false
         end
  end.

(* ---------- FST: fst_reader::is_fst_file ---------- *)

Definition valid_block_type (b : byte) : bool := (b <=? 8) || (b =? 254) || (b =? 255).

Fixpoint be_value (l : list byte) (acc : N) : N :=
  match l with [] => acc | b :: r => be_value r (acc * 256 + b) end.

(* loop { tpe = read_u8 (Io error: done, true); len = read_u64?; seek(Current(len as i64 - 8))? } *)
Fixpoint fst_walk (debug : bool) (fuel : nat) (input : list byte) (pos : Z) : probe :=
  match fuel with
  | O => PHang
  | S f =>
    if (Z.of_nat (length input) <=? pos)%Z then PBool true   (* read_block_tpe: Io error => break *)
    else
    match nth_error input (Z.to_nat pos) with
    | None => PBool true
    | Some tpe =>
      if negb (valid_block_type tpe) then PBool false
      else
        let lenb := firstn 8 (skipn (Z.to_nat pos + 1) input) in
        if (length lenb <? 8)%nat then PBool false         (* read_u64 fails *)
        else
          let len := be_value lenb 0 in
          let as_i64 := if len <? 9223372036854775808 then Z.of_N len
                        else (Z.of_N len - 18446744073709551616)%Z in
          let off := (as_i64 - 8)%Z in
          if (off <? -9223372036854775808)%Z then
            (if debug then PPanicked                        (* attempt to subtract with overflow *)
             else let off' := (off + 18446744073709551616)%Z in
                  let np := (pos + 9 + off')%Z in
                  if (np <? 0)%Z || (9223372036854775807 <? np)%Z then PBool false
                  else fst_walk debug f input np)
          else
            let np := (pos + 9 + off)%Z in
            (* lseek: a position before the start or beyond i64::MAX is an error *)
            if (np <? 0)%Z || (9223372036854775807 <? np)%Z then PBool false
            else fst_walk debug f input np
    end
  end.

(* any walk longer than length+2 steps revisits a position: it never ends *)
Definition is_fst (debug : bool) (input : list byte) : probe :=
  fst_walk debug (length input + 2) input 0%Z.

(* ---------- GHW: read_ghw_header ---------- *)

Definition ghw_header_start : list byte := [71;72;68;76;119;97;118;101;10].   (* GHDLwave\n *)

Definition is_ghw (input : list byte) : bool :=
  match input with
  | a :: b :: _ =>
    if (a =? 71) && (b =? 72) then
      if (length input <? 9)%nat then false
      else if negb (list_eqb (firstn 7 (skipn 2 input)) (skipn 2 ghw_header_start)) then false
      else
        let h := firstn 7 (skipn 9 input) in
        if (length h <? 7)%nat then false
        else
          let g i := nth i h 0 in
          (g 0%nat =? 16) && (g 1%nat =? 0) && (g 2%nat <=? 1) &&
          ((g 3%nat =? 1) || (g 3%nat =? 2)) && (g 6%nat =? 0)
    else false
  | _ => false
  end.

(* ---------- detect_file_format ---------- *)

Inductive detect_result := DFormat (f : file_format) | DPanic | DHang.

(* an empty input is reported as Unknown before any probing *)
Definition detect (debug : bool) (input : list byte) : detect_result :=
  match input with
  | [] => DFormat FUnknown
  | _ =>
  match is_vcd input with
  | PPanicked => DPanic
  | PHang => DHang
  | PBool true => DFormat FVcd
  | PBool false =>
    match is_fst debug input with
    | PPanicked => DPanic
    | PHang => DHang
    | PBool true => DFormat FFst
    | PBool false => if is_ghw input then DFormat FGhw else DFormat FUnknown
    end
  end
  end.
