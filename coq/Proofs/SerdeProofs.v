(* C17: reading back what was written yields the value that was written, for every shape of type without an Option
   directly inside an Option and with distinct variant names (Model/Serde.v). *)
From Coq Require Import Lia.
From WV Require Import Model.Base Model.Serde.
Open Scope Z_scope.

Lemma bytes_eqb_refl a : bytes_eqb a a = true.
Proof. unfold bytes_eqb. destruct (list_eq_dec N.eq_dec a a) as [_|H]; [reflexivity|now elim H]. Qed.

Lemma bytes_eqb_eq a b : bytes_eqb a b = true -> a = b.
Proof. unfold bytes_eqb. destruct (list_eq_dec N.eq_dec a b) as [H|_]; [intros _; exact H|discriminate]. Qed.

Lemma bytes_eqb_neq a b : a <> b -> bytes_eqb a b = false.
Proof. unfold bytes_eqb. destruct (list_eq_dec N.eq_dec a b) as [H|_]; [intros N; now elim N|reflexivity]. Qed.

Lemma existsb_bytes_false a r : existsb (bytes_eqb a) r = false -> ~ In a r.
Proof.
  intros H Hin. assert (E : existsb (bytes_eqb a) r = true).
  { apply existsb_exists. exists a. split; [exact Hin|apply bytes_eqb_refl]. }
  rewrite H in E. discriminate.
Qed.

(* ---- lists *)
Lemma mapM_roundtrip {A B} (f : A -> option B) (g : B -> option A) :
  (forall a b, f a = Some b -> g b = Some a) ->
  forall l bs, mapM f l = Some bs -> mapM g bs = Some l.
Proof.
  intros Hfg l. induction l as [|a r IH]; intros bs H; cbn [mapM] in H.
  - injection H as <-. reflexivity.
  - destruct (f a) as [b|] eqn:Ea; [|discriminate]. destruct (mapM f r) as [bs'|] eqn:Er; [|discriminate].
    injection H as <-. cbn [mapM]. rewrite (Hfg _ _ Ea), (IH _ eq_refl). reflexivity.
Qed.

(* ---- decimal keys *)
Lemma read_digits_lsb fuel : forall n, (n < 2 ^ N.of_nat fuel)%N -> (1 <= fuel)%nat -> read_lsb (digits_lsb fuel n) = Some n.
Proof.
  induction fuel as [|f IH]; intros n Hn Hf; [lia|].
  cbn [digits_lsb read_lsb].
  assert (Hm : (n mod 10 < 10)%N) by (apply N.mod_lt; discriminate).
  assert (Hb : ((48 <=? 48 + n mod 10)%N && (48 + n mod 10 <=? 57)%N)%bool = true).
  { revert Hm. generalize (n mod 10)%N. intros m Hm. apply andb_true_iff. split; apply N.leb_le; lia. }
  rewrite Hb.
  replace (48 + n mod 10 - 48)%N with (n mod 10)%N by (generalize (n mod 10)%N; intros; lia).
  destruct (n <? 10)%N eqn:E.
  - apply N.ltb_lt in E. cbn [read_lsb option_map]. rewrite N.mod_small by exact E. reflexivity.
  - apply N.ltb_ge in E.
    assert (Hd : (n / 10 < 2 ^ N.of_nat f)%N).
    { rewrite Nat2N.inj_succ, N.pow_succ_r' in Hn. apply N.div_lt_upper_bound; [discriminate|]. lia. }
    destruct f as [|f'].
    + cbn in Hd. assert (n / 10 = 0)%N by lia. apply N.div_small_iff in H; [lia|discriminate].
    + rewrite IH by (try exact Hd; lia). cbn [option_map]. f_equal.
      pose proof (N.div_mod n 10 ltac:(discriminate)). lia.
Qed.

Lemma digits_lsb_nonempty fuel n : (1 <= fuel)%nat -> digits_lsb fuel n <> [].
Proof. destruct fuel; [lia|]. cbn [digits_lsb]. discriminate. Qed.

Lemma read_show_N n : read_N (show_N n) = Some n.
Proof.
  unfold read_N, show_N.
  set (fuel := S (N.to_nat (N.log2 n))).
  destruct (rev (digits_lsb fuel n)) eqn:E.
  - exfalso. apply (digits_lsb_nonempty fuel n); [subst fuel; lia|].
    rewrite <- (rev_involutive (digits_lsb fuel n)), E. reflexivity.
  - rewrite <- E, rev_involutive. apply read_digits_lsb; [|subst fuel; lia].
    subst fuel. rewrite Nat2N.inj_succ, N2Nat.id.
    destruct n as [|p]; [reflexivity|]. apply N.log2_spec. reflexivity.
Qed.

Lemma de_ser_key lo hi nz z s : ser_key lo hi nz z = Some s -> de_key lo hi nz s = Some z.
Proof.
  unfold ser_key, de_key. destruct (0 <=? z) eqn:E0; [|discriminate]. cbn [andb].
  destruct (int_ok lo hi nz z) eqn:E1; [|discriminate]. intros H. injection H as <-.
  rewrite read_show_N. apply Z.leb_le in E0. rewrite Z2N.id by exact E0. rewrite E1. reflexivity.
Qed.

(* ---- a type that is not an Option never writes null *)
Lemma ser_not_null t v j : nullable t = false -> ser t v = Some j -> j <> JNull.
Proof.
  intros Hn H Hj. subst j.
  destruct t as [lo hi nz| | |t'|t'|k t'|ts|fs|vs]; cbn [nullable] in Hn; try discriminate; cbn [ser] in H.
  - destruct v; try discriminate. destruct (int_ok lo hi nz z); discriminate.
  - destruct v; discriminate.
  - destruct v; discriminate.
  - destruct v; try discriminate. destruct (mapM (ser t') l); discriminate.
  - destruct k; try discriminate. destruct v; try discriminate.
    match type of H with option_map _ ?m = _ => destruct m end; discriminate.
  - destruct v; try discriminate. destruct (ser_tys ts l); discriminate.
  - destruct v; try discriminate. destruct (ser_fields fs l); discriminate.
  - destruct v as [| | | | | | |n p]; try discriminate.
    revert n H. induction vs as [|name vs' IH|name t vs' IH]; intros n H; cbn [ser_variants] in H; try discriminate.
    + destruct n; [destruct p; discriminate|exact (IH _ H)].
    + destruct n; [|exact (IH _ H)]. destruct p as [v|]; [|discriminate]. destruct (ser t v); discriminate.
Qed.

(* ---- the round trip, by mutual induction over the shape *)
Scheme ty_mut := Induction for ty Sort Prop
  with tys_mut := Induction for tys Sort Prop
  with fields_mut := Induction for fields Sort Prop
  with variants_mut := Induction for variants Sort Prop.
Combined Scheme shape_mut from ty_mut, tys_mut, fields_mut, variants_mut.

Definition rt_ty (t : ty) : Prop := ty_okb t = true -> forall v j, ser t v = Some j -> de t j = Some v.
Definition rt_tys (ts : tys) : Prop := tys_okb ts = true -> forall l js, ser_tys ts l = Some js -> de_tys ts js = Some l.
Definition rt_fields (fs : fields) : Prop :=
  fields_okb fs = true -> forall l js, ser_fields fs l = Some js -> de_fields fs js = Some l.
Definition rt_variants (vs : variants) : Prop :=
  variants_okb vs = true -> distinct (variant_names vs) = true ->
  forall n p j, ser_variants vs n p = Some j -> forall idx,
  (exists s, j = JStr s /\ p = None /\ In s (variant_names vs) /\
             de_variants vs s None idx = Some (VVariant (idx + n) None)) \/
  (exists s j' v, j = JObj [(s, j')] /\ p = Some v /\ In s (variant_names vs) /\
             de_variants vs s (Some j') idx = Some (VVariant (idx + n) (Some v))).

Lemma roundtrip_all :
  (forall t, rt_ty t) /\ (forall ts, rt_tys ts) /\ (forall fs, rt_fields fs) /\ (forall vs, rt_variants vs).
Proof.
  apply shape_mut; unfold rt_ty, rt_tys, rt_fields, rt_variants.
  - (* TInt *) intros lo hi nz _ v j H. cbn [ser] in H. destruct v; try discriminate.
    destruct (int_ok lo hi nz z) eqn:E; [|discriminate]. injection H as <-. cbn [de]. rewrite E. reflexivity.
  - (* TBool *) intros _ v j H. cbn [ser] in H. destruct v; try discriminate. injection H as <-. reflexivity.
  - (* TStr *) intros _ v j H. cbn [ser] in H. destruct v; try discriminate. injection H as <-. reflexivity.
  - (* TOption *) intros t IH Hok v j H. cbn [ty_okb] in Hok. apply andb_true_iff in Hok. destruct Hok as [Hn Hok].
    apply negb_true_iff in Hn. cbn [ser] in H. destruct v; try discriminate.
    + injection H as <-. reflexivity.
    + pose proof (ser_not_null _ _ _ Hn H) as Hj. cbn [de]. rewrite (IH Hok _ _ H).
      destruct j; [now elim Hj|reflexivity..].
  - (* TSeq *) intros t IH Hok v j H. cbn [ty_okb] in Hok. cbn [ser] in H. destruct v; try discriminate.
    destruct (mapM (ser t) l) as [js|] eqn:E; [|discriminate]. injection H as <-. cbn [de].
    rewrite (mapM_roundtrip (ser t) (de t) (IH Hok) _ _ E). reflexivity.
  - (* TMap *) intros k _ t IH Hok v j H. cbn [ty_okb] in Hok. destruct k as [lo hi nz| | | | | | | |]; try discriminate.
    cbn [ser] in H. destruct v; try discriminate.
    match type of H with option_map _ ?m = _ => destruct m as [js|] eqn:E end; [|discriminate].
    injection H as <-. cbn [de].
    erewrite mapM_roundtrip; [reflexivity| |exact E].
    intros [z v] [s j] Hp. cbn [fst snd] in Hp |- *.
    destruct (ser_key lo hi nz z) as [s'|] eqn:Ek; [|discriminate]. destruct (ser t v) as [j'|] eqn:Ev; [|discriminate].
    injection Hp as <- <-. rewrite (de_ser_key _ _ _ _ _ Ek), (IH Hok _ _ Ev). reflexivity.
  - (* TTuple *) intros ts IH Hok v j H. cbn [ty_okb] in Hok. cbn [ser] in H. destruct v; try discriminate.
    destruct (ser_tys ts l) as [js|] eqn:E; [|discriminate]. injection H as <-. cbn [de]. rewrite (IH Hok _ _ E). reflexivity.
  - (* TStruct *) intros fs IH Hok v j H. cbn [ty_okb] in Hok. cbn [ser] in H. destruct v; try discriminate.
    destruct (ser_fields fs l) as [js|] eqn:E; [|discriminate]. injection H as <-. cbn [de]. rewrite (IH Hok _ _ E). reflexivity.
  - (* TEnum *) intros vs IH Hok v j H. cbn [ty_okb] in Hok. apply andb_true_iff in Hok. destruct Hok as [Hd Hok].
    cbn [ser] in H. destruct v as [| | | | | | |n p]; try discriminate.
    destruct (IH Hok Hd _ _ _ H O) as [(s & -> & -> & _ & Hde)|(s & j' & v & -> & -> & _ & Hde)]; cbn [de]; rewrite Hde; reflexivity.
  - (* TNil *) intros _ l js H. cbn [ser_tys] in H. destruct l; [|discriminate]. injection H as <-. reflexivity.
  - (* TCons *) intros t IHt ts IHs Hok l js H. cbn [tys_okb] in Hok. apply andb_true_iff in Hok. destruct Hok as [Ht Hs].
    cbn [ser_tys] in H. destruct l as [|v l']; [discriminate|].
    destruct (ser t v) as [j|] eqn:Ev; [|discriminate]. destruct (ser_tys ts l') as [js'|] eqn:Es; [|discriminate].
    injection H as <-. cbn [de_tys]. rewrite (IHt Ht _ _ Ev), (IHs Hs _ _ Es). reflexivity.
  - (* FNil *) intros _ l js H. cbn [ser_fields] in H. destruct l; [|discriminate]. injection H as <-. reflexivity.
  - (* FCons *) intros name t IHt fs IHs Hok l js H. cbn [fields_okb] in Hok. apply andb_true_iff in Hok. destruct Hok as [Ht Hs].
    cbn [ser_fields] in H. destruct l as [|v l']; [discriminate|].
    destruct (ser t v) as [j|] eqn:Ev; [|discriminate]. destruct (ser_fields fs l') as [js'|] eqn:Es; [|discriminate].
    injection H as <-. cbn [de_fields]. rewrite bytes_eqb_refl, (IHt Ht _ _ Ev), (IHs Hs _ _ Es). reflexivity.
  - (* VNil *) intros _ _ n p j H. discriminate.
  - (* VUnit *) intros name vs IH Hok Hd n p j H idx. cbn [variants_okb] in Hok. cbn [variant_names distinct] in Hd.
    apply andb_true_iff in Hd. destruct Hd as [Hnew Hd]. apply negb_true_iff in Hnew. apply existsb_bytes_false in Hnew.
    cbn [ser_variants] in H. destruct n as [|n'].
    + destruct p; [discriminate|]. injection H as <-. left. exists name. cbn [variant_names de_variants].
      rewrite bytes_eqb_refl, Nat.add_0_r. repeat split; [now left].
    + destruct (IH Hok Hd _ _ _ H (S idx)) as [(s & -> & -> & Hin & Hde)|(s & j' & v & -> & -> & Hin & Hde)].
      * left. exists s. cbn [variant_names de_variants]. rewrite bytes_eqb_neq by (intros ->; contradiction).
        rewrite Hde. replace (S idx + n')%nat with (idx + S n')%nat by lia. repeat split; now right.
      * right. exists s, j', v. cbn [variant_names de_variants]. rewrite bytes_eqb_neq by (intros ->; contradiction).
        rewrite Hde. replace (S idx + n')%nat with (idx + S n')%nat by lia. repeat split; now right.
  - (* VPay *) intros name t IHt vs IH Hok Hd n p j H idx. cbn [variants_okb] in Hok. apply andb_true_iff in Hok.
    destruct Hok as [Ht Hok]. cbn [variant_names distinct] in Hd.
    apply andb_true_iff in Hd. destruct Hd as [Hnew Hd]. apply negb_true_iff in Hnew. apply existsb_bytes_false in Hnew.
    cbn [ser_variants] in H. destruct n as [|n'].
    + destruct p as [v|]; [|discriminate]. destruct (ser t v) as [j'|] eqn:Ev; [|discriminate]. injection H as <-.
      right. exists name, j', v. cbn [variant_names de_variants].
      rewrite bytes_eqb_refl, (IHt Ht _ _ Ev), Nat.add_0_r. repeat split; now left.
    + destruct (IH Hok Hd _ _ _ H (S idx)) as [(s & -> & -> & Hin & Hde)|(s & j' & v & -> & -> & Hin & Hde)].
      * left. exists s. cbn [variant_names de_variants]. rewrite bytes_eqb_neq by (intros ->; contradiction).
        rewrite Hde. replace (S idx + n')%nat with (idx + S n')%nat by lia. repeat split; now right.
      * right. exists s, j', v. cbn [variant_names de_variants]. rewrite bytes_eqb_neq by (intros ->; contradiction).
        rewrite Hde. replace (S idx + n')%nat with (idx + S n')%nat by lia. repeat split; now right.
Qed.

(* reading back what serde_json wrote yields the value written *)
Theorem de_ser : forall t, ty_okb t = true -> forall v j, ser t v = Some j -> de t j = Some v.
Proof. exact (proj1 roundtrip_all). Qed.

(* hence a second serialisation (of the value read back) reproduces the document *)
Corollary reserialises_image : forall t, ty_okb t = true -> forall v j, ser t v = Some j -> reserialises t j = Some j.
Proof. intros t Hok v j H. unfold reserialises. rewrite (de_ser t Hok v j H). exact H. Qed.

(* the side condition is needed: with an Option directly inside an Option, Some(None) is read back as None *)
Lemma nested_option_refuted :
  exists t v j, ser t v = Some j /\ de t j <> Some v.
Proof. exists (TOption (TOption TBool)), (VSome VNone), JNull. split; [reflexivity|discriminate]. Qed.

(* and so is the distinctness of variant names (it fails only under a serde rename attribute) *)
Lemma duplicate_variant_refuted :
  exists t v j, ser t v = Some j /\ de t j <> Some v.
Proof. exists (TEnum (VUnit [65%N] (VUnit [65%N] VNil))), (VVariant 1 None), (JStr [65%N]). split; [reflexivity|discriminate]. Qed.
