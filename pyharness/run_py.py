#!/usr/bin/env python3
"""Implementation side of the C18 correspondence: drives the pywellen binding (built from /repo) on the case
lines `py <sigs> <hdrhex> <bodyhex> <times>` and prints one canonical observation per line."""
import os
import struct
import sys

sys.path.insert(0, os.environ.get("PYWELLEN_DIR", "/verif/.cache/run/pywellen"))
import pywellen  # noqa: E402


def show(v):
    if v is None:
        return "~"
    if isinstance(v, bool):
        return "?"
    if isinstance(v, int):
        return "i%x" % v
    if isinstance(v, float):
        return "f%016x" % struct.unpack("<Q", struct.pack("<d", v))[0]
    if isinstance(v, str):
        return "s" + (v.encode("utf-8").hex() or "-")
    return "?"


def run_case(args, n):
    hdr = bytes.fromhex(args[1]) if args[1] != "-" else b""
    body = bytes.fromhex(args[2]) if args[2] != "-" else b""
    times = [int(x, 16) for x in args[3].split(",")] if args[3] != "-" else []
    path = "/verif/.cache/run/tmp/py-%d-%d.vcd" % (os.getpid(), n)
    os.makedirs(os.path.dirname(path), exist_ok=True)
    with open(path, "wb") as f:
        f.write(hdr + body)
    try:
        w = pywellen.Waveform(path, False, False)
        h = w.hierarchy
        tt = w.time_table
        # length of the table through the Python interface
        n_tt = 0
        while tt[n_tt] is not None:
            n_tt += 1
        out = ["tt=" + ",".join(show(tt[i]) for i in range(-n_tt - 2, n_tt + 2))]
        vars_ = sorted(((v.full_name(h), v) for v in h.all_vars()), key=lambda p: p[0])
        for name, v in vars_:
            s = w.get_signal(v)
            ch = ",".join("%x:%s" % (t, show(val)) for t, val in s.all_changes())
            at_idx = ",".join(show(s.value_at_idx(i)) for i in range(0, n_tt + 2))
            at_time = ",".join(show(s.value_at_time(t)) for t in times)
            out.append("%s=ch[%s]idx[%s]time[%s]" % (name.split(".")[-1], ch, at_idx, at_time))
        return " ".join(out)
    except BaseException as e:     # a Rust panic surfaces as pyo3_runtime.PanicException (BaseException)
        return "PANIC" if "Panic" in type(e).__name__ else "ERR"
    finally:
        try:
            os.unlink(path)
        except OSError:
            pass


def main():
    n = 0
    for line in open(sys.argv[1]):
        n += 1
        line = line.rstrip("\n")
        if not line or line.startswith("#"):
            continue
        parts = line.split(" ")
        sys.stdout.write("%d %s\n" % (n, run_case(parts[1:], n)))
        sys.stdout.flush()


main()
