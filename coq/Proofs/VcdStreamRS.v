(* The single-stream VCD body path for real-valued and string-valued variables (property C01): the signal loaded after
   read_single_stream reports exactly what the parser's events record for the variable - every `r<number>` / `s<text>`
   change that does not repeat the value before it, at its index into the accepted time table. *)
From Coq Require Import Lia.
From WV Require Import Model.Base Generated.Consts Model.Bits Model.Leb128 Model.WaveMem Model.VcdBody
  Spec.TimeSpec Spec.StoreSpec Proofs.BitsProofs Proofs.StoreProofs Proofs.EncoderProofs Proofs.VcdStreamProofs
  Proofs.RealStringProofs Proofs.RealStringEnc Proofs.BodyProofs Proofs.TokenProofs.
Open Scope N_scope.

Section StreamRS.
Variable parse_f64 : list byte -> option (list byte).
Hypothesis parse_f64_len : forall r le, parse_f64 r = Some le -> length le = 8%nat.
Variable lz_compress : list byte -> list byte.
Variable lz_decompress : list byte -> nat -> option (list byte).
Hypothesis lz_ok : forall d n, (length d <= n)%nat -> lz_decompress (lz_compress d) n = Some d.
Variable cap : N.
Hypothesis cap_pos : 1 <= cap.
Hypothesis cap_u16 : cap <= 65536.

Theorem vcd_stream_transparent_rs debug tpes lookup input stop_pos e blocks ttb id str :
  nth_error tpes id = Some (rs_tpe str) ->
  read_single_stream parse_f64 lz_compress cap debug tpes lookup input stop_pos true = Ok e ->
  enc_finish lz_compress e = Ok (blocks, ttb) -> N.of_nat (length ttb) < 4294967296 ->
  exists ops, ops_of lookup true false (fst (parse_body debug input stop_pos)) = Some ops /\
    (Forall (rs_op_ok id str) ops -> ops_cost id ops < 4294967264 ->
     exists R sig,
       Forall2 (gdecodes parse_f64 str) R (recorded_rs id ops [] false) /\
       load_signal lz_decompress blocks id (rs_tpe str) = Ok sig /\
       observe_signal sig = Ok (map (fun a : N * list byte => (fst a, if str then KString else KReal, snd a)) (gdedup R))).
Proof.
  intros Htp Hrs Hfin Hlen. unfold read_single_stream in Hrs.
  destruct (parse_body debug input stop_pos) as [evs pres] eqn:Ep. cbn [fst].
  destruct (feed_events parse_f64 lz_compress cap lookup (mk_ve (enc_new tpes) true false) evs) as [ve| |] eqn:Ef; try discriminate.
  cbn [bind] in Hrs. destruct pres; try discriminate. inversion Hrs; subst e.
  destruct (feed_events_ops parse_f64 lz_compress cap lookup evs _ _ _ _ Ef) as (ops & Ho & Hr).
  exists ops. split; [exact Ho|]. intros Hok Hbud.
  destruct (storage_transparent_rs parse_f64 parse_f64_len lz_compress lz_decompress lz_ok cap cap_pos cap_u16 id str
              tpes ops _ blocks ttb Htp Hok Hbud Hr Hfin Hlen) as (R & sig & Hdec & _ & Hload & Hobs).
  exists R, sig. split; [exact Hdec|]. split; [exact Hload|exact Hobs].
Qed.

End StreamRS.

(* ------------------------------------------------------------------ from the text to the report *)

Section Lines.
Variable parse_f64 : list byte -> option (list byte).
Variable lz_compress : list byte -> list byte.
Variable lz_decompress : list byte -> nat -> option (list byte).
Hypothesis lz_ok : forall d n, (length d <= n)%nat -> lz_decompress (lz_compress d) n = Some d.
Variable cap : N.
Hypothesis cap_pos : 1 <= cap.
Hypothesis cap_u16 : cap <= 65536.

(* Property C01 from the text: a VCD body written one token group per line (Proofs/TokenProofs.v `render`) and loaded by
   the single-threaded path reports, for a bit-vector variable, exactly what its lines record: the value changes written
   under the variable's identifier code, at the index of the time stamp line they follow, least kind, characters,
   equal neighbours once; comment lines and $dumpvars/$end/$dumpoff/$dumpon lines contribute nothing *)
Theorem vcd_lines_transparent debug tpes lookup (ls : list line) stop e blocks ttb id bits :
  Forall line_ok ls -> N.of_nat (length (render ls)) <= stop + 1 ->
  (1 <= bits)%nat -> nth_error tpes id = Some (EncBits bits) ->
  read_single_stream parse_f64 lz_compress cap debug tpes lookup (render ls) stop true = Ok e ->
  enc_finish lz_compress e = Ok (blocks, ttb) -> N.of_nat (length ttb) < 4294967296 ->
  exists ops, ops_of lookup true false (flat_map events_of ls) = Some ops /\
    (N.of_nat (count_vcd id ops) * (10 + N.of_nat bits) < 4294967264 ->
     exists R sig,
       Forall2 (decodes bits) R (recorded id ops [] false) /\
       load_signal lz_decompress blocks id (EncBits bits) = Ok sig /\
       observe_signal sig = outcome_map render_of (dedup R)).
Proof.
  intros Hok Hstop Hb Htp Hrs Hfin Hlen.
  destruct (vcd_stream_transparent parse_f64 lz_compress lz_decompress lz_ok cap cap_pos cap_u16 debug tpes lookup
              (render ls) stop e blocks ttb id bits Hb Htp Hrs Hfin Hlen) as (ops & Ho & Hrest).
  rewrite (parse_body_lines debug ls stop Hok Hstop) in Ho. cbn [fst] in Ho.
  exists ops. split; [exact Ho|exact Hrest].
Qed.

End Lines.
