(* The VCD header tokenizer (vcd.rs read_command / read_until_end_token / find_tokens; property C09): a command written
   `$<keyword> <body> $end` - any blank space before the `$`, after the keyword, before `$end` - is split into the keyword's
   command, exactly the body (right-stripped), and the rest of the input; the body of a `$var` command splits at single
   blanks into type, width, identifier code and the reference (name with its bracket groups). *)
From Coq Require Import Lia.
From WV Require Import Model.Base Generated.Consts Model.Bits Model.WaveMem Model.Hierarchy Model.VcdBody Model.VcdHeader Proofs.StoreProofs Proofs.HeaderProofs Proofs.NameProofs.
Open Scope N_scope.

Definition wsp (w : list byte) : Prop := Forall (fun b => is_white_space b = true) w.
Definition no_dollar (w : list byte) : Prop := ~ In 36 w.

Lemma until_end_skip : forall pre l acc, wsp pre -> until_end (pre ++ l) true 0 acc = until_end l true 0 acc.
Proof.
  induction pre as [|b pre IH]; intros l acc H; [reflexivity|]. apply Forall_cons_iff in H as [Hb H]. cbn [app until_end]. rewrite Hb. cbn [andb]. now apply IH.
Qed.

(* bytes without `$` are collected; the matcher stays in its start state *)
Lemma until_end_collect : forall w l acc, no_dollar w -> until_end (w ++ l) false 0 acc = until_end l false 0 (rev w ++ acc).
Proof.
  induction w as [|b w IH]; intros l acc H; [reflexivity|]. cbn [app until_end andb].
  assert (Hb : (b =? 36) = false) by (apply N.eqb_neq; intros ->; apply H; now left).
  change (0 =? 3) with false. change (0 =? 0) with true. cbn [andb]. rewrite Hb. change (0 =? 1) with false. change (0 =? 2) with false. cbn [andb].
  rewrite IH by (intros Hi; apply H; now right). cbn [rev]. now rewrite <- app_assoc.
Qed.

Lemma drop_ws_rev_sep : forall sep body c, wsp sep -> is_white_space c = false -> drop_ws (rev sep ++ c :: body) = c :: body.
Proof.
  intros sep body c Hs Hc. assert (Hr : wsp (rev sep)) by (unfold wsp in *; apply Forall_rev; exact Hs).
  induction (rev sep) as [|b r IH]; [cbn [app drop_ws]; now rewrite Hc|]. apply Forall_cons_iff in Hr as [Hb Hr]. cbn [app drop_ws]. rewrite Hb. now apply IH.
Qed.

(* read_until_end_token on `<blank*><body><blank+>$end<rest>`; the body does not contain `$`, starts and ends with a
   byte that is not a blank (it may contain blanks) *)
Theorem until_end_spec pre c mid d sep rest :
  wsp pre -> is_white_space c = false -> is_white_space d = false -> no_dollar (c :: mid ++ [d]) -> wsp sep ->
  until_end (pre ++ (c :: mid ++ [d]) ++ sep ++ [36; 101; 110; 100] ++ rest) true 0 [] = Some (c :: mid ++ [d], rest).
Proof.
  intros Hpre Hc Hd Hnd Hsep. rewrite until_end_skip by exact Hpre.
  assert (Hc36 : (c =? 36) = false) by (apply N.eqb_neq; intros ->; apply Hnd; now left).
  cbn [app until_end]. rewrite Hc. cbn [andb]. change (0 =? 3) with false. change (0 =? 0) with true. cbn [andb]. rewrite Hc36.
  change (0 =? 1) with false. change (0 =? 2) with false. cbn [andb].
  rewrite <- app_assoc. rewrite until_end_collect by (intros Hi; apply Hnd; right; apply in_or_app; now left).
  cbn [app]. assert (Hsd : no_dollar sep).
  { intros Hi. unfold wsp in Hsep. rewrite Forall_forall in Hsep. specialize (Hsep 36 Hi). discriminate. }
  assert (Hd36 : (d =? 36) = false) by (apply N.eqb_neq; intros ->; apply Hnd; right; apply in_or_app; right; now left).
  cbn [until_end andb]. change (0 =? 3) with false. change (0 =? 0) with true. cbn [andb]. rewrite Hd36.
  change (0 =? 1) with false. change (0 =? 2) with false. cbn [andb].
  rewrite until_end_collect by exact Hsd.
  cbn [app until_end andb]. change (0 =? 3) with false. change (0 =? 0) with true. change (36 =? 36) with true. cbn [andb].
  change (1 =? 3) with false. change (1 =? 0) with false. change (1 =? 1) with true. change (101 =? 101) with true. cbn [andb].
  change (2 =? 3) with false. change (2 =? 0) with false. change (2 =? 1) with false. change (2 =? 2) with true. change (110 =? 110) with true. cbn [andb].
  change (3 =? 3) with true. change (100 =? 100) with true. cbn [andb skipn].
  rewrite (drop_ws_rev_sep sep (rev mid ++ [c]) d Hsep Hd). rewrite rev_append_rev, app_nil_r. cbn [rev]. rewrite rev_app_distr, rev_involutive. cbn [rev app]. reflexivity.
Qed.

(* a command without body: `$upscope $end`, `$enddefinitions $end` *)
Theorem until_end_empty pre rest : wsp pre ->
  until_end (pre ++ [36; 101; 110; 100] ++ rest) true 0 [] = Some ([], rest).
Proof.
  intros Hpre. rewrite until_end_skip by exact Hpre. cbn [app until_end andb]. reflexivity.
Qed.

Lemma skip_ws_spec : forall pre c l, wsp pre -> is_white_space c = false -> skip_ws (pre ++ c :: l) = Some (c, l).
Proof.
  induction pre as [|b pre IH]; intros c l H Hc; cbn [app skip_ws]; [now rewrite Hc|]. apply Forall_cons_iff in H as [Hb H]. rewrite Hb. now apply IH.
Qed.

Lemma read_token_spec : forall w b l acc, Forall (fun x => is_white_space x = false) w -> is_white_space b = true ->
  read_token (w ++ b :: l) acc = Some (rev acc ++ w, l).
Proof.
  induction w as [|x w IH]; intros b l acc Hw Hb; cbn [app read_token].
  - rewrite Hb. now rewrite rev_append_rev, !app_nil_r.
  - apply Forall_cons_iff in Hw as [Hx Hw]. rewrite Hx. rewrite IH by assumption. cbn [rev]. now rewrite <- app_assoc.
Qed.

(* read_command on `<blank*>$<keyword><blank><blank*><body><blank+>$end<rest>` *)
Theorem read_command_spec pre0 kw cmd b pre c mid d sep rest :
  wsp pre0 -> Forall (fun x => is_white_space x = false) kw -> lookup_bytes kw cmd_table = Some cmd ->
  is_white_space b = true -> wsp pre -> is_white_space c = false -> is_white_space d = false -> no_dollar (c :: mid ++ [d]) -> wsp sep ->
  read_command (pre0 ++ [36] ++ kw ++ [b] ++ pre ++ (c :: mid ++ [d]) ++ sep ++ [36; 101; 110; 100] ++ rest)
  = Ok (cmd, c :: mid ++ [d], rest).
Proof.
  intros Hp0 Hkw Hcmd Hb Hpre Hc Hd Hnd Hsep. unfold read_command. cbn [app].
  rewrite (skip_ws_spec pre0 36 _ Hp0 eq_refl). change (negb (36 =? 36)) with false. cbn iota.
  change (kw ++ b :: pre ++ (c :: mid ++ [d]) ++ sep ++ 36 :: 101 :: 110 :: 100 :: rest) with (kw ++ b :: (pre ++ (c :: mid ++ [d]) ++ sep ++ [36; 101; 110; 100] ++ rest)).
  rewrite (read_token_spec kw b _ [] Hkw Hb). cbn [rev]. rewrite app_nil_l, Hcmd.
  pose proof (until_end_spec pre c mid d sep rest Hpre Hc Hd Hnd Hsep) as Hu. cbn [app] in Hu |- *. rewrite Hu. reflexivity.
Qed.

Theorem read_command_empty pre0 kw cmd b pre rest :
  wsp pre0 -> Forall (fun x => is_white_space x = false) kw -> lookup_bytes kw cmd_table = Some cmd ->
  is_white_space b = true -> wsp pre ->
  read_command (pre0 ++ [36] ++ kw ++ [b] ++ pre ++ [36; 101; 110; 100] ++ rest) = Ok (cmd, [], rest).
Proof.
  intros Hp0 Hkw Hcmd Hb Hpre. unfold read_command. cbn [app].
  rewrite (skip_ws_spec pre0 36 _ Hp0 eq_refl). change (negb (36 =? 36)) with false. cbn iota.
  change (kw ++ b :: pre ++ 36 :: 101 :: 110 :: 100 :: rest) with (kw ++ b :: (pre ++ [36; 101; 110; 100] ++ rest)).
  rewrite (read_token_spec kw b _ [] Hkw Hb). cbn [rev]. rewrite app_nil_l, Hcmd.
  pose proof (until_end_empty pre rest Hpre) as Hu. cbn [app] in Hu |- *. rewrite Hu. reflexivity.
Qed.

(* ------------------------------------------------------------------ the tokens of a command body *)
Definition no_sp (w : list byte) : Prop := ~ In 32 w.

Lemma find_tokens_word : forall w l pos cur cs, no_sp w -> w <> [] \/ cur <> [] ->
  find_tokens_go (w ++ 32 :: l) pos cur cs
  = ((match cur with [] => pos | _ => cs end), rev cur ++ w) :: find_tokens_go l (S (pos + length w)) [] (S (pos + length w)).
Proof.
  induction w as [|x w IH]; intros l pos cur cs Hw Hne.
  - cbn [app find_tokens_go length]. change (32 =? 32) with true. cbn iota. destruct cur as [|c0 cur']; [destruct Hne; congruence|].
    rewrite rev_append_rev, !app_nil_r, Nat.add_0_r. reflexivity.
  - cbn [app find_tokens_go]. assert (Hx : (x =? 32) = false) by (apply N.eqb_neq; intros ->; apply Hw; now left). rewrite Hx.
    rewrite IH; [|intros Hi; apply Hw; now right|right; discriminate]. cbn [rev length]. rewrite <- app_assoc. cbn [app].
    replace (S (pos + S (length w))) with (S (S pos + length w)) by lia. reflexivity.
Qed.

(* `<type> <width> <id> <reference>`: the fourth token starts where the reference starts *)
Theorem var_body_tokens tpe size id r0 ref :
  no_sp tpe -> tpe <> [] -> no_sp size -> size <> [] -> no_sp id -> id <> [] -> r0 <> 32 ->
  let body := tpe ++ [32] ++ size ++ [32] ++ id ++ [32] ++ (r0 :: ref) in
  exists more start,
    find_tokens body = (0%nat, tpe) :: ((S (length tpe)), size) :: ((S (S (length tpe + length size))), id) :: (start, fst more) :: snd more /\
    skipn start body = r0 :: ref.
Proof.
  intros Ht Htn Hs Hsn Hi Hin Hr. cbn zeta. unfold find_tokens. cbn [app].
  change (tpe ++ 32 :: size ++ 32 :: id ++ 32 :: r0 :: ref) with (tpe ++ 32 :: (size ++ 32 :: (id ++ 32 :: r0 :: ref))).
  rewrite (find_tokens_word tpe _ 0 [] 0 Ht (or_introl Htn)). cbn [rev app Nat.add].
  rewrite (find_tokens_word size _ _ [] _ Hs (or_introl Hsn)). cbn [rev app].
  rewrite (find_tokens_word id _ _ [] _ Hi (or_introl Hin)). cbn [rev app].
  set (start := S (S (S (length tpe + length size)) + length id)).
  (* the rest: the first token of the reference starts at `start` *)
  assert (G : forall l pos cur cs, cur <> [] -> exists tok tl, find_tokens_go l pos cur cs = (cs, tok) :: tl).
  { clear. induction l as [|x l IH]; intros pos cur cs Hc; cbn [find_tokens_go].
    - destruct cur as [|c1 cur']; [congruence|]. eauto.
    - destruct (x =? 32).
      + destruct cur as [|c1 cur']; [congruence|]. eauto.
      + destruct cur as [|c1 cur']; [congruence|]. apply IH. discriminate. }
  assert (Hfirst : exists tok tl, find_tokens_go (r0 :: ref) start [] start = (start, tok) :: tl).
  { cbn [find_tokens_go]. destruct (N.eqb_spec r0 32) as [E|_]; [congruence|]. apply G. discriminate. }
  destruct Hfirst as (tok & tl & E). exists (tok, tl), start. cbn [fst snd]. split.
  - assert (Ep : S (S (S (length tpe) + length size) + length id) = start) by (unfold start; unfold byte in *; lia). rewrite Ep, E. reflexivity.
  - unfold start. clear.
    replace (S (S (S (length tpe + length size)) + length id)) with (length (tpe ++ 32 :: size ++ 32 :: id ++ [32])) by (unfold byte in *; repeat (rewrite ?app_length; cbn [length]); lia).
    replace (tpe ++ 32 :: size ++ 32 :: id ++ 32 :: r0 :: ref) with ((tpe ++ 32 :: size ++ 32 :: id ++ [32]) ++ r0 :: ref) by (repeat (rewrite <- ?app_assoc; cbn [app]); reflexivity).
    now rewrite skipn_app, skipn_all, Nat.sub_diag.
Qed.

(* ------------------------------------------------------------------ the command loop *)
(* a command as text: the keyword must be in the table, the body - if any - starts and ends with a byte that is not a
   blank and contains no `$`; the blank space around the parts is arbitrary (one blank after the keyword is required) *)
Record cmd_text := mk_ct {
  ct_pre0 : list byte; ct_kw : list byte; ct_b : byte; ct_pre : list byte;
  ct_body : list byte; ct_sep : list byte
}.

Definition ct_render (c : cmd_text) : list byte :=
  ct_pre0 c ++ [36] ++ ct_kw c ++ [ct_b c] ++ ct_pre c ++ ct_body c ++ ct_sep c ++ [36; 101; 110; 100].

Definition body_ok (body : list byte) : Prop :=
  body = [] \/ exists c mid d, body = c :: mid ++ [d] /\ is_white_space c = false /\ is_white_space d = false /\ no_dollar body.

Definition ct_ok (c : cmd_text) (cmd : vcd_cmd) : Prop :=
  wsp (ct_pre0 c) /\ Forall (fun x => is_white_space x = false) (ct_kw c) /\ lookup_bytes (ct_kw c) cmd_table = Some cmd /\
  is_white_space (ct_b c) = true /\ wsp (ct_pre c) /\ body_ok (ct_body c) /\ wsp (ct_sep c) /\
  (ct_body c = [] -> ct_sep c = []).

Lemma read_command_ct c cmd rest : ct_ok c cmd -> read_command (ct_render c ++ rest) = Ok (cmd, ct_body c, rest).
Proof.
  intros (H0 & Hkw & Hcmd & Hb & Hpre & Hbody & Hsep & Hes). unfold ct_render. destruct Hbody as [E|(x & mid & d & E & Hx & Hd & Hnd)].
  - rewrite E, (Hes E). repeat (rewrite <- app_assoc || (progress cbn [app])).
    pose proof (read_command_empty (ct_pre0 c) (ct_kw c) cmd (ct_b c) (ct_pre c) rest H0 Hkw Hcmd Hb Hpre) as H. repeat (rewrite <- app_assoc in H || (progress cbn [app] in H)). exact H.
  - rewrite E in *. repeat (rewrite <- app_assoc || (progress cbn [app])).
    pose proof (read_command_spec (ct_pre0 c) (ct_kw c) cmd (ct_b c) (ct_pre c) x mid d (ct_sep c) rest H0 Hkw Hcmd Hb Hpre Hx Hd Hnd Hsep) as H.
    repeat (rewrite <- app_assoc in H || (progress cbn [app] in H)). exact H.
Qed.

(* handle the commands one after the other *)
Fixpoint handle_all (flatten_empty use_id_map : bool) (st : hstate) (cmds : list (vcd_cmd * list byte)) : hres hstate :=
  match cmds with
  | [] => HOk st
  | (cmd, body) :: r => hdo st' <- handle_cmd flatten_empty use_id_map st cmd body; handle_all flatten_empty use_id_map st' r
  end.

(* read_vcd_header: the header text is handled command by command, up to `$enddefinitions $end`; what follows is the body *)
Theorem header_loop_spec flatten_empty use_id_map : forall (cts : list (cmd_text * vcd_cmd)) cend rest fuel st,
  Forall (fun p => ct_ok (fst p) (snd p) /\ snd p <> CEndDefs) cts -> ct_ok cend CEndDefs -> (length cts < fuel)%nat ->
  header_loop fuel flatten_empty use_id_map (concat (map (fun p => ct_render (fst p)) cts) ++ ct_render cend ++ rest) st
  = hdo st' <- handle_all flatten_empty use_id_map st (map (fun p => (snd p, ct_body (fst p))) cts); HOk (st', rest).
Proof.
  induction cts as [|[c cmd] cts IH]; intros cend rest fuel st Hok Hend Hf.
  - destruct fuel as [|f]; [cbn in Hf; lia|]. cbn [map concat app header_loop handle_all hbind].
    rewrite (read_command_ct cend CEndDefs rest Hend). reflexivity.
  - destruct fuel as [|f]; [cbn in Hf; lia|]. apply Forall_cons_iff in Hok as [[Hc Hne] Hok]. cbn [fst snd] in Hc, Hne.
    cbn [map concat fst snd header_loop handle_all]. rewrite <- app_assoc.
    rewrite (read_command_ct c cmd _ Hc).
    destruct cmd; try congruence; (destruct (handle_cmd flatten_empty use_id_map st _ (ct_body c)) as [st'| | |]; cbn [hbind]; try reflexivity;
      apply IH; [exact Hok|exact Hend|cbn [length] in Hf; lia]).
Qed.

(* ------------------------------------------------------------------ what the commands mean *)
Lemma find_tokens_two kw nm : no_sp kw -> kw <> [] -> no_sp nm -> nm <> [] ->
  map snd (find_tokens (kw ++ [32] ++ nm)) = [kw; nm].
Proof.
  intros Hk Hkn Hn Hnn. unfold find_tokens. cbn [app].
  rewrite (find_tokens_word kw nm 0 [] 0 Hk (or_introl Hkn)). cbn [map snd rev app]. f_equal.
  assert (G : forall l pos cur cs, no_sp l -> cur <> [] \/ l <> [] -> map snd (find_tokens_go l pos cur cs) = [rev cur ++ l]).
  { clear. induction l as [|x l IH]; intros pos cur cs Hl Hne; cbn [find_tokens_go].
    - destruct cur as [|c cur']; [destruct Hne; congruence|]. cbn [map snd]. now rewrite rev_append_rev, !app_nil_r.
    - assert (Hx : (x =? 32) = false) by (apply N.eqb_neq; intros ->; apply Hl; now left). rewrite Hx.
      rewrite IH; [|intros Hi; apply Hl; now right|left; discriminate]. cbn [rev]. now rewrite <- app_assoc. }
  apply (G nm _ [] _ Hn). now right.
Qed.

(* `$scope <kind> <name> $end` *)
Theorem scope_cmd_spec flatten_empty use_id_map st kw nm t decl :
  no_sp kw -> kw <> [] -> no_sp nm -> nm <> [] -> is_ascii nm = true ->
  lookup_bytes kw scope_kw = Some t -> scope_attrs (hs_attrs st) None = Ok decl ->
  handle_cmd flatten_empty use_id_map st CScope (kw ++ [32] ++ nm)
  = HOk (with_ops st (HScope nm None t decl false :: hs_ops st) []).
Proof.
  intros Hk Hkn Hn Hnn Ha Hl Hs. unfold handle_cmd. rewrite (find_tokens_two kw nm Hk Hkn Hn Hnn). rewrite Hs. cbn [hres_of hbind]. rewrite Ha. cbn [negb]. rewrite Hl.
  destruct nm as [|n0 nr]; [congruence|]. now rewrite Bool.andb_false_r.
Qed.

Theorem upscope_cmd_spec flatten_empty use_id_map st body :
  handle_cmd flatten_empty use_id_map st CUpScope body = HOk (with_ops st (HPop :: hs_ops st) (hs_attrs st)).
Proof. reflexivity. Qed.

(* `$var <type> <width> <id> <reference> $end`: the reference goes through parse_name (Proofs/NameProofs.v); array
   groups open and close array scopes around the variable; the signal is decided by the identifier code *)
Theorem var_cmd_spec flatten_empty use_id_map st tpe size id r0 ref len raw vn idx scopes tn vt :
  no_sp tpe -> tpe <> [] -> no_sp size -> size <> [] -> no_sp id -> id <> [] -> r0 <> 32 ->
  is_ascii size = true -> parse_uint size u32_max = Some len -> parse_name (r0 :: ref) = Ok (vn, idx, scopes) ->
  lookup_bytes tpe var_kw = Some raw -> var_attrs (hs_attrs st) raw None = Ok (tn, vt) -> is_ascii (r0 :: ref) = true ->
  handle_cmd flatten_empty use_id_map st CVar (tpe ++ [32] ++ size ++ [32] ++ id ++ [32] ++ (r0 :: ref))
  = (let enc := if raw =? 17 then EncString else if mem_byte raw real_types then EncReal
                else EncBits (if len =? 0 then 1%nat else N.to_nat len) in
     hdo '(st1, sref) <- id_to_signal_ref use_id_map
                           (with_ops st (rev_append (map (fun s => HScope s None 23 None false) scopes) (hs_ops st)) []) id;
     HOk (with_ops st1 (rev_append (map (fun _ => HPop) scopes) (HVar vn vt 0 enc idx sref tn :: hs_ops st1)) [])).
Proof.
  intros Ht Htn Hs Hsn Hi Hin Hr Has Hlen Hpn Hraw Hva Har. unfold handle_cmd.
  destruct (var_body_tokens tpe size id r0 ref Ht Htn Hs Hsn Hi Hin Hr) as ([tok tl] & start & Etok & Eskip). cbn zeta in Etok, Eskip. cbn [fst snd] in Etok.
  rewrite Etok, Eskip, Has. cbn [negb]. rewrite Hlen, Hpn. cbn [hres_of hbind]. rewrite Hraw, Hva. cbn [hres_of hbind].
  destruct (id_to_signal_ref use_id_map _ id) as [[st1 sref]| | |]; cbn [hbind]; try reflexivity. now rewrite Har.
Qed.

(* `$scope module top $end / $var wire 8 ! mem [3] [7:0] $end / $upscope $end / $enddefinitions $end / #0`: the
   commands are the renderings of cmd_text records, and the header reader produces the builder calls the theorems
   above describe: the scope, the array scope `mem`, the variable `[3]` with the range [7:0], two pops; 90 header bytes *)
Example header_example :
  let txt : list byte := [36; 115; 99; 111; 112; 101; 32; 109; 111; 100; 117; 108; 101; 32; 116; 111; 112; 32; 36; 101; 110; 100; 10; 36; 118; 97; 114; 32; 119; 105; 114; 101; 32; 56; 32; 33; 32; 109; 101; 109; 32; 91; 51; 93; 32; 91; 55; 58; 48; 93; 32; 36; 101; 110; 100; 10; 36; 117; 112; 115; 99; 111; 112; 101; 32; 36; 101; 110; 100; 10; 36; 101; 110; 100; 100; 101; 102; 105; 110; 105; 116; 105; 111; 110; 115; 32; 36; 101; 110; 100; 10; 35; 48; 10] in
  let c1 := mk_ct [] [115; 99; 111; 112; 101] 32 [] [109; 111; 100; 117; 108; 101; 32; 116; 111; 112] [32] in
  let c2 := mk_ct [10] [118; 97; 114] 32 [] [119; 105; 114; 101; 32; 56; 32; 33; 32; 109; 101; 109; 32; 91; 51; 93; 32; 91; 55; 58; 48; 93] [32] in
  let c3 := mk_ct [10] [117; 112; 115; 99; 111; 112; 101] 32 [] [] [] in
  let ce := mk_ct [10] [101; 110; 100; 100; 101; 102; 105; 110; 105; 116; 105; 111; 110; 115] 32 [] [] [] in
  txt = ct_render c1 ++ ct_render c2 ++ ct_render c3 ++ ct_render ce ++ [10; 35; 48; 10] /\
  (do r <- read_header false txt; Ok (hr_len r, hr_ops r))
  = Ok (90%nat, [HScope [116; 111; 112] None 0 None false; HScope [109; 101; 109] None 23 None false;
                 HVar [91; 51; 93] 15 0 (EncBits 8) (Some (7%Z, 0%Z)) 0%nat None; HPop; HPop]).
Proof. cbn zeta. split; vm_compute; reflexivity. Qed.

(* ------------------------------------------------------------------ a whole header of declarations *)
Inductive decl :=
| DScope (kw nm : list byte)
| DUp
| DVar (tpe size id : list byte) (r0 : byte) (ref : list byte).

Definition decl_cmd (d : decl) : vcd_cmd * list byte :=
  match d with
  | DScope kw nm => (CScope, kw ++ [32] ++ nm)
  | DUp => (CUpScope, [])
  | DVar tpe size id r0 ref => (CVar, tpe ++ [32] ++ size ++ [32] ++ id ++ [32] ++ (r0 :: ref))
  end.

(* the builder calls of one declaration, given the signal reference of a variable *)
Definition decl_ops (d : decl) (sref : nat) : list hier_op :=
  match d with
  | DScope kw nm => match lookup_bytes kw scope_kw with Some t => [HScope nm None t None false] | None => [] end
  | DUp => [HPop]
  | DVar tpe size id r0 ref =>
    match parse_name (r0 :: ref), lookup_bytes tpe var_kw, parse_uint size u32_max with
    | Ok (vn, idx, scopes), Some raw, Some len =>
      let enc := if raw =? 17 then EncString else if mem_byte raw real_types then EncReal
                 else EncBits (if len =? 0 then 1%nat else N.to_nat len) in
      map (fun s => HScope s None 23 None false) scopes ++ [HVar vn raw 0 enc idx sref None] ++ map (fun _ => HPop) scopes
    | _, _, _ => []
    end
  end.

Definition decl_ok (d : decl) : Prop :=
  match d with
  | DScope kw nm => no_sp kw /\ kw <> [] /\ no_sp nm /\ nm <> [] /\ is_ascii nm = true /\ exists t, lookup_bytes kw scope_kw = Some t
  | DUp => True
  | DVar tpe size id r0 ref =>
    no_sp tpe /\ tpe <> [] /\ no_sp size /\ size <> [] /\ no_sp id /\ id <> [] /\ r0 <> 32 /\ is_ascii size = true /\
    is_ascii (r0 :: ref) = true /\ (exists len, parse_uint size u32_max = Some len) /\
    (exists r, parse_name (r0 :: ref) = Ok r) /\ (exists raw, lookup_bytes tpe var_kw = Some raw)
  end.

(* hashed identifier codes: a code seen before keeps its reference, a new one gets the next number *)
Definition assign (m : list (list byte * nat)) (id : list byte) : list (list byte * nat) * nat :=
  match map_get m id with Some r => (m, r) | None => ((id, S (length m)) :: m, S (length m)) end.

Fixpoint decls_ops (m : list (list byte * nat)) (ds : list decl) : list hier_op * list (list byte * nat) :=
  match ds with
  | [] => ([], m)
  | d :: r =>
    let '(m1, sref) := match d with DVar _ _ id _ _ => assign m id | _ => (m, 0%nat) end in
    let '(ops, m2) := decls_ops m1 r in
    (decl_ops d sref ++ ops, m2)
  end.

(* the commands of a header made of scope / upscope / var declarations, read with a hashed identifier map and no pending
   attributes, make exactly the builder calls decls_ops lists *)
Theorem handle_decls flatten_empty : forall ds st, Forall decl_ok ds -> hs_attrs st = [] ->
  exists st',
    handle_all flatten_empty true st (map decl_cmd ds) = HOk st' /\ hs_attrs st' = [] /\
    hs_ops st' = rev (fst (decls_ops (hs_idmap st) ds)) ++ hs_ops st /\ hs_idmap st' = snd (decls_ops (hs_idmap st) ds).
Proof.
  induction ds as [|d ds IH]; intros st Hok Hat.
  - exists st. cbn. repeat split; assumption || reflexivity.
  - apply Forall_cons_iff in Hok as [Hd Hok]. cbn [map handle_all]. destruct d as [kw nm| |tpe size id r0 ref]; cbn [decl_cmd decl_ok] in *.
    + destruct Hd as (H1 & H2 & H3 & H4 & H5 & (t & Ht)).
      pose proof (scope_cmd_spec flatten_empty true st kw nm t None H1 H2 H3 H4 H5 Ht ltac:(now rewrite Hat)) as Hss. cbn [app] in Hss |- *. unfold byte in *. rewrite Hss. clear Hss. cbn [hbind].
      destruct (IH (with_ops st (HScope nm None t None false :: hs_ops st) []) Hok eq_refl) as (st' & Hr & Ha & Ho & Hm).
      exists st'. split; [exact Hr|]. split; [exact Ha|]. cbn [with_ops hs_ops hs_idmap] in Ho, Hm. cbn [decls_ops decl_ops]. rewrite Ht.
      destruct (decls_ops (hs_idmap st) ds) as [ops m2]. cbn [fst snd app] in *. split; [|exact Hm]. rewrite Ho. cbn [rev]. now rewrite <- app_assoc.
    + rewrite upscope_cmd_spec. cbn [hbind].
      destruct (IH (with_ops st (HPop :: hs_ops st) (hs_attrs st)) Hok ltac:(cbn [with_ops hs_attrs]; exact Hat)) as (st' & Hr & Ha & Ho & Hm).
      exists st'. split; [exact Hr|]. split; [exact Ha|]. cbn [with_ops hs_ops hs_idmap] in Ho, Hm. cbn [decls_ops decl_ops].
      destruct (decls_ops (hs_idmap st) ds) as [ops m2]. cbn [fst snd app] in *. split; [|exact Hm]. rewrite Ho. cbn [rev]. now rewrite <- app_assoc.
    + destruct Hd as (H1 & H2 & H3 & H4 & H5 & H6 & H7 & H8 & H9 & (len & Hlen) & ([[vn idx] scopes] & Hpn) & (raw & Hraw)).
      pose proof (var_cmd_spec flatten_empty true st tpe size id r0 ref len raw vn idx scopes None raw H1 H2 H3 H4 H5 H6 H7 H8 Hlen Hpn Hraw ltac:(now rewrite Hat) H9) as Hvs.
      cbn [app] in Hvs |- *. unfold byte in *. rewrite Hvs. clear Hvs. cbn zeta. unfold id_to_signal_ref. cbn [with_ops hs_idmap hs_ops hs_attrs hs_paths hs_tracker hs_date hs_version hs_timescale hs_comments].
      cbn [decls_ops decl_ops]. unfold assign. unfold byte in *. rewrite Hpn, Hraw, Hlen.
      destruct (map_get (hs_idmap st) id) as [r|] eqn:Eg; cbn [hbind].
      * match goal with |- context [handle_all _ _ ?s _] => destruct (IH s Hok eq_refl) as (st' & Hr & Ha & Ho & Hm) end.
        exists st'. split; [exact Hr|]. split; [exact Ha|]. cbn [with_ops hs_ops hs_idmap] in Ho, Hm.
        destruct (decls_ops (hs_idmap st) ds) as [ops m2]. cbn [fst snd] in *. split; [|exact Hm]. rewrite Ho.
        rewrite !rev_append_rev, ?rev_app_distr. cbn [rev app]. rewrite ?rev_app_distr. cbn [rev app]. repeat (rewrite <- app_assoc || (progress cbn [app])). reflexivity.
      * match goal with |- context [handle_all _ _ ?s _] => destruct (IH s Hok eq_refl) as (st' & Hr & Ha & Ho & Hm) end.
        exists st'. split; [exact Hr|]. split; [exact Ha|]. cbn [with_ops hs_ops hs_idmap] in Ho, Hm.
        unfold byte in *. match goal with |- context [decls_ops ?m ds] => destruct (decls_ops m ds) as [ops m2] end. cbn [fst snd] in *. split; [|exact Hm]. rewrite Ho.
        rewrite !rev_append_rev, ?rev_app_distr. cbn [rev app]. rewrite ?rev_app_distr. cbn [rev app]. repeat (rewrite <- app_assoc || (progress cbn [app])). reflexivity.
Qed.

(* Property C09 for headers made of scope / upscope / var commands (hashed identifier codes, no attributes): the text -
   every command written `$<keyword> <body> $end` with any blank space around its parts - is turned into exactly the
   builder calls of its declarations, in order; the rest of the input is the body *)
Theorem header_decls flatten_empty (cts : list (cmd_text * vcd_cmd)) cend rest fuel st ds :
  Forall (fun p => ct_ok (fst p) (snd p) /\ snd p <> CEndDefs) cts -> ct_ok cend CEndDefs -> (length cts < fuel)%nat ->
  map (fun p => (snd p, ct_body (fst p))) cts = map decl_cmd ds -> Forall decl_ok ds -> hs_attrs st = [] ->
  exists st',
    header_loop fuel flatten_empty true (concat (map (fun p => ct_render (fst p)) cts) ++ ct_render cend ++ rest) st = HOk (st', rest) /\
    hs_ops st' = rev (fst (decls_ops (hs_idmap st) ds)) ++ hs_ops st /\ hs_idmap st' = snd (decls_ops (hs_idmap st) ds).
Proof.
  intros Hcts Hend Hf Hmap Hds Hat. rewrite (header_loop_spec flatten_empty true cts cend rest fuel st Hcts Hend Hf), Hmap.
  destruct (handle_decls flatten_empty ds st Hds Hat) as (st' & Hr & _ & Ho & Hm). rewrite Hr. cbn [hbind]. exists st'. repeat split; assumption.
Qed.

(* ------------------------------------------------------------------ further commands *)
Lemma find_tokens_one kw : no_sp kw -> kw <> [] -> map snd (find_tokens kw) = [kw].
Proof.
  intros Hk Hkn. unfold find_tokens.
  assert (G : forall l pos cur cs, no_sp l -> cur <> [] \/ l <> [] -> map snd (find_tokens_go l pos cur cs) = [rev cur ++ l]).
  { clear. induction l as [|x l IH]; intros pos cur cs Hl Hne; cbn [find_tokens_go].
    - destruct cur as [|c cur']; [destruct Hne; congruence|]. cbn [map snd]. now rewrite rev_append_rev, !app_nil_r.
    - assert (Hx : (x =? 32) = false) by (apply N.eqb_neq; intros ->; apply Hl; now left). rewrite Hx.
      rewrite IH; [|intros Hi; apply Hl; now right|left; discriminate]. cbn [rev]. now rewrite <- app_assoc. }
  apply (G kw 0%nat [] 0%nat Hk). now right.
Qed.

(* `$scope <kind> $end`: a scope with an empty name; it is dissolved into its parent exactly when the option is set *)
Theorem scope_cmd_empty flatten_empty use_id_map st kw t decl :
  no_sp kw -> kw <> [] -> lookup_bytes kw scope_kw = Some t -> scope_attrs (hs_attrs st) None = Ok decl ->
  handle_cmd flatten_empty use_id_map st CScope kw = HOk (with_ops st (HScope [] None t decl flatten_empty :: hs_ops st) []).
Proof.
  intros Hk Hkn Hl Hs. unfold handle_cmd. rewrite (find_tokens_one kw Hk Hkn), Hs. cbn [hres_of hbind is_ascii forallb negb]. rewrite Hl.
  now rewrite Bool.andb_true_r.
Qed.

(* `$date ... $end`, `$version ... $end`: reported as written *)
Theorem date_cmd_spec flatten_empty use_id_map st body : hs_date st = [] ->
  exists st', handle_cmd flatten_empty use_id_map st CDate body = HOk st' /\ hs_date st' = body /\ hs_ops st' = hs_ops st /\
              hs_version st' = hs_version st /\ hs_timescale st' = hs_timescale st /\ hs_attrs st' = hs_attrs st /\ hs_idmap st' = hs_idmap st.
Proof. intros H. unfold handle_cmd. rewrite H. eexists. split; [reflexivity|]. repeat split. Qed.

Theorem version_cmd_spec flatten_empty use_id_map st body : hs_version st = [] ->
  exists st', handle_cmd flatten_empty use_id_map st CVersion body = HOk st' /\ hs_version st' = body /\ hs_ops st' = hs_ops st /\
              hs_date st' = hs_date st /\ hs_timescale st' = hs_timescale st /\ hs_attrs st' = hs_attrs st /\ hs_idmap st' = hs_idmap st.
Proof. intros H. unfold handle_cmd. rewrite H. eexists. split; [reflexivity|]. repeat split. Qed.

(* `$timescale <factor> <unit> $end` *)
Theorem timescale_cmd_spec flatten_empty use_id_map st factor unit f :
  no_sp factor -> factor <> [] -> no_sp unit -> unit <> [] -> is_ascii factor = true -> parse_uint factor u32_max = Some f ->
  hs_timescale st = None ->
  exists st', handle_cmd flatten_empty use_id_map st CTimescale (factor ++ [32] ++ unit) = HOk st' /\
              hs_timescale st' = Some (f, match lookup_bytes unit unit_kw with Some u => u | None => 6 end) /\
              hs_ops st' = hs_ops st /\ hs_attrs st' = hs_attrs st /\ hs_idmap st' = hs_idmap st /\
              hs_date st' = hs_date st /\ hs_version st' = hs_version st.
Proof.
  intros H1 H2 H3 H4 Ha Hf Ht. unfold handle_cmd. rewrite (find_tokens_two factor unit H1 H2 H3 H4). cbn [hbind]. rewrite Ha. cbn [negb]. rewrite Hf, Ht.
  eexists. split; [reflexivity|]. repeat split.
Qed.

(* ------------------------------------------------------------------ which variables share a signal *)
(* the hashed map: every code has one reference, different codes have different references, references are 1..length *)
Definition map_ok (m : list (list byte * nat)) : Prop :=
  forall id r, map_get m id = Some r -> (1 <= r <= length m)%nat.
Definition map_inj (m : list (list byte * nat)) : Prop :=
  forall a c r, map_get m a = Some r -> map_get m c = Some r -> a = c.

Lemma bytes_eqb_eq a c : bytes_eqb a c = true <-> a = c.
Proof. unfold bytes_eqb. apply list_eqb_spec. Qed.

Lemma assign_spec m id : map_ok m -> map_inj m ->
  let '(m', r) := assign m id in
  map_ok m' /\ map_inj m' /\ map_get m' id = Some r /\ (forall a x, map_get m a = Some x -> map_get m' a = Some x).
Proof.
  intros Hok Hinj. unfold assign. destruct (map_get m id) as [r|] eqn:E.
  - split; [exact Hok|]. split; [exact Hinj|]. split; [exact E|]. intros a x Ha. exact Ha.
  - assert (Hrefl : bytes_eqb id id = true) by (now apply bytes_eqb_eq).
    split; [|split; [|split]].
    + intros a x Ha. cbn [map_get length] in *. destruct (bytes_eqb id a); [inversion Ha; lia|]. specialize (Hok a x Ha). lia.
    + intros a c x Ha Hc. cbn [map_get] in *. destruct (bytes_eqb id a) eqn:Ea, (bytes_eqb id c) eqn:Ec.
      * apply bytes_eqb_eq in Ea, Ec. congruence.
      * inversion Ha; subst x. specialize (Hok c _ Hc). lia.
      * inversion Hc; subst x. specialize (Hok a _ Ha). lia.
      * now apply (Hinj a c x).
    + cbn [map_get]. now rewrite Hrefl.
    + intros a x Ha. cbn [map_get]. destruct (bytes_eqb id a) eqn:Ea; [apply bytes_eqb_eq in Ea; subst a; congruence|exact Ha].
Qed.

(* after any list of declarations the map is still injective, and the reference handed to a variable is the one the final
   map holds for its code: two variables share a signal exactly when they share an identifier code *)
Theorem decls_share : forall ds m, map_ok m -> map_inj m ->
  let m' := snd (decls_ops m ds) in
  map_ok m' /\ map_inj m' /\ (forall a x, map_get m a = Some x -> map_get m' a = Some x) /\
  forall vn vt dir enc idx sref tn, In (HVar vn vt dir enc idx sref tn) (fst (decls_ops m ds)) ->
    exists tpe size id r0 ref, In (DVar tpe size id r0 ref) ds /\ map_get m' id = Some sref.
Proof.
  induction ds as [|d ds IH]; intros m Hok Hinj; cbn zeta.
  - cbn [decls_ops fst snd]. split; [exact Hok|]. split; [exact Hinj|]. split; [intros a x Ha; exact Ha|]. intros vn vt dir enc idx sref tn Hin. destruct Hin.
  - cbn [decls_ops].
    destruct d as [kw nm| |tpe size id r0 ref].
    + destruct (decls_ops m ds) as [ops m2] eqn:Ed. cbn [fst snd]. specialize (IH m Hok Hinj). rewrite Ed in IH. cbn [fst snd] in IH.
      destruct IH as (I1 & I2 & I3 & I4). split; [exact I1|]. split; [exact I2|]. split; [exact I3|].
      intros vn vt dir enc idx sref tn Hin. apply in_app_or in Hin as [Hin|Hin].
      * cbn [decl_ops] in Hin. destruct (lookup_bytes kw scope_kw); [destruct Hin as [Hin|[]]; discriminate|destruct Hin].
      * destruct (I4 _ _ _ _ _ _ _ Hin) as (a1 & a2 & a3 & a4 & a5 & Hd & Hg). exists a1, a2, a3, a4, a5. split; [now right|exact Hg].
    + destruct (decls_ops m ds) as [ops m2] eqn:Ed. cbn [fst snd]. specialize (IH m Hok Hinj). rewrite Ed in IH. cbn [fst snd] in IH.
      destruct IH as (I1 & I2 & I3 & I4). split; [exact I1|]. split; [exact I2|]. split; [exact I3|].
      intros vn vt dir enc idx sref tn Hin. apply in_app_or in Hin as [Hin|Hin].
      * cbn [decl_ops] in Hin. destruct Hin as [Hin|[]]; discriminate.
      * destruct (I4 _ _ _ _ _ _ _ Hin) as (a1 & a2 & a3 & a4 & a5 & Hd & Hg). exists a1, a2, a3, a4, a5. split; [now right|exact Hg].
    + pose proof (assign_spec m id Hok Hinj) as Has. destruct (assign m id) as [m1 r]. destruct Has as (A1 & A2 & A3 & A4).
      destruct (decls_ops m1 ds) as [ops m2] eqn:Ed. cbn [fst snd]. specialize (IH m1 A1 A2). rewrite Ed in IH. cbn [fst snd] in IH.
      destruct IH as (I1 & I2 & I3 & I4). split; [exact I1|]. split; [exact I2|]. split; [intros a x Ha; apply I3; now apply A4|].
      intros vn vt dir enc idx sref tn Hin. apply in_app_or in Hin as [Hin|Hin].
      * exists tpe, size, id, r0, ref. split; [now left|]. cbn [decl_ops] in Hin.
        destruct (parse_name (r0 :: ref)) as [[[vn0 idx0] scopes0]| |]; try destruct Hin. destruct (lookup_bytes tpe var_kw); [|destruct Hin]. destruct (parse_uint size u32_max); [|destruct Hin].
        apply in_app_or in Hin as [Hin|Hin]; [apply in_map_iff in Hin as (s & E & _); discriminate|].
        apply in_app_or in Hin as [[Hin|[]]|Hin]; [|apply in_map_iff in Hin as (s & E & _); discriminate].
        inversion Hin; subst. apply I3. exact A3.
      * destruct (I4 _ _ _ _ _ _ _ Hin) as (a1 & a2 & a3 & a4 & a5 & Hd & Hg). exists a1, a2, a3, a4, a5. split; [now right|exact Hg].
Qed.

(* ------------------------------------------------------------------ direct numbering of identifier codes *)
Definition sref_direct (id : list byte) : nat :=
  match id_to_int id with Some v => N.to_nat (u32_wrap v) | None => 0%nat end.

Definition direct_ops (ds : list decl) : list hier_op :=
  flat_map (fun d => decl_ops d (match d with DVar _ _ id _ _ => sref_direct id | _ => 0%nat end)) ds.

(* without an identifier map (the first attempt of read_hierarchy): whenever the commands are handled without the request
   to start again with a map, the builder calls are those of the declarations, a variable's signal being the number its
   identifier code denotes *)
Theorem handle_decls_direct flatten_empty : forall ds st st', Forall decl_ok ds -> hs_attrs st = [] ->
  handle_all flatten_empty false st (map decl_cmd ds) = HOk st' ->
  hs_attrs st' = [] /\ hs_ops st' = rev (direct_ops ds) ++ hs_ops st /\ hs_idmap st' = hs_idmap st.
Proof.
  induction ds as [|d ds IH]; intros st st' Hok Hat H.
  - cbn in H. injection H as <-. repeat split; assumption || reflexivity.
  - apply Forall_cons_iff in Hok as [Hd Hok]. cbn [map handle_all] in H. unfold direct_ops. cbn [flat_map]. fold (direct_ops ds).
    destruct d as [kw nm| |tpe size id r0 ref]; cbn [decl_cmd decl_ok] in *.
    + destruct Hd as (H1 & H2 & H3 & H4 & H5 & (t & Ht)).
      pose proof (scope_cmd_spec flatten_empty false st kw nm t None H1 H2 H3 H4 H5 Ht ltac:(now rewrite Hat)) as Hss. cbn [app] in Hss, H. unfold byte in *. rewrite Hss in H. clear Hss. cbn [hbind] in H.
      match type of H with handle_all _ _ ?s _ = _ => destruct (IH s st' Hok eq_refl H) as (Ha & Ho & Hm) end. cbn [with_ops hs_ops hs_idmap] in Ho, Hm. split; [exact Ha|]. split; [|exact Hm].
      cbn [decl_ops]. rewrite Ht. rewrite Ho, rev_app_distr. cbn [rev app]. now rewrite <- app_assoc.
    + rewrite upscope_cmd_spec in H. cbn [hbind] in H.
      match type of H with handle_all _ _ ?s _ = _ => destruct (IH s st' Hok ltac:(cbn [with_ops hs_attrs]; exact Hat) H) as (Ha & Ho & Hm) end. cbn [with_ops hs_ops hs_idmap] in Ho, Hm. split; [exact Ha|]. split; [|exact Hm].
      cbn [decl_ops]. rewrite Ho, rev_app_distr. cbn [rev app]. now rewrite <- app_assoc.
    + destruct Hd as (H1 & H2 & H3 & H4 & H5 & H6 & H7 & H8 & H9 & (len & Hlen) & ([[vn idx] scopes] & Hpn) & (raw & Hraw)).
      pose proof (var_cmd_spec flatten_empty false st tpe size id r0 ref len raw vn idx scopes None raw H1 H2 H3 H4 H5 H6 H7 H8 Hlen Hpn Hraw ltac:(now rewrite Hat) H9) as Hvs.
      cbn [app] in Hvs, H. unfold byte in *. rewrite Hvs in H. clear Hvs. cbn zeta in H. unfold id_to_signal_ref in H.
      cbn [with_ops hs_idmap hs_ops hs_attrs hs_paths hs_tracker hs_date hs_version hs_timescale hs_comments] in H.
      destruct (id_to_int id) as [v|] eqn:Ev; [|discriminate]. destruct (need_id_map (hs_tracker st) v) as [t' need]. destruct need; [discriminate|]. cbn [hbind] in H.
      match type of H with handle_all _ _ ?s _ = _ => destruct (IH s st' Hok eq_refl H) as (Ha & Ho & Hm) end.
      cbn [with_ops hs_ops hs_idmap] in Ho, Hm. split; [exact Ha|]. split; [|exact Hm].
      cbn [decl_ops]. unfold sref_direct. unfold byte in *. rewrite Hpn, Hraw, Hlen, Ev. rewrite Ho.
      rewrite !rev_append_rev, ?rev_app_distr. cbn [rev app]. rewrite ?rev_app_distr. cbn [rev app]. repeat (rewrite <- app_assoc || (progress cbn [app])). reflexivity.
Qed.

Lemma handle_direct_cases flatten_empty : forall ds st, Forall decl_ok ds -> hs_attrs st = [] ->
  (exists st', handle_all flatten_empty false st (map decl_cmd ds) = HOk st') \/ handle_all flatten_empty false st (map decl_cmd ds) = HRestart.
Proof.
  induction ds as [|d ds IH]; intros st Hok Hat; [left; eexists; reflexivity|].
  apply Forall_cons_iff in Hok as [Hd Hok]. cbn [map handle_all]. destruct d as [kw nm| |tpe size id r0 ref]; cbn [decl_cmd decl_ok] in *.
  - destruct Hd as (H1 & H2 & H3 & H4 & H5 & (t & Ht)).
    pose proof (scope_cmd_spec flatten_empty false st kw nm t None H1 H2 H3 H4 H5 Ht ltac:(now rewrite Hat)) as Hss. cbn [app] in Hss |- *. unfold byte in *. rewrite Hss. cbn [hbind]. now apply IH.
  - rewrite upscope_cmd_spec. cbn [hbind]. apply IH; [exact Hok|exact Hat].
  - destruct Hd as (H1 & H2 & H3 & H4 & H5 & H6 & H7 & H8 & H9 & (len & Hlen) & ([[vn idx] scopes] & Hpn) & (raw & Hraw)).
    pose proof (var_cmd_spec flatten_empty false st tpe size id r0 ref len raw vn idx scopes None raw H1 H2 H3 H4 H5 H6 H7 H8 Hlen Hpn Hraw ltac:(now rewrite Hat) H9) as Hvs.
    cbn [app] in Hvs |- *. unfold byte in *. rewrite Hvs. cbn zeta. unfold id_to_signal_ref.
    destruct (id_to_int id) as [v|]; [|right; reflexivity]. destruct (need_id_map _ v) as [t' need]. destruct need; [right; reflexivity|]. cbn [hbind]. now apply IH.
Qed.

Lemma render_len c : (1 <= length (ct_render c))%nat.
Proof. unfold ct_render. rewrite !app_length. cbn [length]. lia. Qed.

Lemma renders_len (cts : list (cmd_text * vcd_cmd)) : (length cts <= length (concat (map (fun p => ct_render (fst p)) cts)))%nat.
Proof. induction cts as [|p cts IH]; [cbn; lia|]. cbn [map concat length]. rewrite app_length. pose proof (render_len (fst p)). lia. Qed.

(* Property C09 for whole headers made of scope / upscope / var commands: read_hierarchy succeeds; the reported header
   length is the length of the commands up to and including `$enddefinitions $end`; the builder calls are those of the
   declarations, with variables numbered by their identifier codes directly or - when the loader decides to start
   again with a map - by order of first appearance *)
Theorem read_header_decls flatten_empty (cts : list (cmd_text * vcd_cmd)) cend rest ds :
  Forall (fun p => ct_ok (fst p) (snd p) /\ snd p <> CEndDefs) cts -> ct_ok cend CEndDefs ->
  map (fun p => (snd p, ct_body (fst p))) cts = map decl_cmd ds -> Forall decl_ok ds ->
  let input := concat (map (fun p => ct_render (fst p)) cts) ++ ct_render cend ++ rest in
  exists hr, read_header flatten_empty input = Ok hr /\ hr_len hr = (length input - length rest)%nat /\
    ((hr_ops hr = direct_ops ds /\ hr_lookup hr = None) \/
     (hr_ops hr = fst (decls_ops [] ds) /\ hr_lookup hr = Some (snd (decls_ops [] ds)))).
Proof.
  intros Hcts Hend Hmap Hds. cbn zeta.
  assert (Hf : (length cts < S (length (concat (map (fun p => ct_render (fst p)) cts) ++ ct_render cend ++ rest)))%nat).
  { rewrite app_length. pose proof (renders_len cts). lia. }
  unfold read_header.
  rewrite (header_loop_spec flatten_empty false cts cend rest _ hs_init Hcts Hend Hf), Hmap.
  destruct (handle_direct_cases flatten_empty ds hs_init Hds eq_refl) as [(st' & Hr)|Hr]; rewrite Hr; cbn [hbind].
  - destruct (handle_decls_direct flatten_empty ds hs_init st' Hds eq_refl Hr) as (_ & Ho & _).
    eexists. split; [reflexivity|]. cbn [hr_len hr_ops hr_lookup]. split; [reflexivity|]. left. split; [|reflexivity].
    rewrite rev_append_rev, app_nil_r, Ho. cbn [hs_init hs_ops]. now rewrite app_nil_r, rev_involutive.
  - destruct (header_decls flatten_empty cts cend rest _ hs_init ds Hcts Hend Hf Hmap Hds eq_refl) as (st' & Hl & Ho & Hm).
    rewrite Hl. eexists. split; [reflexivity|]. cbn [hr_len hr_ops hr_lookup]. split; [reflexivity|]. right. split.
    + rewrite rev_append_rev, app_nil_r, Ho. cbn [hs_init hs_ops hs_idmap]. now rewrite app_nil_r, rev_involutive.
    + now rewrite Hm.
Qed.

(* ------------------------------------------------------------------ headers with $date / $version / $comment / $timescale *)
Inductive mdecl :=
| MDecl (d : decl)
| MDate (body : list byte)
| MVersion (body : list byte)
| MComment (body : list byte)
| MTimescale (factor unit : list byte).

Definition mdecl_cmd (x : mdecl) : vcd_cmd * list byte :=
  match x with
  | MDecl d => decl_cmd d
  | MDate b => (CDate, b)
  | MVersion b => (CVersion, b)
  | MComment b => (CComment, b)
  | MTimescale f u => (CTimescale, f ++ [32] ++ u)
  end.

Definition decls_of (xs : list mdecl) : list decl := flat_map (fun x => match x with MDecl d => [d] | _ => [] end) xs.

(* each of $date, $version, $timescale at most once (the loader asserts it) *)
Fixpoint metas_ok (sd sv st : bool) (xs : list mdecl) : Prop :=
  match xs with
  | [] => True
  | MDecl d :: r => decl_ok d /\ metas_ok sd sv st r
  | MDate _ :: r => sd = false /\ metas_ok true sv st r
  | MVersion _ :: r => sv = false /\ metas_ok sd true st r
  | MComment _ :: r => metas_ok sd sv st r
  | MTimescale f u :: r =>
    st = false /\ no_sp f /\ f <> [] /\ no_sp u /\ u <> [] /\ is_ascii f = true /\ (exists v, parse_uint f u32_max = Some v) /\ metas_ok sd sv true r
  end.

Definition flags (s : hstate) (sd sv st : bool) : Prop :=
  (sd = false -> hs_date s = []) /\ (sv = false -> hs_version s = []) /\ (st = false -> hs_timescale s = None).

(* what is reported: the last $date / $version body, the $timescale as (factor, unit code) *)
Fixpoint meta_of (xs : list mdecl) (d v : list byte) (t : option (N * N)) : list byte * list byte * option (N * N) :=
  match xs with
  | [] => (d, v, t)
  | MDate b :: r => meta_of r b v t
  | MVersion b :: r => meta_of r d b t
  | MTimescale f u :: r =>
    meta_of r d v (match parse_uint f u32_max with
                   | Some fv => Some (fv, match lookup_bytes u unit_kw with Some c => c | None => 6 end)
                   | None => t end)
  | _ :: r => meta_of r d v t
  end.

Lemma decls_ops_app : forall a c m,
  decls_ops m (a ++ c) = (fst (decls_ops m a) ++ fst (decls_ops (snd (decls_ops m a)) c), snd (decls_ops (snd (decls_ops m a)) c)).
Proof.
  induction a as [|d a IH]; intros c m; cbn [app decls_ops fst snd]; [now destruct (decls_ops m c)|].
  destruct (match d with DVar _ _ id _ _ => assign m id | _ => (m, 0%nat) end) as [m1 sref]. rewrite IH.
  destruct (decls_ops m1 a) as [ops m2]. cbn [fst snd]. destruct (decls_ops m2 c) as [ops' m3]. cbn [fst snd]. now rewrite app_assoc.
Qed.

Lemma decl_cmd_keeps_meta flatten_empty use_id_map d s s1 :
  handle_cmd flatten_empty use_id_map s (fst (decl_cmd d)) (snd (decl_cmd d)) = HOk s1 ->
  hs_date s1 = hs_date s /\ hs_version s1 = hs_version s /\ hs_timescale s1 = hs_timescale s.
Proof.
  intros Ec. unfold handle_cmd in Ec. destruct d as [kw nm| |tpe size id r0 ref]; cbn [decl_cmd fst snd] in Ec.
  - destruct (map snd (find_tokens (kw ++ [32] ++ nm))) as [|tp rest]; [discriminate|].
    destruct (scope_attrs (hs_attrs s) None) as [dc| |]; cbn [hres_of hbind] in Ec; try discriminate.
    destruct (negb (is_ascii _)); [discriminate|]. destruct (lookup_bytes tp scope_kw); [|discriminate]. injection Ec as <-. repeat split.
  - injection Ec as <-. repeat split.
  - destruct (find_tokens _) as [|[? t1] [|[? t2] [|[? t3] [|[ns ?] ?]]]]; try discriminate.
    destruct (negb (is_ascii t2)); [discriminate|]. destruct (parse_uint t2 u32_max); [|discriminate].
    destruct (parse_name _) as [[[vn ix] sc]| |]; cbn [hres_of hbind] in Ec; try discriminate.
    destruct (lookup_bytes t1 var_kw); [|discriminate]. destruct (var_attrs _ _ _) as [[tn vt]| |]; cbn [hres_of hbind] in Ec; try discriminate.
    unfold id_to_signal_ref in Ec. cbn [with_ops hs_idmap hs_tracker] in Ec. destruct use_id_map.
    + destruct (map_get (hs_idmap s) t3); cbn [hbind] in Ec;
        (destruct (negb (is_ascii _)); [discriminate|]; injection Ec as <-; repeat split).
    + destruct (id_to_int t3); [|discriminate]. destruct (need_id_map (hs_tracker s) _) as [t' need]. destruct need; [discriminate|]. cbn [hbind] in Ec.
      destruct (negb (is_ascii _)); [discriminate|]. injection Ec as <-. repeat split.
Qed.

Theorem handle_mdecls flatten_empty : forall xs s sd sv st, metas_ok sd sv st xs -> flags s sd sv st -> hs_attrs s = [] ->
  exists s',
    handle_all flatten_empty true s (map mdecl_cmd xs) = HOk s' /\ hs_attrs s' = [] /\
    hs_ops s' = rev (fst (decls_ops (hs_idmap s) (decls_of xs))) ++ hs_ops s /\ hs_idmap s' = snd (decls_ops (hs_idmap s) (decls_of xs)) /\
    (hs_date s', hs_version s', hs_timescale s') = meta_of xs (hs_date s) (hs_version s) (hs_timescale s).
Proof.
  induction xs as [|x xs IH]; intros s sd sv st Hok Hfl Hat.
  - exists s. cbn. repeat split; assumption || reflexivity.
  - cbn [map handle_all]. destruct x as [d|b|b|b|f u]; cbn [metas_ok mdecl_cmd decls_of flat_map meta_of] in *.
    + destruct Hok as [Hd Hok].
      destruct (handle_decls flatten_empty [d] s ltac:(constructor; [exact Hd|constructor]) Hat) as (s1 & H1 & Ha1 & Ho1 & Hm1).
      cbn [map handle_all] in H1. rewrite (surjective_pairing (decl_cmd d)) in H1 |- *.
      destruct (handle_cmd flatten_empty true s (fst (decl_cmd d)) (snd (decl_cmd d))) as [s1'| | |] eqn:Ec; cbn [hbind] in H1; try discriminate. injection H1 as ->.
      cbn [hbind]. destruct (decl_cmd_keeps_meta flatten_empty true d s s1 Ec) as (E1 & E2 & E3).
      assert (Hfl1 : flags s1 sd sv st) by (destruct Hfl as (F1 & F2 & F3); unfold flags; rewrite E1, E2, E3; repeat split; assumption).
      destruct (IH s1 sd sv st Hok Hfl1 Ha1) as (s' & Hr & Ha & Ho & Hm & Hmeta). exists s'. split; [exact Hr|]. split; [exact Ha|].
      change (d :: decls_of xs) with ([d] ++ decls_of xs). rewrite decls_ops_app. cbn [fst snd]. rewrite <- Hm1. split; [|split; [exact Hm|]].
      * rewrite Ho, Ho1, rev_app_distr. now rewrite app_assoc.
      * now rewrite Hmeta, E1, E2, E3.
    + destruct Hok as [-> Hok]. destruct Hfl as (F1 & F2 & F3).
      destruct (date_cmd_spec flatten_empty true s b (F1 eq_refl)) as (s1 & Hc & D1 & D2 & D3 & D4 & D5 & D6). rewrite Hc. cbn [hbind].
      destruct (IH s1 true sv st Hok ltac:(repeat split; [discriminate|rewrite D3; exact F2|rewrite D4; exact F3]) ltac:(now rewrite D5)) as (s' & Hr & Ha & Ho & Hm & Hmeta).
      exists s'. rewrite D2, D6 in *. repeat split; try assumption. now rewrite Hmeta, D1, D3, D4.
    + destruct Hok as [-> Hok]. destruct Hfl as (F1 & F2 & F3).
      destruct (version_cmd_spec flatten_empty true s b (F2 eq_refl)) as (s1 & Hc & D1 & D2 & D3 & D4 & D5 & D6). rewrite Hc. cbn [hbind].
      destruct (IH s1 sd true st Hok ltac:(repeat split; [rewrite D3; exact F1|discriminate|rewrite D4; exact F3]) ltac:(now rewrite D5)) as (s' & Hr & Ha & Ho & Hm & Hmeta).
      exists s'. rewrite D2, D6 in *. repeat split; try assumption. now rewrite Hmeta, D1, D3, D4.
    + cbn [handle_cmd hbind].
      match goal with |- context [handle_all _ _ ?s1 _] => destruct (IH s1 sd sv st Hok Hfl Hat) as (s' & Hr & Ha & Ho & Hm & Hmeta) end.
      exists s'. repeat split; assumption.
    + destruct Hok as (-> & T1 & T2 & T3 & T4 & T5 & (fv & T6) & Hok). destruct Hfl as (F1 & F2 & F3).
      destruct (timescale_cmd_spec flatten_empty true s f u fv T1 T2 T3 T4 T5 T6 (F3 eq_refl)) as (s1 & Hc & D1 & D2 & D3 & D4 & Ed & Ev).
      pose proof Hc as Hc'. cbn [app] in Hc' |- *. unfold byte in *. rewrite Hc'. cbn [hbind].
      destruct (IH s1 sd sv true Hok ltac:(repeat split; [rewrite Ed; exact F1|rewrite Ev; exact F2|discriminate]) ltac:(now rewrite D3)) as (s' & Hr & Ha & Ho & Hm & Hmeta).
      exists s'. rewrite D2, D4 in *. repeat split; try assumption. rewrite Hmeta, Ed, Ev, D1, T6. reflexivity.
Qed.

Lemma direct_ops_app a c : direct_ops (a ++ c) = direct_ops a ++ direct_ops c.
Proof. unfold direct_ops. apply flat_map_app. Qed.

(* the first attempt, without a map: either the request to start again, or the builder calls of the declarations *)
Theorem handle_mdecls_direct flatten_empty : forall xs s sd sv st, metas_ok sd sv st xs -> flags s sd sv st -> hs_attrs s = [] ->
  handle_all flatten_empty false s (map mdecl_cmd xs) = HRestart \/
  exists s',
    handle_all flatten_empty false s (map mdecl_cmd xs) = HOk s' /\ hs_attrs s' = [] /\
    hs_ops s' = rev (direct_ops (decls_of xs)) ++ hs_ops s /\ hs_idmap s' = hs_idmap s /\
    (hs_date s', hs_version s', hs_timescale s') = meta_of xs (hs_date s) (hs_version s) (hs_timescale s).
Proof.
  induction xs as [|x xs IH]; intros s sd sv st Hok Hfl Hat.
  - right. exists s. cbn. repeat split; assumption || reflexivity.
  - cbn [map handle_all]. destruct x as [d|b|b|b|f u]; cbn [metas_ok mdecl_cmd decls_of flat_map meta_of] in *.
    + destruct Hok as [Hd Hok]. assert (Hds : Forall decl_ok [d]) by (constructor; [exact Hd|constructor]).
      destruct (handle_direct_cases flatten_empty [d] s Hds Hat) as [(s1 & H1)|H1]; cbn [map handle_all] in H1; rewrite (surjective_pairing (decl_cmd d)) in H1 |- *.
      * pose proof (handle_decls_direct flatten_empty [d] s s1 Hds Hat) as Hdd. cbn [map handle_all] in Hdd. rewrite (surjective_pairing (decl_cmd d)) in Hdd.
        destruct (handle_cmd flatten_empty false s (fst (decl_cmd d)) (snd (decl_cmd d))) as [s1'| | |] eqn:Ec; cbn [hbind] in H1; try discriminate. injection H1 as ->.
        destruct (Hdd eq_refl) as (Ha1 & Ho1 & Hm1). cbn [hbind].
        destruct (decl_cmd_keeps_meta flatten_empty false d s s1 Ec) as (E1 & E2 & E3).
        assert (Hfl1 : flags s1 sd sv st) by (destruct Hfl as (F1 & F2 & F3); unfold flags; rewrite E1, E2, E3; repeat split; assumption).
        destruct (IH s1 sd sv st Hok Hfl1 Ha1) as [Hr|(s' & Hr & Ha & Ho & Hm & Hmeta)]; [now left|]. right. exists s'. split; [exact Hr|]. split; [exact Ha|].
        change (d :: decls_of xs) with ([d] ++ decls_of xs). rewrite direct_ops_app. split; [|split; [now rewrite Hm|]].
        -- rewrite Ho, Ho1, rev_app_distr. now rewrite app_assoc.
        -- now rewrite Hmeta, E1, E2, E3.
      * left. destruct (handle_cmd flatten_empty false s (fst (decl_cmd d)) (snd (decl_cmd d))) as [s1'| | |]; cbn [hbind] in H1 |- *; try discriminate; reflexivity.
    + destruct Hok as [-> Hok]. destruct Hfl as (F1 & F2 & F3).
      destruct (date_cmd_spec flatten_empty false s b (F1 eq_refl)) as (s1 & Hc & D1 & D2 & D3 & D4 & D5 & D6). rewrite Hc. cbn [hbind].
      destruct (IH s1 true sv st Hok ltac:(repeat split; [discriminate|rewrite D3; exact F2|rewrite D4; exact F3]) ltac:(now rewrite D5)) as [Hr|(s' & Hr & Ha & Ho & Hm & Hmeta)]; [now left|].
      right. exists s'. rewrite D2, D6 in *. repeat split; try assumption. now rewrite Hmeta, D1, D3, D4.
    + destruct Hok as [-> Hok]. destruct Hfl as (F1 & F2 & F3).
      destruct (version_cmd_spec flatten_empty false s b (F2 eq_refl)) as (s1 & Hc & D1 & D2 & D3 & D4 & D5 & D6). rewrite Hc. cbn [hbind].
      destruct (IH s1 sd true st Hok ltac:(repeat split; [rewrite D3; exact F1|discriminate|rewrite D4; exact F3]) ltac:(now rewrite D5)) as [Hr|(s' & Hr & Ha & Ho & Hm & Hmeta)]; [now left|].
      right. exists s'. rewrite D2, D6 in *. repeat split; try assumption. now rewrite Hmeta, D1, D3, D4.
    + cbn [handle_cmd hbind].
      match goal with |- context [handle_all _ _ ?s1 _] => destruct (IH s1 sd sv st Hok Hfl Hat) as [Hr|(s' & Hr & Ha & Ho & Hm & Hmeta)] end; [now left|].
      right. exists s'. repeat split; assumption.
    + destruct Hok as (-> & T1 & T2 & T3 & T4 & T5 & (fv & T6) & Hok). destruct Hfl as (F1 & F2 & F3).
      destruct (timescale_cmd_spec flatten_empty false s f u fv T1 T2 T3 T4 T5 T6 (F3 eq_refl)) as (s1 & Hc & D1 & D2 & D3 & D4 & Ed & Ev).
      pose proof Hc as Hc'. cbn [app] in Hc' |- *. unfold byte in *. rewrite Hc'. cbn [hbind].
      destruct (IH s1 sd sv true Hok ltac:(repeat split; [rewrite Ed; exact F1|rewrite Ev; exact F2|discriminate]) ltac:(now rewrite D3)) as [Hr|(s' & Hr & Ha & Ho & Hm & Hmeta)]; [now left|].
      right. exists s'. rewrite D2, D4 in *. repeat split; try assumption. rewrite Hmeta, Ed, Ev, D1, T6. reflexivity.
Qed.

(* Property C09 for whole headers made of $date / $version / $comment / $timescale / $scope / $upscope / $var commands in
   any order (each of $date, $version, $timescale at most once; no $attrbegin): read_hierarchy succeeds, the header length
   is the length of the commands up to and including `$enddefinitions $end`, the date, version and time scale are
   reported as written, and the builder calls are those of the declarations - variables numbered by their identifier
   codes directly or, when the loader starts again with a map, by order of first appearance *)
Theorem read_header_mdecls flatten_empty (cts : list (cmd_text * vcd_cmd)) cend rest xs :
  Forall (fun p => ct_ok (fst p) (snd p) /\ snd p <> CEndDefs) cts -> ct_ok cend CEndDefs ->
  map (fun p => (snd p, ct_body (fst p))) cts = map mdecl_cmd xs -> metas_ok false false false xs ->
  let input := concat (map (fun p => ct_render (fst p)) cts) ++ ct_render cend ++ rest in
  exists hr, read_header flatten_empty input = Ok hr /\ hr_len hr = (length input - length rest)%nat /\
    (hr_date hr, hr_version hr, hr_timescale hr) = meta_of xs [] [] None /\
    ((hr_ops hr = direct_ops (decls_of xs) /\ hr_lookup hr = None) \/
     (hr_ops hr = fst (decls_ops [] (decls_of xs)) /\ hr_lookup hr = Some (snd (decls_ops [] (decls_of xs))))).
Proof.
  intros Hcts Hend Hmap Hxs. cbn zeta.
  assert (Hf : (length cts < S (length (concat (map (fun p => ct_render (fst p)) cts) ++ ct_render cend ++ rest)))%nat).
  { rewrite app_length. pose proof (renders_len cts). lia. }
  assert (Hfl : flags hs_init false false false) by (repeat split).
  unfold read_header.
  rewrite (header_loop_spec flatten_empty false cts cend rest _ hs_init Hcts Hend Hf), Hmap.
  destruct (handle_mdecls_direct flatten_empty xs hs_init false false false Hxs Hfl eq_refl) as [Hr|(st' & Hr & _ & Ho & _ & Hmeta)]; rewrite Hr; cbn [hbind].
  - rewrite (header_loop_spec flatten_empty true cts cend rest _ hs_init Hcts Hend Hf), Hmap.
    destruct (handle_mdecls flatten_empty xs hs_init false false false Hxs Hfl eq_refl) as (st' & Hr' & _ & Ho & Hm & Hmeta). rewrite Hr'. cbn [hbind].
    eexists. split; [reflexivity|]. cbn [hr_len hr_ops hr_lookup hr_date hr_version hr_timescale]. split; [reflexivity|]. split; [exact Hmeta|]. right. split.
    + rewrite rev_append_rev, app_nil_r, Ho. cbn [hs_init hs_ops hs_idmap]. now rewrite app_nil_r, rev_involutive.
    + now rewrite Hm.
  - eexists. split; [reflexivity|]. cbn [hr_len hr_ops hr_lookup hr_date hr_version hr_timescale]. split; [reflexivity|]. split; [exact Hmeta|]. left. split; [|reflexivity].
    rewrite rev_append_rev, app_nil_r, Ho. cbn [hs_init hs_ops]. now rewrite app_nil_r, rev_involutive.
Qed.

(* the hypotheses of read_header_mdecls are satisfiable:
   `$date today $end / $timescale 1 ns $end / $scope module top $end / $var wire 8 ! mem [3] [7:0] $end / $upscope $end /
   $enddefinitions $end` followed by a body *)
Example read_header_mdecls_example :
  let c0 := mk_ct [] [100; 97; 116; 101] 32 [] [116; 111; 100; 97; 121] [32] in
  let ct := mk_ct [10] [116; 105; 109; 101; 115; 99; 97; 108; 101] 32 [] [49; 32; 110; 115] [32] in
  let c1 := mk_ct [10] [115; 99; 111; 112; 101] 32 [] [109; 111; 100; 117; 108; 101; 32; 116; 111; 112] [32] in
  let c2 := mk_ct [10] [118; 97; 114] 32 [] [119; 105; 114; 101; 32; 56; 32; 33; 32; 109; 101; 109; 32; 91; 51; 93; 32; 91; 55; 58; 48; 93] [32] in
  let c3 := mk_ct [10] [117; 112; 115; 99; 111; 112; 101] 32 [] [] [] in
  let ce := mk_ct [10] [101; 110; 100; 100; 101; 102; 105; 110; 105; 116; 105; 111; 110; 115] 32 [] [] [] in
  let cts := [(c0, CDate); (ct, CTimescale); (c1, CScope); (c2, CVar); (c3, CUpScope)] in
  let xs := [MDate [116; 111; 100; 97; 121]; MTimescale [49] [110; 115];
             MDecl (DScope [109; 111; 100; 117; 108; 101] [116; 111; 112]);
             MDecl (DVar [119; 105; 114; 101] [56] [33] 109 [101; 109; 32; 91; 51; 93; 32; 91; 55; 58; 48; 93]); MDecl DUp] in
  Forall (fun p => ct_ok (fst p) (snd p) /\ snd p <> CEndDefs) cts /\ ct_ok ce CEndDefs /\
  map (fun p => (snd p, ct_body (fst p))) cts = map mdecl_cmd xs /\ metas_ok false false false xs /\
  meta_of xs [] [] None = ([116; 111; 100; 97; 121], [], Some (1, 2)) /\
  direct_ops (decls_of xs) = [HScope [116; 111; 112] None 0 None false; HScope [109; 101; 109] None 23 None false;
                              HVar [91; 51; 93] 15 0 (EncBits 8) (Some (7%Z, 0%Z)) 0%nat None; HPop; HPop].
Proof.
  cbn zeta.
  assert (W : forall w, forallb is_white_space w = true -> wsp w).
  { intros w H. apply Forall_forall. intros b Hb. rewrite forallb_forall in H. now apply H. }
  assert (NW : forall w, forallb (fun b => negb (is_white_space b)) w = true -> Forall (fun x => is_white_space x = false) w).
  { intros w H. apply Forall_forall. intros b Hb. rewrite forallb_forall in H. specialize (H b Hb). now destruct (is_white_space b). }
  assert (ND : forall w : list byte, forallb (fun b : byte => negb (b =? 36)) w = true -> no_dollar w).
  { intros w H Hin. rewrite forallb_forall in H. specialize (H 36 Hin). discriminate. }
  assert (NS : forall w : list byte, forallb (fun b : byte => negb (b =? 32)) w = true -> no_sp w).
  { intros w H Hin. rewrite forallb_forall in H. specialize (H 32 Hin). discriminate. }
  assert (OKB : forall (c : byte) (mid : list byte) (d : byte), is_white_space c = false -> is_white_space d = false -> forallb (fun b : byte => negb (b =? 36)) (c :: mid ++ [d]) = true -> body_ok (c :: mid ++ [d])).
  { intros c mid d Hc Hd H. right. exists c, mid, d. repeat split; try assumption. now apply ND. }
  split.
  { repeat (apply Forall_cons; [cbn [fst snd]; split; [|discriminate]|]); [| | | | |apply Forall_nil];
      unfold ct_ok; cbn [ct_pre0 ct_kw ct_b ct_pre ct_body ct_sep];
      (split; [apply W; reflexivity|]); (split; [apply NW; reflexivity|]); (split; [reflexivity|]); (split; [reflexivity|]); (split; [apply W; reflexivity|]).
    - split; [apply (OKB 116 [111; 100; 97] 121); reflexivity|]. split; [apply W; reflexivity|discriminate].
    - split; [apply (OKB 49 [32; 110] 115); reflexivity|]. split; [apply W; reflexivity|discriminate].
    - split; [apply (OKB 109 [111; 100; 117; 108; 101; 32; 116; 111] 112); reflexivity|]. split; [apply W; reflexivity|discriminate].
    - split; [apply (OKB 119 [105; 114; 101; 32; 56; 32; 33; 32; 109; 101; 109; 32; 91; 51; 93; 32; 91; 55; 58; 48] 93); reflexivity|]. split; [apply W; reflexivity|discriminate].
    - split; [now left|]. split; [apply W; reflexivity|reflexivity]. }
  split.
  { unfold ct_ok. cbn [ct_pre0 ct_kw ct_b ct_pre ct_body ct_sep]. split; [apply W; reflexivity|]. split; [apply NW; reflexivity|]. split; [reflexivity|]. split; [reflexivity|].
    split; [apply W; reflexivity|]. split; [now left|]. split; [apply W; reflexivity|reflexivity]. }
  split; [reflexivity|]. split.
  { cbn [metas_ok decl_ok]. split; [reflexivity|]. split; [reflexivity|]. split; [apply NS; reflexivity|]. split; [discriminate|]. split; [apply NS; reflexivity|]. split; [discriminate|].
    split; [reflexivity|]. split; [exists 1; reflexivity|].
    split.
    { split; [apply NS; reflexivity|]. split; [discriminate|]. split; [apply NS; reflexivity|]. split; [discriminate|]. split; [reflexivity|]. exists 0. reflexivity. }
    split.
    { split; [apply NS; reflexivity|]. split; [discriminate|]. split; [apply NS; reflexivity|]. split; [discriminate|]. split; [apply NS; reflexivity|]. split; [discriminate|].
      split; [discriminate|]. split; [reflexivity|]. split; [reflexivity|]. split; [exists 8; reflexivity|]. split; [eexists; vm_compute; reflexivity|]. exists 15. reflexivity. }
    split; exact I. }
  split; vm_compute; reflexivity.
Qed.
