(* Model of wellen/src/hierarchy.rs: HierarchyBuilder (add_scope with duplicate detection and
   flattening, add_var, pop_scope, the scope stack with cached last children) and the navigation
   of the finished Hierarchy (items / vars / scopes iterators, full_name, lookup_scope,
   lookup_var_with_index, num_unique_signals, get_signal_tpe).
   The string table is a pure indirection and is not modelled: names are byte lists. *)
From WV Require Import Model.Base Model.Bits Model.WaveMem.
Open Scope N_scope.

Inductive item_id := IScope (i : nat) | IVar (i : nat).

Definition name := list byte.

Record scope := mk_scope {
  sc_name : name;
  sc_component : option name;
  sc_tpe : N;
  sc_decl : option (name * N);       (* declaration source: (path, line) *)
  sc_child : option item_id;
  sc_parent : option nat;
  sc_next : option item_id
}.

Record var := mk_var {
  v_name : name;
  v_tpe : N;
  v_direction : N;
  v_enc : sig_enc;
  v_index : option (Z * Z);          (* (msb, lsb) *)
  v_signal : nat;                    (* SignalRef index *)
  v_type_name : option name;         (* vhdl_type_name *)
  v_parent : option nat;
  v_next : option item_id
}.

Record stack_entry := mk_entry {
  se_scope : option nat;             (* None = usize::MAX, the fake top entry or a flattened one *)
  se_last_child : option item_id;
  se_flattened : bool
}.

Record builder := mk_builder {
  hb_vars : list var;
  hb_scopes : list scope;
  hb_first : option item_id;
  hb_stack : list stack_entry;       (* innermost entry first *)
  hb_handles : list (option nat)     (* handle_to_node *)
}.

Definition hb_new : builder :=
  mk_builder [] [] None [mk_entry None None false] [].

(* find_parent_scope: position (from the innermost entry) of the first entry that is not flattened;
   walking below the bottom of the stack underflows *)
Fixpoint find_parent_pos (stack : list stack_entry) : outcome nat :=
  match stack with
  | [] => Panic
  | e :: r => if se_flattened e then do p <- find_parent_pos r; Ok (S p) else Ok O
  end.

Definition set_scope_next (scopes : list scope) (i : nat) (n : option item_id) : outcome (list scope) :=
  match nth_error scopes i with
  | None => Panic
  | Some s => match sc_next s with
              | Some _ => Panic                                     (* assert!(next.is_none()) *)
              | None => Ok (list_update scopes i (mk_scope (sc_name s) (sc_component s) (sc_tpe s) (sc_decl s)
                                                           (sc_child s) (sc_parent s) n))
              end
  end.
Definition set_scope_child (scopes : list scope) (i : nat) (n : option item_id) : outcome (list scope) :=
  match nth_error scopes i with
  | None => Panic
  | Some s => match sc_child s with
              | Some _ => Panic                                     (* assert!(child.is_none()) *)
              | None => Ok (list_update scopes i (mk_scope (sc_name s) (sc_component s) (sc_tpe s) (sc_decl s)
                                                           n (sc_parent s) (sc_next s)))
              end
  end.
Definition set_var_next (vars : list var) (i : nat) (n : option item_id) : outcome (list var) :=
  match nth_error vars i with
  | None => Panic
  | Some v => match v_next v with
              | Some _ => Panic
              | None => Ok (list_update vars i (mk_var (v_name v) (v_tpe v) (v_direction v) (v_enc v)
                                                       (v_index v) (v_signal v) (v_type_name v) (v_parent v) n))
              end
  end.

(* add_to_hierarchy_tree: links the new node after the last child of the nearest
   non-flattened stack entry (or as first child of its scope); returns the parent *)
Definition add_to_tree (b : builder) (node : item_id) : outcome (builder * option nat) :=
  do pos <- find_parent_pos (hb_stack b);
  do entry <- of_option (nth_error (hb_stack b) pos);
  do '(vars, scopes) <-
    (match se_last_child entry with
     | Some (IVar c) => do vs <- set_var_next (hb_vars b) c (Some node); Ok (vs, hb_scopes b)
     | Some (IScope c) => do ss <- set_scope_next (hb_scopes b) c (Some node); Ok (hb_vars b, ss)
     | None =>
       match se_scope entry with
       | None => Ok (hb_vars b, hb_scopes b)
       | Some p => do ss <- set_scope_child (hb_scopes b) p (Some node); Ok (hb_vars b, ss)
       end
     end);
  let stack := list_update (hb_stack b) pos (mk_entry (se_scope entry) (Some node) (se_flattened entry)) in
  Ok (mk_builder vars scopes (hb_first b) stack (hb_handles b), se_scope entry).

Definition get_next (b : builder) (item : item_id) : outcome (option item_id) :=
  match item with
  | IScope i => do s <- of_option (nth_error (hb_scopes b) i); Ok (sc_next s)
  | IVar i => do v <- of_option (nth_error (hb_vars b) i); Ok (v_next v)
  end.

(* find_duplicate_scope: first sibling scope with the same name; the loop runs on fuel *)
Fixpoint find_dup_loop (fuel : nat) (b : builder) (nm : name) (item : option item_id) : outcome (option nat) :=
  match fuel with
  | O => Panic
  | S f =>
    match item with
    | None => Ok None
    | Some it =>
      do hit <- (match it with
                 | IScope i => do s <- of_option (nth_error (hb_scopes b) i);
                               Ok (if list_eqb (sc_name s) nm then Some i else None)
                 | IVar _ => Ok None
                 end);
      match hit with
      | Some i => Ok (Some i)
      | None => do nx <- get_next b it; find_dup_loop f b nm nx
      end
    end
  end.

Definition items_fuel (b : builder) : nat := S (length (hb_vars b) + length (hb_scopes b)).

Definition find_duplicate_scope (b : builder) (nm : name) : outcome (option nat) :=
  do pos <- find_parent_pos (hb_stack b);
  do parent <- of_option (nth_error (hb_stack b) pos);
  do start <- (match se_scope parent with
               | None => Ok (hb_first b)
               | Some p => do s <- of_option (nth_error (hb_scopes b) p); Ok (sc_child s)
               end);
  find_dup_loop (items_fuel b) b nm start.

(* find_last_child *)
Fixpoint last_child_loop (fuel : nat) (b : builder) (child : item_id) : outcome item_id :=
  match fuel with
  | O => Panic
  | S f => do nx <- get_next b child;
           match nx with None => Ok child | Some n => last_child_loop f b n end
  end.
Definition find_last_child (b : builder) (sc : nat) : outcome (option item_id) :=
  do s <- of_option (nth_error (hb_scopes b) sc);
  match sc_child s with
  | None => Ok None
  | Some c => do l <- last_child_loop (items_fuel b) b c; Ok (Some l)
  end.

(* add_scope *)
Definition add_scope (b : builder) (nm : name) (component : option name) (tpe : N) (decl : option (name * N))
           (flatten : bool) : outcome builder :=
  do dup <- find_duplicate_scope b nm;
  match dup with
  | Some d =>
    do lc <- find_last_child b d;
    Ok (mk_builder (hb_vars b) (hb_scopes b) (hb_first b)
                   (mk_entry (Some d) lc false :: hb_stack b) (hb_handles b))
  | None =>
    if flatten then
      Ok (mk_builder (hb_vars b) (hb_scopes b) (hb_first b)
                     (mk_entry None None true :: hb_stack b) (hb_handles b))
    else
      let node_id := length (hb_scopes b) in
      let wrapped := IScope node_id in
      let b1 := mk_builder (hb_vars b) (hb_scopes b)
                           (match hb_first b with None => Some wrapped | f => f end)
                           (hb_stack b) (hb_handles b) in
      do '(b2, parent) <- add_to_tree b1 wrapped;
      let component := match component with Some [] => None | c => c end in
      Ok (mk_builder (hb_vars b2)
                     (hb_scopes b2 ++ [mk_scope nm component tpe decl None parent None])
                     (hb_first b2)
                     (mk_entry (Some node_id) None false :: hb_stack b2) (hb_handles b2))
  end.

Fixpoint resize_handles (l : list (option nat)) (n : nat) : list (option nat) :=
  match n with
  | O => l
  | S n' => match l with
            | [] => None :: resize_handles [] n'
            | x :: r => x :: resize_handles r n'
            end
  end.

(* add_var *)
Definition add_var (b : builder) (nm : name) (tpe direction : N) (enc : sig_enc)
           (index : option (Z * Z)) (signal_idx : nat) (type_name : option name) : outcome builder :=
  let node_id := length (hb_vars b) in
  let wrapped := IVar node_id in
  let b1 := mk_builder (hb_vars b) (hb_scopes b)
                       (match hb_first b with None => Some wrapped | f => f end)
                       (hb_stack b) (hb_handles b) in
  do '(b2, parent) <- add_to_tree b1 wrapped;
  let handles := list_update (resize_handles (hb_handles b2) (S signal_idx)) signal_idx (Some node_id) in
  Ok (mk_builder (hb_vars b2 ++ [mk_var nm tpe direction enc index signal_idx type_name parent None])
                 (hb_scopes b2) (hb_first b2) (hb_stack b2) handles).

(* pop_scope: self.scope_stack.pop().unwrap() *)
Definition pop_scope (b : builder) : outcome builder :=
  match hb_stack b with
  | [] => Panic
  | _ :: r => Ok (mk_builder (hb_vars b) (hb_scopes b) (hb_first b) r (hb_handles b))
  end.

Inductive hier_op :=
| HScope (nm : name) (component : option name) (tpe : N) (decl : option (name * N)) (flatten : bool)
| HVar (nm : name) (tpe direction : N) (enc : sig_enc) (index : option (Z * Z)) (signal_idx : nat)
       (type_name : option name)
| HPop.

Definition hier_step (b : builder) (op : hier_op) : outcome builder :=
  match op with
  | HScope nm c t dl f => add_scope b nm c t dl f
  | HVar nm t d e i s tn => add_var b nm t d e i s tn
  | HPop => pop_scope b
  end.

Fixpoint hier_run (b : builder) (ops : list hier_op) : outcome builder :=
  match ops with
  | [] => Ok b
  | op :: r => do b' <- hier_step b op; hier_run b' r
  end.

(* ------------------------------------------------------------------ navigation of the result *)

(* HierarchyItemIdIterator: the chain item, next(item), next(next(item)), ... *)
Fixpoint chain (fuel : nat) (b : builder) (item : option item_id) : outcome (list item_id) :=
  match fuel with
  | O => Panic
  | S f =>
    match item with
    | None => Ok []
    | Some it => do nx <- get_next b it; do r <- chain f b nx; Ok (it :: r)
    end
  end.

Definition top_items (b : builder) : outcome (list item_id) := chain (items_fuel b) b (hb_first b).
Definition scope_items (b : builder) (s : nat) : outcome (list item_id) :=
  do sc <- of_option (nth_error (hb_scopes b) s); chain (items_fuel b) b (sc_child sc).

(* Scope::full_name: names of all ancestors joined by '.' *)
Fixpoint scope_full_name (fuel : nat) (b : builder) (s : nat) : outcome name :=
  match fuel with
  | O => Panic
  | S f =>
    do sc <- of_option (nth_error (hb_scopes b) s);
    match sc_parent sc with
    | None => Ok (sc_name sc)
    | Some p => do pn <- scope_full_name f b p; Ok (pn ++ [46] ++ sc_name sc)
    end
  end.
Definition var_full_name (b : builder) (v : nat) : outcome name :=
  do vr <- of_option (nth_error (hb_vars b) v);
  match v_parent vr with
  | None => Ok (v_name vr)
  | Some p => do pn <- scope_full_name (items_fuel b) b p; Ok (pn ++ [46] ++ v_name vr)
  end.

(* pre-order walk through items(): (depth, item) *)
Fixpoint walk (fuel : nat) (b : builder) (depth : nat) (items : list item_id) : outcome (list (nat * item_id)) :=
  match fuel with
  | O => Panic
  | S f =>
    match items with
    | [] => Ok []
    | it :: r =>
      do sub <- (match it with
                 | IScope s => do ch <- scope_items b s; walk f b (S depth) ch
                 | IVar _ => Ok []
                 end);
      do rest <- walk f b depth r;
      Ok ((depth, it) :: sub ++ rest)
    end
  end.
Definition full_walk (b : builder) : outcome (list (nat * item_id)) :=
  do top <- top_items b; walk (2 * items_fuel b) b 0 top.

(* lookup_scope: first scope with the given name at each level *)
Definition find_scope_named (b : builder) (items : list item_id) (nm : name) : option nat :=
  (fix go (l : list item_id) : option nat :=
     match l with
     | [] => None
     | IScope s :: r => match nth_error (hb_scopes b) s with
                        | Some sc => if list_eqb (sc_name sc) nm then Some s else go r
                        | None => go r
                        end
     | IVar _ :: r => go r
     end) items.

Fixpoint lookup_scope_from (b : builder) (cur : nat) (path : list name) : outcome (option nat) :=
  match path with
  | [] => Ok (Some cur)
  | nm :: r =>
    do items <- scope_items b cur;
    match find_scope_named b items nm with
    | None => Ok None
    | Some s => lookup_scope_from b s r
    end
  end.
Definition lookup_scope (b : builder) (path : list name) : outcome (option nat) :=
  match path with
  | [] => Ok None
  | nm :: r =>
    do items <- top_items b;
    match find_scope_named b items nm with
    | None => Ok None
    | Some s => lookup_scope_from b s r
    end
  end.

Definition index_eqb (a b : option (Z * Z)) : bool :=
  match a, b with
  | None, None => true
  | Some (m1, l1), Some (m2, l2) => Z.eqb m1 m2 && Z.eqb l1 l2
  | _, _ => false
  end.

(* lookup_var_with_index *)
Definition lookup_var (b : builder) (path : list name) (nm : name) (index : option (Z * Z))
  : outcome (option nat) :=
  do items <- (match path with
               | [] => do t <- top_items b; Ok (Some t)
               | _ => do s <- lookup_scope b path;
                      match s with
                      | None => Ok None
                      | Some s => do it <- scope_items b s; Ok (Some it)
                      end
               end);
  match items with
  | None => Ok None
  | Some items =>
    Ok ((fix go (l : list item_id) : option nat :=
           match l with
           | [] => None
           | IVar v :: r =>
             match nth_error (hb_vars b) v with
             | Some vr => if list_eqb (v_name vr) nm &&
                             (match index with None => true | Some i => index_eqb (v_index vr) (Some i) end)
                          then Some v else go r
             | None => go r
             end
           | IScope _ :: r => go r
           end) items)
  end.

(* num_unique_signals / get_signal_tpe *)
Definition num_unique_signals (b : builder) : nat := length (hb_handles b).
Definition get_signal_tpe (b : builder) (sig : nat) : option sig_enc :=
  match nth_error (hb_handles b) sig with
  | Some (Some v) => option_map v_enc (nth_error (hb_vars b) v)
  | _ => None
  end.
