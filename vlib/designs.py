"""Random abstract designs (scope tree, typed variables, value histories) for the file-level checks of C10, C11, C12,
their JSON form (so that a failing design can be replayed) and the runner that writes the files, loads them with the
harness (`wobs` / `wfull`) and compares with the listing computed from the design alone (filegen.expected_*)."""
import os
import shutil
from . import core, filegen as fg

FILES = os.path.join(core.CACHE, "run", "files")
ALPHA = {2: "01", 4: "01xz", 9: "01xzhuwl-"}


# ----------------------------------------------------------------------------------------------- JSON form
def to_spec(items):
    out = []
    for it in items:
        if isinstance(it, fg.Scope):
            out.append({"scope": it.name, "kind": it.kind, "extra": it.extra, "children": to_spec(it.children)})
        else:
            ch = [[t, v.hex() if isinstance(v, bytes) else v] for t, v in it.changes]
            out.append({"var": it.name, "kind": it.kind, "rng": it.rng, "literals": it.literals, "extra": it.extra, "changes": ch,
                        "floats": it.kind == "real"})
    return out


def from_spec(spec):
    out = []
    for s in spec:
        if "scope" in s:
            extra = dict(s["extra"])
            for k in ("decl_src", "inst_src"):
                if k in extra:
                    extra[k] = tuple(extra[k])
            out.append(fg.Scope(s["scope"], from_spec(s["children"]), kind=s["kind"], **extra))
        else:
            extra = dict(s["extra"])
            if "enum" in extra:
                extra["enum"] = (extra["enum"][0], [tuple(x) for x in extra["enum"][1]])
            if "vhdl" in extra:
                extra["vhdl"] = tuple(extra["vhdl"])
            ch = [(t, bytes.fromhex(v) if s["kind"] == "string" else (float(v) if s["kind"] == "real" else v)) for t, v in s["changes"]]
            out.append(fg.Var(s["var"], s["kind"], rng=tuple(s["rng"]) if s["rng"] else None, changes=ch, literals=s["literals"], **extra))
    return out


# ----------------------------------------------------------------------------------------------- value generators
def rand_bits(rng, width, kind, prev=None):
    mode = rng.random()
    if prev is not None and mode < 0.15:
        return prev                                   # redundant change
    if prev is not None and mode < 0.45:
        p = rng.randrange(width)                      # single position flip
        c = rng.choice(ALPHA[kind])
        return prev[:p] + c + prev[p + 1:]
    if mode < 0.55:
        return rng.choice(ALPHA[kind]) * width
    return "".join(rng.choice(ALPHA[kind]) for _ in range(width))


REALS = [0.0, -0.0, 1.5, -2.25, 1e300, -1e-300, 3.141592653589793, float("inf"), 5e-324]


def rand_value(rng, v, prev, kind):
    if v.kind in ("logic", "bit"):
        return rand_bits(rng, v.width, 2 if v.kind == "bit" else kind, prev)
    if v.kind == "int":
        return rng.choice([0, 1, -1, 2147483647, -2147483648, rng.randrange(-2 ** 31, 2 ** 31), rng.randrange(-200, 200)])
    if v.kind == "real":
        if prev is not None and prev == 0.0 and rng.random() < 0.6:
            return -prev           # 0.0 <-> -0.0: two different values that compare equal as numbers
        return rng.choice(REALS + [0.0, rng.uniform(-1e6, 1e6)])
    if v.kind == "enum":
        return rng.randrange(len(v.literals))
    if v.extra.get("bin_str"):
        # FST only: values that are not valid UTF-8 (reported with U+FFFD replacement characters), valid multi-byte
        # characters, and values repeated unchanged (within and across value-change blocks)
        if prev is not None and rng.random() < 0.35:
            return prev
        return b"".join(rng.choice([b"a", b"Z", b"0", b" ", b"\xc3\xa9", b"\xe9", b"\xff", b"\xe2\x82\xac", b"caf\xe9"])
                        for _ in range(rng.choice([1, 2, 4])))
    return bytes(rng.choice(b"abcXYZ019 _-") for _ in range(rng.choice([0, 1, 3, 12])))


def fill_history(rng, vs, times, p_change=0.4, kinds=None, skip_first=()):
    """every variable gets a value at times[0] (except those in skip_first) and changes with probability p_change later"""
    cur = {}
    for i, v in enumerate(vs):
        v.changes = []
        if v.extra.get("alias_of") is not None:
            continue
        k = (kinds or {}).get(i) or rng.choice([2, 2, 4, 9])
        for ti, t in enumerate(times):
            if ti == 0 and i in skip_first:
                continue
            if (ti == 0 and i not in skip_first) or rng.random() < p_change or (i not in cur and ti == 1):
                kk = k if rng.random() < 0.8 else rng.choice([2, 4, 9])
                val = rand_value(rng, v, cur.get(i), kk)
                cur[i] = val
                v.changes.append((t, val))


def rand_times(rng, n):
    t = rng.choice([0, 0, 0, 5, 1000])
    out = [t]
    for _ in range(n - 1):
        t += rng.choice([1, 1, 2, 10, 1000, 10 ** 6, 10 ** 9, 3 * 10 ** 9, 2 ** 32 + 1])
        out.append(t)
    return out


NAMES = ["clk", "rst_n", "data", "addr", "valid", "ready", "state", "cnt", "x", "y0", "bus_if", "q", "d_in", "d_out"]


def fresh(rng, used, base=None):
    while True:
        n = (base or rng.choice(NAMES)) + rng.choice(["", "", "_%d" % rng.randrange(100), "_r", "_next"])
        if n not in used:
            used.add(n)
            return n


# ----------------------------------------------------------------------------------------------- common subset (C12)
def rand_tri(rng, nvars=None, nsteps=None):
    used = set()
    nvars = nvars or rng.randrange(2, 9)
    vs = []
    # identifiers that share 31..56 leading characters (a GHW string table stores each string as the characters that follow
    # the prefix shared with its predecessor; the length of a prefix of 32 or more takes two bytes)
    long_names = rng.random() < 0.3

    def nm():
        if long_names and rng.random() < 0.7:
            return fresh(rng, used, PREFIX[:rng.choice([31, 32, 33, 40, 56, 62, 63, 64, 95, 96, 127, 128])] + rng.choice(["valid_in", "valid_out", "valid", "x", "data"]))
        return fresh(rng, used)
    for _ in range(nvars):
        r = rng.random()
        if r < 0.55:
            w = rng.choice([2, 3, 4, 5, 7, 8, 9, 12, 15, 16, 17, 24, 31, 32, 33, 64, 65])
            vs.append(fg.Var(nm(), "logic", rng=(w - 1, 0)))
        elif r < 0.8:
            vs.append(fg.Var(nm(), "logic"))
        elif r < 0.9:
            vs.append(fg.Var(nm(), "real"))
        else:
            vs.append(fg.Var(nm(), "int"))
    # nest: top scope, optional inner scopes
    top = []
    inner = None
    for v in vs:
        if rng.random() < 0.25:
            inner = fg.Scope(fresh(rng, used, "u"), [], kind="module")
            top.append(inner)
        (inner.children if inner is not None and rng.random() < 0.6 else top).append(v)
    items = [fg.Scope("top", top, kind="module")]
    times = rand_times(rng, nsteps or rng.randrange(2, 12))
    fill_history(rng, fg.all_vars(items), times)
    return items


def scenario_same_step_vectors(rng):
    """a 12 bit vector declared before vectors of 8 and 16 bits, all written in the same steps"""
    a = fg.Var("a", "logic", rng=(11, 0))
    b = fg.Var("b", "logic", rng=(7, 0))
    c = fg.Var("c", "logic", rng=(15, 0))
    d = fg.Var("d", "logic", rng=(4, 0))
    items = [fg.Scope("top", [a, b, c, d])]
    times = [0, 10, 20, 30, 40]
    for v in (a, b, c, d):
        v.changes = []
        prev = None
        for t in times:
            while True:
                val = "".join(rng.choice("01") for _ in range(v.width))
                if val != prev and (prev is None or all(x != y for x, y in zip(val, prev)) or v is a):
                    break
            # b, c, d: every bit changes in every step; a: some bits change
            prev = val
            v.changes.append((t, val))
    return items


def scenario_kind_order(rng, width):
    """4-state, then 2-state, then 9-state values of a vector whose width is not a multiple of four"""
    v = fg.Var("v", "logic", rng=(width - 1, 0))
    w = fg.Var("w", "logic", rng=(3, 0))
    seq = [4, 2, 9, 2, 4] if rng.random() < 0.5 else [2, 4, 2, 9, 4]
    v.changes = []
    for i, k in enumerate(seq):
        val = "".join(rng.choice(ALPHA[k]) for _ in range(width))
        need = {2: "1", 4: rng.choice("xz"), 9: rng.choice("hulw-")}[k]
        p = rng.randrange(width)
        v.changes.append((i * 10, val[:p] + need + val[p + 1:]))
    w.changes = [(0, "0000"), (20, "1x1z"), (40, "1111")]
    return [fg.Scope("top", [v, w])]


def scenario_long_idle(rng, steps=16500):
    """a clock toggling in every step and a vector that is idle for more than 16384 steps"""
    clk = fg.Var("clk", "logic")
    v = fg.Var("v", "logic", rng=(9, 0))
    r = fg.Var("r", "real")
    clk.changes = [(t, "01"[t & 1]) for t in range(steps)]
    v.changes = [(0, "0000000000"), (3, "0000000001"), (steps - 50, "1111100000"), (steps - 20, "1010101010")]
    r.changes = [(0, 0.5), (steps - 10, 2.5)]
    return [fg.Scope("top", [clk, v, r])]


# ----------------------------------------------------------------------------------------------- FST specific (C10)
REAL_CODES = (3, 4, 20, 29)
BIT_CODES = [0, 1, 2, 5, 6, 7, 8, 9, 10, 11, 12, 13, 14, 15, 16, 17, 22, 23, 24, 25, 26, 27, 28]
VHDL_DT = {1: 1, 2: 1, 3: 0, 4: 1, 5: 0, 6: 1, 7: 0, 10: 0, 14: 0}   # data type code -> scalar?


def rand_fst(rng):
    used = set()
    vs = []
    nvars = rng.randrange(2, 10)
    for k in range(nvars):
        r = rng.random()
        extra = {"direction": rng.choice([0, 0, 1, 2, 3, 4, 5])}
        if vs and r < 0.15:
            a = rng.randrange(len(vs))
            while vs[a].extra.get("alias_of") is not None:
                a = vs[a].extra["alias_of"]
            src = vs[a]
            v = fg.Var(fresh(rng, used), src.kind, rng=src.rng, alias_of=a,
                       vartype=fg.fst_vartype(src) if rng.random() < 0.5 or src.kind in ("real", "string") else rng.choice(BIT_CODES), **extra)
        elif r < 0.3:
            v = fg.Var(fresh(rng, used), "real", vartype=rng.choice(REAL_CODES), **extra)
        elif r < 0.4:
            if rng.random() < 0.5:
                extra["bin_str"] = True
            v = fg.Var(fresh(rng, used), "string", vartype=21, **extra)
        else:
            w = rng.choice([1, 1, 2, 3, 4, 7, 8, 9, 13, 16, 32, 33, 64, 70])
            rg = None if w == 1 and rng.random() < 0.7 else rng.choice([(w - 1, 0), (0, w - 1), (w + 3, 4)])
            v = fg.Var(fresh(rng, used), "logic", rng=rg, vartype=rng.choice(BIT_CODES), **extra)
            if rng.random() < 0.2:
                names = ["IDLE", "RUN", "DONE", "ERR"]
                v.extra["enum"] = (rng.choice(["state_t", "mode_t"]) + str(w),
                                   [(format(i, "0%db" % w), names[i]) for i in range(min(4, 2 ** w))])
            elif rng.random() < 0.25:
                dt = rng.choice([d for d, sc in VHDL_DT.items() if sc == (1 if w == 1 else 0) or d in (10, 14)])
                v.extra["vhdl"] = (rng.choice(["STD_LOGIC", "STD_LOGIC_VECTOR", "my_type", "UNSIGNED"]), rng.choice([0, 1]), dt)
        vs.append(v)
    # array-named variables: `mem[0]`, `mem [1] [7:0]`, `a[0][1]`: the loader opens an array scope per name and group; the
    # elements of one array are consecutive here, what follows (a variable, a scope, the end of the scope) varies
    units = []
    k = 0
    while k < len(vs):
        v = vs[k]
        ok_elem = lambda x: x.kind == "logic" and x.rng is not None and x.extra.get("alias_of") is None
        if rng.random() < 0.35 and ok_elem(v):
            n = 1
            while n < 3 and k + n < len(vs) and ok_elem(vs[k + n]) and rng.random() < 0.6:
                n += 1
            sep = rng.choice(["", " "])
            base = fresh(rng, used, "mem")
            elems = vs[k:k + n]
            lo = rng.choice([0, 1, 5])
            for j, e in enumerate(elems):
                e.name = "[%d]" % (lo + j)
            units.append(fg.Scope(base, elems, kind="fst_array", fst_array=sep))
            k += n
        else:
            units.append(v)
            k += 1
    top = []
    stack = [top]
    scopes = 0
    for v in units:
        if rng.random() < 0.3:
            extra = {}
            if rng.random() < 0.5:
                extra["component"] = rng.choice(["comp", "work.unit", "m"])
            if rng.random() < 0.3:
                extra["decl_src"] = (rng.choice(["/src/a.v", "/x/y.vhd"]), rng.randrange(1, 5000))
            if rng.random() < 0.3:
                extra["inst_src"] = (rng.choice(["/src/a.v", "/src/top.v"]), rng.randrange(1, 5000))
            s = fg.Scope(fresh(rng, used, "u"), [], kind=rng.choice(sorted(fg.FST_SCOPE)), **extra)
            stack[-1].append(s)
            stack.append(s.children)
            scopes += 1
        stack[-1].append(v)
        if len(stack) > 1 and rng.random() < 0.3:
            stack.pop()
    if not scopes or rng.random() < 0.5:
        top = [fg.Scope("top", top, kind="module")]
    items = top
    # alias positions refer to all_vars order = creation order (vars were appended in order)
    order = fg.all_vars(items)
    assert [id(x) for x in order] == [id(x) for x in vs]
    n = rng.randrange(2, 14)
    times = rand_times(rng, n)
    use_frame = rng.random() < 0.4 and any(v.kind != "string" and v.extra.get("alias_of") is None for v in vs)
    strings = {i for i, v in enumerate(vs) if v.kind == "string"}
    fill_history(rng, vs, times, skip_first=strings if use_frame else ())
    # block partition (over the times that actually carry a change)
    n = len(fg.events(items))
    sizes = []
    left = n
    while left:
        s = rng.randrange(1, left + 1) if rng.random() < 0.6 else left
        sizes.append(s)
        left -= s
    if use_frame and sizes[0] < 2:
        if len(sizes) > 1:
            sizes[1] -= 1
            sizes[0] += 1
            sizes = [s for s in sizes if s]
        else:
            use_frame = False
    if use_frame and sizes[0] < 2:
        use_frame = False
    if not use_frame:
        # strings that skipped the first time must not lose it: give them a first value now
        pass
    exponent = rng.choice([-15, -15, -12, -9, -10, -6, -3, -1, 0, 2])
    # a writer that flushes in the middle of a time step: that step closes one block and opens the next
    split = {}
    evs = fg.events(items)
    p0 = 0
    for bi, sz in enumerate(sizes):
        if bi > 0 and len(evs[p0][1]) >= 2 and rng.random() < 0.35:
            split[str(bi)] = rng.randrange(1, len(evs[p0][1]))
        p0 += sz
    opts = {"exponent": exponent, "blocks": sizes, "use_frame": use_frame, "hier": rng.choice(["gz", "lz4"]), "split": split,
            "zlib_values": rng.random() < 0.3, "zlib_times": rng.random() < 0.3, "zlib_geometry": rng.random() < 0.3}
    if rng.random() < 0.6:
        # handles of enum tables and ids of path names are arbitrary distinct numbers, not 1, 2, 3, ...
        opts["enum_handles"] = rng.sample(range(1, 40), 6)
        opts["path_ids"] = rng.sample(range(1, 40), 6)
    return items, opts


def fst_ts(exponent):
    if exponent >= 0:
        return "%de0" % (10 ** exponent)
    for unit in (-3, -6, -9, -12, -15):
        if exponent >= unit:
            return "%de%d" % (10 ** (exponent - unit), unit)
    raise ValueError(exponent)


# ----------------------------------------------------------------------------------------------- GHW specific (C11)
ENUMS = [("state_t", ["idle", "run", "done"]), ("boolean", ["false", "true"]), ("logic4", ["'0'", "'1'", "'X'", "'Z'"]),
         ("mvl", ["'U'", "'X'", "'0'", "'1'", "'Z'", "'W'", "'L'", "'H'", "'-'", "'?'"]), ("tri", ["'0'", "'1'", "'Z'"]),
         ("big_t", ["l%d" % i for i in range(17)]), ("one_t", ["only", "two"]), ("char2", ["a", "b"])]
PREFIX = "a_very_long_common_prefix_shared_by_several_identifiers_" + "of_a_design_with_deeply_nested_generate_blocks_and_ports_" + "x" * 30


def rand_ghw(rng):
    used = set()
    vs = []
    nvars = rng.randrange(2, 10)
    long_names = rng.random() < 0.5
    for k in range(nvars):
        r = rng.random()
        base = None
        if long_names and rng.random() < 0.7:
            base = PREFIX[:rng.choice([31, 32, 33, 40, 56, 62, 63, 64, 95, 96, 127, 128])] + rng.choice(["valid_in", "valid_out", "valid", "x", "data"])
        name = fresh(rng, used, base)
        extra = {"dir": rng.choice(["signal", "signal", "in", "out", "inout", "buffer", "linkage"])}
        if r < 0.35:
            w = rng.choice([1, 2, 3, 5, 7, 8, 9, 12, 16, 17, 33, 64, 65])
            lo = rng.choice([0, 0, 1, 4])
            rg = rng.choice([(lo + w - 1, lo), (lo, lo + w - 1)])
            kind = "logic" if rng.random() < 0.7 else "bit"
            tn = {"logic": rng.choice(["std_logic_vector", "std_ulogic_vector", "my_vec"]), "bit": rng.choice(["bit_vector", "bits_t"])}[kind]
            if rng.random() < 0.3:
                extra["subtype_name"] = rng.choice(["word_t", "byte_t", "nibble", "Addr_T"])
            v = fg.Var(name, kind, rng=rg, type_name=tn, **extra)
        elif r < 0.55:
            kind = "logic" if rng.random() < 0.7 else "bit"
            v = fg.Var(name, kind, **extra)
        elif r < 0.7:
            v = fg.Var(name, "int", **extra)
        elif r < 0.8:
            v = fg.Var(name, "real", **extra)
        else:
            tn, lits = rng.choice(ENUMS)
            v = fg.Var(name, "enum", literals=lits, type_name=tn, rtik=22 if len(lits) == 2 and rng.random() < 0.7 else 23, **extra)
        vs.append(v)
        # a variable that consists of signals of an earlier vector: the whole vector again or a sub-range of it
        parents = [p for p in vs if p.kind in ("logic", "bit") and p.rng is not None and p.width >= 2 and "slice_par" not in p.extra]
        if parents and rng.random() < 0.2:
            p = rng.choice(parents)
            a = rng.randrange(p.width)
            b = rng.randrange(a, p.width)
            if rng.random() < 0.2:
                a, b = 0, p.width - 1
            w = b - a + 1
            lo = rng.choice([0, 0, 2])
            crg = None if w == 1 and rng.random() < 0.5 else rng.choice([(lo + w - 1, lo), (lo, lo + w - 1)])
            tn = {"logic": "std_logic_vector" if crg else "std_ulogic", "bit": "bit_vector" if crg else "bit"}[p.kind]
            c = fg.Var(fresh(rng, used), p.kind, rng=crg, type_name=tn, dir=rng.choice(["signal", "in", "out"]), slice_par=[p, a, b])
            p.extra["plain"] = True
            vs.append(c)
    # composite signals: arrays of non-bit elements (a scope whose elements are labelled with their declared index, in the
    # declared direction) and records (a scope with one variable per field)
    import copy
    units = []
    k = 0
    while k < len(vs):
        v = vs[k]
        r = rng.random()
        if v.extra.get("plain") or "slice_par" in v.extra:
            units.append(v)
            k += 1
        elif r < 0.2 and not (v.kind in ("logic", "bit") and v.rng is None):
            n = rng.randrange(1, 5)
            by_enum = rng.random() < 0.25      # indexed by an enumeration: positions 0..129, labelled by position
            lo = rng.choice([0, 1, 60, 63, 64, 65, 120, 126]) if by_enum else rng.choice([0, 0, 1, 5])
            left, right = rng.choice([(lo + n - 1, lo), (lo, lo + n - 1)])
            step = -1 if left > right else 1
            elems = []
            for idx in range(left, right + step, step):
                e = copy.deepcopy(v)
                e.name = "[%d]" % idx
                elems.append(e)
            units.append(fg.Scope(v.name, elems, kind="ghw_array", dir=v.extra.get("dir", "signal"),
                                  composite=["array", left, right, rng.choice(["int_array", "mem_t", "arr_t"]) + "_" + v.kind + ("_e" if by_enum else ""),
                                             rng.choice([None, "sub_" + v.name]), by_enum]))
            k += 1
        elif r < 0.32 and k + 1 < len(vs) and not any(x.extra.get("plain") or "slice_par" in x.extra for x in vs[k:k + 3]):
            n = min(rng.randrange(2, 4), len(vs) - k)
            fields = list(vs[k:k + n])
            d = fields[0].extra.get("dir", "signal")
            for j, f in enumerate(fields):
                f.extra["dir"] = d
                if rng.random() < 0.25 and not (f.kind in ("logic", "bit") and f.rng is None):
                    # a field that is an array itself
                    m = rng.randrange(1, 4)
                    left, right = rng.choice([(m - 1, 0), (0, m - 1), (m + 1, 2)])
                    step = -1 if left > right else 1
                    elems = []
                    for idx in range(left, right + step, step):
                        e = copy.deepcopy(f)
                        e.name = "[%d]" % idx
                        elems.append(e)
                    fields[j] = fg.Scope(f.name, elems, kind="ghw_array", dir=d,
                                         composite=["array", left, right, "field_arr_" + f.kind, None])
            units.append(fg.Scope(fresh(rng, used, "rec"), fields, kind="ghw_record", dir=d,
                                  composite=["record", rng.choice(["rec_t", "pair_t", "bus_t"]) + "_%d" % k]))
            k += n
        else:
            units.append(v)
            k += 1
    # nested composites: an array of records, a record with an array among its fields, an array of arrays
    def set_dir(x, d):
        x.extra["dir"] = d
        if isinstance(x, fg.Scope):
            for c in x.children:
                set_dir(c, d)
    nested = []
    for u in units:
        comp = u.extra.get("composite") if isinstance(u, fg.Scope) else None
        if comp and rng.random() < 0.3:
            n = rng.randrange(1, 4)
            lo = rng.choice([0, 1, 5])
            left, right = rng.choice([(lo + n - 1, lo), (lo, lo + n - 1)])
            step = -1 if left > right else 1
            elems = []
            for idx in range(left, right + step, step):
                e = copy.deepcopy(u)
                e.name = "[%d]" % idx
                elems.append(e)
            outer = fg.Scope(u.name, elems, kind="ghw_array", dir=u.extra.get("dir", "signal"),
                             composite=["array", left, right, "arr_of_" + comp[0] + "_" + u.name, None])
            set_dir(outer, outer.extra["dir"])
            nested.append(outer)
        else:
            nested.append(u)
    units = nested
    top = []
    stack = [top]
    for v in units:
        if rng.random() < 0.3:
            kind = rng.choice(["instance", "package", "block", "generate_if", "generic", "generate_for"])
            s = fg.Scope(fresh(rng, used, "u"), [], kind=kind, **({"iter": rng.choice([0, 1, 7, -3, 300])} if kind == "generate_for" else {}))
            stack[-1].append(s)
            stack.append(s.children)
        if rng.random() < 0.1:
            stack[-1].append(fg.Scope(fresh(rng, used, "proc"), [], kind="process"))
        stack[-1].append(v)
        if len(stack) > 1 and rng.random() < 0.3:
            stack.pop()
    items = [fg.Scope("top", top, kind="instance")]
    vs = fg.all_vars(items)
    for v in vs:
        if "slice_par" in v.extra:
            p, a, b = v.extra.pop("slice_par")
            v.extra["slice_of"] = [next(k for k, x in enumerate(vs) if x is p), a, b]
        v.extra.pop("plain", None)
    # rounds: times with delta cycles (same time) allowed
    n = rng.randrange(2, 12)
    t = rng.choice([0, 0, 7])
    times = [t]
    for _ in range(n - 1):
        t += rng.choice([0, 0, 1, 5, 1000, 10 ** 6])
        times.append(t)
    cur = {}
    rounds = []
    for i, v in enumerate(vs):
        v.changes = []
    for ti, t in enumerate(times):
        chs = []
        for i, v in enumerate(vs):
            if "slice_of" in v.extra:
                continue
            if ti == 0 or rng.random() < 0.45:
                val = rand_value(rng, v, cur.get(i), rng.choice([2, 9, 9]))
                if ti > 0 and v.kind in ("logic", "bit") and val == cur.get(i):
                    continue          # an unchanged vector is not written at all
                cur[i] = val
                chs.append((i, val))
                v.changes.append((t, val))
        rounds.append((t, chs))
    # group rounds into sections
    sections = []
    for rd in rounds[1:]:
        if sections and rng.random() < 0.4:
            sections[-1].append(rd)
        else:
            sections.append([rd])
    # the first round is the snapshot; write_ghw takes it from events() -> first time must be unique to the snapshot
    if len(times) > 1 and times[1] == times[0]:
        pass
    opts = {"rounds": [[(t, [[i, val] for i, val in chs]) for t, chs in sec] for sec in sections],
            "snapshot": (rounds[0][0], [[i, val] for i, val in rounds[0][1]]),
            "share_strings": rng.random() < 0.8, "big_endian": rng.random() < 0.2}
    tt = sorted(set(times))
    return items, opts, tt


# ----------------------------------------------------------------------------------------------- runner
def prepare_dir(tag):
    d = os.path.join(FILES, tag)
    shutil.rmtree(d, ignore_errors=True)
    os.makedirs(d, exist_ok=True)
    return d


def write_case(d, k, case):
    """case: {fmt, spec, opts, tt?}; returns (command line, expected observation)"""
    items = from_spec(case["spec"])
    fmt = case["fmt"]
    opts = case.get("opts", {})
    path = os.path.join(d, "%05d.%s" % (k, fmt))
    if fmt == "vcd":
        if opts.get("exponent") is not None:
            e = opts["exponent"]
            unit = max(u for u in (0, -3, -6, -9, -12, -15) if u <= e) if e < 0 else 0
            text = "%d %s" % (10 ** (e - unit), {0: "s", -3: "ms", -6: "us", -9: "ns", -12: "ps", -15: "fs"}[unit])
            fg.write_vcd(path, items, timescale=text)
            return "wobs " + path + (" st" if opts.get("single_thread") else ""), fg.expected_wobs(items, ts=fst_ts(e))
        fg.write_vcd(path, items)
        if opts.get("pymtl3"):
            # the dialect of pymtl3: every binary value, 1-bit ones included, is written as `b0b<bits> <id>`
            import re
            text = open(path, "rb").read().decode("latin1")
            head, sep, body = text.partition("$enddefinitions $end")
            body = re.sub(r"(?m)^([01])(\S+)$", r"b0b\1 \2", body)
            body = re.sub(r"(?m)^b([01]+) (\S+)$", r"b0b\1 \2", body)
            open(path, "wb").write((head + sep + body).encode("latin1"))
        return "wobs " + path + (" st" if opts.get("single_thread") else ""), fg.expected_wobs(items)
    if fmt == "fst":
        chain = fg.write_fst(path, items, **opts)      # the file's own time chain (a time may be listed twice)
        if case.get("full"):
            return "wfull " + path, fg.expected_wfull(items, "fst", ts=fst_ts(opts.get("exponent", -15)), time_table=chain)
        return "wobs " + path, fg.expected_wobs(items, ts=fst_ts(opts.get("exponent", -15)), time_table=chain)
    if fmt == "ghw":
        o = dict(opts)
        if o.get("rounds") is not None:
            o["rounds"] = [[(t, [(i, val) for i, val in chs]) for t, chs in sec] for sec in o["rounds"]]
            o["snapshot"] = (o["snapshot"][0], [(i, val) for i, val in o["snapshot"][1]])
        fg.write_ghw(path, items, **o)
        if case.get("full"):
            return "wfull " + path, fg.expected_wfull(items, "ghw", time_table=case.get("tt"))
        return "wobs " + path, fg.expected_wobs(items, time_table=case.get("tt"))
    raise ValueError(fmt)


def first_diff(exp, got):
    e, g = exp.split(" "), got.split(" ")
    for k, (x, y) in enumerate(zip(e, g)):
        if x != y:
            return "item %d: expected %s got %s" % (k, x[:160], y[:160])
    return "expected %d items, got %d" % (len(e), len(g))


def fst_model_tie(res, paths, tag, model_ok, seed=1, what="generated"):
    """wellen's fst.rs against its model on FST files: the harness reads each file with the dependency fst-reader directly
    (hierarchy entry stream, time table, value-change callbacks = the inputs of fst.rs) and through wellen; the extracted
    model (Model/FstHier.v: read_hierarchy, convert_timescale, load_signals' time cursor and dispatch; Model/FstLoad.v:
    SignalWriter) is run on the former and must print what wellen reports."""
    if not model_ok or not paths:
        return
    for cmd, mcmd in (("fsthier", "fsth"), ("fstsig", "fstl")):
        lines = ["%s %s" % (cmd, p) + ("" if cmd == "fsthier" else " %d" % (seed + 7 * k)) for k, p in enumerate(paths)]
        outs = core.run_cases(core.WV_DEBUG, lines, tag + cmd, timeout=900)
        mlines, idx, loaded = [], [], []
        for k, o in enumerate(outs):
            if " || " not in o:
                kl = "fst-model-%s-%s" % (cmd, o.split(" ")[0][:12].lower())
                res.distribution[kl] = res.distribution.get(kl, 0) + 1
                continue
            raw, got = o.split(" || ", 1)
            f = dict(x.split("=", 1) for x in raw.split(" "))
            # the extracted model works on lists (the builder model is quadratic in the number of declarations)
            if (cmd == "fsthier" and f["entries"].count(";") > 700) or (cmd == "fstsig" and f["cbs"].count(";") > 40000):
                res.distribution["fst-model-%s-too-large-for-the-model" % cmd] = res.distribution.get("fst-model-%s-too-large-for-the-model" % cmd, 0) + 1
                continue
            if cmd == "fsthier":
                mlines.append("fsth 1 %s %s %s %s" % (f["entries"], f["date"], f["version"], f["exp"]))
            else:
                # String values reach the SignalWriter through String::from_utf8_lossy (std, not modelled: A-utf8); Python's
                # 'replace' follows the same substitution of maximal subparts
                handles = dict(zip(f["ids"].split(","), f["tpes"].split(",")))
                cbs = []
                for cb in ([] if f["cbs"] == "-" else f["cbs"].split(";")):
                    t, h, v = cb.split(":")
                    if handles.get(h) == "s" and v[0] == "s" and v != "s_":
                        v = "s" + bytes.fromhex(v[1:]).decode("utf-8", "replace").encode("utf-8").hex()
                    cbs.append("%s:%s:%s" % (t, h, v))
                mlines.append("fstl 1 %s %s %s %s" % (f["tt"], f["ids"], f["tpes"], ";".join(cbs) if cbs else "-"))
            idx.append(k)
            loaded.append(got)
        mouts = core.run_cases(core.MODEL_RUN, mlines, tag + mcmd, timeout=900)
        for k, got, ml, mo in zip(idx, loaded, mlines, mouts):
            res.evaluations += 1
            kl = "fst-model-%s-%s" % (cmd, what)
            res.distribution[kl] = res.distribution.get(kl, 0) + 1
            a, b = got, mo
            if cmd == "fsthier" and " sx=? " in mo:
                # a scope declared twice continues the first one: calls and scopes are not one to one, skip the locators
                a = " ".join(x for x in a.split(" ") if not x.startswith("sx="))
                b = " ".join(x for x in b.split(" ") if not x.startswith("sx="))
            if a != b:
                res.mismatches.append((ml[:6000], "wellen on %s: %s" % (lines[k], got[:3000]), "model of fst.rs: " + mo[:3000]))
            else:
                res.nontrivial.add((cmd, what, hash(ml)))


def ghw_model_tie(res, paths, tag, model_ok, what="generated", whole=True):
    """wellen's GHW loader against its model on GHW files: the header (strings, types, well-known types, hierarchy: harness
    `ghwhier` vs model `ghwh`, Model/GhwHier.v) and the whole file (`ghwfile` vs `ghwf`, Model/GhwFile.v: the signal sections
    read with the decode information of the modelled header)."""
    if not model_ok or not paths:
        return

    def abnormal(x):
        return x in ("PANIC", "CRASH-OR-HANG") or x.startswith("MODEL-")
    for cmd, mcmd in (("ghwhier", "ghwh"), ("ghwfile", "ghwf")) if whole else (("ghwhier", "ghwh"),):
        lines = ["%s %s" % (cmd, p) for p in paths]
        outs = core.run_cases(core.WV_DEBUG, lines, tag + cmd, timeout=900)
        mouts = core.run_cases(core.MODEL_RUN, ["%s 1 %s" % (mcmd, p) for p in paths], tag + mcmd, timeout=900)
        for ln, a, b in zip(lines, outs, mouts):
            res.evaluations += 1
            kl = "ghw-model-%s-%s-%s" % (cmd, what, "ok" if " " in a else a.lower()[:12])
            res.distribution[kl] = res.distribution.get(kl, 0) + 1
            if "efbfbd" in a:
                continue          # a name that is not valid UTF-8 (String::from_utf8_lossy is not modelled)
            if a != b and not (abnormal(a) and abnormal(b)):
                res.mismatches.append(("%s 1 %s" % (mcmd, ln.split(" ", 1)[1]), "wellen (%s): %s" % (cmd, a[:3000]), "model of the GHW loader: " + b[:3000]))
            else:
                res.nontrivial.add((cmd, what, ln if what != "generated" else hash(a)))


def ghw_corrupt_headers(rng, paths, d, per_file):
    """truncations and single-byte corruptions of the header part of GHW files (everything in front of the end-of-header
    mark; the 4 bytes that hold the number of signals are left alone: a huge table is an allocation matter)"""
    out = []
    for p in paths:
        data = open(p, "rb").read()
        eoh = data.find(b"EOH\0")
        hie = data.find(b"HIE\0")
        if eoh < 0 or hie < 0:
            continue
        # the count fields of the section headers are left alone: a huge count is an allocation matter (Vec::with_capacity
        # aborts the process under the address-space ceiling, the model reads on until the input ends)
        keep = set(range(hie + 8, hie + 20))
        for mark in (b"STR\0", b"TYP\0"):
            at = data.find(mark)
            if at >= 0:
                keep |= set(range(at + 8, at + 16))
        for k in range(per_file):
            q = os.path.join(d, "%s.bad%d" % (os.path.basename(p), k))
            di = data.rfind(b"DIR\0")
            if di > 0 and rng.random() < 0.2:
                # the directory and the tailer at the end of the file: the header reader follows the tailer to the directory
                # and insists on a well-formed one
                b = bytearray(data)
                if rng.random() < 0.2:
                    b = b[:rng.randrange(di, len(data))]
                else:
                    pos = rng.randrange(di, len(data))
                    b[pos] = rng.choice([0, 1, 2, 4, 8, 16, 0x44, 0x7f, 0x80, 0xff, (b[pos] + 1) % 256])
                open(q, "wb").write(bytes(b))
            elif rng.random() < 0.3:
                open(q, "wb").write(data[:rng.randrange(16, eoh + 4)])
            else:
                pos = rng.choice([x for x in range(16, eoh) if x not in keep])
                b = bytearray(data)
                b[pos] = rng.choice([0, 1, 2, 3, 5, 15, 16, 22, 23, 25, 31, 32, 34, 35, 127, 128, 255, (b[pos] + 1) % 256, b[pos] ^ 0x80])
                open(q, "wb").write(bytes(b))
            out.append(q)
    return out


def run_file_cases(res, cases, tag, timeout=900, release=False, with_files=None):
    """cases: list of {fmt, spec, opts, full?, tt?, key, klass}; every file is written, loaded and compared with the
    listing computed from the design"""
    d = prepare_dir(tag)
    lines, exps = [], []
    for k, c in enumerate(cases):
        ln, ex = write_case(d, k, c)
        lines.append(ln)
        exps.append(ex)
    outs = core.run_cases(core.WV_RELEASE if release else core.WV_DEBUG, lines, tag, timeout=timeout)
    for c, ln, ex, got in zip(cases, lines, exps, outs):
        res.evaluations += 1
        kl = c.get("klass", "file")
        res.distribution[kl] = res.distribution.get(kl, 0) + 1
        if c.get("key") is not None:
            res.nontrivial.add(c["key"])
        if got != ex:
            res.violations.append(({"filecase": {k: c[k] for k in ("fmt", "spec", "opts", "full", "tt") if k in c}}, got[:3000], ex[:3000],
                                   "a generated %s file does not load as the design it encodes (%s)" % (c["fmt"], first_diff(ex, got))))
    if len(res.samples) < 8 and cases:
        res.samples.append({"file-case": lines[0], "expected": exps[0][:400]})
    if with_files:
        with_files([ln.split(" ")[1] for ln in lines])
    shutil.rmtree(d, ignore_errors=True)
    return outs


# ----------------------------------------------------------------------------------------------- case lists per property
def _js(x):
    import json
    return json.loads(json.dumps(x))


def replay_filecase(res, payload, tag):
    """re-runs a stored file case (payload: the `case` object of a replay file); returns True when it was one"""
    case = payload.get("case") if isinstance(payload, dict) else None
    if isinstance(case, dict) and "filecase" in case:
        run_file_cases(res, [case["filecase"]], tag)
        return True
    return False


def tri_cases(rng, tier):
    cases = []
    n = 60 if tier == "quick" else 800
    designs = [("random", rand_tri(rng)) for _ in range(n)]
    designs += [("same-step-vectors", scenario_same_step_vectors(rng)) for _ in range(4 if tier == "quick" else 40)]
    for w in (2, 3, 5, 6, 7, 9, 10, 11, 13, 14, 15, 17, 33):
        designs.append(("kind-order", scenario_kind_order(rng, w)))
    designs.append(("long-idle", scenario_long_idle(rng, 16500 if tier == "quick" else 70000)))
    for k, (klass, items) in enumerate(designs):
        spec = _js(to_spec(items))
        for fmt in ("vcd", "fst", "ghw"):
            cases.append({"fmt": fmt, "spec": spec, "opts": {}, "klass": "file-%s-%s" % (fmt, klass), "key": ("tri", klass, k)})
        if klass != "random" or k % 4 == 0:
            cases.append({"fmt": "vcd", "spec": spec, "opts": {"single_thread": True}, "klass": "file-vcd-st-%s" % klass, "key": ("tri", klass, k)})
        if klass == "random" and k % 5 == 1:
            cases.append({"fmt": "vcd", "spec": spec, "opts": {"pymtl3": True}, "klass": "file-vcd-pymtl3-dialect", "key": ("tri-pymtl3", k)})
        if klass == "random" and k % 3 == 0:
            # the same design under another time scale (VCD and FST can express it; a GHW file is always in fs)
            e = [-14, -13, -12, -11, -10, -9, -8, -7, -6, -5, -4, -3, -2, -1, 0, 1, 2][(k // 3) % 17]
            for fmt in ("vcd", "fst"):
                cases.append({"fmt": fmt, "spec": spec, "opts": {"exponent": e}, "klass": "file-%s-timescale" % fmt, "key": ("tri-ts", e, k)})
    return cases


def fst_cases(rng, tier):
    cases = []
    for k in range(150 if tier == "quick" else 3000):
        items, opts = rand_fst(rng)
        cases.append({"fmt": "fst", "spec": _js(to_spec(items)), "opts": opts, "full": True,
                      "klass": "file-fst-random-shared-step" if opts.get("split") else "file-fst-random",
                      "key": ("fst", k) if len(opts["blocks"]) > 1 or opts["use_frame"] else None})
    for w in (2, 3, 5, 6, 7, 9, 10, 11, 13, 14, 15, 17, 33):
        items = scenario_kind_order(rng, w)
        cases.append({"fmt": "fst", "spec": _js(to_spec(items)), "opts": {"blocks": [2, 3]}, "full": True,
                      "klass": "file-fst-kind-order", "key": ("fst-kind", w)})
    # every variable type code, every direction, every scope type once
    vs = []
    for code in range(30):
        if code in (18, 19):
            continue
        kind = "real" if code in REAL_CODES else ("string" if code == 21 else "logic")
        v = fg.Var("v%d" % code, kind, rng=(3, 0) if kind == "logic" else None, vartype=code, direction=code % 6)
        vs.append(v)
    items = [fg.Scope("s_%s" % k, [], kind=k) for k in sorted(fg.FST_SCOPE)]
    items.append(fg.Scope("top", vs, kind="module"))
    fill_history(rng, vs, [0, 10, 20, 35])
    cases.append({"fmt": "fst", "spec": _js(to_spec(items)), "opts": {"blocks": [2, 2]}, "full": True,
                  "klass": "file-fst-all-type-codes", "key": ("fst-all-codes",)})
    return cases


def ghw_cases(rng, tier):
    cases = []
    for k in range(150 if tier == "quick" else 3000):
        items, opts, tt = rand_ghw(rng)
        delta = len(tt) < 1 + sum(len(sec) for sec in opts["rounds"])
        cases.append({"fmt": "ghw", "spec": _js(to_spec(items)), "opts": _js(opts), "full": True, "tt": tt,
                      "klass": "file-ghw-random", "key": ("ghw", k) if delta else None})
    for k in range(4 if tier == "quick" else 40):
        items = scenario_same_step_vectors(rng)
        cases.append({"fmt": "ghw", "spec": _js(to_spec(items)), "opts": {}, "full": True, "klass": "file-ghw-same-step-vectors",
                      "key": ("ghw-same-step", k)})
    return cases
