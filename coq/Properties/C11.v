(* Property C11: GHW files load faithfully.  Pinned: the store side of the GHW value path - a correctly packed
   vector handed to SignalEncoder::add_n_bit_change is re-packed into the least sufficient kind (check_min_state,
   compress_template) and appended as one stream entry; with storage_transparent (Properties/C04.v, raw value
   changes are part of its histories) the loaded signal reports exactly those symbols.
   Also pinned: the vector buffer - writing one per-bit record (VecBuffer::set_value) is writing one symbol of the
   vector (first declared element leftmost) and keeps the buffer correctly packed (ve_set_spec, ve_get_spec).
   vec_update_spec / finish_time_step_spec: one per-bit record, and the end of a time step, hand the store only raw changes
   that carry the packed form of the vector's symbols at that moment (the premise `op_ok` of storage_transparent for
   raw changes) and keep every vector of the buffer packed.
   read_signals_ops / read_signals_time_table (Proofs/GhwProofs.v): whatever the section bytes are, when read_signals
   succeeds its blocks and time table are what finishing an encoder yields after a history of time stamps, raw changes
   carrying the packed form of valid symbols, and doubles of 8 bytes (every value type: std_logic and bit scalars and vector
   elements, 8-bit enumerations, integers, reals; snapshot, cycle, directory and tailer sections); hence the time table is
   the strictly increasing list of accepted time stamps, and the storage theorems of C04 apply to each signal.
   time_step_spec (Proofs/VecStepProofs.v), the schedule: over a whole time step - the per-bit records in file order, then
   finish_time_step - an untouched vector hands the store nothing and keeps its symbols, every value handed over is the
   vector's symbols at that moment, and the last value handed over for a touched vector is its final symbols, i.e. the
   symbols obtained by writing the records in order (first declared element leftmost); afterwards no vector is marked as
   changed.  vec_update_exact is the per-record description (is_second_change: a second, different write of an element
   first hands over the value before it - a delta glitch stays visible; full_signal_has_changed: early hand-over).
   cycle_signals_vectors / cycle_vectors_step (Proofs/GhwCycleProofs.v), from the bytes: the value part of a cycle - records
   `LEB128(distance to the previous record's signal) value-byte`, ended by distance 0 - that addresses elements of std_logic /
   bit vectors makes exactly the vector-buffer updates time_step_spec speaks about, in file order, the element's GHW signal
   index being the running sum of the distances minus one and the symbol the STD_LOGIC_LUT code of the byte (or the bit);
   composed with time_step_spec: what the store is handed for such a cycle, stated on its bytes.
   cycle_loop_vectors: a whole run of such cycles (each `records, 0, signed LEB128 distance to the next time`, the last one
   negative) hands the store, per cycle, its time stamp followed by the trace of that step (cycles_spec) - a distance of 0
   (a delta cycle) repeats the time stamp, which C02's table theorem turns into the same time index.
   snapshot_vectors: the snapshot section (one value byte per signal, in signal order) of vector elements is the same kind of
   update script.
   The hierarchy side (Model/GhwHier.v: string table, type table, well-known types, hierarchy section, signal tracker - all of
   ghw/hierarchy.rs; Model/GhwFile.v composes it with the signal sections into the load of a whole file) is tied to the code
   on generated, corpus and corrupted files; pinned about it (Proofs/GhwHierProofs.v): array_labels - the elements of an
   array signal are visited in declaration order and the k-th one is labelled with its declared index, left - k for a
   descending and left + k for an ascending range (finding D20 and its repair); record_fields - the fields of a record in
   declaration order under their names; string_table_decoded (Proofs/GhwStringProofs.v) - the strings of the prefix-compressed
   string table are reconstructed whatever the shared lengths, one byte of length code or several; enum_bits_spec / enum_lits_codes - an enumeration of n literals is as many bits wide
   as n - 1 needs and its k-th literal has the binary code k.
   header_decode_info_ok / ghw_file_store_ops (Proofs/GhwFileProofs.v): the decode information the header reader produces
   satisfies the premise sigs_ok of the section theorems - the signal tracker's invariant through every registration, composite
   signals included -, so that for a whole file read_signals_ops and read_signals_time_table hold with no assumption about the header.
   NOT proved: a description of the hierarchy of every declaration in terms of its type beyond these clauses; the same
   composition with the store theorems for the scalar value types (cycle_signals_records reads their records as single store
   operations; read_signals_ops /
   read_signals_time_table give well-formedness and the time table for all of them), the hierarchy; those are decided by the correspondence run on signal sections and by the GHW
   file generator (MANIFEST level_note). *)
From WV Require Import Generated.Consts Model.Base Model.Bits Model.WaveMem Model.Ghw Spec.TimeSpec Proofs.TimeTableProofs Proofs.BitsProofs Proofs.StoreProofs Proofs.RawProofs Proofs.VecProofs Proofs.VecStepProofs Proofs.GhwProofs Proofs.GhwCycleProofs Model.Leb128
  Model.Hierarchy Model.FstHier Model.GhwAlias Model.GhwHier Proofs.GhwHierProofs Proofs.GhwStringProofs Model.GhwFile Proofs.GhwFileProofs Proofs.GhwExample.
From Coq Require Import Sorted List. Import ListNotations.
Open Scope N_scope.

Check compress_template_spec :
  forall in_st out_st syms, small_syms in_st syms ->
  compress_template (write_n_state_loop in_st syms 0 None) in_st out_st (length syms)
  = Ok (write_n_state_loop out_st syms 0 None).

Check check_min_state_spec :
  forall st syms, small_syms st syms -> Forall (fun v => v <= 8) syms ->
  let m := check_min_state (write_n_state_loop st syms 0 None) st in
  small_syms m syms /\ states_num m <= states_num st /\
  (forall st', small_syms st' syms -> states_num m <= states_num st').

Check add_n_bit_change_entry :
  forall se t st syms bits se', se_tpe se = EncBits bits -> (1 <= bits)%nat ->
  length syms = bits -> small_syms st syms -> Forall (fun v => v <= 8) syms ->
  add_n_bit_change se t (write_n_state_loop st syms 0 None) st = Ok se' ->
  exists l,
    small_syms l syms /\ states_num l <= states_num st /\
    (forall l', small_syms l' syms -> states_num l <= states_num l') /\
    se_prev se <= t /\
    se_data se' = se_data se ++ enc_entry bits (t - se_prev se, l, write_n_state_loop l syms 0 None) /\
    (bits = 1%nat -> l = from_value (hd 0 syms)) /\
    se_tpe se' = se_tpe se /\ se_prev se' = t /\ se_max se' = join (se_max se) st.

(* VecBuffer::set_value / get_value on a vector whose buffer is the packed form of `syms`: bit 0 is the last declared
   element; the result is again the packed form (of the updated symbol list) *)
Check ve_set_spec :
  forall v syms bit value, vinv v syms -> (bit < ve_bits v)%nat -> value < 2 ^ sbits (ve_states v) ->
  ve_set_value v bit value = Ok (write_n_state_loop (ve_states v) (list_update syms (ve_bits v - 1 - bit) value) 0 None).
Check ve_get_spec :
  forall v syms bit, vinv v syms -> (bit < ve_bits v)%nat ->
  ve_get_value v bit = Ok (nth (ve_bits v - 1 - bit) syms 0).

(* one per-bit record through VecBuffer *)
Check vec_update_spec :
  forall parse_f64 lz_compress cap vb e vec_id signal_index value sref st vb' e' S v,
  vbinv vb S -> nth_error (vb_vecs vb) vec_id = Some v -> st = ve_states v ->
  value < 2 ^ sbits (ve_states v) -> value <= 8 ->
  vec_update vb e vec_id signal_index value sref st = Ok (vb', e') ->
  exists ops syms bit,
    nth_error S vec_id = Some syms /\ bit_of v signal_index = Ok bit /\ (bit < ve_bits v)%nat /\
    run_ops parse_f64 lz_compress cap e ops = Ok e' /\ Forall packed_raw ops /\ (length ops <= 2)%nat /\
    vbinv vb' (list_update S vec_id (list_update syms (ve_bits v - 1 - bit) value)).

(* the end of a time step *)
Check finish_time_step_spec :
  forall parse_f64 lz_compress cap vb e vb' e' S, vbinv vb S ->
  finish_time_step vb e = Ok (vb', e') ->
  exists ops, run_ops parse_f64 lz_compress cap e ops = Ok e' /\ Forall packed_raw ops /\ vbinv vb' S.

(* the signal sections as a whole *)
Check read_signals_ops :
  forall parse_f64 lz_compress cap big_endian tpes sigs vectors input blocks ttb,
  sigs_ok sigs (map (fun v : nat * nat * bool * nat => if snd (fst v) then Two else Nine) vectors) -> bytes_ok input ->
  read_signals lz_compress cap big_endian tpes sigs vectors input = Ok (Some (blocks, ttb)) ->
  exists ops e', run_ops parse_f64 lz_compress cap (enc_new tpes) ops = Ok e' /\ Forall ghw_op_ok ops /\
                 enc_finish lz_compress e' = Ok (blocks, ttb).

Check read_signals_time_table :
  forall (parse_f64 : list byte -> option (list byte)) lz_compress cap, 1 <= cap ->
  forall big_endian tpes sigs vectors input blocks ttb,
  sigs_ok sigs (map (fun v : nat * nat * bool * nat => if snd (fst v) then Two else Nine) vectors) -> bytes_ok input ->
  read_signals lz_compress cap big_endian tpes sigs vectors input = Ok (Some (blocks, ttb)) ->
  exists ops, Forall ghw_op_ok ops /\ ttb = accepted (times_of ops) /\ StronglySorted N.lt ttb.


(* the vector buffer over a whole time step *)
Check time_step_spec :
  forall (parse_f64 : list byte -> option (list byte)) (lz_compress : list byte -> list byte) (cap : N) (vecs0 : list vec_entry)
         vb S e script vb1 e1 vb2 e2,
  vecs0 = vb_vecs vb -> vbinv vb S -> vb_change_list vb = [] ->
  (forall id v, nth_error (vb_vecs vb) id = Some v -> ve_signal_change v = false) ->
  Forall (value_ok vecs0) script ->
  run_updates vb e script = Ok (vb1, e1) -> finish_time_step vb1 e1 = Ok (vb2, e2) ->
  let S2 := fold_left (apply_update vecs0) script S in
  let touched := map (fun u : nat * nat * N => fst (fst u)) script in
  exists T,
    run_ops parse_f64 lz_compress cap e (ops_of_trace vecs0 T) = Ok e2 /\
    vbinv vb2 S2 /\ vb_change_list vb2 = [] /\
    (forall id v, nth_error (vb_vecs vb2) id = Some v -> ve_signal_change v = false) /\
    (forall id syms, nth_error S2 id = Some syms -> In id touched -> last_opt (for_id id T) = Some syms) /\
    (forall id, ~ In id touched -> for_id id T = [] /\ nth_error S2 id = nth_error S id).

(* the vocabulary *)
Check (eq_refl : ops_of_trace = fun vecs T =>
  map (fun p : nat * list N => match nth_error vecs (fst p) with
                | Some v => OpRaw (ve_ref v) (pk (ve_states v) (snd p)) (ve_states v)
                | None => OpTime 0
                end) T).
Check (eq_refl : for_id = fun id T => map snd (filter (fun p : nat * list N => Nat.eqb (fst p) id) T)).
Check (eq_refl : pk = fun st syms => write_n_state_loop st syms 0 None).
Check (eq_refl : apply_update = fun vecs0 S u =>
  let '(vid, si, value) := u in
  match nth_error vecs0 vid, nth_error S vid with
  | Some v, Some syms => list_update S vid (list_update syms (ve_bits v - 1 - (ve_max_index v - si)) value)
  | _, _ => S
  end).

(* from the bytes of a cycle to the updates of the vector buffer *)
Check cycle_signals_vectors :
  forall sigs rs pos vb e rest script fuel,
  script_of sigs pos rs = Some script -> recs_ok pos rs -> consistent sigs vb -> (length rs < fuel)%nat ->
  cycle_signals fuel sigs pos vb e (concat (map rec_bytes rs) ++ 0 :: rest)
  = match run_updates vb e script with
    | Ok (vb', e') => Ok (Some (vb', e', rest))
    | Err => Err
    | Panic => Panic
    end.
Check cycle_vectors_step :
  forall (lz_compress : list byte -> list byte) (cap : N) (parse_f64 : list byte -> option (list byte))
         sigs rs vb SS e rest script vb1 e1 rest' vb2 e2,
  script_of sigs 0 rs = Some script -> recs_ok 0 rs -> consistent sigs vb ->
  vbinv vb SS -> vb_change_list vb = [] ->
  (forall id v, nth_error (vb_vecs vb) id = Some v -> ve_signal_change v = false) ->
  cycle_signals (S (length rs)) sigs 0 vb e (concat (map rec_bytes rs) ++ 0 :: rest) = Ok (Some (vb1, e1, rest')) ->
  finish_time_step vb1 e1 = Ok (vb2, e2) ->
  rest' = rest /\
  let vecs0 := vb_vecs vb in
  let S2 := fold_left (apply_update vecs0) script SS in
  let touched := map (fun u : nat * nat * N => fst (fst u)) script in
  exists T,
    run_ops parse_f64 lz_compress cap e (ops_of_trace vecs0 T) = Ok e2 /\
    vbinv vb2 S2 /\ vb_change_list vb2 = [] /\
    (forall id v, nth_error (vb_vecs vb2) id = Some v -> ve_signal_change v = false) /\
    (forall id syms, nth_error S2 id = Some syms -> In id touched -> last_opt (for_id id T) = Some syms) /\
    (forall id, ~ In id touched -> for_id id T = [] /\ nth_error S2 id = nth_error SS id).
Check (eq_refl : rec_bytes = fun r => leb_write (fst r) ++ [snd r]).
Check (eq_refl : script_of = fix script_of sigs pos rs :=
  match rs with
  | [] => Some []
  | (delta, g) :: r =>
    let pos' := pos + delta in
    match nth_error sigs (N.to_nat (pos' - 1)) with
    | Some info =>
      match gs_vec info, vec_value (gs_tpe info) g, script_of sigs pos' r with
      | Some vid, Some (value, _), Some s => Some ((vid, N.to_nat (pos' - 1), value) :: s)
      | _, _, _ => None
      end
    | None => None
    end
  end).
Check (eq_refl : vec_value = fun t g =>
  match t with
  | GNineVec => option_map (fun v => (v, Nine)) (nth_error std_logic_lut (N.to_nat g))
  | GTwoVec => if 1 <? g then None else Some (g, Two)
  | _ => None
  end).
Check cycle_vectors_example.


(* records of every value type: scalars and enumerations are handed to the store as one symbol, integers as the 64-bit two's
   complement of the signed LEB128 number, reals as the 8 bytes of the double; vector elements update the buffer *)
Check cycle_signals_records :
  forall sigs rs pos vb e rest effs fuel,
  effs_of sigs pos rs = Some effs -> grecs_ok sigs pos rs -> consistent sigs vb -> (length rs < fuel)%nat ->
  cycle_signals fuel sigs pos vb e (concat (map grec_bytes rs) ++ 0 :: rest)
  = match run_effs vb e effs with
    | Ok (vb', e') => Ok (Some (vb', e', rest))
    | Err => Err
    | Panic => Panic
    end.
Check (eq_refl : payload_eff = fun info si payload =>
  match gs_tpe info, payload with
  | GNine, [g] => option_map (fun v => ERaw (gs_ref info) [v] Nine) (nth_error std_logic_lut (N.to_nat g))
  | GTwo, [g] => if 1 <? g then None else Some (ERaw (gs_ref info) [g] Two)
  | GU8, [g] => Some (ERaw (gs_ref info) [g] Two)
  | (GNineVec | GTwoVec), [g] =>
      match gs_vec info, vec_value (gs_tpe info) g with
      | Some vid, Some (value, _) => Some (EUpd vid si value)
      | _, _ => None
      end
  | GLeb, _ => match sleb_read payload with
               | Some (z, []) => Some (ERaw (gs_ref info) (be_bytes 8 (u64_of_z z)) Two)
               | _ => None
               end
  | GF64, _ => if Nat.eqb (length payload) 8 then Some (EReal (gs_ref info) payload) else None
  | _, _ => None
  end).


(* a whole cycle section with records of every type is the abstract run of its cycles: per cycle the time stamp, the records
   in file order, the end of the time step, then the signed distance to the next time (negative: the last cycle) *)
Check cycle_loop_records :
  forall lz_compress cap sigs cs time vb e rest fuel,
  cs <> [] -> Forall gdt_ok cs -> Forall (fun c => grecs_ok sigs 0 (gc_recs c) /\ effs_of sigs 0 (gc_recs c) <> None) cs ->
  (forall c, In c (removelast cs) -> (0 <= gc_dt c)%Z) -> (gc_dt (last cs (mk_gcyc [] [] 0)) < 0)%Z ->
  consistent sigs vb -> (length cs <= fuel)%nat ->
  cycle_loop lz_compress cap fuel sigs time vb e (concat (map gcyc_bytes cs) ++ rest)
  = match run_cycles lz_compress cap sigs time vb e cs with
    | Ok (Some (vb', e')) => Ok (Some (vb', e', rest))
    | Ok None => Ok None
    | Err => Err
    | Panic => Panic
    end.
Check (eq_refl : run_cycles = fix run_cycles lz_compress cap sigs time vb e cs :=
  match cs with
  | [] => Ok None
  | c :: r =>
    match effs_of sigs 0 (gc_recs c) with
    | None => Ok None
    | Some effs =>
      do e1 <- time_change lz_compress cap e time;
      do '(vb1, e2) <- run_effs vb e1 effs;
      do '(vb3, e3) <- finish_time_step vb1 e2;
      if (gc_dt c <? 0)%Z then Ok (Some (vb3, e3))
      else run_cycles lz_compress cap sigs (u64_wrap (time + Z.to_N (gc_dt c))) vb3 e3 r
    end
  end).




(* the signal part of a file as a whole: snapshot section, cycle sections, directory, tailer *)
Check ghw_body_run :
  forall lz_compress cap be sigs ps t8 effs ss dt vb e f,
  length t8 = 8%nat -> length ps = length sigs ->
  snap_effs sigs 0 ps = Some effs -> snap_ok sigs 0 ps -> consistent sigs vb ->
  Forall (csec_ok sigs) ss -> dir_tail_ok be dt -> (length ss + 3 <= f)%nat ->
  sections lz_compress cap f be sigs vb e
           (SNP ++ [0; 0; 0; 0] ++ t8 ++ concat ps ++ ESN ++ concat (map csec_bytes ss) ++ dt)
  = do e1 <- time_change lz_compress cap e (read_int be t8);
    do '(vb2, e2) <- run_effs vb e1 effs;
    do '(vb3, e3) <- finish_time_step vb2 e2;
    match run_sections lz_compress cap be sigs vb3 e3 ss with
    | Ok (Some (_, e')) => Ok (Some e')
    | Ok None => Ok None
    | Err => Err
    | Panic => Panic
    end.
Check (eq_refl : run_sections = fix run_sections lz_compress cap be sigs vb e ss :=
  match ss with
  | [] => Ok (Some (vb, e))
  | s :: r =>
    do x <- run_cycles lz_compress cap sigs (read_int be (fst s)) vb e (snd s);
    match x with
    | Some (vb', e') => run_sections lz_compress cap be sigs vb' e' r
    | None => Ok None
    end
  end).
Check (eq_refl : csec_bytes = fun s => CYC ++ fst s ++ concat (map gcyc_bytes (snd s)) ++ ECY).
Check (eq_refl : csec_ok = fun sigs s =>
  length (fst s) = 8%nat /\ snd s <> [] /\ Forall gdt_ok (snd s) /\
  Forall (fun c => grecs_ok sigs 0 (gc_recs c) /\ effs_of sigs 0 (gc_recs c) <> None) (snd s) /\
  (forall c, In c (removelast (snd s)) -> (0 <= gc_dt c)%Z) /\ (gc_dt (last (snd s) (mk_gcyc [] [] 0)) < 0)%Z).
Check (eq_refl : dir_tail_ok = fun be dt =>
  exists h4 nb entries tail junk,
    dt = DIR ++ h4 ++ nb ++ entries ++ EOD ++ TAI ++ tail ++ junk /\
    length h4 = 4%nat /\ length nb = 4%nat /\ read_int be nb < 2147483648 /\
    length entries = (N.to_nat (read_int be nb) * 8)%nat /\
    dir_entries_ok be (N.to_nat (read_int be nb)) (entries ++ EOD ++ TAI ++ tail ++ junk) = true /\ (8 <= length tail)%nat).

(* the snapshot section with signals of every type: `SNP\0`, four zero bytes, the time, one value per signal in signal order,
   `ESN\0` - the time stamp, the values as store operations / buffer updates in signal order, the end of the step *)
Check section_snapshot :
  forall lz_compress cap be sigs ps t8 vb e rest f effs,
  length t8 = 8%nat -> length ps = length sigs ->
  snap_effs sigs 0 ps = Some effs -> snap_ok sigs 0 ps -> consistent sigs vb ->
  sections lz_compress cap (S f) be sigs vb e (SNP ++ [0; 0; 0; 0] ++ t8 ++ concat ps ++ ESN ++ rest)
  = do e1 <- time_change lz_compress cap e (read_int be t8);
    match run_effs vb e1 effs with
    | Ok (vb2, e2) => do '(vb3, e3) <- finish_time_step vb2 e2; sections lz_compress cap f be sigs vb3 e3 rest
    | Err => Err
    | Panic => Panic
    end.
Check snapshot_records :
  forall sigs ps idx vb e rest effs,
  snap_effs sigs idx ps = Some effs -> snap_ok sigs idx ps -> consistent sigs vb ->
  snapshot_signals sigs (length ps) idx vb e (concat ps ++ rest)
  = match run_effs vb e effs with
    | Ok (vb', e') => Ok (Some (vb', e', rest))
    | Err => Err
    | Panic => Panic
    end.

(* a cycle section inside the sequence of sections: `CYC\0`, the 8 bytes of the first time, the cycles, `ECY\0` *)
Check section_cycles :
  forall lz_compress cap be sigs cs t8 vb e rest f,
  length t8 = 8%nat ->
  cs <> [] -> Forall gdt_ok cs -> Forall (fun c => grecs_ok sigs 0 (gc_recs c) /\ effs_of sigs 0 (gc_recs c) <> None) cs ->
  (forall c, In c (removelast cs) -> (0 <= gc_dt c)%Z) -> (gc_dt (last cs (mk_gcyc [] [] 0)) < 0)%Z ->
  consistent sigs vb ->
  sections lz_compress cap (S f) be sigs vb e (CYC ++ t8 ++ concat (map gcyc_bytes cs) ++ ECY ++ rest)
  = match run_cycles lz_compress cap sigs (read_int be t8) vb e cs with
    | Ok (Some (vb', e')) => sections lz_compress cap f be sigs vb' e' rest
    | Ok None => Ok None
    | Err => Err
    | Panic => Panic
    end.

(* a whole cycle section: several cycles, each `records, 0, signed LEB128 distance to the next time` (negative: the last) *)
Check cycle_loop_vectors :
  forall (parse_f64 : list byte -> option (list byte)) (lz_compress : list byte -> list byte) (cap : N)
         vecs0 sigs cs time vb SS e rest fuel vb' e' rest',
  dts_shape cs -> Forall dt_ok cs ->
  Forall (fun c => recs_ok 0 (c_recs c) /\ exists script, script_of sigs 0 (c_recs c) = Some script) cs ->
  same_shape vecs0 (vb_vecs vb) -> consistent sigs vb -> vbinv vb SS -> vb_change_list vb = [] ->
  (forall id v, nth_error (vb_vecs vb) id = Some v -> ve_signal_change v = false) ->
  (length cs <= fuel)%nat ->
  cycle_loop lz_compress cap fuel sigs time vb e (concat (map cyc_bytes cs) ++ rest) = Ok (Some (vb', e', rest')) ->
  rest' = rest /\
  exists ops Sf,
    cycles_spec vecs0 sigs time SS cs ops Sf /\ run_ops parse_f64 lz_compress cap e ops = Ok e' /\
    vbinv vb' Sf /\ same_shape vecs0 (vb_vecs vb') /\ vb_change_list vb' = [] /\
    (forall id v, nth_error (vb_vecs vb') id = Some v -> ve_signal_change v = false).
Check (CsLast :
  forall vecs0 sigs c time SS script T,
  (c_dt c < 0)%Z -> script_of sigs 0 (c_recs c) = Some script -> step_ok vecs0 SS script T ->
  cycles_spec vecs0 sigs time SS [c] (OpTime time :: ops_of_trace vecs0 T) (fold_left (apply_update vecs0) script SS)).
Check (CsMore :
  forall vecs0 sigs c cs time SS script T ops Sf,
  (0 <= c_dt c)%Z -> script_of sigs 0 (c_recs c) = Some script -> step_ok vecs0 SS script T ->
  cycles_spec vecs0 sigs (u64_wrap (time + Z.to_N (c_dt c))) (fold_left (apply_update vecs0) script SS) cs ops Sf ->
  cycles_spec vecs0 sigs time SS (c :: cs) (OpTime time :: ops_of_trace vecs0 T ++ ops) Sf).
Check (eq_refl : step_ok = fun vecs0 SS script T =>
  let S2 := fold_left (apply_update vecs0) script SS in
  let touched := map (fun u : nat * nat * N => fst (fst u)) script in
  (forall id syms, nth_error S2 id = Some syms -> In id touched -> last_opt (for_id id T) = Some syms) /\
  (forall id, ~ In id touched -> for_id id T = [] /\ nth_error S2 id = nth_error SS id)).

(* the snapshot section: one value byte per signal, in signal order *)
Check snapshot_vectors :
  forall sigs bs idx vb e rest script,
  snap_script sigs idx bs = Some script -> consistent sigs vb ->
  snapshot_signals sigs (length bs) idx vb e (bs ++ rest)
  = match run_updates vb e script with
    | Ok (vb', e') => Ok (Some (vb', e', rest))
    | Err => Err
    | Panic => Panic
    end.
Check (eq_refl : cyc_bytes = fun c => concat (map rec_bytes (c_recs c)) ++ 0 :: c_dt_bytes c).
Check (eq_refl : dt_ok = fun c => forall rest, sleb_read (c_dt_bytes c ++ rest) = Some (c_dt c, rest)).

(* the hierarchy reader *)
Check array_labels :
  forall h downto l r g inp fuel2,
  let rg := IR downto l r in
  let '(s, e) := ir_start_end rg in
  (Z.to_nat (e - s) < fuel2)%nat -> (0 <= e - s)%Z ->
  array_loop h fuel2 s e downto 0%Z g inp = feed h (map index_name (declared_ids rg)) g inp.
Check (eq_refl : declared_ids = fun rg =>
  match rg with
  | IR true l r => map (fun k => (l - Z.of_nat k)%Z) (seq 0 (Z.to_nat (l - r + 1)))
  | IR false l r => map (fun k => (l + Z.of_nat k)%Z) (seq 0 (Z.to_nat (r - l + 1)))
  end).
Check declared_ids_example.
Check record_fields :
  forall h strings fs names g inp,
  Forall2 (fun f n => nthN strings (fst f) = Some n) fs names ->
  record_loop h strings fs g inp = feed_fields h (combine names (map snd fs)) g inp.

(* a signal of a scalar or vector type becomes exactly one variable *)
Check ghw_leaf_var :
  forall debug f strings types max_id dir g nm tid inp ty tn vt enc idx g' r,
  get_type_and_name debug strings types tid = Ok (ty, tn) ->
  leaf_shape ty tn = Some (vt, enc, idx) ->
  (match ty with TNineVec _ rg | TBitVec _ rg => Z.to_N (Z.abs (ir_len rg)) mod 4294967296 <> 0 /\
                                                  (match rg with IR _ l rr => (-2147483648 < l - rr < 2147483648)%Z end)
            | _ => True end) ->
  add_var debug (S f) strings types max_id dir g nm tid inp = Ok (g', r) ->
  exists ref, g_calls g' = g_calls g ++ [FcVar nm vt dir enc idx ref None (Some tn)].
Check (eq_refl : leaf_shape = fun ty tn =>
  match ty with
  | TNineBit _ | TBit _ => Some (bit_var_type tn, EncBits 1, None)
  | TI32 _ _ => Some (VarType_Integer, EncBits 32, None)
  | TF64 _ => Some (VarType_Real, EncReal, None)
  | TNineVec _ (IR _ l r) | TBitVec _ (IR _ l r) =>
      Some (vec_var_type tn, bits_enc (Z.to_N (Z.abs (ir_len (match ty with TNineVec _ rg | TBitVec _ rg => rg | _ => IR false 0 0 end))) mod 4294967296),
            Some (l, r))
  | _ => None
  end).
Check enum_bits_spec :
  forall n, (1 <= n)%nat ->
  exists b, enum_bits n = Ok b /\ N.of_nat n <= 2 ^ b /\ (b = 0 \/ 2 ^ (b - 1) < N.of_nat n).
Check enum_lits_codes :
  forall strings bits lits ii ls,
  enum_lits strings bits ii lits = Ok ls ->
  map fst ls = map (fun k => bin_str bits (ii + N.of_nat k)) (seq 0 (length lits)) /\
  Forall2 (fun l s => nthN strings l = Some s) lits (map snd ls).




(* end to end: a concrete GHW file of 291 bytes (Proofs/GhwExample.v: `data : std_logic_vector(3 downto 0)` and `cnt : integer`;
   snapshot 01xz and 5 at time 0; one cycle section at 10 fs with a delta cycle: 1100 and -2, then 1101) goes through the model of
   the whole loader inside Coq and comes out as the file says - the delta cycle as a separate entry under the same time index,
   the integer as a 32-bit two's complement number, the time table 0, 10 *)
Check example_ghw_loads :
  example_load
  = Ok ([(0, KFour, [48; 49; 120; 122]); (1, KBinary, [49; 49; 48; 48]); (1, KBinary, [49; 49; 48; 49])],
        [(0, KBinary, repeat 48 29 ++ [49; 48; 49]); (1, KBinary, repeat 49 31 ++ [48])],
        [0; 10]).
Check example_ghw_hypotheses :
  exists res tpes blocks ttb,
    ghw_read_file id_compress 65535 true example_ghw = Ok (res, tpes, Some (blocks, ttb)) /\ bytes_ok (ghr_rest res) /\
    tpes = [EncBits 4; EncBits 32].

(* the two halves of the loader fit together: the decode information of every header the model reads satisfies the premise of
   the section theorems, so that for a whole file they hold without any assumption about the header *)
Check header_decode_info_ok :
  forall debug inp be res,
  ghw_read_header debug inp = Ok (be, res) ->
  exists sigs, decode_signals (tr_signals (ghr_tracker res)) = Ok sigs /\
               sigs_ok sigs (map (fun v : nat * nat * bool * nat => if snd (fst v) then Two else Nine)
                                 (decode_vectors (tr_vectors (ghr_tracker res)))).
Check ghw_file_store_ops :
  forall (parse_f64 : list byte -> option (list byte)) lz_compress cap debug inp res tpes blocks ttb,
  1 <= cap ->
  ghw_read_file lz_compress cap debug inp = Ok (res, tpes, Some (blocks, ttb)) -> bytes_ok (ghr_rest res) ->
  (exists ops e', run_ops parse_f64 lz_compress cap (enc_new tpes) ops = Ok e' /\ Forall ghw_op_ok ops /\
                  enc_finish lz_compress e' = Ok (blocks, ttb)) /\
  (exists ops, Forall ghw_op_ok ops /\ ttb = accepted (times_of ops) /\ StronglySorted N.lt ttb).

(* the string table: prefix-compressed strings are reconstructed, whatever the shared lengths *)
Check string_table_decoded :
  forall cf recs buf table rest fuel,
  (1 <= cf)%nat -> Forall (fun r => plain (fst r) /\ snd r < 32 ^ N.of_nat cf) recs ->
  (length recs < fuel)%nat ->
  str_loop fuel (N.of_nat (length recs)) (concat (map (rec_text cf) recs) ++ rest) buf table
  = Ok (table ++ strings_of buf recs, rest).
Check (eq_refl : strings_of = fix strings_of buf recs :=
  match recs with
  | [] => []
  | (suf, plen) :: r => let s := buf ++ suf in s :: strings_of (firstn (N.to_nat plen) s) r
  end).
Check (eq_refl : rec_text = fun fuel r => fst r ++ len_code fuel (snd r)).
Check (eq_refl : len_code = fix len_code fuel n :=
  match fuel with
  | O => []
  | S f => if n <? 32 then [n] else (128 + n mod 32) :: len_code f (n / 32)
  end).
Check string_table_example.

Print Assumptions example_ghw_loads.
Print Assumptions example_ghw_hypotheses.
Print Assumptions header_decode_info_ok.
Print Assumptions ghw_file_store_ops.
Print Assumptions string_table_decoded.
Print Assumptions ghw_leaf_var.
Print Assumptions array_labels.
Print Assumptions record_fields.
Print Assumptions enum_bits_spec.
Print Assumptions enum_lits_codes.
Print Assumptions cycle_signals_vectors.
Print Assumptions cycle_vectors_step.
Print Assumptions cycle_loop_vectors.
Print Assumptions cycle_signals_records.
Print Assumptions cycle_loop_records.
Check ghw_body_example.
Print Assumptions ghw_body_run.
Print Assumptions section_cycles.
Print Assumptions section_snapshot.
Print Assumptions snapshot_records.
Print Assumptions snapshot_vectors.
Print Assumptions ve_set_spec.
Print Assumptions time_step_spec.
Print Assumptions read_signals_ops.
Print Assumptions read_signals_time_table.
Print Assumptions vec_update_spec.
Print Assumptions finish_time_step_spec.
Print Assumptions ve_get_spec.
Print Assumptions compress_template_spec.
Print Assumptions check_min_state_spec.
Print Assumptions add_n_bit_change_entry.
