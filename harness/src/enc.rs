//! `enc <sigs> <ops>`: drives `wavemem::Encoder` (hook `wellen::verif`) with an operation list,
//! finishes it, loads every signal and prints the canonical observation.
//! sigs: comma list of `b<width>` | `r` | `s`.
//! ops (`;` separated): `t<hex>` time_change, `v<id>:<hexbytes>` vcd_value_change,
//! `n<id>:<0|1|2>:<hexbytes>` raw_value_change, `f<id>:<16 hex>` real_change (bit pattern),
//! `A` start a new encoder (all encoders are appended in order at the end).
use crate::obs::*;
use crate::util::*;
use wellen::verif::{Encoder, HierarchyBuilder, States};
use wellen::*;

pub fn build_hierarchy(sigs: &[&str]) -> Hierarchy {
    let mut h = HierarchyBuilder::new(FileFormat::Vcd);
    for (ii, s) in sigs.iter().enumerate() {
        let name = h.add_string(format!("s{}", ii));
        let (tpe, enc) = match s.as_bytes()[0] {
            b'r' => (VarType::Real, SignalEncoding::Real),
            b's' => (VarType::String, SignalEncoding::String),
            _ => (
                VarType::Wire,
                SignalEncoding::bit_vec_of_len(s[1..].parse::<u32>().unwrap()),
            ),
        };
        h.add_var(
            name,
            tpe,
            enc,
            VarDirection::Unknown,
            None,
            SignalRef::from_index(ii).unwrap(),
            None,
            None,
        );
    }
    h.finish()
}

fn states_of(s: &str) -> States {
    match s {
        "0" => States::Two,
        "1" => States::Four,
        _ => States::Nine,
    }
}

pub fn run(args: &[&str]) -> String {
    let sigs = split(args[0], ',');
    let ops = split(args[1], ';');
    let mt = args.get(2).map(|s| *s == "mt").unwrap_or(false);
    let h = build_hierarchy(&sigs);
    let mut encoders = vec![Encoder::new(&h)];
    for op in ops {
        let enc = encoders.last_mut().unwrap();
        let (kind, rest) = op.split_at(1);
        match kind {
            "t" => enc.time_change(hex_u64(rest)),
            "v" => {
                let (id, val) = rest.split_once(':').unwrap();
                enc.vcd_value_change(id.parse::<u64>().unwrap(), &bytes_of_hex(val));
            }
            "n" => {
                let f: Vec<&str> = rest.split(':').collect();
                let id = SignalRef::from_index(f[0].parse::<usize>().unwrap()).unwrap();
                enc.raw_value_change(id, &bytes_of_hex(f[2]), states_of(f[1]));
            }
            "f" => {
                let (id, val) = rest.split_once(':').unwrap();
                let id = SignalRef::from_index(id.parse::<usize>().unwrap()).unwrap();
                enc.real_change(id, f64::from_bits(hex_u64(val)));
            }
            "A" => encoders.push(Encoder::new(&h)),
            _ => panic!("bad op"),
        }
    }
    let mut it = encoders.into_iter();
    let mut first = it.next().unwrap();
    for other in it {
        first.append(other);
    }
    let (mut source, tt) = first.finish();
    let ids: Vec<SignalRef> = (0..sigs.len()).map(|i| SignalRef::from_index(i).unwrap()).collect();
    let loaded = source.load_signals(&ids, &h, mt);
    let mut out = format!("tt={}", time_table_obs(&tt));
    for (ii, (id, sig)) in loaded.iter().enumerate() {
        assert_eq!(id.index(), ii);
        out.push_str(&format!(" s{}={}", ii, signal_obs(sig)));
    }
    out
}
