(* Property C09: VCD declarations appear in the hierarchy as declared.
   read_header_mdecls (Proofs/CmdProofs.v) is the statement for whole headers: a header made of $date / $version /
   $comment / $timescale / $scope / $upscope / $var commands in any order - each written `$<keyword> <body> $end` with any
   blank space around its parts; each of $date, $version, $timescale at most once; no $attrbegin - is read successfully;
   the reported header length is the length of the commands up to and including `$enddefinitions $end`; date, version and
   time scale are reported as written; and the calls made to the hierarchy builder are exactly those of the declarations,
   in order (CmdProofs.decl_ops): a scope of the declared kind and name (an empty name is dissolved exactly when the option
   is set: scope_cmd_empty), a variable of the declared kind, width (0 read as 1), bit range and name, array groups of a
   reference opened and closed as array scopes around it (parse_name_range / parse_name_single / parse_name_plain,
   var_index_roundtrip: negative bounds, with or without separating blanks), variables numbered by their identifier code
   directly or - when the loader starts again with a map - by first appearance; two variables share a signal exactly when
   they share an identifier code (decls_share for the map, id_to_int_injective for the direct numbering).  What tree the
   builder makes of those calls - position, re-opened same-named sibling scopes, lookups - is property C08
   (hierarchy_wellformed, hierarchy_walk, hierarchy_lookup).  The keyword tables are regenerated from the source by the
   translator (Generated/Consts.v).
   The steps: read_command_spec / read_command_empty / header_loop_spec (tokenizer and command loop), var_body_tokens,
   scope_cmd_spec / var_cmd_spec / date, version, timescale lemmas (what one command does), handle_mdecls /
   handle_mdecls_direct (all commands, with and without the identifier map).
   NOT proved: $attrbegin (the GTKWave / nvc extensions: source locators, VHDL type names), when exactly
   IdTracker::need_id_map asks for the map (either numbering satisfies the property), tabs inside a command body (the
   tokenizer splits bodies at blanks only; the model does too).  Those are decided by the correspondence run against the
   real header reader and the oracle computed from the declaration tree. *)
From Coq Require Import ZArith List. Import ListNotations.
From WV Require Import Model.Base Model.WaveMem Model.Hierarchy Model.VcdBody Model.VcdHeader Proofs.HeaderProofs Proofs.NameProofs Proofs.CmdProofs.
Open Scope N_scope.

(* [msb:lsb] with negative bounds survives the packed VarIndex representation *)
Check var_index_roundtrip :
  forall msb lsb : Z, (-2147483648 < msb - lsb < 2147483648)%Z -> var_index_new msb lsb = Ok (msb, lsb).

(* variables share a signal exactly when they share an identifier code (direct mapping):
   equal numbers only come from equal codes *)
Check id_to_int_injective :
  forall id id' v, id_to_int id = Some v -> id_to_int id' = Some v -> id = id'.

(* base name b0 ++ [c], groups gs (each preceded by any number of blanks), s blanks, `[msb:lsb]`, t blanks *)
Check parse_name_range :
  forall b0 c gs s nm rdm nl rdl t,
  c <> 32 -> c <> 93 -> ~ In 91 (b0 ++ [c]) -> Forall (fun sg : nat * list byte => ~ In 91 (snd sg)) gs ->
  digits rdl -> (length rdl <= 18)%nat -> digits rdm -> (length rdm <= 18)%nat ->
  (-2147483648 < zval nm rdm - zval nl rdl < 2147483648)%Z ->
  parse_name (((b0 ++ [c]) ++ segs gs) ++ repeat 32 s ++ [91] ++ numtext nm rdm ++ [58] ++ numtext nl rdl ++ [93] ++ repeat 32 t)
  = Ok (name_result b0 c gs (Some (zval nm rdm, zval nl rdl))).

Check parse_name_single :
  forall b0 c gs s n rd t,
  c <> 32 -> c <> 93 -> ~ In 91 (b0 ++ [c]) -> Forall (fun sg : nat * list byte => ~ In 91 (snd sg)) gs ->
  digits rd -> (length rd <= 18)%nat ->
  parse_name (((b0 ++ [c]) ++ segs gs) ++ repeat 32 s ++ [91] ++ numtext n rd ++ [93] ++ repeat 32 t)
  = Ok (name_result b0 c gs (Some (zval n rd, zval n rd))).

Check parse_name_plain :
  forall b0 c, c <> 32 -> c <> 93 -> ~ In 91 (b0 ++ [c]) -> parse_name (b0 ++ [c]) = Ok (b0 ++ [c], None, []).


Check read_command_spec :
  forall pre0 kw cmd b pre c mid d sep rest,
  wsp pre0 -> Forall (fun x => is_white_space x = false) kw -> lookup_bytes kw cmd_table = Some cmd ->
  is_white_space b = true -> wsp pre -> is_white_space c = false -> is_white_space d = false -> no_dollar (c :: mid ++ [d]) -> wsp sep ->
  read_command (pre0 ++ [36] ++ kw ++ [b] ++ pre ++ (c :: mid ++ [d]) ++ sep ++ [36; 101; 110; 100] ++ rest)
  = Ok (cmd, c :: mid ++ [d], rest).

Check read_command_empty :
  forall pre0 kw cmd b pre rest,
  wsp pre0 -> Forall (fun x => is_white_space x = false) kw -> lookup_bytes kw cmd_table = Some cmd ->
  is_white_space b = true -> wsp pre ->
  read_command (pre0 ++ [36] ++ kw ++ [b] ++ pre ++ [36; 101; 110; 100] ++ rest) = Ok (cmd, [], rest).

Check var_body_tokens :
  forall tpe size id r0 ref,
  no_sp tpe -> tpe <> [] -> no_sp size -> size <> [] -> no_sp id -> id <> [] -> r0 <> 32 ->
  let body := tpe ++ [32] ++ size ++ [32] ++ id ++ [32] ++ (r0 :: ref) in
  exists more start,
    find_tokens body = (0%nat, tpe) :: ((S (length tpe)), size) :: ((S (S (length tpe + length size))), id) :: (start, fst more) :: snd more /\
    skipn start body = r0 :: ref.


Check header_loop_spec :
  forall flatten_empty use_id_map (cts : list (cmd_text * vcd_cmd)) cend rest fuel st,
  Forall (fun p => ct_ok (fst p) (snd p) /\ snd p <> CEndDefs) cts -> ct_ok cend CEndDefs -> (length cts < fuel)%nat ->
  header_loop fuel flatten_empty use_id_map (concat (map (fun p => ct_render (fst p)) cts) ++ ct_render cend ++ rest) st
  = hdo st' <- handle_all flatten_empty use_id_map st (map (fun p => (snd p, ct_body (fst p))) cts); HOk (st', rest).



Check read_header_mdecls :
  forall flatten_empty (cts : list (cmd_text * vcd_cmd)) cend rest xs,
  Forall (fun p => ct_ok (fst p) (snd p) /\ snd p <> CEndDefs) cts -> ct_ok cend CEndDefs ->
  map (fun p => (snd p, ct_body (fst p))) cts = map mdecl_cmd xs -> metas_ok false false false xs ->
  let input := concat (map (fun p => ct_render (fst p)) cts) ++ ct_render cend ++ rest in
  exists hr, read_header flatten_empty input = Ok hr /\ hr_len hr = (length input - length rest)%nat /\
    (hr_date hr, hr_version hr, hr_timescale hr) = meta_of xs [] [] None /\
    ((hr_ops hr = direct_ops (decls_of xs) /\ hr_lookup hr = None) \/
     (hr_ops hr = fst (decls_ops [] (decls_of xs)) /\ hr_lookup hr = Some (snd (decls_ops [] (decls_of xs))))).

Check decls_share :
  forall ds m, map_ok m -> map_inj m ->
  let m' := snd (decls_ops m ds) in
  map_ok m' /\ map_inj m' /\ (forall a x, map_get m a = Some x -> map_get m' a = Some x) /\
  forall vn vt dir enc idx sref tn, In (HVar vn vt dir enc idx sref tn) (fst (decls_ops m ds)) ->
    exists tpe size id r0 ref, In (DVar tpe size id r0 ref) ds /\ map_get m' id = Some sref.

Check scope_cmd_empty :
  forall flatten_empty use_id_map st kw t decl,
  no_sp kw -> kw <> [] -> lookup_bytes kw scope_kw = Some t -> scope_attrs (hs_attrs st) None = Ok decl ->
  handle_cmd flatten_empty use_id_map st CScope kw = HOk (with_ops st (HScope [] None t decl flatten_empty :: hs_ops st) []).

(* the builder calls of one declaration *)
Check (eq_refl : decl_ops = fun d sref =>
  match d with
  | DScope kw nm => match lookup_bytes kw scope_kw with Some t => [HScope nm None t None false] | None => [] end
  | DUp => [HPop]
  | DVar tpe size id r0 ref =>
    match parse_name (r0 :: ref), lookup_bytes tpe var_kw, parse_uint size u32_max with
    | Ok (vn, idx, scopes), Some raw, Some len =>
      let enc := if raw =? 17 then EncString else if mem_byte raw real_types then EncReal
                 else EncBits (if len =? 0 then 1%nat else N.to_nat len) in
      map (fun s => HScope s None 23 None false) scopes ++ [HVar vn raw 0 enc idx sref None] ++ map (fun _ => HPop) scopes
    | _, _, _ => []
    end
  end).

Check header_decls :
  forall flatten_empty (cts : list (cmd_text * vcd_cmd)) cend rest fuel st ds,
  Forall (fun p => ct_ok (fst p) (snd p) /\ snd p <> CEndDefs) cts -> ct_ok cend CEndDefs -> (length cts < fuel)%nat ->
  map (fun p => (snd p, ct_body (fst p))) cts = map decl_cmd ds -> Forall decl_ok ds -> hs_attrs st = [] ->
  exists st',
    header_loop fuel flatten_empty true (concat (map (fun p => ct_render (fst p)) cts) ++ ct_render cend ++ rest) st = HOk (st', rest) /\
    hs_ops st' = rev (fst (decls_ops (hs_idmap st) ds)) ++ hs_ops st /\ hs_idmap st' = snd (decls_ops (hs_idmap st) ds).

Check scope_cmd_spec :
  forall flatten_empty use_id_map st kw nm t decl,
  no_sp kw -> kw <> [] -> no_sp nm -> nm <> [] -> is_ascii nm = true ->
  lookup_bytes kw scope_kw = Some t -> scope_attrs (hs_attrs st) None = Ok decl ->
  handle_cmd flatten_empty use_id_map st CScope (kw ++ [32] ++ nm)
  = HOk (with_ops st (HScope nm None t decl false :: hs_ops st) []).

Check var_cmd_spec :
  forall flatten_empty use_id_map st tpe size id r0 ref len raw vn idx scopes tn vt,
  no_sp tpe -> tpe <> [] -> no_sp size -> size <> [] -> no_sp id -> id <> [] -> r0 <> 32 ->
  is_ascii size = true -> parse_uint size u32_max = Some len -> parse_name (r0 :: ref) = Ok (vn, idx, scopes) ->
  lookup_bytes tpe var_kw = Some raw -> var_attrs (hs_attrs st) raw None = Ok (tn, vt) -> is_ascii (r0 :: ref) = true ->
  handle_cmd flatten_empty use_id_map st CVar (tpe ++ [32] ++ size ++ [32] ++ id ++ [32] ++ (r0 :: ref))
  = (let enc := if raw =? 17 then EncString else if mem_byte raw real_types then EncReal
                else EncBits (if len =? 0 then 1%nat else N.to_nat len) in
     hdo '(st1, sref) <- id_to_signal_ref use_id_map
                           (with_ops st (rev_append (map (fun s => HScope s None 23 None false) scopes) (hs_ops st)) []) id;
     HOk (with_ops st1 (rev_append (map (fun _ => HPop) scopes) (HVar vn vt 0 enc idx sref tn :: hs_ops st1)) [])).

Check (eq_refl : ct_render = fun c =>
  ct_pre0 c ++ [36] ++ ct_kw c ++ [ct_b c] ++ ct_pre c ++ ct_body c ++ ct_sep c ++ [36; 101; 110; 100]).

(* the vocabulary of the three statements *)
Check (eq_refl : name_result = fun b0 c gs idx =>
  match rev gs with
  | [] => (b0 ++ [c], idx, [])
  | (_, g) :: before => (G g, idx, (b0 ++ [c]) :: map (fun sg => G (snd sg)) (rev before))
  end).
Check (eq_refl : G = fun g => [91] ++ g ++ [93]).
Check (eq_refl : numtext = fun neg rd => (if neg then [45] else []) ++ rev rd).
Check (eq_refl : zval = fun neg rd => if neg then (- valr rd)%Z else valr rd).
Check (eq_refl : valr = fun rd => fold_right (fun d acc => (Z.of_N (d - 48) + 10 * acc)%Z) 0%Z rd).

Print Assumptions var_index_roundtrip.
Print Assumptions id_to_int_injective.
Print Assumptions parse_name_range.
Print Assumptions parse_name_single.
Print Assumptions parse_name_plain.
Print Assumptions read_command_spec.
Print Assumptions read_command_empty.
Print Assumptions var_body_tokens.
Print Assumptions header_loop_spec.
Print Assumptions header_decls.
Print Assumptions read_header_mdecls.
Print Assumptions decls_share.
Print Assumptions scope_cmd_empty.
Print Assumptions scope_cmd_spec.
Print Assumptions var_cmd_spec.
Check read_header_mdecls_example.
