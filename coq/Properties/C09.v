(* Property C09: VCD declarations appear in the hierarchy as declared.  Pinned so far: the bit-range
   packing and the identifier-code arithmetic; header_roundtrip is not closed. *)
From WV Require Import Model.Base Model.VcdBody Model.VcdHeader Proofs.HeaderProofs.

(* [msb:lsb] with negative bounds survives the packed VarIndex representation *)
Check var_index_roundtrip :
  forall msb lsb : Z, (-2147483648 < msb - lsb < 2147483648)%Z -> var_index_new msb lsb = Ok (msb, lsb).

(* variables share a signal exactly when they share an identifier code (direct mapping):
   equal numbers only come from equal codes *)
Check id_to_int_injective :
  forall id id' v, id_to_int id = Some v -> id_to_int id' = Some v -> id = id'.

Print Assumptions var_index_roundtrip.
Print Assumptions id_to_int_injective.
