(* Property C12: the same waveform loads identically from VCD, FST and GHW.
   Pinned: vcd_fst_same_report - the value paths of VCD (wavemem Encoder, any block segmentation) and FST (SignalWriter
   with widening) report the same changes for the same (time index, value) list, for bit vectors of width >= 1;
   same_meaning_same_report - two histories of VCD text changes and / or pre-packed raw changes (what the GHW reader
   delivers) whose recorded values mean the same symbols at the same time indices are reported identically;
   vcd_fst_same_report_rs - the same for real and string variables between the wavemem store and the FST writer.
   NOT proved: that the GHW section reader / vector buffer delivers the packed form of what the file encodes (ve_set_spec
   and ve_get_spec, Properties/C11.v, are the per-update facts), the hierarchy
   and the time tables of whole files; those are decided by the three-format file generators (MANIFEST level_note). *)
From WV Require Import Model.Base Model.Bits Model.WaveMem Model.FstLoad Spec.TimeSpec Spec.StoreSpec
  Proofs.StoreProofs Proofs.EncoderProofs Proofs.FstProofs Proofs.CrossProofs Proofs.RealStringEnc Proofs.FstRealString.
Open Scope N_scope.

Check vcd_fst_same_report :
  forall (parse_f64 : list byte -> option (list byte)) (lz_compress : list byte -> list byte)
         (lz_decompress : list byte -> nat -> option (list byte)),
  (forall d n, (length d <= n)%nat -> lz_decompress (lz_compress d) n = Some d) ->
  forall cap, 1 <= cap -> cap <= 65536 ->
  forall id bits tpes ops e blocks ttb (cs : list (N * list byte)) sw,
  (1 <= bits)%nat -> nth_error tpes id = Some (EncBits bits) -> Forall (op_ok id bits) ops ->
  N.of_nat (count_vcd id ops) * (10 + N.of_nat bits) < 4294967264 ->
  run_ops parse_f64 lz_compress cap (enc_new tpes) ops = Ok e ->
  enc_finish lz_compress e = Ok (blocks, ttb) -> N.of_nat (length ttb) < 4294967296 ->
  recorded id ops [] false = map (fun c : N * list byte => (fst c, RText (98 :: snd c))) cs ->
  Forall (fun c : N * list byte => length (snd c) = bits) cs ->
  sw_run (sw_new (EncBits bits)) (map (fun c : N * list byte => (fst c, FvString (snd c))) cs) = Ok sw ->
  exists sig, load_signal lz_decompress blocks id (EncBits bits) = Ok sig /\
              observe_signal sig = observe_signal (sw_finish sw).

Check same_meaning_same_report :
  forall (parse_f64 : list byte -> option (list byte)) (lz_compress : list byte -> list byte)
         (lz_decompress : list byte -> nat -> option (list byte)),
  (forall d n, (length d <= n)%nat -> lz_decompress (lz_compress d) n = Some d) ->
  forall cap, 1 <= cap -> cap <= 65536 ->
  forall id bits tpes1 tpes2 ops1 ops2 e1 e2 b1 t1 b2 t2,
  (1 <= bits)%nat ->
  nth_error tpes1 id = Some (EncBits bits) -> nth_error tpes2 id = Some (EncBits bits) ->
  Forall (op_ok id bits) ops1 -> Forall (op_ok id bits) ops2 ->
  N.of_nat (count_vcd id ops1) * (10 + N.of_nat bits) < 4294967264 ->
  N.of_nat (count_vcd id ops2) * (10 + N.of_nat bits) < 4294967264 ->
  run_ops parse_f64 lz_compress cap (enc_new tpes1) ops1 = Ok e1 ->
  run_ops parse_f64 lz_compress cap (enc_new tpes2) ops2 = Ok e2 ->
  enc_finish lz_compress e1 = Ok (b1, t1) -> N.of_nat (length t1) < 4294967296 ->
  enc_finish lz_compress e2 = Ok (b2, t2) -> N.of_nat (length t2) < 4294967296 ->
  Forall2 (fun ra rb => fst ra = fst rb /\ exists syms, means bits (snd ra) syms /\ means bits (snd rb) syms)
          (recorded id ops1 [] false) (recorded id ops2 [] false) ->
  exists s1 s2, load_signal lz_decompress b1 id (EncBits bits) = Ok s1 /\
                load_signal lz_decompress b2 id (EncBits bits) = Ok s2 /\
                observe_signal s1 = observe_signal s2.

Check vcd_fst_same_report_rs :
  forall (parse_f64 : list byte -> option (list byte)),
  (forall r le, parse_f64 r = Some le -> length le = 8%nat) ->
  forall (lz_compress : list byte -> list byte) (lz_decompress : list byte -> nat -> option (list byte)),
  (forall d n, (length d <= n)%nat -> lz_decompress (lz_compress d) n = Some d) ->
  forall cap, 1 <= cap -> cap <= 65536 -> forall id str tpes ops e blocks ttb changes sw,
  nth_error tpes id = Some (rs_tpe str) ->
  Forall (rs_op_ok id str) ops ->
  ops_cost id ops < 4294967264 ->
  run_ops parse_f64 lz_compress cap (enc_new tpes) ops = Ok e ->
  enc_finish lz_compress e = Ok (blocks, ttb) -> N.of_nat (length ttb) < 4294967296 ->
  Forall (fst_rs_ok str) changes ->
  sw_run (sw_new (rs_tpe str)) changes = Ok sw ->
  Forall2 (fun (c : N * fst_value) r => gdecodes parse_f64 str (fst c, fv_payload (snd c)) r)
          changes (recorded_rs id ops [] false) ->
  exists sig, load_signal lz_decompress blocks id (rs_tpe str) = Ok sig /\
              observe_signal sig = observe_signal (sw_finish sw).

Print Assumptions vcd_fst_same_report.
Print Assumptions vcd_fst_same_report_rs.
Print Assumptions same_meaning_same_report.
