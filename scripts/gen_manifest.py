#!/usr/bin/env python3
"""Writes /verif/MANIFEST.json from the per-property table below (kept in one place so the
manifest is always valid)."""
import json, os
VERIF = os.path.dirname(os.path.dirname(os.path.abspath(__file__)))

CLAIMED = {
 "C05": dict(
   category="proof",
   text="Machine-checked Coq theorems over a line-by-line Gallina model of binary_search / "
        "find_offset_from_time_table_idx / get_offset (usize underflow and out-of-bounds as explicit Panic): "
        "for every non-decreasing index list and every query, None iff no change <= i, otherwise exactly the group "
        "of the greatest index <= i (start, elements, time_match, next_index), uniqueness of that answer, agreement of "
        "iter_changes/get_time_idx_at/get_value_at; plus get_offset_u16_refuted (known finding D12). The model is tied "
        "to the code by running the extracted model and the real Signal API on the same sequences "
        "(exhaustive small scope + random long runs) and an independent oracle on the implementation.",
   design_ref="DESIGN.md section 6, C05",
   note="Trusted: Coq kernel, extraction (ExtrOcamlBasic), OCaml driver, Rust harness, Python oracle; hypothesis "
        "`sorted` (non-decreasing indices, property C02) and run_fits_u16 (complement = known finding D12).",
   technique="Coq proof (induction + loop invariants) over hand-written model; correspondence by OCaml extraction vs real code"),
 "C02": dict(
   category="proof",
   text="Coq theorems over the Gallina model of wavemem::Encoder: for every operation sequence (any interleaving of "
        "time_change and value changes, any block capacity >= 1 incl. the 65535 roll-over, any compressor) finish returns "
        "exactly accepted(times) - time_table_spec - which is strictly increasing (accepted_strict) and contains every "
        "timestamp greater than all earlier ones (accepted_complete); time_change never panics. Tied to the code by "
        "running the extracted model and the real Encoder (hook) / VCD loader on the same histories with 1..131072 "
        "(thorough: 262140) steps, repeated/backwards/late-start timestamps, plus an oracle computed from the abstract history.",
   design_ref="DESIGN.md section 6, C02",
   note="Trusted: Coq kernel, extraction, OCaml driver, Rust harness, generator/oracle gen.expected_obs. Index validity/monotonicity "
        "of loaded signals is checked by the oracle (monitor) on every loaded waveform, its proof belongs to C04's load theorems. "
        "FST time chain and GHW section reader are exercised in C10/C11, not modelled here.",
   technique="Coq proof (invariant over op sequences) + correspondence via OCaml extraction"),

 "C01": dict(
   category="proof",
   text="Coq theorem vcd_stream_transparent (Proofs/VcdStreamProofs.v, pinned in Properties/C01.v): for every VCD body, identifier "
        "lookup, block capacity and compressor obeying the round-trip law, the single-threaded path (parse_body byte machine -> "
        "VcdEncoder -> wavemem Encoder -> Reader::load_signal -> iter_changes) reports for a bit-vector variable of any width exactly "
        "what the parser's events record: index into the accepted time table, least state kind, characters, equal neighbours once "
        "(on top of storage_transparent, C04); vcd_stream_transparent_rs is the same for real and string variables; parse_body_lines / "
        "vcd_lines_transparent start from the text: a body written one token group per line is parsed into exactly the events its lines "
        "denote and reported accordingly; parse_body_layout / vcd_layout_transparent(_rs) do the same for ANY layout of the token groups "
        "(separated by any non-empty blank space: several groups per line, CRLF, tabs, indentation, empty lines; what precedes the "
        "first line feed is skipped - finding D6). Not covered by the theorems: `$dumpall`, a last token with no blank space behind "
        "it, and the multi-threaded path (C03). Those, and the tie of the "
        "model to vcd.rs/wavemem.rs, are decided by the correspondence run: the extracted model against the real loader on generated "
        "files, plus the oracle computed from the abstract history; exhaustive sweeps over every byte as value character and every "
        "(width, written length, leading character).",
   design_ref="DESIGN.md section 6, C01 and section 12.5",
   note="Trusted: Coq kernel; the hand-written model (Model/VcdBody.v, Model/WaveMem.v) is tied to the Rust code by the correspondence check (extraction ExtrOcamlBasic, OCaml driver incl. float_of_string as f64 parser and identity as LZ4, Rust harness, generators, Python oracle). Theorem premises: A-lz4 round trip; < 2^32 time-table entries; < 4 GiB per signal; block capacity <= 65536.",
   technique="Coq proof (parser events -> store -> loaded signal) + extracted-model correspondence + oracle"),
 "C03": dict(
   category="proof",
   text="Coq theorem read_values_mt_equals_st (Proofs/MtProofs.v, pinned in Properties/C03.v): for every VCD body written one token "
        "group per line (time stamps, scalar and vector/real/string changes, $comment blocks, $dumpvars/$end/$dumpoff/$dumpon, any "
        "content) whose time stamps - the implicit time 0 of changes in front of the first time stamp included - increase, for EVERY max_threads and min_chunk - hence every "
        "number of chunks and every division point the production chunking can produce - and, in mt_equals_st, for every division of "
        "the body into consecutive chunks of any sizes whatsoever (boundaries inside tokens, time stamps, comments, directly before or "
        "after a newline, chunks holding no time stamp), the model of read_values' multi-threaded branch (determine_thread_chunks, "
        "run_chunk per chunk with parse_body's skip-to-newline and stop rule, Encoder::append in order, finish) and of its "
        "single-threaded branch yield equal time tables and stores from which every bit-vector signal reports the same changes, although the blocks differ. "
        "Steps, all pinned: thread_first / thread_later (which lines a thread started at a byte offset parses), ops_tile (the threads' "
        "pieces tile the sequential operation list without gap or overlap), rec_concat, appended_transparent(_rs), chunks_shape "
        "(determine_thread_chunks yields consecutive chunks covering the body). For arbitrary layouts handover_segment / chunk_simulates "
        "prove the parser half only. The hypotheses are exactly the line discipline LD1-LD5 outside which the property is FALSE on this "
        "code (7 known findings with witnesses, re-confirmed on every run). read_values_mt_equals_st_rs is the same theorem for "
        "real-valued and string-valued variables. Not covered by the end-to-end theorems: several token groups per line, indented "
        "lines. Those, and the tie "
        "of the model to vcd.rs/wavemem.rs, are decided by the correspondence run: the extracted model against the real multi-threaded "
        "loader (MIN_CHUNK_SIZE override hook, rayon pools of 1..16 threads) with a chunk boundary swept over every byte alignment, "
        "production chunking on 16 KiB..MiB bodies, recordings of 70000..200000 time steps; oracle: equals the single-threaded "
        "observation and the meaning of the history.",
   design_ref="DESIGN.md section 6, C03 and section 12.5",
   note="Trusted: Coq kernel; the hand-written model (Model/VcdBody.v, Model/WaveMem.v) tied to the Rust code by the correspondence check (extraction ExtrOcamlBasic, OCaml driver incl. float_of_string as f64 parser and identity as LZ4, Rust harness, generators, Python oracle computed from the abstract history).  A-rayon: indexed collect preserves order; chunk closures are pure functions of shared immutable data. Theorem premises: A-lz4 round trip; < 2^32 time-table entries; < 4 GiB per signal; block capacity <= 65536.",
   technique="Coq proof (multi-threaded model = single-threaded model for every chunking, line-per-token bodies) + extracted-model correspondence over exhaustive boundary alignments + oracle"),
 "C04": dict(
   category="proof",
   text="Coq theorems pinned in Properties/C04.v: storage_transparent (Proofs/EncoderProofs.v) - for every history of time stamps and value "
        "changes over any number of signals, every block capacity 1..65536 (every segmentation), every compressor obeying "
        "decompress(compress d) = d, a bit-vector signal of any width >= 1, written through the VCD text path or the raw (GHW) path, "
        "loaded by Reader::load_signal reports exactly the recorded changes (time-table index, least kind, characters; equal neighbours "
        "once); storage_transparent_rs (Proofs/RealStringEnc.v) - the same for real-valued and string-valued signals; "
        "appended_transparent / appended_transparent_rs - the same when the recording was divided among several encoders (parser "
        "threads) appended in order; storage_independent_of_segmentation. Built from load_fixed_stream, load_reals_stream, "
        "load_strings_stream, region_found/region_decodes, load_signal_blocks, entry_render, observe_entries, pack_unpack, leb_roundtrip, "
        "metadata_roundtrip_*. The tie of the model to the Rust code is the correspondence run: histories driven through the real "
        "wavemem::Encoder (hook) and through the extracted model, exhaustive over kind orders x widths 1..40, both sides of the "
        "compression threshold, appended segments, quiet gaps and sparse / dense signals across the 65535 roll-over; oracle: meaning "
        "of the history.",
   design_ref="DESIGN.md section 6, C04 and section 12.5",
   note="Trusted: Coq kernel; the model Model/WaveMem.v is hand-written and tied to wavemem.rs by the correspondence check (extraction ExtrOcamlBasic, OCaml driver incl. float_of_string as f64 parser and identity as LZ4, Rust harness, generators, Python oracle). Theorem premises: A-lz4 round trip; parse_f64 yields 8 bytes; < 2^32 time-table entries; < 4 GiB of data per signal; block capacity <= 65536.",
   technique="Coq proof (refinement of the store to the recorded-history spec, all signal kinds, single and appended encoders) + extracted-model correspondence"),
 "C06": dict(
   category="proof",
   text="Coq theorems pinned in Properties/C06.v: loaded_signal_canonical (Proofs/CanonProofs.v; corollary of storage_transparent): for "
        "every history of time stamps and VCD / raw value changes, every block capacity and compressor obeying the round-trip law, "
        "the report of a loaded bit-vector signal of any width lists values of exactly the declared width, each with the least state "
        "kind able to hold it, and no two neighbours are equal; loaded_rs_canonical: a loaded real / string signal has no two neighbours "
        "with the same bytes and a real is its 8 bytes; fst_writer_spec / fst_writer_rs_spec (C10) give the same form for the FST signal "
        "writer and slice_signal_spec (C13) for sliced signals. The tie of the model to the code is the canonical-form monitor (no "
        "equal neighbours, exact width, minimal kind, Real/String kinds) on every signal loaded from VCD text, through the Encoder hook "
        "(text, raw, real paths, appended segments) and through fst::SignalWriter (hook), on histories rich in redundant writes and "
        "kind changes, plus model-vs-implementation correspondence and the meaning oracle.",
   design_ref="DESIGN.md section 6, C06 and section 12.5",
   note="Trusted: Coq kernel; hand-written model tied to the code by the correspondence check (extraction ExtrOcamlBasic, OCaml driver incl. float_of_string as f64 parser and identity as LZ4, Rust harness, generators, Python oracle computed from the abstract history).",
   technique="Coq proof (corollaries of the store refinement, all signal kinds) + extracted-model correspondence + canonical-form monitor"),
 "C14": dict(
   category="proof",
   text="Coq theorems pinned in Properties/C14.v: entry_points_agree - for EVERY body the reader driver (stop position = absolute end "
        "of the file, header included) and the single-threaded slice driver (stop position = last byte) yield the same blocks and time "
        "table, because a stop position at or beyond the last byte can never fire the hand-over rule (parse_body_stop_irrelevant); "
        "entry_points_all_agree - composed with C03's read_values_mt_equals_st: for every body written one token group per line with "
        "increasing time stamps and every max_threads / min_chunk, reader, single-threaded slice and multi-threaded slice load the same "
        "time table and every bit-vector signal reports the same changes. All entry points read the header with one generic function "
        "(model: C09's read_header_mdecls). Tie and remaining glue: every generated VCD is loaded through 8 entry-point/mode "
        "combinations (mmap path single/multi-threaded, reader over Cursor and BufReader<File> with capacities 3..16 bytes, two-phase "
        "header/body with and without progress counter, read_header_from_file with both multi_thread values, misleading file "
        "extensions, options); all observations and body_len must agree with each other, with the extracted model's three body drivers "
        "and with the meaning of the history; FST and GHW files through every entry point that accepts them.",
   design_ref="DESIGN.md section 6, C14 and section 12.5",
   note="Modelled, not verified: std::io::Bytes over a BufRead and memmap2 deliver the bytes of the file in order (wellen has no refill "
        "logic of its own), the dispatch glue of simple::read* / viewers::read_header* / read_body, ProgressTracker; layouts other than "
        "one token group per line on the multi-threaded path (C03's limit; findings D8/D15/D16 live there). Trusted: Coq kernel, "
        "extraction (ExtrOcamlBasic), OCaml driver incl. float_of_string as f64 parser and identity as LZ4, Rust harness, generators and "
        "the Python oracle computed from the abstract history.",
   technique="Coq proof (drivers agree for every body; mt = st for line-structured bodies) + correspondence over all entry points"),
 "C15": dict(
   category="proof",
   text="Coq theorems pinned in Properties/C15.v state the property's prefix clauses for the single-threaded loader and bit-vector "
        "variables, for EVERY body and EVERY cut offset (truncated_any_cut; truncated_any_cut_rs for real and string variables) and its "
        "exactness at line ends (truncated_at_line_end); the "
        "panic-freedom clause is false on this tree (finding D9) and, like the multi-threaded path, is decided by "
        "the enumeration: every truncation offset of generated VCD bodies is loaded (path, reader, multi-threaded) by the real code and by "
        "the extracted model (panics, errors and results must coincide); oracle: never panic/hang outside the recorded class "
        "CutInsideChange (D9), prefix property of table and changes, exact restriction at line boundaries. The theorems: "
        "prefix_events / cut_at_token_boundary (parser), "
        "prefix_history_prefix_report (store: a history that is a prefix of another is reported as a prefix - time table and every "
        "bit-vector signal), truncated_vcd_prefix_report (their composition for the single-threaded loader) and truncated_at_line_end "
        "(the line-boundary clause from the text: a body written one token group per line and cut at the end of a line loads as exactly "
        "the meaning of the lines present - time table and every bit-vector variable - and as a prefix of the complete load); "
        "truncated_any_cut (a cut at ANY byte: whenever the truncated body loads, its time table is the table of the common events plus "
        "at most one entry - hence without its last entry a prefix of the complete table -, both reports extend the report of the common "
        "events, every change the truncated file adds lies at its last time and every change the complete file adds lies at or after "
        "it - hence the changes before the last time are the same: changes_before_last; parser half prefix_events_time: a time stamp "
        "cut inside its digits denotes a time not larger than the complete one). That loading a body cut inside a token never panics is "
        "not a theorem: it is false on this tree (finding D9).",
   design_ref="DESIGN.md section 6, C15",
   note="Trusted: Coq kernel, extraction (ExtrOcamlBasic), OCaml driver incl. float_of_string as f64 parser and identity as LZ4, Rust harness, generators and the Python oracle computed from the abstract history. Panic-freedom at cuts inside a token (false: D9) and the multi-threaded path are decided by the enumeration only. Theorem premises: A-lz4 round trip; < 2^32 time-table entries; < 4 GiB per signal; block capacity <= 65536.",
   technique="Coq proof (every cut offset: table and changes before the last time are those of the complete file) + fault enumeration over all cut points with the extracted model and a prefix oracle"),
 "C08": dict(
   category="proof",
   text="Coq theorem hierarchy_wellformed (Proofs/HierProofs.v, pinned in Properties/C08.v): for every balanced sequence of "
        "HierarchyBuilder calls (add_scope with/without flatten, re-opening of same-named scopes, add_var, pop_scope) the arrays and "
        "their child/next/parent links form a forest: items() and Scope::items() return children lists in which every variable and "
        "scope occurs exactly once, parent links agree with the lists, parents precede children, sibling scopes have distinct names; "
        "the scope stack's cached last children are exact (invariant hinv with add_var_inv, add_scope_inv, pop_scope_inv). hierarchy_walk "
        "(Proofs/NavProofs.v): the pre-order walk from the top-level items through each scope's items terminates within its fuel and "
        "visits every variable and scope exactly once, full_name of every item is defined. hierarchy_lookup (Proofs/LookupProofs.v): "
        "lookup_scope returns for a path a scope whose ancestors' names and own name are exactly that path, every scope is found "
        "under its own path, and Scope::full_name is the '.'-join of that path. signal_refs_resolve: every variable's signal reference "
        "lies below num_unique_signals and get_signal_tpe resolves it. hierarchy_lookup_var: lookup_var(_with_index) returns the first "
        "declared variable of the looked-up scope with the given name and index. Not covered by the theorems: unbalanced pops; these "
        "and the tie to hierarchy.rs are decided by the correspondence run: the extracted model against the real builder (hook) on "
        "every op list of length <= 6 over a 6-symbol alphabet (55 986 lists, incl. unbalanced ones that must panic alike) and random "
        "lists to length 200; oracle: an independent rose-tree specification.",
   design_ref="DESIGN.md section 6, C08 and section 12.5",
   note="Trusted: Coq kernel; the hand-written model Model/Hierarchy.v is tied to hierarchy.rs by the correspondence check (extraction, OCaml driver, Rust harness, Python rose-tree specification). File front ends (VCD/FST/GHW) reach the builder through C09/C10/C11.",
   technique="Coq proof (pointer-structure invariant of the builder) + extracted-model correspondence (exhaustive small scope) + rose-tree oracle"),
 "C16": dict(
   category="proof",
   text="The Gallina model of detect_file_format (is_vcd/read_command matcher, the dependency's FST block walk with its i64 seek "
        "arithmetic, read_ghw_header) is run, extracted to OCaml, against viewers::open_and_detect_file_format under a watchdog on every "
        "string of length <= 1 and a third (thorough: all) of length 2, first byte x corner values of the block length field, `$`+word "
        "forms, truncated/corrupted magics, generated VCDs and all corpus files; oracle: never panic/hang outside the two recorded "
        "classes of the FST block walk (D13 cycle = hang, D17 overflow = panic; both reproduced by the model, which found D13 through its "
        "termination argument), files classified by their real format, data beginning like none of the formats is Unknown. "
        "Proved: the VCD and GHW probes are total, detection is total whenever every declared FST block length points forward (detect_total_forward), data beginning like none of the formats is Unknown, inputs starting with a VCD command closed by `$end` are VCD, inputs starting with a legal GHW header are GHW; detect_total itself is refuted on this tree by two machine-checked witnesses (known findings D13, D17). Classification of FST files rests on the dependency's container (A-fst) and is tested on the corpus.",
   design_ref="DESIGN.md section 6, C16",
   note="Trusted: Coq kernel, extraction, OCaml driver, Rust harness + watchdog, Python class predicate. Seeks to offsets in (2^40, 2^63) are excluded (file-system dependent EINVAL).",
   technique="correspondence: Coq model (incl. dependency's block walk) extracted to OCaml vs real detection + totality/classification oracle"),
 "C13": dict(
   category="proof",
   text="Coq theorem slice_signal_spec (Proofs/SliceSignalProofs.v, pinned in Properties/C13.v): for every loaded bit-vector signal (entries "
        "of any mix of 2/4/9-state kinds, any widest kind, any width), every proper sub-range [msb:lsb], debug and release semantics, "
        "slice_signal (slice_bit_vector, slice_n_states, check_min_state/compress, BitVectorBuilder::add_change/finish) succeeds and the "
        "result reports, for every entry of the parent, exactly the characters [msb:lsb] in their least sufficient kind at the same time "
        "index, an entry whose slice equals the slice before it being dropped (changes only when the sub-range changes); "
        "recorded_then_sliced composes it with storage_transparent (record -> load -> slice); slice_n_states_sem shows that the meta bits "
        "kept in the unused part of an entry's first byte never reach the result. Not covered by the theorem: the GHW alias arithmetic "
        "that chooses msb/lsb (register_bit_vec, find_or_add_alias) and the alias substitution of load_signals (C07 proves its shape); "
        "these and the tie of the model to the code are decided by the correspondence run: the extracted model against "
        "signals::slice_signal (hook) on parents recorded through the real Encoder, exhaustive over parent widths 2..20 x every proper "
        "sub-range x three kind profiles, random to width 300, debug and release builds, the register_bit_vec hook on generated alias "
        "layouts and the 29 sub-range variables of the corpus GHW file; oracle: substring of the parent's value at every change. Two "
        "genuine defects found this way were repaired (D1, D14).",
   design_ref="DESIGN.md section 6, C13 and section 12.5",
   note="Trusted: Coq kernel; hand-written model Model/Slice.v tied to signals.rs by the correspondence check (extraction, OCaml driver, Rust harness in debug + release, Python substring oracle).",
   technique="Coq proof (slicer refines substring-of-every-entry + de-duplication) + extracted-model correspondence (exhaustive small scope, debug+release) + substring oracle"),
 "C09": dict(
   category="proof",
   text="Coq theorem read_header_mdecls (Proofs/CmdProofs.v, pinned in Properties/C09.v): every header made of $date / $version / "
        "$comment / $timescale / $scope / $upscope / $var commands in any order - each written `$<keyword> <body> $end` with any blank "
        "space around its parts, $date/$version/$timescale at most once, no $attrbegin - is read successfully by the model of "
        "read_hierarchy; the header length is the length of the commands up to and including `$enddefinitions $end`; date, version and "
        "time scale are reported as written; the calls to the hierarchy builder are exactly those of the declarations in order: scope "
        "kind and name (an empty name dissolved exactly when the option is set), variable kind, width (0 read as 1), bit range [i] / "
        "[msb:lsb] with negative bounds and optional blanks (parse_name_range/single/plain, var_index_roundtrip), further bracket "
        "groups as array scopes around the variable, signals numbered by identifier code directly or - after the restart with a map "
        "- by first appearance, shared exactly by equal codes (decls_share, id_to_int_injective). What tree the builder makes of the "
        "calls (position, re-opened sibling scopes, lookups) is C08's theorems. Keyword tables are regenerated from vcd.rs by the "
        "translator. Not covered by theorems: $attrbegin extensions, when IdTracker::need_id_map asks for the map. Those, and the tie "
        "of the model to vcd.rs, are decided by the correspondence run: the extracted model of the header path against "
        "viewers::read_header on generated headers (both option values) and keyword / index-form sweeps, with an oracle computed from "
        "the abstract declaration tree by an independent rose-tree specification.",
   design_ref="DESIGN.md section 6, C09 and section 12.5",
   note="Trusted: Coq kernel; the hand-written model Model/VcdHeader.v tied to vcd.rs by the correspondence check (extraction, OCaml driver, Rust harness, Python declaration printer + oracle). Blank space inside command bodies is limited to spaces; names are ASCII.",
   technique="Coq proof (header text -> commands -> hierarchy builder calls, for every header of the seven command kinds) + extracted-model correspondence + oracle from the abstract declaration tree"),
 "C07": dict(
   category="proof",
   text="Coq theorems over the Gallina model of SignalSource::load_signals (sort, dedup, alias substitution, zip back, slice) and of the "
        "simple Waveform's load/unload/get bookkeeping, parametric in the signal type and the inner source: load_signals_shape (one entry "
        "per distinct id, increasing order, own id), load_signals_content (request-independent content for any source that answers per id), "
        "waveform_history (for every history of load/unload calls exactly the loaded-and-not-unloaded signals are exposed, each with that "
        "content), load_keeps_loaded. Tied to the code by running the extracted model and the real Waveform on the same histories "
        "(every history of <= 2 calls (thorough: 3) over 39 call shapes, random longer ones) on generated VCDs with an oracle from the abstract "
        "history, and on corpus FST/GHW/VCD files against one-at-a-time loads, plus direct SignalSource::load_signals calls.",
   design_ref="DESIGN.md section 6, C07",
   note="Trusted: Coq kernel, extraction, OCaml driver, Rust harness, Python oracle. Hypothesis inner_pointwise holds by construction for the "
        "wavemem reader (ids.iter().map(load_signal)); for the FST database it is assumption A-fst, exercised on corpus files. Thread "
        "interleavings of par_iter are not explored (no shared mutable state; A-rayon).",
   technique="Coq proof (history induction, refinement to set semantics) + correspondence via OCaml extraction"),
 "C18": dict(
   category="proof",
   text="Coq theorems over the Gallina model of the binding's logic (pywellen/src/lib.rs), pinned in Properties/C18.v: all_changes_spec - "
        "all_changes() lists exactly the changes Signal::iter_changes reports (every change of a time step with several changes too), each "
        "with the time of its time-table index and its value converted to a Python object; value_at_idx_spec - value_at_idx(i) is the value "
        "of the last change of the group carrying the greatest time index <= i, None before the first change; value_at_time_spec - "
        "value_at_time(t) is value_at_idx of the latest table entry <= t, None before the first; getitem_* - TimeTable indexing follows the "
        "Python conventions (negative indices, IndexError range). They rest on the point-query theorems of C05. The model is tied to the "
        "code by building the pywellen extension module from /repo and driving it from python3 on generated VCD files (all_changes, "
        "value_at_idx for every index, value_at_time for every table entry / midpoint / before / after, time_table[i] incl. negative and "
        "out-of-range i) against the extracted model and an oracle computed from the abstract history. Three genuine defects found this "
        "way were repaired (D7a-c).",
   design_ref="DESIGN.md section 6, C18 and section 12.5",
   note="Trusted: Coq kernel, extraction, OCaml driver, the Python driver pyharness/run_py.py, Python oracle; PyO3 glue and num-bigint (int conversion of long 0/1 strings) are exercised, not modelled. Theorem premises: non-decreasing change indices (C02/C04), fewer than 65536 changes of one signal in one time step (complement: known finding D12), indices inside the time table.",
   technique="Coq proof (binding logic refines iter_changes / point queries) + extracted-model correspondence against the real extension module + oracle"),
 "C17": dict(
   category="proof",
   text="Coq theorems pinned in Properties/C17.v: de_ser - for every shape of type built from integers (ranges, NonZero), bool, String, "
        "Option, Vec, HashMap with integer keys (decimal text, read_show_N), tuples, structs and enums with unit / newtype / struct / "
        "tuple variants, the document serde_json writes for a value is read back by the derived Deserialize as that value, provided no "
        "Option sits directly inside an Option and variant names are distinct (both conditions are needed: nested_option_refuted, "
        "duplicate_variant_refuted); derive_sites_roundtrip / derive_sites_reserialise - this holds for every one of the shapes that a "
        "translator regenerates from the serde derive sites of the current source on every run (Generated/SerdeSchema.v; 26 sites, "
        "Hierarchy and Signal among them: roots_present; side conditions by computation: serde_types_ok; non-vacuity: "
        "serde_types_inhabited), and a second serialisation reproduces the document. Behaviour under the accessors: the objects are "
        "plain data, every field is in the shape (any #[serde(..)] attribute stops the translator), so equal field values behave "
        "equally; that, and the model itself, are tied to the code by the run: every Hierarchy and loaded Signal of generated VCD "
        "files and of the corpus files of all three formats is serialised, deserialised and the clone's complete observation (tree "
        "walk with attributes, lookups, slice info, change iteration, point queries at every index) compared with the original; the "
        "JSON of real objects must be read and re-written identically by the extracted model (image of ser) and validate against the "
        "translated schema; locally corrupted documents must be accepted / rejected alike by the derived code and by the model.",
   design_ref="DESIGN.md section 6, C17 and section 12.5",
   note="Modelled, not verified: what serde's derive macros generate and serde_json's encoding (Model/Serde.v; the model's de accepts "
        "only documents in the form ser writes, the derived code also accepts reordered members and sequences for structs - corrupted "
        "documents of those kinds are not generated). Trusted: the translator (derive sites -> shapes), Coq kernel + vm_compute, "
        "extraction (ExtrOcamlBasic), OCaml document parser, Python document encoder and schema validator, Rust harness.",
   technique="Coq proof (generic serde round trip over translated shapes) + translator + correspondence on real and corrupted JSON"),
 "C10": dict(
   category="proof",
   text="The FST container is decoded by the dependency fst-reader, which hands wellen a stream of hierarchy entries with a header, the "
        "time table and value-change callbacks; everything wellen's fst.rs does with them is modelled and the property's clauses are "
        "Coq theorems pinned in Properties/C10.v. Hierarchy: fst_design_calls / fst_read_hierarchy_design - an entry stream that renders "
        "a list of declarations (each scope preceded by its source stems, each variable by its VHDL infos and enum table references, "
        "path names and enum tables where they occur) yields exactly the builder calls of those declarations: scope and variable kinds, "
        "directions, component, width, bit range and array scopes, the handle as the signal (aliases share it: var_call_signal), "
        "the first stem of each kind / first type name / first enum reference (scope_attrs_first, var_attrs_first), resolved as "
        "known at that point; attributes never reach a later declaration; the conversion tables are translated from the source on every "
        "run; convert_timescale_spec (exponents -15..9). Values: fst_load_signals_spec - however the callbacks of different signals "
        "are interleaved (within a time step, across value-change blocks), every requested signal is built from exactly its own "
        "callbacks in order, each under the index of the first time-table entry not smaller than its time (first_ge_sorted: the first "
        "entry equal to it, also when a time is listed twice); fst_writer_spec / fst_writer_rs_spec - the signal SignalWriter builds "
        "reports exactly those changes (least kind, equal neighbours once), independent of the order of state kinds (every widening by "
        "expand_entries is invisible), for bit vectors of width >= 1, reals and strings. Tie to the code: the harness reads every "
        "generated FST file and the corpus FST files with fst-reader directly and through wellen; the extracted model, run on the "
        "dependency's output, must print what wellen reports (hierarchy walk, lookups partition, type names, enum tables, source "
        "locators, date, version, timescale; every signal of a random subset in a random order); the writer model is run against the "
        "real writer (hook) on every ordered pair/triple of state kinds x widths 1..40 and random sequences (a genuine defect, D2, was "
        "found and repaired this way). Oracle for whole files: complete FST files are generated from abstract designs (vlib/filegen.py: "
        "1..n value-change blocks with frame / explicit initial values, a time step shared by two blocks, zlib or raw streams and time "
        "chain, gzip or LZ4 hierarchy with all scope types, 28 variable type codes, directions, aliases, enum tables, source locators, "
        "VHDL type attributes, every timescale exponent class) and the loaded waveform must print the listing computed from the "
        "design; every corpus FST with a VCD twin is compared with the VCD load.",
   design_ref="DESIGN.md section 6, C10 and sections 12.5, 12.7",
   note="Modelled, not verified: the dependency fst-reader (A-fst: it decodes the container and calls back per signal in time order; "
        "exercised by the generated files), String::from_utf8_lossy on string values (A-utf8), the hierarchy builder behind the calls "
        "(C08's model, which keeps neither enum tables nor instantiation locators - those are compared call by call). The extracted "
        "model is list-based: hierarchies above 700 entries and loads above 40000 callbacks are decided by the file oracle alone. "
        "Trusted: Coq kernel, extraction (ExtrOcamlBasic), OCaml driver, translator (conversion tables incl. the dependency's enum "
        "discriminants read from the cargo registry), Rust harness, Python generators/oracles incl. the FST file writer.",
   technique="Coq proof of fst.rs (hierarchy entries -> builder calls, callback dispatch, SignalWriter) + extracted-model correspondence on "
             "the dependency's real output; generated FST files vs listing computed from the design; corpus twins"),
 "C11": dict(
   category="proof",
   text="Coq theorems pinned in Properties/C11.v: read_signals_ops - whatever the section bytes are, when the GHW signal section reader "
        "(snapshot / cycle / directory / tailer sections, cycle delta arithmetic, signed LEB128, STD_LOGIC_LUT, VecBuffer) succeeds, "
        "its blocks and time table are what finishing an encoder yields after a history of time stamps, raw changes carrying the packed "
        "form of valid symbols and doubles of 8 bytes - so the storage theorems of C02/C04 apply (read_signals_time_table: the time "
        "table is the strictly increasing list of accepted section time stamps); vec_update_spec / finish_time_step_spec / ve_set_spec / "
        "ve_get_spec (one per-bit record = one symbol of the packed vector; every dispatch carries the packed form of the vector's "
        "symbols); time_step_spec (the buffer's schedule over a whole time step: an untouched vector hands the store nothing, every value "
        "handed over is the vector's symbols at that moment, the last value handed over for a touched vector is its final symbols - the "
        "per-bit records written in order, first declared element leftmost -, no vector stays marked); cycle_signals_vectors / "
        "cycle_vectors_step (from the bytes: the records `LEB128 distance, value byte` of a cycle that address elements of std_logic / bit "
        "vectors make exactly those per-bit updates, in file order, signal index = running sum of the distances minus one, symbol = "
        "STD_LOGIC_LUT code of the byte; composed with time_step_spec) and cycle_loop_vectors (a whole run of such cycles with their signed "
        "LEB128 time distances hands the store per cycle its time stamp and that step's trace), cycle_signals_records / "
        "cycle_loop_records (records of every value type - scalars, enumerations, integers as the 64-bit two's complement of the "
        "signed LEB128 number, reals as 8 bytes - and a whole cycle section as the abstract run of its cycles), section_snapshot, "
        "section_cycles, ghw_body_run (the signal part of a file as a whole - snapshot section, cycle sections, directory, tailer - is "
        "its abstract run); add_n_bit_change_entry, "
        "check_min_state_spec, compress_template_spec (store side of the raw path); snapshot_vectors. The hierarchy reader "
        "(all of ghw/hierarchy.rs: string table, type table, well-known types, hierarchy section, signal tracker) is modelled "
        "(Model/GhwHier.v) and composed with the signal sections into the load of a whole file (Model/GhwFile.v); pinned about it: "
        "array_labels (the elements of an array signal are visited in declaration order, the k-th one labelled with its declared "
        "index, left - k for a descending and left + k for an ascending range - finding D20, repaired), record_fields, "
        "string_table_decoded (the prefix-compressed strings are reconstructed whatever the shared lengths), enum_bits_spec, "
        "enum_lits_codes (an enumeration's width and binary codes), ghw_leaf_var (a signal of a scalar or vector type becomes exactly "
        "one variable with the name, kind, direction, width and declared range the file gives), header_decode_info_ok / "
        "ghw_file_store_ops (the decode information of the header reader satisfies the premise of the section theorems, so that for a "
        "whole file read_signals_ops and read_signals_time_table hold with no assumption about the header). Not proved: a description of the hierarchy of every "
        "declaration in terms of its type beyond these clauses, the composition of the scalar records with the store theorems. Tie and oracle: the "
        "extracted model of the whole loader against wellen on every generated GHW file, the corpus files and truncated / corrupted "
        "headers (harness ghwhier / ghwfile vs model ghwh / ghwf); the extracted section model against "
        "ghw::signals::read_signals (hook with explicit decode information) on generated section bytes (both endians, delta cycles, "
        "backwards times, all value types) and on damaged sections, oracle = values of every variable after every cycle from the "
        "abstract history; complete GHW files generated from abstract designs (string table with prefix sharing, type table, hierarchy "
        "with all scope kinds and directions, snapshot, cycles with delta rounds, directory, tailer) whose loaded listing must equal "
        "the design; the corpus GHW files.",
   design_ref="DESIGN.md section 6, C11 and sections 12.5, 12.7",
   note="Trusted: Coq kernel, extraction (ExtrOcamlBasic), OCaml driver, Rust harness, Python generators/oracles incl. the GHW file writer. Modelled, not verified: String::from_utf8_lossy on names (files whose names are not valid UTF-8 are skipped by the tie), float ranges of real subtypes (read and forgotten), allocation failure for signal tables above 2^20 entries (Panic in the model).",
   technique="Coq proof (value path from the bytes of cycles and snapshot to the store; array labels, record fields, string table, enum codes of the hierarchy reader) + extracted model of the whole GHW loader vs wellen on generated, corpus and corrupted files + listing computed from the design"),
 "C12": dict(
   category="translation_validation",
   text="Coq theorems pinned in Properties/C12.v: vcd_fst_same_report / vcd_fst_same_report_rs (the wavemem store fed VCD text and the FST "
        "signal writer report the same for the same values: bit vectors, reals, strings) and same_meaning_same_report (VCD text changes "
        "and pre-packed raw changes - what the GHW reader delivers - that mean the same symbols at the same time indices are reported "
        "identically, whatever the segmentation of either store); vcd_fst_same_calls / vcd_fst_same_tree (the tree clause for VCD and "
        "FST: one list of declarations, declared by VCD header commands and by FST hierarchy entries, makes the two front ends call the "
        "builder identically up to component and direction, hence - hier_run_erase: the builder never looks at either - the two "
        "hierarchies have the same scopes and variables with the same names, kinds, widths, bit ranges and signals, linked into the same "
        "tree in the same order; enc_classes_agree: every FST type code but RealParameter is stored as its VCD counterpart). Not "
        "proved: the GHW hierarchy (its section reader is not modelled), that the GHW section reader / vector buffer delivers the "
        "packed form of what a file encodes, time tables of whole files. Those are decided by running: one abstract "
        "value history per variable through the three value paths, each on the real code and on its Gallina model (exhaustive widths "
        "1..24 x kind orders, random to width 130); complete VCD, FST and GHW files generated from one design (common subset plus "
        "scenarios: several vectors written in one step, kind orders for every width residue, a vector idle for > 16384 steps, multi- "
        "and single-threaded) whose listings must be equal and equal to the design; all corpus waveforms existing in two formats.",
   design_ref="DESIGN.md section 6, C12 and sections 12.5, 12.7",
   note="Trusted: Coq kernel, extraction (ExtrOcamlBasic), OCaml driver, Rust harness, Python generators/oracles incl. the three file writers. Corpus twins come from third-party converters; three documented conversion artefacts are excluded.",
   technique="Coq proof of value-path agreement (VCD/FST/raw) and of tree agreement (VCD/FST) + correspondence of three Coq value-path models vs real code + three-format file generators; corpus twins"),
}

NOT_YET = {}

def pinned(pid):
    import re
    path = os.path.join(VERIF, "coq", "Properties", pid + ".v")
    if not os.path.exists(path):
        return []
    return re.findall(r"^Check\s+@?([A-Za-z0-9_']+)", open(path).read(), re.M)


def main():
    props = [json.loads(l) for l in open(os.path.join(VERIF, "properties.jsonl"))]
    checks = []
    na = []
    for p in props:
        pid = p["id"]
        if pid in CLAIMED:
            c = CLAIMED[pid]
            checks.append({
                "property_id": pid,
                "quick_cmd": "./check %s --tier quick" % pid,
                "thorough_cmd": "./check %s --tier thorough" % pid,
                "evidence_file": "/verif/evidence/%s.json" % pid,
                "replay_cmd_template": "./check %s --replay {path}" % pid,
                "engine": "coq-model-correspondence",
                "level_claimed": {"category": c["category"],
                                  "text": c["text"] + (" Pinned machine-checked theorems (coq/Properties/%s.v, all closed under the global context): %s." % (pid, ", ".join(pinned(pid))) if pinned(pid) else " No theorem is pinned for this property yet."),
                                  "design_ref": c["design_ref"]},
                "level_note": c["note"],
                "technique": c["technique"],
            })
        else:
            na.append({"property_id": pid,
                       "reason": NOT_YET.get(pid, "not claimed yet: model, theorems and correspondence for this property are still under construction (see DESIGN.md section 6); the technique applies")})
    m = {
        "version": 1,
        "setup_cmd": "./scripts/setup.sh",
        "hooks": {
            "guard": "wellen_verif",
            "enable": "RUSTFLAGS=\"--cfg wellen_verif\" cargo build --offline (in /verif/harness, path dependency on /repo/wellen)",
            "baseline_off_cmd": "/verif/scripts/baseline_off.sh",
            "source_commits": [l.strip() for l in open(os.path.join(VERIF, "hooks_commits.txt")) if l.strip()],
            "add_only": True,
        },
        "engines": [{
            "name": "coq-model-correspondence",
            "path": "/verif/check",
            "serves_properties": sorted(CLAIMED),
            "kind_free_text": "Coq 8.16 theorems over a hand-written executable Gallina model (coq/), tied to /repo's working tree on every run by a correspondence check: model extracted to OCaml vs Rust harness built with --cfg wellen_verif, plus an independent property oracle on the implementation",
        }],
        "checks": checks,
        "notes": "See DESIGN.md. Known findings are listed in known_findings.jsonl.",
        "not_applicable": na,
    }
    json.dump(m, open(os.path.join(VERIF, "MANIFEST.json"), "w"), indent=1)

main()
