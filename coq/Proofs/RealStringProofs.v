(* Reals and strings in the store (wavemem.rs load_reals, load_signal_strings, get_value_at): the stream written by
   SignalEncoder is read back as the list of values with consecutive repetitions dropped (properties C04, C06).
   The block / encoder bookkeeping around the stream is the same code as for bit vectors (Proofs/EncoderProofs.v). *)
From Coq Require Import Lia ZifyBool ZifyNat ZifyN.
From WV Require Import Model.Base Generated.Consts Model.Bits Model.Leb128 Model.WaveMem
  Proofs.BitsProofs Proofs.LebProofs Proofs.StoreProofs.
Ltac Zify.zify_post_hook ::= Z.div_mod_to_equations.
Open Scope N_scope.
Arguments N.add : simpl never. Arguments N.mul : simpl never. Arguments N.pow : simpl never.

(* ------------------------------------------------------------------ reals *)

Definition renc (e : N * list byte) : list byte := leb_write (fst e) ++ snd e.
Definition rstream (es : list (N * list byte)) : list byte := concat (map renc es).
Definition rwf (e : N * list byte) : Prop := length (snd e) = 8%nat /\ fst e < 2 ^ 32.

Fixpoint rspec (es : list (N * list byte)) (t : N) (canon : list (N * list byte)) : list (N * list byte) :=
  match es with
  | [] => canon
  | (delta, le) :: r => rspec r (t + delta) (push_canon canon (t + delta, le))
  end.

Lemma skipn_concat_last (canon : list (N * list byte)) t le : entries_ok 8 (canon ++ [(t, le)]) ->
  skipn (length (concat (map snd (canon ++ [(t, le)]))) - 8) (concat (map snd (canon ++ [(t, le)]))) = le.
Proof.
  intros H. apply Forall_app in H as [_ H]. apply Forall_cons_iff in H as [H _]. cbn [snd] in H.
  rewrite map_app, concat_app. cbn [map concat snd]. rewrite app_nil_r, app_length, H.
  replace (length (concat (map snd canon)) + 8 - 8)%nat with (length (concat (map snd canon))) by lia.
  rewrite skipn_app, skipn_all, Nat.sub_diag. reflexivity.
Qed.

Lemma load_reals_step f e rest t acc canon : rwf e -> acc_rep 8 acc canon ->
  exists acc', acc_rep 8 acc' (push_canon canon (t + fst e, snd e)) /\
    load_reals (S f) (renc e ++ rest) t acc = load_reals f rest (t + fst e) acc' /\ la_strings acc' = la_strings acc.
Proof.
  destruct e as [delta le]. intros [Hl Hlt] (Hi & Hby & Hok). cbn [fst snd] in *.
  cbn [load_reals]. unfold renc. cbn [fst snd]. rewrite <- app_assoc.
  rewrite leb_roundtrip by (assert (2 ^ 32 < 2 ^ 64) by (apply N.pow_lt_mono_r; lia); lia).
  unfold u32_wrap. assert (Hp : 2 ^ 32 = 4294967296) by reflexivity. rewrite Hp in Hlt. rewrite (N.mod_small _ _ Hlt).
  rewrite app_length. destruct (Nat.ltb_spec (length le + length rest) 8) as [Hc|_]; [lia|].
  assert (Hfn : firstn 8 (le ++ rest) = le) by (rewrite <- Hl, firstn_app, firstn_all, Nat.sub_diag; cbn [firstn]; apply app_nil_r).
  assert (Hsn : skipn 8 (le ++ rest) = rest) by (rewrite <- Hl, skipn_app, skipn_all, Nat.sub_diag; reflexivity).
  rewrite Hfn, Hsn.
  unfold push_canon. cbn [snd].
  destruct (last_opt canon) as [[tp prev]|] eqn:El.
  - apply last_opt_some in El as [c' ->].
    assert (Hne : Nat.eqb (length (la_bytes acc)) 0 = false).
    { apply Nat.eqb_neq. rewrite Hby, map_app, concat_app, app_length. cbn [map concat snd].
      apply Forall_app in Hok as [_ Hp']. apply Forall_cons_iff in Hp' as [Hp' _]. cbn [snd] in Hp'. rewrite app_nil_r, Hp'. lia. }
    rewrite Hne.
    assert (Hsk : skipn (length (la_bytes acc) - 8) (la_bytes acc) = prev) by (rewrite Hby; apply (skipn_concat_last c' tp prev Hok)).
    unfold byte in *. rewrite Hsk.
    destruct (list_eqb prev le) eqn:Eq; cbn [negb].
    + exists acc. split; [repeat split; assumption|]. split; reflexivity.
    + eexists. split; [|split; reflexivity]. unfold acc_rep. cbn [la_idx la_bytes].
      split; [now rewrite Hi, !map_app|]. split.
      * rewrite Hby, !map_app, !concat_app. cbn [map concat snd]. now rewrite !app_nil_r.
      * apply Forall_app. split; [exact Hok|]. constructor; [exact Hl|constructor].
  - apply last_opt_none in El. subst canon. cbn [map concat] in Hby. rewrite Hby. cbn [length Nat.eqb app].
    eexists. split; [|split; reflexivity]. unfold acc_rep. cbn [la_idx la_bytes map concat snd fst app].
    split; [now rewrite Hi|]. split; [now rewrite app_nil_r|]. constructor; [exact Hl|constructor].
Qed.

(* load_reals over a whole stream: the values with consecutive repetitions (same 8 bytes) dropped *)
Theorem load_reals_stream : forall es fuel t acc canon,
  Forall rwf es -> acc_rep 8 acc canon -> (length es < fuel)%nat ->
  exists acc', load_reals fuel (rstream es) t acc = Ok acc' /\ acc_rep 8 acc' (rspec es t canon) /\
               la_strings acc' = la_strings acc.
Proof.
  induction es as [|e es IH]; intros fuel t acc canon Hwf Hrep Hf.
  - destruct fuel as [|f]; [cbn in Hf; lia|]. cbn. exists acc. repeat split; apply Hrep.
  - destruct fuel as [|f]; [cbn in Hf; lia|]. apply Forall_cons_iff in Hwf as [He Hes].
    unfold rstream. cbn [map concat]. fold (rstream es).
    destruct (load_reals_step f e (rstream es) t acc canon He Hrep) as (acc1 & Hrep1 & -> & Hs1).
    destruct e as [delta le]. cbn [fst snd] in *.
    destruct (IH f (t + delta) acc1 _ Hes Hrep1 ltac:(cbn in Hf; lia)) as (acc' & H1 & H2 & H3).
    exists acc'. split; [exact H1|]. split; [exact H2|congruence].
Qed.

(* iter_changes over a real signal: every kept value with its time index *)
Theorem observe_reals (canon : list (N * list byte)) : entries_ok 8 canon ->
  observe_signal (mk_signal (map fst canon) (SigReal (concat (map snd canon))))
  = Ok (map (fun e : N * list byte => (fst e, KReal, snd e)) canon).
Proof.
  intros Hok. unfold observe_signal. cbn [s_idx s_data]. rewrite map_length.
  assert (G : forall done todo, canon = done ++ todo ->
            outcome_map (fun '(k, t) => do v <- get_value_at (SigReal (concat (map snd canon))) k; Ok (t, fst v, snd v))
                        (combine (seq (length done) (length todo)) (map fst todo))
            = Ok (map (fun e : N * list byte => (fst e, KReal, snd e)) todo)).
  { intros done todo. revert done. induction todo as [|[t le] todo IH]; intros done E; [reflexivity|].
    cbn [length seq map combine outcome_map fst snd].
    assert (Hd : entries_ok 8 done /\ length le = 8%nat /\ entries_ok 8 todo).
    { rewrite E in Hok. apply Forall_app in Hok as [H1 H2]. apply Forall_cons_iff in H2 as [H2 H3]. auto. }
    destruct Hd as (Hd & Hl & Ht).
    assert (Hlen : length (concat (map snd done)) = (length done * 8)%nat).
    { clear -Hd. induction Hd as [|x r Hx _ IHd]; [reflexivity|]. cbn [map concat length]. rewrite app_length, IHd, Hx. lia. }
    assert (Hb : concat (map snd canon) = concat (map snd done) ++ le ++ concat (map snd todo)).
    { rewrite E, map_app, concat_app. reflexivity. }
    assert (Hget : get_value_at (SigReal (concat (map snd canon))) (length done) = Ok (KReal, le)).
    { unfold get_value_at. rewrite Hb, !app_length, Hlen, Hl.
      destruct (Nat.ltb_spec (length done * 8 + (8 + length (concat (map snd todo)))) (length done * 8 + 8)) as [Hc|_]; [lia|].
      f_equal. f_equal. rewrite <- Hlen, skipn_app, skipn_all, Nat.sub_diag. cbn [skipn app].
      rewrite <- Hl, firstn_app, firstn_all, Nat.sub_diag. cbn [firstn]. apply app_nil_r. }
    rewrite Hget. cbn [bind fst snd].
    specialize (IH (done ++ [(t, le)])). rewrite app_length in IH. cbn [length] in IH. rewrite Nat.add_1_r in IH.
    rewrite IH by (now rewrite <- app_assoc). reflexivity. }
  specialize (G [] canon eq_refl). cbn [length] in G. exact G.
Qed.

(* ------------------------------------------------------------------ strings *)

Definition senc (e : N * list byte) : list byte := leb_write (fst e) ++ leb_write (N.of_nat (length (snd e))) ++ snd e.
Definition sstream (es : list (N * list byte)) : list byte := concat (map senc es).
Definition swf (e : N * list byte) : Prop := fst e < 2 ^ 32 /\ N.of_nat (length (snd e)) < 2 ^ 64.

Definition str_rep (acc : load_acc) (canon : list (N * list byte)) : Prop :=
  la_idx acc = map fst canon /\ la_strings acc = map snd canon.

Lemma last_opt_map_snd (canon : list (N * list byte)) : last_opt (map snd canon) = option_map snd (last_opt canon).
Proof. induction canon as [|x [|y l] IH]; try reflexivity. exact IH. Qed.

Lemma load_strings_step f e rest t acc canon : swf e -> str_rep acc canon ->
  exists acc', str_rep acc' (push_canon canon (t + fst e, snd e)) /\
    load_strings (S f) (senc e ++ rest) t acc = load_strings f rest (t + fst e) acc' /\ la_bytes acc' = la_bytes acc.
Proof.
  destruct e as [delta s]. intros [Hlt Hls] (Hi & Hst). cbn [fst snd] in *.
  cbn [load_strings]. unfold senc. cbn [fst snd]. rewrite <- !app_assoc.
  rewrite leb_roundtrip by (assert (2 ^ 32 < 2 ^ 64) by (apply N.pow_lt_mono_r; lia); lia).
  unfold u32_wrap. assert (Hp : 2 ^ 32 = 4294967296) by reflexivity. rewrite Hp in Hlt. rewrite (N.mod_small _ _ Hlt).
  rewrite leb_roundtrip by exact Hls. rewrite Nat2N.id.
  rewrite app_length. destruct (Nat.ltb_spec (length s + length rest) (length s)) as [Hc|_]; [lia|].
  rewrite firstn_app, firstn_all, Nat.sub_diag. cbn [firstn]. rewrite app_nil_r.
  rewrite skipn_app, skipn_all, Nat.sub_diag. cbn [skipn app].
  unfold push_canon. cbn [snd]. rewrite Hst, last_opt_map_snd.
  destruct (last_opt canon) as [[tp prev]|] eqn:El; cbn [option_map snd].
  - destruct (list_eqb prev s); cbn [negb].
    + exists acc. split; [split; assumption|]. split; reflexivity.
    + eexists. split; [|split; reflexivity]. unfold str_rep. cbn [la_idx la_strings]. now rewrite Hi, !map_app.
  - eexists. split; [|split; reflexivity]. unfold str_rep. cbn [la_idx la_strings]. now rewrite Hi, !map_app.
Qed.

(* load_signal_strings over a whole stream: the strings with consecutive repetitions dropped *)
Theorem load_strings_stream : forall es fuel t acc canon,
  Forall swf es -> str_rep acc canon -> (length es < fuel)%nat ->
  exists acc', load_strings fuel (sstream es) t acc = Ok acc' /\ str_rep acc' (rspec es t canon) /\
               la_bytes acc' = la_bytes acc.
Proof.
  induction es as [|e es IH]; intros fuel t acc canon Hwf Hrep Hf.
  - destruct fuel as [|f]; [cbn in Hf; lia|]. cbn. exists acc. repeat split; apply Hrep.
  - destruct fuel as [|f]; [cbn in Hf; lia|]. apply Forall_cons_iff in Hwf as [He Hes].
    unfold sstream. cbn [map concat]. fold (sstream es).
    destruct (load_strings_step f e (sstream es) t acc canon He Hrep) as (acc1 & Hrep1 & -> & Hs1).
    destruct e as [delta s]. cbn [fst snd] in *.
    destruct (IH f (t + delta) acc1 _ Hes Hrep1 ltac:(cbn in Hf; lia)) as (acc' & H1 & H2 & H3).
    exists acc'. split; [exact H1|]. split; [exact H2|congruence].
Qed.

(* iter_changes over a string signal *)
Theorem observe_strings (canon : list (N * list byte)) :
  observe_signal (mk_signal (map fst canon) (SigStrings (map snd canon)))
  = Ok (map (fun e : N * list byte => (fst e, KString, snd e)) canon).
Proof.
  unfold observe_signal. cbn [s_idx s_data]. rewrite map_length.
  assert (G : forall done todo, canon = done ++ todo ->
            outcome_map (fun '(k, t) => do v <- get_value_at (SigStrings (map snd canon)) k; Ok (t, fst v, snd v))
                        (combine (seq (length done) (length todo)) (map fst todo))
            = Ok (map (fun e : N * list byte => (fst e, KString, snd e)) todo)).
  { intros done todo. revert done. induction todo as [|[t s] todo IH]; intros done E; [reflexivity|].
    cbn [length seq map combine outcome_map fst snd].
    assert (Hn : nth_error (map snd canon) (length done) = Some s).
    { rewrite E, map_app, nth_error_app2 by (rewrite map_length; lia). rewrite map_length, Nat.sub_diag. reflexivity. }
    assert (Hget : get_value_at (SigStrings (map snd canon)) (length done) = Ok (KString, s)).
    { unfold get_value_at. rewrite Hn. reflexivity. }
    rewrite Hget. cbn [bind fst snd].
    specialize (IH (done ++ [(t, s)])). rewrite app_length in IH. cbn [length] in IH. rewrite Nat.add_1_r in IH.
    rewrite IH by (now rewrite <- app_assoc). reflexivity. }
  specialize (G [] canon eq_refl). cbn [length] in G. exact G.
Qed.
