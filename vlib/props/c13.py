"""C13 - a variable aliasing a sub-range of a vector reports exactly that sub-range."""
from .. import core, gen
from . import vcdfam

PID = "C13"
LEVEL = "proof"
NEEDS_RELEASE = True
RULE = ("parent bit-vector signals (2/4/9-state mixes) are recorded through the Encoder hook and sliced with signals::slice_signal "
        "(hook), exhaustively for every parent width 2..20 x every sub-range [hi:lo] strictly inside it x three kind profiles, and "
        "randomly up to width 300; debug and release builds; sequences of GhwSignalTracker::register_bit_vec requests (hook) with several parent vectors, interleaved and repeated sub-ranges and scalars against an oracle for which variables share a signal and where each sub-range lies (first element = most significant bit); plus the GHW corpus file with 31 sub-range variables loaded through "
        "the public API. Oracle: at every change of the parent the slice equals the substring, reported in the smallest sufficient "
        "kind, and changes only when the sub-range changes. Non-trivial: the sub-range is a proper sub-range and the parent has "
        ">= 2 changes; distinct (width, hi, lo, values).")
ASSUMPTIONS = ["GHW alias arithmetic (register_bit_vec) is exercised through the corpus file only; its model belongs to C11"]
TRUSTED_BASE = ["Python oracle c13.expected_slice (substring + dedup + minimal kind)"]


def expected_slice(width, msb, lsb, changes):
    """changes: list of (idx, bits) of the parent as recorded (before dedup)"""
    parent = []
    for idx, v in changes:
        if parent and parent[-1][1] == v:
            continue
        parent.append((idx, v))
    out = []
    for idx, v in parent:
        sub = v[width - 1 - msb: width - lsb]
        if out and out[-1][1] == sub:
            continue
        out.append((idx, sub))
    p = ",".join("%x:%s:%s" % (i, gen.min_kind(v), v) for i, v in parent) or "-"
    s = ",".join("%x:%s:%s" % (i, gen.min_kind(v), v) for i, v in out) or "-"
    return "p=%s s=%s" % (p, s)


def mk_changes(rng, width, profile, n):
    changes = []
    idx = 0
    last = None
    for _ in range(n):
        st = rng.choice(profile)
        v = gen.rand_bits(rng, width, st)
        if last is not None and rng.random() < 0.35:
            # change only a part of the vector so that some sub-ranges stay the same
            k = rng.randrange(width)
            v = last[:k] + rng.choice(gen.ALPHA[st]) + last[k + 1:]
        last = v
        changes.append((idx, v))
        idx += rng.choice([0, 1, 1, 2])
    return changes


def reg_case(rng):
    """requests to GhwSignalTracker::register_bit_vec: parents first (in any order relative to other parents'
    sub-ranges), then sub-ranges of several parents interleaved, repeated requests, scalars"""
    parents = []
    nid = 1
    for _ in range(rng.randint(1, 4)):
        w = rng.choice([2, 3, 4, 8, 9, 16])
        parents.append((nid, nid + w - 1, rng.random() < 0.3))
        nid += w + rng.choice([0, 0, 1, 2])
    max_id = nid + 3
    reqs = []
    pending = list(parents)
    rng.shuffle(pending)
    declared = []
    for _ in range(rng.randint(2, 14)):
        r = rng.random()
        if pending and (r < 0.35 or not declared):
            p = pending.pop()
            declared.append(p)
            reqs.append(p)
        elif declared and r < 0.9:
            p = rng.choice(declared)
            a = rng.randint(p[0], p[1])
            b = rng.randint(a, p[1])
            reqs.append((a, b, p[2]))
        else:
            i = rng.randint(nid, max_id)
            reqs.append((i, i, i % 2 == 0))      # one type per scalar signal
    # oracle
    refs = []
    table = []
    count = 0
    vec_of = {}      # signal id -> parent
    scalar = {}
    alias = {}
    pref = {}
    for (a, b, two) in reqs:
        par = next((p for p in pref if p[0] <= a and b <= p[1]), None)
        if par is not None:
            if (a, b) == (par[0], par[1]):
                refs.append(pref[par])
            else:
                key = (par, par[1] - a, par[1] - b)
                if key not in alias:
                    alias[key] = count
                    table.append("%d:%d:%d:%d" % (count, key[1], key[2], pref[par]))
                    count += 1
                refs.append(alias[key])
        elif a == b:
            if a not in scalar:
                scalar[a] = count
                count += 1
            refs.append(scalar[a])
        else:
            pref[(a, b, two)] = count
            refs.append(count)
            count += 1
    line = "ghwreg %d %s" % (max_id, ",".join("%d:%d:%d" % (a, b, 1 if t else 0) for a, b, t in reqs))
    exp = "refs=%s aliases=%s" % (",".join(map(str, refs)), ",".join(table) or "-")
    return line, exp, len(table) >= 2


def run(res, rng, tier, model_ok, replay=None):
    cases = []
    if replay and isinstance(replay.get("case"), dict):
        pass
    elif replay:
        line = replay.get("case") or replay["broken_correspondence"]["case"]
        cases.append({"line": line})
    else:
        for width in range(2, 21 if tier == "quick" else 34):
            for msb in range(width):
                for lsb in range(msb + 1):
                    if msb - lsb + 1 >= width:
                        continue
                    for profile in ([2], [2, 9], [2, 4, 9]):
                        ch = mk_changes(rng, width, profile, rng.randint(2, 6))
                        line = "slice %d %d %d %s" % (width, msb, lsb, ",".join("%x:%s" % c for c in ch))
                        cases.append({"line": line, "expect": expected_slice(width, msb, lsb, ch),
                                      "key": line, "klass": "exhaustive-w<=20" if width <= 20 else "exhaustive-w<=33"})
        res.exhaustive = True
        for _ in range(400 if tier == "quick" else 6000):
            width = rng.choice([21, 31, 32, 33, 63, 64, 65, 100, 127, 128, 129, 255, 256, 300, rng.randint(2, 300)])
            msb = rng.randrange(width)
            lsb = rng.randint(0, msb)
            if msb - lsb + 1 >= width:
                continue
            ch = mk_changes(rng, width, rng.choice([[2], [4], [9], [2, 4, 9], [2, 9]]), rng.randint(2, 8))
            line = "slice %d %d %d %s" % (width, msb, lsb, ",".join("%x:%s" % c for c in ch))
            cases.append({"line": line, "expect": expected_slice(width, msb, lsb, ch), "key": line, "klass": "random-wide"})
        for _ in range(600 if tier == "quick" else 8000):
            line, exp, nt = reg_case(rng)
            cases.append({"line": line, "expect": exp, "key": line if nt else None, "klass": "alias-registration"})
    vcdfam.run_both(res, cases, "c13d", model_ok, release=False)
    rel = [dict(c, klass=c.get("klass", "") + "-release") for c in cases]
    vcdfam.run_both(res, rel, "c13r", model_ok, release=True)
    # the GHW corpus file with sub-range variables, through the public API (debug and release)
    f = "/repo/wellen/inputs/ghdl/wellen_issue_12.ghw"
    for wv, tag in ((core.WV_DEBUG, "debug"), (core.WV_RELEASE, "release")):
        out = core.run_cases(wv, ["ghwslices " + f], "c13g")[0]
        res.evaluations += 1
        res.distribution["ghw-corpus-" + tag] = 1
        # the corpus file holds 31 variables that are sub-ranges of larger vectors: all of them have to be recognised as such (in both builds)
        if not out.startswith("ok 31 "):
            res.violations.append(("ghwslices " + f, out, "ok 31 sub-range variables", "sub-range variables of the GHW corpus file (%s build)" % tag))
        else:
            res.nontrivial.add(("ghw", tag))
            res.notes.append("%s build: %s" % (tag, out[:200]))
    if not replay:
        # generated GHW files with variables that consist of signals of an earlier vector (the whole vector again, a proper
        # sub-range, a single element; ascending and descending declared ranges on both sides): the full listing - every
        # such variable reports exactly its sub-range of the vector's changes - must equal the one computed from the design
        import json
        from .. import designs
        fcases = [c for c in designs.ghw_cases(rng, tier) if c.get("opts") is not None and "slice_of" in json.dumps(c["spec"])]
        for c in fcases:
            c["klass"] = "file-ghw-sub-range-variables"
        designs.run_file_cases(res, fcases[:(40 if tier == "quick" else 800)], "c13f")
    elif isinstance(replay.get("case"), dict):
        from .. import designs
        designs.replay_filecase(res, replay, "c13f")
    if cases:
        res.samples = [c["line"][:200] for c in cases[:2]] + [cases[-1]["line"][:300]] + res.samples[-1:]


def check_known(entry):
    return False
