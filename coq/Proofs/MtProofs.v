(* Multi-threaded VCD loading equals single-threaded loading (property C03), for bodies written one token group per
   line whose first line is a time stamp and whose time stamps increase: the operation lists of the parser threads,
   as their VcdEncoders see them, concatenate to the sequential operation list (ops level), and the appended
   per-thread stores report what the single store reports (store level). *)
From Coq Require Import Lia Sorted.
From WV Require Import Model.Base Generated.Consts Model.Bits Model.Leb128 Model.WaveMem Model.VcdBody
  Spec.TimeSpec Spec.StoreSpec Proofs.BitsProofs Proofs.StoreProofs Proofs.TimeTableProofs Proofs.EncoderProofs
  Proofs.BodyProofs Proofs.VcdStreamProofs Proofs.PrefixProofs Proofs.TokenProofs Proofs.TilingProofs.
Open Scope N_scope.

Definition evs (X : list line) : list event := flat_map events_of X.

Lemma evs_app A B : evs (A ++ B) = evs A ++ evs B.
Proof. apply flat_map_app. Qed.

Definition is_value (e : event) : Prop := match e with EvTime _ => False | EvValue _ _ => True end.

Lemma evs_notime D : Forall (fun l => is_time l = false) D -> Forall is_value (evs D).
Proof.
  induction 1 as [|l D Hl _ IH]; [constructor|]. unfold evs in *. cbn [flat_map]. apply Forall_app. split; [|exact IH].
  destruct l; cbn [events_of is_time] in *; try discriminate; repeat constructor.
Qed.

(* a later thread drops the value changes in front of its first time stamp *)
Lemma ops_of_drop lookup : forall vals E, Forall is_value vals ->
  ops_of lookup false false (vals ++ E) = ops_of lookup false false E.
Proof.
  induction vals as [|v vals IH]; intros E H; [reflexivity|]. apply Forall_cons_iff in H as [Hv H].
  destruct v as [t|val i]; [contradiction|]. cbn [app ops_of orb]. now apply IH.
Qed.

(* once a time stamp has been seen the stream kind does not matter *)
Lemma ops_of_found lookup : forall E first, ops_of lookup first true E = ops_of lookup false true E.
Proof.
  induction E as [|e E IH]; intros first; [reflexivity|]. destruct e as [t|v i]; cbn [ops_of orb negb andb].
  - now rewrite IH.
  - rewrite Bool.andb_false_r. cbn [app]. now rewrite IH.
Qed.

Lemma ops_of_app_found lookup : forall A B first ops, ops_of lookup first true (A ++ B) = Some ops ->
  exists o1 o2, ops_of lookup first true A = Some o1 /\ ops_of lookup first true B = Some o2 /\ ops = o1 ++ o2.
Proof.
  induction A as [|e A IH]; intros B first ops H; cbn [app] in H.
  - exists [], ops. repeat split; assumption.
  - destruct e as [t|v i]; cbn [ops_of orb negb andb] in *.
    + destruct (ops_of lookup first true (A ++ B)) as [o|] eqn:E; [|discriminate]. inversion H; subst ops.
      destruct (IH B first o E) as (o1 & o2 & H1 & H2 & ->). rewrite H1. exists (OpTime t :: o1), o2. repeat split; assumption.
    + rewrite Bool.andb_false_r in *. cbn [app] in *. destruct (lookup_id lookup i) as [n|]; [|discriminate].
      destruct (ops_of lookup first true (A ++ B)) as [o|] eqn:E; [|discriminate]. inversion H; subst ops.
      destruct (IH B first o E) as (o1 & o2 & H1 & H2 & ->). rewrite H1. exists (OpVcd n v :: o1), o2. repeat split; assumption.
Qed.

(* a piece that starts with a time stamp line (or is empty) gives the same operations whatever the stream state *)
Lemma evs_time_head X : Forall line_ok X -> starts_with_time X -> X <> [] -> exists v E, evs X = EvTime v :: E.
Proof.
  intros Hok Hs Hne. destruct X as [|l X]; [congruence|]. apply Forall_cons_iff in Hok as [Hl _]. cbn in Hs.
  destruct l as [d| | | |]; try discriminate. destruct Hl as [_ (v & Hv)]. unfold evs. cbn [flat_map events_of]. rewrite Hv.
  exists v. eexists. reflexivity.
Qed.

Lemma ops_of_piece lookup X first found : Forall line_ok X -> starts_with_time X ->
  ops_of lookup first found (evs X) = ops_of lookup false true (evs X).
Proof.
  intros Hok Hs. destruct X as [|l X'] eqn:EX; [reflexivity|]. rewrite <- EX in *.
  destruct (evs_time_head X Hok Hs ltac:(rewrite EX; discriminate)) as (v & E & ->). cbn [ops_of]. now rewrite ops_of_found.
Qed.

(* a prefix of events followed by a piece that starts with a time stamp line: the operations split at the seam,
   whatever the stream state at the seam *)
Lemma ops_of_app_piece lookup Y : Forall line_ok Y -> starts_with_time Y -> forall A first found ops,
  ops_of lookup first found (A ++ evs Y) = Some ops ->
  exists o1 o2, ops_of lookup first found A = Some o1 /\ ops_of lookup false true (evs Y) = Some o2 /\ ops = o1 ++ o2.
Proof.
  intros Hok Hs. induction A as [|e A IH]; intros first found ops H; cbn [app] in H.
  - rewrite (ops_of_piece lookup Y first found Hok Hs) in H. exists [], ops. repeat split; assumption.
  - destruct e as [t|v i]; cbn [ops_of] in *.
    + destruct (ops_of lookup first true (A ++ evs Y)) as [o|] eqn:E; [|discriminate]. inversion H; subst ops.
      destruct (IH first true o E) as (o1 & o2 & H1 & H2 & ->). rewrite H1. exists (OpTime t :: o1), o2. repeat split; assumption.
    + destruct (found || first) eqn:Ef.
      * destruct (lookup_id lookup i) as [n|]; [|discriminate].
        destruct (ops_of lookup first true (A ++ evs Y)) as [o|] eqn:E; [|discriminate]. inversion H; subst ops.
        destruct (IH first true o E) as (o1 & o2 & H1 & H2 & ->). rewrite H1. eexists. exists o2. split; [reflexivity|]. split; [exact H2|].
        now rewrite <- app_assoc.
      * exact (IH first false ops H).
Qed.

Definition starts_with_optime (o : list enc_op) : Prop := o = [] \/ exists t0 r, o = OpTime t0 :: r.

(* the first thread's operations begin with a time stamp: a real one or the implicit time 0 *)
Lemma first_optime lookup : forall E o, ops_of lookup true false E = Some o -> starts_with_optime o.
Proof.
  intros E o H. destruct E as [|e E]; [injection H as <-; now left|]. destruct e as [t|v i]; cbn [ops_of orb andb negb] in H.
  - destruct (ops_of lookup true true E) as [o'|]; [|discriminate]. injection H as <-. right. eauto.
  - destruct (lookup_id lookup i) as [n|]; [|discriminate]. destruct (ops_of lookup true true E) as [o'|]; [|discriminate].
    injection H as <-. right. cbn [app]. eauto.
Qed.

(* ------------------------------------------------------------------ what each thread's VcdEncoder is fed *)

Definition thread_lines (ls : list line) (c : nat * nat) : list line :=
  let '(s, len) := c in
  if Nat.eqb s 0 then cutabs len 1 ls
  else cutabs (s + len) (snd (after s 1 ls)) (fst (after s 1 ls)).

Definition thread_ops (lookup : id_lookup) (ls : list line) (c : nat * nat) : option (list enc_op) :=
  ops_of lookup (Nat.eqb (fst c) 0) false (evs (thread_lines ls c)).

Lemma cutabs_prefix T : forall X o, exists rest, X = cutabs T o X ++ rest.
Proof.
  induction X as [|l X IH]; intros o; [exists []; reflexivity|]. cbn [cutabs]. destruct (is_time l && (T <? o)%nat); [exists (l :: X); reflexivity|].
  destruct (IH (o + llen l)%nat) as (rest & E). exists rest. cbn [app]. now rewrite <- E.
Qed.

Lemma cutabs_ok T X o : Forall line_ok X -> Forall line_ok (cutabs T o X).
Proof. intros H. destruct (cutabs_prefix T X o) as (rest & E). rewrite E in H. now apply Forall_app in H as [H _]. Qed.

Lemma cutabs_starts T X o : starts_with_time X -> starts_with_time (cutabs T o X).
Proof. destruct X as [|l X]; [auto|]. cbn [cutabs]. destruct (is_time l && (T <? o)%nat); [exact (fun _ => I)|auto]. Qed.

Lemma tsplit_ok T : forall X o, Forall line_ok X -> Forall line_ok (snd (fst (tsplit T o X))).
Proof.
  intros X o H. rewrite (tsplit_app T X o) in H. now apply Forall_app in H as [_ H].
Qed.

Lemma tsplit_offset T : forall X o, (o + length (bytes_of X) = snd (tsplit T o X) + length (bytes_of (snd (fst (tsplit T o X)))))%nat.
Proof.
  induction X as [|l X IH]; intros o; [reflexivity|]. cbn [tsplit]. destruct (is_time l && (T <? o)%nat); [reflexivity|].
  specialize (IH (o + llen l)%nat). destruct (tsplit T (o + llen l) X) as [[b a] oa]. cbn [fst snd] in *.
  rewrite bytes_of_cons, !app_length. cbn [length]. unfold llen in *. lia.
Qed.

Lemma tsplit_beyond T : forall X o, (o + length (bytes_of X) <= T + 1)%nat -> snd (fst (tsplit T o X)) = [].
Proof.
  induction X as [|l X IH]; intros o H; [reflexivity|]. rewrite bytes_of_cons, !app_length in H. cbn [length] in H. cbn [tsplit].
  destruct (Nat.ltb_spec T o) as [Hc|_]; [lia|]. rewrite Bool.andb_false_r.
  specialize (IH (o + llen l)%nat ltac:(unfold llen; lia)). destruct (tsplit T (o + llen l) X) as [[b a] oa]. exact IH.
Qed.

(* the operations of a later thread: those of the lines between the split at its start and the split at its end *)
Lemma later_thread_ops lookup ls s len : Forall line_ok ls -> (1 <= s)%nat ->
  thread_ops lookup ls (s, len)
  = ops_of lookup false true (evs (fst (fst (tsplit (s + len) (snd (tsplit s 1 ls)) (snd (fst (tsplit s 1 ls))))))).
Proof.
  intros Hok Hs. unfold thread_ops, thread_lines. cbn [fst]. destruct (Nat.eqb_spec s 0) as [|_]; [lia|].
  destruct (after_tsplit s ls 1 Hs) as (D & HD & HF & HO). rewrite HD, (cutabs_notime _ D _ _ HF), HO, evs_app.
  rewrite (ops_of_drop lookup _ _ (evs_notime D HF)). rewrite <- tsplit_cutabs.
  apply ops_of_piece.
  - rewrite tsplit_cutabs. apply cutabs_ok. now apply tsplit_ok.
  - rewrite tsplit_cutabs. apply cutabs_starts. apply tsplit_rest_time.
Qed.

Fixpoint contig (s : nat) (chunks : list (nat * nat)) : Prop :=
  match chunks with
  | [] => True
  | (s', len) :: r => s' = s /\ (1 <= len)%nat /\ contig (s + len) r
  end.

Fixpoint end_of (s : nat) (chunks : list (nat * nat)) : nat :=
  match chunks with [] => s | (_, len) :: r => end_of (s + len) r end.

(* the later threads tile the rest of the sequential operation list *)
Lemma later_tile lookup ls : Forall line_ok ls -> forall chunks s opsY, chunks <> [] -> contig s chunks -> (1 <= s)%nat ->
  ops_of lookup false true (evs (snd (fst (tsplit s 1 ls)))) = Some opsY ->
  (length (body ls) <= end_of s chunks)%nat ->
  exists opss, Forall2 (fun c o => thread_ops lookup ls c = Some o) chunks opss /\ opsY = concat opss.
Proof.
  intros Hok. induction chunks as [|[s' len] rest IH]; intros s opsY Hne Hc Hs Hops Hend; [congruence|].
  destruct Hc as (-> & Hlen & Hc). cbn [end_of] in Hend.
  pose proof (tsplit_compose s (s + len) ltac:(lia) ls 1) as Hcomp.
  pose proof (tsplit_offset s ls 1) as Hoff.
  destruct (tsplit s 1 ls) as [[b1 Y] oY] eqn:E1. destruct (tsplit (s + len) 1 ls) as [[b2 Y2] o2] eqn:E2.
  pose proof (tsplit_app (s + len) Y oY) as HY. pose proof (later_thread_ops lookup ls s len Hok Hs) as Hth. rewrite E1 in Hth. cbn [fst snd] in *.
  destruct (tsplit (s + len) oY Y) as [[b12 Y'] o'] eqn:E12. destruct Hcomp as (_ & HY2 & Ho2). cbn [fst snd] in *.
  rewrite HY, evs_app in Hops. destruct (ops_of_app_found lookup _ _ false opsY Hops) as (o1 & o2' & H1 & H2 & ->).
  destruct rest as [|c rest'].
  - (* the last thread runs to the end of the body *)
    assert (HY' : Y' = []).
    { pose proof (tsplit_beyond (s + len) Y oY) as Hb. rewrite E12 in Hb. cbn [fst snd] in Hb. apply Hb.
      unfold body in Hend. cbn [length end_of] in Hend. lia. }
    rewrite HY' in H2. unfold evs in H2. cbn [flat_map ops_of] in H2. injection H2 as <-.
    exists [o1]. split; [constructor; [rewrite Hth; exact H1|constructor]|]. cbn [concat]. now rewrite !app_nil_r.
  - destruct (IH (s + len)%nat o2' ltac:(discriminate) Hc ltac:(lia)) as (opss & HF & Hcat).
    + rewrite E2. cbn [fst snd]. rewrite HY2. exact H2.
    + exact Hend.
    + exists (o1 :: opss). split; [constructor; [rewrite Hth; exact H1|exact HF]|]. cbn [concat]. now rewrite Hcat.
Qed.

(* Property C03 at the level of store operations: the operation lists the parser threads hand to their encoders
   concatenate to the operation list of the sequential parser *)
Theorem ops_tile lookup ls len0 rest ops : Forall line_ok ls ->
  contig 0 ((0%nat, len0) :: rest) -> (length (body ls) <= end_of 0 ((0%nat, len0) :: rest))%nat ->
  ops_of lookup true false (evs ls) = Some ops ->
  exists opss, Forall2 (fun c o => thread_ops lookup ls c = Some o) ((0%nat, len0) :: rest) opss /\ ops = concat opss.
Proof.
  intros Hok (_ & Hlen & Hc) Hend Hops. cbn [end_of Nat.add] in *.
  pose proof (tsplit_app len0 ls 1) as Hls. pose proof (tsplit_cutabs len0 ls 1) as Hcut.
  pose proof (tsplit_rest_time len0 ls 1) as HYt. pose proof (tsplit_ok len0 ls 1 Hok) as HYok.
  destruct (tsplit len0 1 ls) as [[b1 Y1] o1] eqn:E1. cbn [fst snd] in *.
  rewrite Hls, evs_app in Hops. destruct (ops_of_app_piece lookup Y1 HYok HYt _ _ _ ops Hops) as (x1 & x2 & H1 & H2 & ->).
  assert (Hth0 : thread_ops lookup ls (0%nat, len0) = Some x1).
  { unfold thread_ops, thread_lines. cbn [fst Nat.eqb]. rewrite <- Hcut. exact H1. }
  destruct rest as [|c rest'].
  - assert (HY : Y1 = []).
    { pose proof (tsplit_beyond len0 ls 1) as Hb. rewrite E1 in Hb. cbn [fst snd] in Hb. apply Hb. unfold body in Hend. cbn [length end_of] in Hend. lia. }
    rewrite HY in H2. unfold evs in H2. cbn [flat_map ops_of] in H2. injection H2 as <-.
    exists [x1]. split; [constructor; [exact Hth0|constructor]|]. cbn [concat]. now rewrite !app_nil_r.
  - destruct (later_tile lookup ls Hok (c :: rest') len0 x2 ltac:(discriminate) Hc Hlen) as (opss & HF & Hcat).
    + rewrite E1. cbn [fst snd]. exact H2.
    + exact Hend.
    + exists (x1 :: opss). split; [constructor; assumption|]. cbn [concat]. now rewrite Hcat.
Qed.

(* ------------------------------------------------------------------ the recorded changes of a concatenated history *)

Fixpoint skip_after (ops : list enc_op) (tbl : list N) (skip : bool) : bool :=
  match ops with
  | [] => skip
  | OpTime t :: r =>
    match last_of tbl with
    | None => skip_after r (tbl ++ [t]) false
    | Some p => match N.compare p t with
                | Lt => skip_after r (tbl ++ [t]) false
                | Eq => skip_after r tbl false
                | Gt => skip_after r tbl true
                end
    end
  | _ :: r => skip_after r tbl skip
  end.

Lemma accept_compare tbl t : accept tbl t = match last_of tbl with
                                            | None => tbl ++ [t]
                                            | Some p => match N.compare p t with Lt => tbl ++ [t] | _ => tbl end
                                            end.
Proof. unfold accept. destruct (last_of tbl) as [p|]; [|reflexivity]. destruct (N.compare_spec p t); destruct (N.ltb_spec p t); try reflexivity; lia. Qed.

Lemma recorded_app_exact id : forall a b tbl sk,
  recorded id (a ++ b) tbl sk = recorded id a tbl sk ++ recorded id b (fold_left accept (times_of a) tbl) (skip_after a tbl sk).
Proof.
  induction a as [|op a IH]; intros b tbl sk; [reflexivity|]. destruct op as [t|i v|i d st|i le]; cbn [app recorded skip_after].
  - unfold times_of. cbn [flat_map app fold_left]. fold (times_of a). rewrite accept_compare.
    destruct (last_of tbl) as [p|]; [destruct (N.compare p t)|]; apply IH.
  - unfold times_of. cbn [flat_map app]. fold (times_of a). destruct (sk || negb (Nat.eqb i id)); [apply IH|]. cbn [app]. now rewrite IH.
  - unfold times_of. cbn [flat_map app]. fold (times_of a). destruct (sk || negb (Nat.eqb i id)); [apply IH|]. cbn [app]. now rewrite IH.
  - unfold times_of. cbn [flat_map app]. fold (times_of a). apply IH.
Qed.

(* increasing time stamps are all accepted and never start a skipped step *)
Lemma last_of_app_one (tbl : list N) t : last_of (tbl ++ [t]) = Some t.
Proof. induction tbl as [|x tbl IH]; [reflexivity|]. cbn [app last_of]. destruct (tbl ++ [t]) eqn:E; [destruct tbl; discriminate|]. exact IH. Qed.

Lemma sorted_last_lt (tbl : list N) t ts : StronglySorted N.lt (tbl ++ t :: ts) -> match last_of tbl with Some p => p < t | None => True end.
Proof.
  intros H. destruct tbl as [|x tbl'] using rev_ind; [exact I|]. rewrite last_of_app_one.
  rewrite <- app_assoc in H. cbn [app] in H. clear IHtbl'. induction tbl' as [|y tbl' IH]; cbn [app] in H.
  - inversion H as [|? ? _ Hall]; subst. now inversion Hall.
  - inversion H; subst. now apply IH.
Qed.

Lemma incr_accept : forall ops tbl, StronglySorted N.lt (tbl ++ times_of ops) ->
  fold_left accept (times_of ops) tbl = tbl ++ times_of ops /\ skip_after ops tbl false = false.
Proof.
  induction ops as [|op ops IH]; intros tbl H; [cbn; now rewrite app_nil_r|].
  destruct op as [t|i v|i d st|i le]; unfold times_of in *; cbn [flat_map app fold_left skip_after] in *; fold (times_of ops) in *; try (now apply IH).
  pose proof (sorted_last_lt tbl t (times_of ops) H) as Hlt. rewrite accept_compare.
  assert (E : (tbl ++ [t]) ++ times_of ops = tbl ++ t :: times_of ops) by (now rewrite <- app_assoc).
  destruct (last_of tbl) as [p|].
  - destruct (N.compare_spec p t); try lia. destruct (IH (tbl ++ [t]) ltac:(now rewrite E)) as [H1 H2]. now rewrite H1, H2, E.
  - destruct (IH (tbl ++ [t]) ltac:(now rewrite E)) as [H1 H2]. now rewrite H1, H2, E.
Qed.

(* a table with a prefix in front shifts the recorded indices *)
Definition rshift (k : N) (l : list (N * rec_val)) : list (N * rec_val) := map (fun r => (k + fst r, snd r)) l.

Lemma last_of_app_nonempty (pre x : list N) : x <> [] -> last_of (pre ++ x) = last_of x.
Proof.
  intros Hx. induction pre as [|y pre IH]; [reflexivity|]. cbn [app last_of]. destruct (pre ++ x) eqn:E; [destruct pre; [cbn in E; congruence|discriminate]|]. exact IH.
Qed.

Lemma recorded_prefix id pre : forall ops x sk, x <> [] ->
  recorded id ops (pre ++ x) sk = rshift (N.of_nat (length pre)) (recorded id ops x sk).
Proof.
  induction ops as [|op ops IH]; intros x sk Hx; [reflexivity|]. destruct op as [t|i v|i d st|i le]; cbn [recorded].
  - rewrite (last_of_app_nonempty pre x Hx). destruct (last_of x) as [p|].
    + destruct (N.compare p t); try (now apply IH). rewrite <- app_assoc. apply IH. destruct x; discriminate.
    + rewrite <- app_assoc. apply IH. destruct x; discriminate.
  - destruct (sk || negb (Nat.eqb i id)); [now apply IH|]. cbn [rshift map fst snd]. rewrite IH by exact Hx. f_equal. f_equal.
    rewrite app_length. destruct x; [congruence|]. cbn [length]. lia.
  - destruct (sk || negb (Nat.eqb i id)); [now apply IH|]. cbn [rshift map fst snd]. rewrite IH by exact Hx. f_equal. f_equal.
    rewrite app_length. destruct x; [congruence|]. cbn [length]. lia.
  - now apply IH.
Qed.

Lemma rshift_0 l : rshift 0 l = l.
Proof. unfold rshift. rewrite <- (map_id l) at 2. apply map_ext. intros [g v]. reflexivity. Qed.

(* a history that starts with a time stamp beyond the table so far records the same, with shifted indices *)
Lemma recorded_seam id ops tbl : (ops = [] \/ exists t0 r, ops = OpTime t0 :: r) -> StronglySorted N.lt (tbl ++ times_of ops) ->
  recorded id ops tbl false = rshift (N.of_nat (length tbl)) (recorded id ops [] false).
Proof.
  intros [->|(t0 & r & ->)] H; [reflexivity|]. unfold times_of in H. cbn [flat_map app] in H. fold (times_of r) in H.
  pose proof (sorted_last_lt tbl t0 (times_of r) H) as Hlt. cbn [recorded last_of].
  assert (E : recorded id r (tbl ++ [t0]) false = rshift (N.of_nat (length tbl)) (recorded id r [t0] false)) by (apply recorded_prefix; discriminate).
  destruct (last_of tbl) as [p|]; [destruct (N.compare_spec p t0); try lia|]; exact E.
Qed.

Lemma sorted_app_l (a b : list N) : StronglySorted N.lt (a ++ b) -> StronglySorted N.lt a.
Proof.
  induction a as [|x a IH]; intros H; [constructor|]. cbn [app] in H. inversion H as [|? ? Hs Hall]; subst.
  constructor; [now apply IH|]. now apply Forall_app in Hall as [Hall _].
Qed.

Lemma sorted_app_r (a b : list N) : StronglySorted N.lt (a ++ b) -> StronglySorted N.lt b.
Proof. induction a as [|x a IH]; intros H; [exact H|]. cbn [app] in H. inversion H; subst. now apply IH. Qed.

Lemma decodes_shift bits k R rec : Forall2 (decodes bits) R rec -> Forall2 (decodes bits) (shift k R) (rshift k rec).
Proof.
  induction 1 as [|a r R rec Ha _ IH]; [constructor|]. cbn [shift rshift map]. constructor; [|exact IH].
  destruct a as [[g l] s]. destruct Ha as (Hg & Hrest). cbn [fst snd] in *. split; [now rewrite Hg|exact Hrest].
Qed.


(* the recorded changes of a history made of pieces, each starting with a time stamp, all time stamps increasing: the
   pieces' own recordings one after the other, each shifted by the number of time stamps before it *)
Lemma rec_concat id bits : forall opss Rs tbl, Forall starts_with_optime opss ->
  StronglySorted N.lt (tbl ++ times_of (concat opss)) ->
  Forall2 (fun R o => Forall2 (decodes bits) R (recorded id o [] false)) Rs opss ->
  Forall2 (decodes bits)
    (cat_shift (combine Rs (map (fun o => N.of_nat (length (accepted (times_of o)))) opss)) (N.of_nat (length tbl)))
    (recorded id (concat opss) tbl false).
Proof.
  induction opss as [|o opss IH]; intros Rs tbl Hst Hsorted HR.
  - inversion HR; subst. cbn. constructor.
  - inversion HR as [|R ? Rs' ? HRo HRs]; subst. apply Forall_cons_iff in Hst as [Ho Hst].
    cbn [concat] in *. unfold times_of in Hsorted. rewrite flat_map_app in Hsorted. fold (times_of o) (times_of (concat opss)) in Hsorted.
    assert (Hso : StronglySorted N.lt (tbl ++ times_of o)) by (rewrite app_assoc in Hsorted; now apply sorted_app_l in Hsorted).
    destruct (incr_accept o tbl Hso) as [Hacc Hsk].
    destruct (incr_accept o [] ltac:(cbn [app]; now apply sorted_app_r in Hso)) as [Hacc0 _]. cbn [app] in Hacc0.
    rewrite recorded_app_exact, Hacc, Hsk. cbn [map combine cat_shift].
    apply Forall2_app.
    + rewrite (recorded_seam id o tbl Ho Hso). now apply decodes_shift.
    + change (accepted (times_of o)) with (fold_left accept (times_of o) []). rewrite Hacc0.
      replace (N.of_nat (length tbl) + N.of_nat (length (times_of o))) with (N.of_nat (length (tbl ++ times_of o))) by (rewrite app_length; lia).
      apply IH; [exact Hst|now rewrite <- app_assoc|exact HRs].
Qed.


(* ------------------------------------------------------------------ the theorem *)

Lemma piece_optime lookup X o : Forall line_ok X -> starts_with_time X ->
  ops_of lookup false true (evs X) = Some o -> starts_with_optime o.
Proof.
  intros Hok Hs H. destruct X as [|l X'] eqn:EX; [unfold evs in H; cbn in H; injection H as <-; now left|]. rewrite <- EX in *.
  destruct (evs_time_head X Hok Hs ltac:(rewrite EX; discriminate)) as (v & E & Hev). rewrite Hev in H. cbn [ops_of] in H.
  destruct (ops_of lookup false true E) as [o'|]; [|discriminate]. injection H as <-. right. eauto.
Qed.

Lemma thread_ops_optime lookup ls s len o : Forall line_ok ls -> (s = 0%nat \/ (1 <= s)%nat) ->
  thread_ops lookup ls (s, len) = Some o -> starts_with_optime o.
Proof.
  intros Hok [->|Hs] H.
  - unfold thread_ops in H. cbn [fst Nat.eqb] in H. exact (first_optime lookup _ o H).
  - rewrite (later_thread_ops lookup ls s len Hok Hs) in H. eapply piece_optime; [| |exact H].
    + rewrite tsplit_cutabs. apply cutabs_ok. now apply tsplit_ok.
    + rewrite tsplit_cutabs. apply cutabs_starts. apply tsplit_rest_time.
Qed.

Lemma count_vcd_app id a b : count_vcd id (a ++ b) = (count_vcd id a + count_vcd id b)%nat.
Proof. induction a as [|op a IH]; [reflexivity|]. destruct op; cbn [app count_vcd]; try exact IH; destruct (Nat.eqb _ id); lia. Qed.

Lemma count_vcd_concat id : forall opss o, In o opss -> (count_vcd id o <= count_vcd id (concat opss))%nat.
Proof.
  induction opss as [|x opss IH]; intros o Hin; [destruct Hin|]. cbn [concat]. rewrite count_vcd_app. destruct Hin as [->|Hin]; [lia|]. specialize (IH o Hin). lia.
Qed.

Lemma contig_all : forall chunks s, contig s chunks -> Forall (fun c => (1 <= snd c)%nat /\ (s <= fst c)%nat) chunks.
Proof.
  induction chunks as [|[s' len] r IH]; intros s H; [constructor|]. destruct H as (-> & Hl & Hc). constructor; [cbn; lia|].
  eapply Forall_impl; [|apply (IH _ Hc)]. intros [a b] [H1 H2]. cbn [fst snd] in *. lia.
Qed.

Lemma sorted_before (acc : list N) t l : StronglySorted N.lt (acc ++ t :: l) -> Forall (fun x => x < t) acc.
Proof.
  induction acc as [|a acc IH]; intros H; [constructor|]. cbn [app] in H. inversion H as [|? ? Hs Hall]; subst.
  constructor; [|now apply IH]. rewrite Forall_forall in Hall. apply Hall. apply in_or_app. right. now left.
Qed.

Lemma accepted_sorted_gen : forall l acc, StronglySorted N.lt (acc ++ l) -> fold_left accept l acc = acc ++ l.
Proof.
  induction l as [|t l IH]; intros acc H; cbn [fold_left]; [now rewrite app_nil_r|].
  assert (Ea : accept acc t = acc ++ [t]).
  { unfold accept. destruct (last_of acc) as [x|] eqn:El; [|reflexivity].
    pose proof (sorted_before acc t l H) as Hall. rewrite Forall_forall in Hall. specialize (Hall x (last_of_in _ _ El)).
    destruct (N.ltb_spec x t); [reflexivity|lia]. }
  rewrite Ea, IH by (now rewrite <- app_assoc). now rewrite <- app_assoc.
Qed.

Lemma accepted_sorted l : StronglySorted N.lt l -> accepted l = l.
Proof. intros H. unfold accepted. now rewrite accepted_sorted_gen. Qed.

Lemma times_of_concat opss : times_of (concat opss) = concat (map times_of opss).
Proof. induction opss as [|o r IH]; [reflexivity|]. cbn [concat map]. now rewrite times_of_app, IH. Qed.

Lemma sorted_pieces : forall (tss : list (list N)), StronglySorted N.lt (concat tss) -> Forall (StronglySorted N.lt) tss.
Proof.
  induction tss as [|a r IH]; intros H; [constructor|]. cbn [concat] in H.
  constructor; [eapply sorted_app_l; exact H|apply IH; eapply sorted_app_r; exact H].
Qed.

Lemma accepted_pieces (opss : list (list enc_op)) : Forall (StronglySorted N.lt) (map times_of opss) ->
  concat (map (fun o => accepted (times_of o)) opss) = concat (map times_of opss).
Proof.
  induction opss as [|o r IH]; intros H; [reflexivity|]. cbn [map concat] in *. apply Forall_cons_iff in H as [H1 H2].
  rewrite accepted_sorted by exact H1. f_equal. now apply IH.
Qed.

Section Mt.
Variable parse_f64 : list byte -> option (list byte).
Variable lz_compress : list byte -> list byte.
Variable lz_decompress : list byte -> nat -> option (list byte).
Hypothesis lz_ok : forall d n, (length d <= n)%nat -> lz_decompress (lz_compress d) n = Some d.
Variable cap : N.
Hypothesis cap_pos : 1 <= cap.
Hypothesis cap_u16 : cap <= 65536.

(* one closure of the parallel iterator: the thread's encoder is the result of its operation list *)
Lemma chunk_ops debug tpes lookup ls s len en : Forall line_ok ls -> (1 <= len)%nat ->
  run_chunk parse_f64 lz_compress cap debug tpes lookup (body ls) (s, len) = Ok en ->
  exists o, thread_ops lookup ls (s, len) = Some o /\ run_ops parse_f64 lz_compress cap (enc_new tpes) o = Ok en.
Proof.
  intros Hok Hlen H. unfold run_chunk in H.
  destruct (if Nat.eqb s 0 then Ok 0 else of_option (nth_error (body ls) (s - 1))) as [x| |]; try discriminate. cbn [bind] in H.
  destruct (Nat.ltb_spec (length (body ls)) s) as [|Hs]; [discriminate|].
  unfold usub in H. destruct (Nat.leb_spec 1 len) as [_|]; [|lia]. cbn [bind] in H.
  unfold read_single_stream in H.
  assert (Hpb : parse_body debug (skipn s (body ls)) (N.of_nat (len - 1)) = (evs (thread_lines ls (s, len)), PDone)).
  { unfold thread_lines. destruct (Nat.eqb_spec s 0) as [->|Hne].
    - cbn [skipn]. now apply thread_first.
    - apply thread_later; try assumption; lia. }
  rewrite Hpb in H.
  destruct (feed_events parse_f64 lz_compress cap lookup (mk_ve (enc_new tpes) (Nat.eqb s 0) false) (evs (thread_lines ls (s, len)))) as [ve| |] eqn:Ef; try discriminate.
  cbn [bind] in H. injection H as <-.
  destruct (feed_events_ops parse_f64 lz_compress cap lookup _ _ _ _ _ Ef) as (o & Ho & Hr). exists o. split; [exact Ho|exact Hr].
Qed.

Lemma runs_of_chunks debug tpes lookup ls : Forall line_ok ls -> forall l opss encs,
  Forall2 (fun c o => thread_ops lookup ls c = Some o) l opss ->
  Forall2 (fun c en => run_chunk parse_f64 lz_compress cap debug tpes lookup (body ls) c = Ok en) l encs ->
  Forall (fun c : nat * nat => (1 <= snd c)%nat) l ->
  Forall2 (fun o en => run_ops parse_f64 lz_compress cap (enc_new tpes) o = Ok en) opss encs.
Proof.
  intros Hok. induction l as [|[s len] l IH]; intros opss encs Hth Hchunks Hall; inversion Hth; subst; inversion Hchunks; subst; [constructor|].
  apply Forall_cons_iff in Hall as [Hl Hall]. cbn [snd] in Hl. constructor; [|now apply IH].
  match goal with Hc : run_chunk _ _ _ _ _ _ _ _ = Ok ?en, Ht : thread_ops _ _ _ = Some _ |- _ =>
    destruct (chunk_ops debug tpes lookup ls s len en Hok Hl Hc) as (o & Ho & Hro); rewrite Ht in Ho; injection Ho as <-; exact Hro end.
Qed.

Lemma optime_of_chunks lookup ls : Forall line_ok ls -> forall l opss,
  Forall2 (fun c o => thread_ops lookup ls c = Some o) l opss ->
  Forall (fun c : nat * nat => fst c = 0%nat \/ (1 <= fst c)%nat) l ->
  Forall starts_with_optime opss.
Proof.
  intros Hok. induction l as [|[s len] l IH]; intros opss Hth Hall; inversion Hth; subst; [constructor|].
  apply Forall_cons_iff in Hall as [Hs Hall]. cbn [fst] in Hs. constructor; [|now apply IH].
  eapply (thread_ops_optime lookup ls s len); eassumption.
Qed.

Lemma opok_of_chunks lookup ls id bits : forall l opss, Forall2 (fun c o => thread_ops lookup ls c = Some o) l opss ->
  Forall (Forall (op_ok id bits)) opss.
Proof.
  induction l as [|c l IH]; intros opss Hth; inversion Hth; subst; [constructor|]. constructor; [|now apply IH].
  match goal with Ht : thread_ops _ _ _ = Some _ |- _ => unfold thread_ops in Ht; exact (ops_of_ok lookup id bits _ _ _ _ Ht) end.
Qed.

(* ---- the time table of the appended encoders *)
Definition ftt (e : encoder) : list N := flat_map b_tt (e_blocks e).

Lemma append_ftt e o a : append lz_compress e o = Ok a ->
  exists e1 o1, finish_block lz_compress e = Ok e1 /\ finish_block lz_compress o = Ok o1 /\ ftt a = ftt e1 ++ ftt o1 /\ e_new a = false.
Proof.
  unfold append. intros H.
  destruct (finish_block lz_compress e) as [e1| |] eqn:E1; try discriminate. cbn [bind] in H.
  destruct (finish_block lz_compress o) as [o1| |] eqn:E2; try discriminate. cbn [bind] in H.
  assert (Hn1 : e_new e1 = false).
  { unfold finish_block in E1. destruct (e_new e) eqn:En; cbn [negb] in E1; [|injection E1 as <-; exact En].
    destruct (finish_signals lz_compress (e_signals e) []) as [[sg of] da]. destruct (last_opt (e_ttr e)); try discriminate. cbn [of_option bind] in E1.
    destruct (hd_error (e_ttr e)); try discriminate. cbn [of_option bind] in E1. injection E1 as <-. reflexivity. }
  exists e1, o1. split; [reflexivity|]. split; [reflexivity|].
  destruct (e_blocks o1) as [|fb r] eqn:Eb.
  - injection H as <-. unfold ftt. rewrite Eb. cbn [flat_map]. now rewrite app_nil_r.
  - destruct (last_opt (e_blocks e1)); try discriminate. cbn [of_option bind] in H.
    destruct (last_opt (b_tt b)); try discriminate. cbn [of_option bind] in H.
    destruct (_ <=? _); try discriminate. injection H as <-. unfold ftt. cbn [e_blocks e_new]. rewrite Eb, flat_map_app. split; [reflexivity|exact Hn1].
Qed.

Lemma append_all_ftt : forall others acc e tacc ts, append_all lz_compress acc others = Ok e ->
  (exists a1, finish_block lz_compress acc = Ok a1 /\ ftt a1 = tacc) ->
  Forall2 (fun o t => exists o1, finish_block lz_compress o = Ok o1 /\ ftt o1 = t) others ts ->
  exists e1, finish_block lz_compress e = Ok e1 /\ ftt e1 = tacc ++ concat ts.
Proof.
  induction others as [|o others IH]; intros acc e tacc ts H Hacc Hts; cbn [append_all] in H.
  - injection H as <-. inversion Hts; subst. cbn [concat]. now rewrite app_nil_r.
  - destruct (append lz_compress acc o) as [a| |] eqn:Ea; try discriminate. cbn [bind] in H.
    inversion Hts as [|? t ? ts' (o1 & Ho1 & Ht) Hts']; subst.
    destruct (append_ftt _ _ _ Ea) as (e1' & o1' & He1 & Ho1' & Hf & Hn).
    destruct Hacc as (a1 & Ha1 & Hta). rewrite Ha1 in He1. injection He1 as <-. rewrite Ho1 in Ho1'. injection Ho1' as <-.
    destruct (IH a e (ftt a1 ++ ftt o1) ts' H) as (e1 & He1 & Hfe).
    + exists a. split; [now apply finish_block_idem|exact Hf].
    + exact Hts'.
    + exists e1. split; [exact He1|]. rewrite Hfe, <- Hta. cbn [concat]. now rewrite app_assoc.
Qed.

(* the time table of the multi-threaded load: the threads' accepted tables one after the other *)
Lemma mt_time_table tpes : forall opss encs first others e blocks ttb,
  Forall2 (fun o en => run_ops parse_f64 lz_compress cap (enc_new tpes) o = Ok en) opss encs ->
  encs = first :: others -> append_all lz_compress first others = Ok e -> enc_finish lz_compress e = Ok (blocks, ttb) ->
  ttb = concat (map (fun o => accepted (times_of o)) opss).
Proof.
  intros opss encs first others e blocks ttb Hruns -> Happ Hfin.
  assert (Hts : Forall2 (fun en t => exists o1, finish_block lz_compress en = Ok o1 /\ ftt o1 = t) (first :: others)
                        (map (fun o => accepted (times_of o)) opss)).
  { clear Happ Hfin. remember (first :: others) as encs eqn:E. clear E. induction Hruns as [|o en opss encs Hr Hruns IH]; [constructor|].
    cbn [map]. constructor; [|exact IH].
    destruct (time_table_spec parse_f64 lz_compress cap cap_pos tpes o en Hr) as (bb & Hf). unfold enc_finish in Hf.
    destruct (finish_block lz_compress en) as [o1| |]; try discriminate. cbn [bind] in Hf. injection Hf as _ Hf. exists o1. split; [reflexivity|exact Hf]. }
  destruct opss as [|o0 opss]; [inversion Hts|]. cbn [map] in *. inversion Hts as [|? ? ? ? Hfirst Hothers]; subst.
  destruct (append_all_ftt others first e _ _ Happ Hfirst Hothers) as (e1 & He1 & Hfe).
  unfold enc_finish in Hfin. rewrite He1 in Hfin. cbn [bind] in Hfin. injection Hfin as _ <-. cbn [concat]. exact Hfe.
Qed.

(* what both branches do, independent of the kind of signal looked at *)
Lemma mt_common debug tpes lookup ls len0 rest stop_st e_st encs :
  Forall line_ok ls ->
  contig 0 ((0%nat, len0) :: rest) -> (length (body ls) <= end_of 0 ((0%nat, len0) :: rest))%nat ->
  N.of_nat (length (body ls)) <= stop_st + 1 ->
  read_single_stream parse_f64 lz_compress cap debug tpes lookup (body ls) stop_st true = Ok e_st ->
  Forall2 (fun c en => run_chunk parse_f64 lz_compress cap debug tpes lookup (body ls) c = Ok en) ((0%nat, len0) :: rest) encs ->
  exists ops opss,
    ops_of lookup true false (evs ls) = Some ops /\
    run_ops parse_f64 lz_compress cap (enc_new tpes) ops = Ok e_st /\
    ops = concat opss /\
    Forall2 (fun o en => run_ops parse_f64 lz_compress cap (enc_new tpes) o = Ok en) opss encs /\
    Forall starts_with_optime opss.
Proof.
  intros Hok Hcontig Hend Hstop Hrs Hchunks.
  unfold read_single_stream in Hrs. rewrite body_render, (parse_body_lines debug ls stop_st Hok ltac:(rewrite <- body_render; exact Hstop)) in Hrs.
  destruct (feed_events parse_f64 lz_compress cap lookup (mk_ve (enc_new tpes) true false) (flat_map events_of ls)) as [ve| |] eqn:Ef; try discriminate.
  cbn [bind] in Hrs. injection Hrs as <-.
  destruct (feed_events_ops parse_f64 lz_compress cap lookup _ _ _ _ _ Ef) as (ops & Ho & Hr). fold (evs ls) in Ho.
  destruct (ops_tile lookup ls len0 rest ops Hok Hcontig Hend Ho) as (opss & Hth & Hcat).
  pose proof (contig_all _ _ Hcontig) as Hall.
  exists ops, opss. split; [exact Ho|]. split; [exact Hr|]. split; [exact Hcat|]. split.
  - apply (runs_of_chunks debug tpes lookup ls Hok _ opss encs Hth Hchunks). eapply Forall_impl; [|exact Hall]. intros c [H _]. exact H.
  - apply (optime_of_chunks lookup ls Hok _ opss Hth). eapply Forall_impl; [|exact Hall]. intros c [_ H]. lia.
Qed.

(* Property C03 for bodies written one token group per line, first line a time stamp, time stamps increasing:
   however the body is divided into consecutive chunks for the parser threads (any number, any sizes >= 1, covering
   the body), every bit-vector signal loaded from the appended per-thread stores reports exactly what it reports
   after single-threaded loading *)
Theorem mt_equals_st debug tpes lookup ls len0 rest stop_st e_st b_st t_st encs first others e_mt b_mt t_mt id bits :
  Forall line_ok ls ->
  contig 0 ((0%nat, len0) :: rest) -> (length (body ls) <= end_of 0 ((0%nat, len0) :: rest))%nat ->
  (1 <= bits)%nat -> nth_error tpes id = Some (EncBits bits) ->
  (* single-threaded *)
  N.of_nat (length (body ls)) <= stop_st + 1 ->
  read_single_stream parse_f64 lz_compress cap debug tpes lookup (body ls) stop_st true = Ok e_st ->
  enc_finish lz_compress e_st = Ok (b_st, t_st) -> N.of_nat (length t_st) < 4294967296 ->
  (* multi-threaded *)
  Forall2 (fun c en => run_chunk parse_f64 lz_compress cap debug tpes lookup (body ls) c = Ok en) ((0%nat, len0) :: rest) encs ->
  encs = first :: others -> append_all lz_compress first others = Ok e_mt ->
  enc_finish lz_compress e_mt = Ok (b_mt, t_mt) -> N.of_nat (length t_mt) < 4294967296 ->
  (* the time stamps of the body increase; size limit of the store *)
  (forall ops, ops_of lookup true false (evs ls) = Some ops ->
     StronglySorted N.lt (times_of ops) /\ N.of_nat (count_vcd id ops) * (10 + N.of_nat bits) < 4294967264) ->
  exists s_st s_mt,
    load_signal lz_decompress b_st id (EncBits bits) = Ok s_st /\
    load_signal lz_decompress b_mt id (EncBits bits) = Ok s_mt /\
    observe_signal s_st = observe_signal s_mt /\ t_st = t_mt.
Proof.
  intros Hok Hcontig Hend Hb Htp Hstop Hrs Hfs Hls Hchunks Hencs Happ Hfm Hlm Hhyp.
  (* the sequential run *)
  unfold read_single_stream in Hrs. rewrite body_render, (parse_body_lines debug ls stop_st Hok ltac:(rewrite <- body_render; exact Hstop)) in Hrs.
  destruct (feed_events parse_f64 lz_compress cap lookup (mk_ve (enc_new tpes) true false) (flat_map events_of ls)) as [ve| |] eqn:Ef; try discriminate.
  cbn [bind] in Hrs. injection Hrs as <-.
  destruct (feed_events_ops parse_f64 lz_compress cap lookup _ _ _ _ _ Ef) as (ops & Ho & Hr). fold (evs ls) in Ho.
  destruct (Hhyp ops Ho) as [Hsorted Hbud].
  destruct (ops_tile lookup ls len0 rest ops Hok Hcontig Hend Ho) as (opss & Hth & Hcat).
  (* every thread's encoder is the result of its operation list *)
  pose proof (contig_all _ _ Hcontig) as Hall.
  assert (Hruns : Forall2 (fun o en => run_ops parse_f64 lz_compress cap (enc_new tpes) o = Ok en) opss encs).
  { apply (runs_of_chunks debug tpes lookup ls Hok _ opss encs Hth Hchunks). eapply Forall_impl; [|exact Hall]. intros c [H _]. exact H. }
  assert (Hopt : Forall starts_with_optime opss).
  { apply (optime_of_chunks lookup ls Hok _ opss Hth). eapply Forall_impl; [|exact Hall]. intros c [_ H]. lia. }
  assert (Hopsok : Forall (fun o => Forall (op_ok id bits) o /\ N.of_nat (count_vcd id o) * (10 + N.of_nat bits) < 4294967264) opss).
  { pose proof (opok_of_chunks lookup ls id bits _ opss Hth) as Hk. apply Forall_forall. intros o Hin. split.
    - rewrite Forall_forall in Hk. now apply Hk.
    - pose proof (count_vcd_concat id opss o Hin). rewrite <- Hcat in H. nia. }
  destruct (appended_transparent parse_f64 lz_compress lz_decompress lz_ok cap cap_pos cap_u16 id bits Hb tpes opss encs first others e_mt b_mt t_mt
              Htp Hruns Hopsok Hencs Happ Hfm Hlm) as (Rs & s_mt & HRs & Hload_mt & Hobs_mt).
  destruct (storage_transparent parse_f64 lz_compress lz_decompress lz_ok cap cap_pos cap_u16 id bits Hb tpes ops _ b_st t_st
              Htp (ops_of_ok lookup id bits _ _ _ _ Ho) Hbud Hr Hfs Hls) as (R & s_st & HR & Hload_st & Hobs_st).
  exists s_st, s_mt. split; [exact Hload_st|]. split; [exact Hload_mt|]. split.
  2:{ rewrite (mt_time_table tpes opss encs first others e_mt b_mt t_mt Hruns Hencs Happ Hfm).
      destruct (time_table_spec parse_f64 lz_compress cap cap_pos tpes ops _ Hr) as (bb & Hf). rewrite Hfs in Hf. injection Hf as _ ->.
      rewrite accepted_sorted by exact Hsorted. rewrite Hcat, times_of_concat.
      rewrite Hcat, times_of_concat in Hsorted. apply sorted_pieces in Hsorted. symmetry. now apply accepted_pieces. }
  rewrite Hobs_st, Hobs_mt. f_equal. f_equal.
  pose proof (rec_concat id bits opss Rs [] Hopt ltac:(cbn [app]; now rewrite <- Hcat) HRs) as Hcs. cbn [length] in Hcs.
  rewrite <- Hcat in Hcs. apply (forall2_decodes_fun bits _ _ _ HR Hcs).
Qed.

End Mt.

(* ------------------------------------------------------------------ the chunks of determine_thread_chunks *)

Lemma contig_seq cs : (1 <= cs)%nat -> forall n k, contig (k * cs) (map (fun ii => (ii * cs, cs)%nat) (seq k n)) /\
  end_of (k * cs) (map (fun ii => (ii * cs, cs)%nat) (seq k n)) = ((k + n) * cs)%nat.
Proof.
  intros Hcs. induction n as [|n IH]; intros k; cbn [seq map contig end_of]; [split; [exact I|f_equal; lia]|].
  destruct (IH (S k)) as [H1 H2]. replace (k * cs + cs)%nat with (S k * cs)%nat by lia. split; [repeat split; [lia|exact H1]|]. rewrite H2. f_equal. lia.
Qed.

Lemma chunks_shape body_len max_threads min_chunk chunks : (1 <= body_len)%nat ->
  determine_thread_chunks body_len max_threads min_chunk = Ok chunks ->
  exists len0 rest, chunks = (0%nat, len0) :: rest /\ contig 0 chunks /\ (body_len <= end_of 0 chunks)%nat.
Proof.
  intros Hlen H. unfold determine_thread_chunks, ndiv_ceil_nat in H.
  destruct (Nat.eqb_spec min_chunk 0) as [|Hm]; [discriminate|]. cbn [bind] in H.
  set (num := Nat.min max_threads ((body_len + min_chunk - 1) / min_chunk)) in *.
  destruct (Nat.eqb_spec num 0) as [|Hn]; [discriminate|]. cbn [bind] in H. injection H as <-.
  set (cs := ((body_len + num - 1) / num)%nat).
  assert (Hcs : (1 <= cs)%nat).
  { unfold cs. apply Nat.div_le_lower_bound; lia. }
  destruct (contig_seq cs Hcs num 0) as [Hc He]. cbn [Nat.mul] in Hc, He.
  destruct num as [|num']; [congruence|]. cbn [seq map]. cbn [seq map] in Hc, He.
  exists cs. eexists. split; [reflexivity|]. split; [exact Hc|]. rewrite He. cbn [Nat.add].
  (* num * ceil(len / num) >= len *)
  unfold cs. pose proof (Nat.div_mod (body_len + S num' - 1) (S num') ltac:(lia)) as Hd.
  pose proof (Nat.mod_upper_bound (body_len + S num' - 1) (S num') ltac:(lia)). nia.
Qed.

Lemma collect_ok {A B} (f : A -> outcome B) : forall l r, collect_results (map f l) = Ok r -> Forall2 (fun a b => f a = Ok b) l r.
Proof.
  induction l as [|a l IH]; intros r H; cbn [map collect_results] in H; [injection H as <-; constructor|].
  destruct (f a) as [b| |] eqn:Ea; destruct (collect_results (map f l)) as [r'| |] eqn:Er; try discriminate.
  injection H as <-. constructor; [exact Ea|now apply IH].
Qed.

Section MtDriver.
Variable parse_f64 : list byte -> option (list byte).
Variable lz_compress : list byte -> list byte.
Variable lz_decompress : list byte -> nat -> option (list byte).
Hypothesis lz_ok : forall d n, (length d <= n)%nat -> lz_decompress (lz_compress d) n = Some d.
Variable cap : N.
Hypothesis cap_pos : 1 <= cap.
Hypothesis cap_u16 : cap <= 65536.

(* Property C03 for the two branches of read_values: whatever the number of threads and the minimal chunk size *)
Theorem read_values_mt_equals_st debug tpes lookup ls max_threads min_chunk b_st t_st b_mt t_mt id bits :
  Forall line_ok ls -> (1 <= bits)%nat -> nth_error tpes id = Some (EncBits bits) ->
  read_values_st parse_f64 lz_compress cap debug tpes lookup (body ls) = Ok (b_st, t_st) -> N.of_nat (length t_st) < 4294967296 ->
  read_values_mt parse_f64 lz_compress cap debug tpes lookup (body ls) max_threads min_chunk = Ok (b_mt, t_mt) ->
  N.of_nat (length t_mt) < 4294967296 ->
  (forall ops, ops_of lookup true false (evs ls) = Some ops ->
     StronglySorted N.lt (times_of ops) /\ N.of_nat (count_vcd id ops) * (10 + N.of_nat bits) < 4294967264) ->
  exists s_st s_mt,
    load_signal lz_decompress b_st id (EncBits bits) = Ok s_st /\
    load_signal lz_decompress b_mt id (EncBits bits) = Ok s_mt /\
    observe_signal s_st = observe_signal s_mt /\ t_st = t_mt.
Proof.
  intros Hok Hb Htp Hs Hls Hm Hlm Hhyp.
  unfold read_values_st in Hs.
  destruct (read_single_stream parse_f64 lz_compress cap debug tpes lookup (body ls) _ true) as [e_st| |] eqn:Es; try discriminate. cbn [bind] in Hs.
  unfold read_values_mt in Hm. unfold body at 1 in Hm. cbn iota in Hm. fold (body ls) in Hm. unfold read_values_mt_nonempty in Hm.
  destruct (determine_thread_chunks (length (body ls)) max_threads min_chunk) as [chunks| |] eqn:Ec; try discriminate. cbn [bind] in Hm.
  destruct (collect_results _) as [encs| |] eqn:Ecr; try discriminate. cbn [bind] in Hm.
  destruct encs as [|first others]; [discriminate|].
  destruct (append_all lz_compress first others) as [e_mt| |] eqn:Ea; try discriminate. cbn [bind] in Hm.
  assert (Hlen : (1 <= length (body ls))%nat) by (unfold body; cbn [length]; lia).
  destruct (chunks_shape _ _ _ _ Hlen Ec) as (len0 & rest & -> & Hc & He).
  apply collect_ok in Ecr.
  eapply (mt_equals_st parse_f64 lz_compress lz_decompress lz_ok cap cap_pos cap_u16 debug tpes lookup ls len0 rest _ e_st b_st t_st
            (first :: others) first others e_mt b_mt t_mt id bits); try eassumption; try reflexivity.
  unfold body. cbn [length]. lia.
Qed.

End MtDriver.

(* the hypotheses of read_values_mt_equals_st are satisfiable: three threads (chunks of 20 bytes) cut this body inside
   lines; the blocks differ from the single-threaded ones, the reports agree *)
Example read_values_mt_example :
  let ls := [LIgnored kw_dumpvars; LScalar 48 [33]; LVector [98; 48] [34]; LIgnored kw_end;       (* initial values at the implicit time 0 *)
             LTime [49]; LScalar 49 [33]; LVector [98; 49; 120; 48] [34]; LTime [50]; LScalar 48 [33]; LComment [[49; 33]];
             LTime [53]; LVector [98; 49; 49; 49] [34]; LTime [55]; LScalar 120 [33]; LVector [98; 122] [34]] in
  let lk : id_lookup := Some [([33], 0%nat); ([34], 1%nat)] in
  let tpes := [EncBits 1; EncBits 3] in
  Forall line_ok ls /\
  determine_thread_chunks (length (body ls)) 4 7 = Ok [(0, 21); (21, 21); (42, 21); (63, 21)]%nat /\
  (exists ops, ops_of lk true false (evs ls) = Some ops /\ StronglySorted N.lt (times_of ops) /\
               N.of_nat (count_vcd 1 ops) * (10 + 3) < 4294967264) /\
  exists b_st b_mt t,
    read_values_st (fun _ => None) (fun d => d) 2 true tpes lk (body ls) = Ok (b_st, t) /\
    read_values_mt (fun _ => None) (fun d => d) 2 true tpes lk (body ls) 4 7 = Ok (b_mt, t) /\
    b_st <> b_mt /\
    (do s <- load_signal (fun d _ => Some d) b_st 1 (EncBits 3); observe_signal s)
    = Ok [(0, KBinary, [48; 48; 48]); (1, KFour, [49; 120; 48]); (3, KBinary, [49; 49; 49]); (4, KFour, [122; 122; 122])] /\
    (do s <- load_signal (fun d _ => Some d) b_mt 1 (EncBits 3); observe_signal s)
    = Ok [(0, KBinary, [48; 48; 48]); (1, KFour, [49; 120; 48]); (3, KBinary, [49; 49; 49]); (4, KFour, [122; 122; 122])].
Proof.
  cbn zeta.
  assert (Hw : forall w, forallb (fun b => negb (is_white_space b)) w = true -> no_ws w).
  { intros w H. apply Forall_forall. intros b Hb. rewrite forallb_forall in H. specialize (H b Hb). now destruct (is_white_space b). }
  split.
  { repeat match goal with |- Forall line_ok (_ :: _) => apply Forall_cons | |- Forall line_ok [] => apply Forall_nil end; cbn [line_ok];
      try (split; [now apply Hw|eexists; vm_compute; reflexivity]);
      try (split; [reflexivity|split; [discriminate|now apply Hw]]);
      try (split; [eexists; eexists; split; [reflexivity|split; [discriminate|reflexivity]]|]; split; [now apply Hw|split; [discriminate|now apply Hw]]);
      try (left; reflexivity); try (right; left; reflexivity).
    apply Forall_cons; [|apply Forall_nil]. unfold okw. split; [discriminate|split; [now apply Hw|reflexivity]]. }
  split; [vm_compute; reflexivity|]. split.
  { eexists. split; [vm_compute; reflexivity|]. split; [|vm_compute; reflexivity].
    vm_compute. repeat constructor. }
  do 3 eexists. vm_compute. repeat split; try reflexivity. discriminate.
Qed.
