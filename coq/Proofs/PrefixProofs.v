(* A recording that stops early is reported as a prefix of the complete recording (store side of property C15):
   if the operations of one history are a prefix of those of another, then for every bit-vector signal the report of
   the first is a prefix of the report of the second, and so is the time table. *)
From Coq Require Import Lia.
From WV Require Import Model.Base Generated.Consts Model.Bits Model.Leb128 Model.WaveMem Model.VcdBody
  Spec.TimeSpec Spec.StoreSpec Proofs.BitsProofs Proofs.StoreProofs Proofs.TimeTableProofs Proofs.EncoderProofs
  Proofs.CanonProofs Proofs.BodyProofs Proofs.VcdStreamProofs.
Open Scope N_scope.

Lemma recorded_app id : forall ops1 ops2 tbl skip,
  exists tbl' skip', recorded id (ops1 ++ ops2) tbl skip = recorded id ops1 tbl skip ++ recorded id ops2 tbl' skip'.
Proof.
  induction ops1 as [|op ops1 IH]; intros ops2 tbl skip; cbn [app recorded].
  - exists tbl, skip. reflexivity.
  - destruct op as [t|i v|i d st|i le].
    + destruct (last_of tbl) as [p|]; [destruct (N.compare p t)|]; apply IH.
    + destruct (skip || negb (Nat.eqb i id)); [apply IH|].
      destruct (IH ops2 tbl skip) as (tbl' & skip' & E). exists tbl', skip'. now rewrite E.
    + destruct (skip || negb (Nat.eqb i id)); [apply IH|].
      destruct (IH ops2 tbl skip) as (tbl' & skip' & E). exists tbl', skip'. now rewrite E.
    + apply IH.
Qed.

Lemma dedup_by_app {A B} (eqb : B -> B -> bool) (key : A -> B) : forall l1 l2 prev,
  exists prev', dedup_by eqb key (l1 ++ l2) prev = dedup_by eqb key l1 prev ++ dedup_by eqb key l2 prev'.
Proof.
  induction l1 as [|a l1 IH]; intros l2 prev; cbn [app dedup_by].
  - exists prev. reflexivity.
  - destruct prev as [p|]; [destruct (eqb p (key a))|].
    + apply IH.
    + destruct (IH l2 (Some (key a))) as (p' & E). exists p'. now rewrite E.
    + destruct (IH l2 (Some (key a))) as (p' & E). exists p'. now rewrite E.
Qed.

Lemma fold_accept_extends ts : forall acc, exists rest, fold_left accept ts acc = acc ++ rest.
Proof.
  induction ts as [|t ts IH]; intros acc; cbn [fold_left].
  - exists []. now rewrite app_nil_r.
  - destruct (IH (accept acc t)) as (rest & E). rewrite E. unfold accept.
    destruct (last_of acc) as [l|].
    + destruct (l <? t).
      * exists (t :: rest). now rewrite <- app_assoc.
      * exists rest. reflexivity.
    + exists (t :: rest). now rewrite <- app_assoc.
Qed.

Lemma accepted_app ts1 ts2 : is_prefix (accepted ts1) (accepted (ts1 ++ ts2)).
Proof. unfold accepted, is_prefix. rewrite fold_left_app. apply fold_accept_extends. Qed.

Lemma times_of_app ops1 ops2 : times_of (ops1 ++ ops2) = times_of ops1 ++ times_of ops2.
Proof. unfold times_of. apply flat_map_app. Qed.

Lemma forall2_app_inv_r {A B} (P : A -> B -> Prop) l : forall r1 r2, Forall2 P l (r1 ++ r2) ->
  exists l1 l2, l = l1 ++ l2 /\ Forall2 P l1 r1 /\ Forall2 P l2 r2.
Proof.
  intros r1. revert l. induction r1 as [|b r1 IH]; intros l r2 H; cbn [app] in H.
  - exists [], l. repeat split; [constructor|exact H].
  - inversion H as [|a ? l' ? Hab Hl']; subst. destruct (IH l' r2 Hl') as (l1 & l2 & -> & H1 & H2).
    exists (a :: l1), l2. repeat split; [constructor; assumption|exact H2].
Qed.

Section Prefix.
Variable parse_f64 : list byte -> option (list byte).
Variable lz_compress : list byte -> list byte.
Variable lz_decompress : list byte -> nat -> option (list byte).
Hypothesis lz_ok : forall d n, (length d <= n)%nat -> lz_decompress (lz_compress d) n = Some d.
Variable cap : N.
Hypothesis cap_pos : 1 <= cap.
Hypothesis cap_u16 : cap <= 65536.

(* the report of a history as a list: valid entries always render *)
Lemma report_list id bits tpes ops e blocks ttb :
  (1 <= bits)%nat -> nth_error tpes id = Some (EncBits bits) -> Forall (op_ok id bits) ops ->
  N.of_nat (count_vcd id ops) * (10 + N.of_nat bits) < 4294967264 ->
  run_ops parse_f64 lz_compress cap (enc_new tpes) ops = Ok e ->
  enc_finish lz_compress e = Ok (blocks, ttb) -> N.of_nat (length ttb) < 4294967296 ->
  exists R sig, Forall2 (decodes bits) R (recorded id ops [] false) /\
    load_signal lz_decompress blocks id (EncBits bits) = Ok sig /\
    observe_signal sig = Ok (map rendered (dedup R)).
Proof.
  intros Hb Htp Hops Hbud Hrun Hfin Hlen.
  destruct (storage_transparent parse_f64 lz_compress lz_decompress lz_ok cap cap_pos cap_u16 id bits Hb
              tpes ops e blocks ttb Htp Hops Hbud Hrun Hfin Hlen) as (R & sig & Hdec & Hload & Hobs).
  exists R, sig. split; [exact Hdec|]. split; [exact Hload|]. rewrite Hobs. apply render_all.
  assert (HR : Forall (fun a : aentry => let '(_, l, s) := a in small_syms l s /\ Forall (fun v => v <= 8) s) R).
  { clear -Hdec. induction Hdec as [|a r R rec Ha _ IH]; constructor; [|exact IH].
    pose proof (decodes_ok bits a r Ha) as H. destruct a as [[g l] s]. destruct H as (_ & H1 & H2 & _). split; assumption. }
  rewrite Forall_forall in *. intros a Ha. apply HR. unfold dedup in Ha. now apply dedup_by_in in Ha.
Qed.

(* Store side of property C15: a history that is a prefix of another one is reported as a prefix - the time table
   and every bit-vector signal *)
Theorem prefix_history_prefix_report id bits tpes ops more e1 e2 b1 t1 b2 t2 :
  (1 <= bits)%nat -> nth_error tpes id = Some (EncBits bits) -> Forall (op_ok id bits) (ops ++ more) ->
  N.of_nat (count_vcd id (ops ++ more)) * (10 + N.of_nat bits) < 4294967264 ->
  run_ops parse_f64 lz_compress cap (enc_new tpes) ops = Ok e1 ->
  run_ops parse_f64 lz_compress cap (enc_new tpes) (ops ++ more) = Ok e2 ->
  enc_finish lz_compress e1 = Ok (b1, t1) -> enc_finish lz_compress e2 = Ok (b2, t2) ->
  N.of_nat (length t2) < 4294967296 ->
  is_prefix t1 t2 /\
  exists s1 s2 l1 l2,
    load_signal lz_decompress b1 id (EncBits bits) = Ok s1 /\ observe_signal s1 = Ok l1 /\
    load_signal lz_decompress b2 id (EncBits bits) = Ok s2 /\ observe_signal s2 = Ok l2 /\
    is_prefix l1 l2.
Proof.
  intros Hb Htp Hops Hbud Hr1 Hr2 Hf1 Hf2 Hl2.
  (* time tables *)
  destruct (time_table_spec parse_f64 lz_compress cap cap_pos tpes ops e1 Hr1) as (bb1 & Ht1). rewrite Hf1 in Ht1. inversion Ht1; subst.
  destruct (time_table_spec parse_f64 lz_compress cap cap_pos tpes (ops ++ more) e2 Hr2) as (bb2 & Ht2). rewrite Hf2 in Ht2. inversion Ht2; subst.
  assert (Hpt : is_prefix (accepted (times_of ops)) (accepted (times_of (ops ++ more)))).
  { rewrite times_of_app. apply accepted_app. }
  split; [exact Hpt|].
  assert (Hl1 : N.of_nat (length (accepted (times_of ops))) < 4294967296).
  { destruct Hpt as (rest & E). rewrite E, app_length in Hl2. lia. }
  apply Forall_app in Hops as Hops'. destruct Hops' as [Hops1 _].
  assert (Hbud1 : N.of_nat (count_vcd id ops) * (10 + N.of_nat bits) < 4294967264).
  { assert (count_vcd id ops <= count_vcd id (ops ++ more))%nat.
    { clear. induction ops as [|op ops IH]; cbn [app count_vcd]; [lia|]. destruct op; try exact IH; destruct (Nat.eqb _ id); lia. }
    nia. }
  destruct (report_list id bits tpes ops e1 bb1 _ Hb Htp Hops1 Hbud1 Hr1 Hf1 Hl1) as (R1 & s1 & Hd1 & Hload1 & Hobs1).
  destruct (report_list id bits tpes (ops ++ more) e2 bb2 _ Hb Htp Hops Hbud Hr2 Hf2 Hl2) as (R2 & s2 & Hd2 & Hload2 & Hobs2).
  exists s1, s2, (map rendered (dedup R1)), (map rendered (dedup R2)).
  split; [exact Hload1|]. split; [exact Hobs1|]. split; [exact Hload2|]. split; [exact Hobs2|].
  destruct (recorded_app id ops more [] false) as (tbl' & skip' & Erec). rewrite Erec in Hd2.
  destruct (forall2_app_inv_r _ R2 _ _ Hd2) as (R2a & R2b & -> & Ha & _).
  assert (R2a = R1) by (eapply forall2_decodes_fun; eauto). subst R2a.
  unfold dedup. destruct (dedup_by_app akey_eqb akey R1 R2b None) as (p' & E). rewrite E, map_app.
  eexists. reflexivity.
Qed.

Lemma ops_of_ok lookup id bits : forall evs first found ops, ops_of lookup first found evs = Some ops -> Forall (op_ok id bits) ops.
Proof.
  induction evs as [|ev evs IH]; intros first found ops Ho; cbn [ops_of] in Ho.
  - inversion Ho. constructor.
  - destruct ev as [t|v i].
    + destruct (ops_of lookup first true evs) as [o|] eqn:E; [|discriminate]. inversion Ho; subst.
      constructor; [exact I|]. eapply IH; eauto.
    + destruct (found || first) eqn:Ef.
      * destruct (lookup_id lookup i) as [n|]; [|discriminate].
        destruct (ops_of lookup first true evs) as [o|] eqn:E; [|discriminate]. inversion Ho; subst.
        apply Forall_app. split; [destruct (first && negb found); repeat constructor|].
        constructor; [exact I|]. eapply IH; eauto.
      * eapply IH; eauto.
Qed.

Lemma ops_of_app lookup : forall evs1 evs2 first found ops,
  ops_of lookup first found (evs1 ++ evs2) = Some ops ->
  exists ops1 more, ops_of lookup first found evs1 = Some ops1 /\ ops = ops1 ++ more.
Proof.
  induction evs1 as [|ev evs1 IH]; intros evs2 first found ops H; cbn [app ops_of] in *.
  - exists [], ops. split; reflexivity.
  - destruct ev as [t|v i].
    + destruct (ops_of lookup first true (evs1 ++ evs2)) as [o|] eqn:E; [|discriminate]. inversion H; subst.
      destruct (IH evs2 first true o E) as (o1 & more & E1 & ->). rewrite E1. exists (OpTime t :: o1), more. split; reflexivity.
    + destruct (found || first) eqn:Ef.
      * destruct (lookup_id lookup i) as [n|]; [|discriminate].
        destruct (ops_of lookup first true (evs1 ++ evs2)) as [o|] eqn:E; [|discriminate]. inversion H; subst.
        destruct (IH evs2 first true o E) as (o1 & more & E1 & ->). rewrite E1.
        eexists. exists more. split; [reflexivity|]. now rewrite <- app_assoc.
      * eapply IH. exact H.
Qed.

(* Property C15 through the single-threaded loader: a VCD body cut where no token is pending loads as a prefix of the
   complete body - its time table is a prefix of the complete time table and the report of every bit-vector variable
   is a prefix of the complete report *)
Theorem truncated_vcd_prefix_report debug tpes lookup (a b : list byte) stop s id bits e1 e2 b1 t1 b2 t2 :
  run_bytes debug stop a init_state = Running s -> ps_state s = ParsingFirstToken -> ps_first s = [] ->
  (1 <= bits)%nat -> nth_error tpes id = Some (EncBits bits) ->
  read_single_stream parse_f64 lz_compress cap debug tpes lookup a stop true = Ok e1 ->
  read_single_stream parse_f64 lz_compress cap debug tpes lookup (a ++ b) stop true = Ok e2 ->
  enc_finish lz_compress e1 = Ok (b1, t1) -> enc_finish lz_compress e2 = Ok (b2, t2) ->
  N.of_nat (length t2) < 4294967296 ->
  (forall ops, ops_of lookup true false (fst (parse_body debug (a ++ b) stop)) = Some ops ->
               N.of_nat (count_vcd id ops) * (10 + N.of_nat bits) < 4294967264) ->
  is_prefix t1 t2 /\
  exists s1 s2 l1 l2,
    load_signal lz_decompress b1 id (EncBits bits) = Ok s1 /\ observe_signal s1 = Ok l1 /\
    load_signal lz_decompress b2 id (EncBits bits) = Ok s2 /\ observe_signal s2 = Ok l2 /\
    is_prefix l1 l2.
Proof.
  intros Hrun Hst Hfirst Hb Htp Hr1 Hr2 Hf1 Hf2 Hl2 Hbud.
  destruct (cut_at_token_boundary debug stop a b s Hrun Hst Hfirst) as [Hpa (rest & Hpb)].
  unfold read_single_stream in Hr1, Hr2. rewrite Hpa in Hr1.
  destruct (parse_body debug (a ++ b) stop) as [evs2 pres2] eqn:Ep2. cbn [fst] in Hpb. subst evs2.
  destruct (feed_events parse_f64 lz_compress cap lookup (mk_ve (enc_new tpes) true false) (rev (ps_acc s))) as [ve1| |] eqn:Ef1; try discriminate.
  cbn [bind] in Hr1. inversion Hr1; subst e1.
  destruct (feed_events parse_f64 lz_compress cap lookup (mk_ve (enc_new tpes) true false) (rev (ps_acc s) ++ rest)) as [ve2| |] eqn:Ef2; try discriminate.
  cbn [bind] in Hr2. destruct pres2; try discriminate. inversion Hr2; subst e2.
  destruct (feed_events_ops parse_f64 lz_compress cap lookup _ _ _ _ _ Ef1) as (ops1 & Ho1 & Hro1).
  destruct (feed_events_ops parse_f64 lz_compress cap lookup _ _ _ _ _ Ef2) as (ops2 & Ho2 & Hro2).
  destruct (ops_of_app lookup _ _ _ _ _ Ho2) as (ops1' & more & Ho1' & ->).
  rewrite Ho1 in Ho1'. inversion Ho1'; subst ops1'.
  cbn [fst] in Hbud. specialize (Hbud _ Ho2).
  exact (prefix_history_prefix_report id bits tpes ops1 more _ _ b1 t1 b2 t2 Hb Htp (ops_of_ok lookup id bits _ _ _ _ Ho2)
           Hbud Hro1 Hro2 Hf1 Hf2 Hl2).
Qed.

End Prefix.
