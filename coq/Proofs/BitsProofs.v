(* Proofs about Model/Bits.v: the 2/4/9-state codec round trip (properties C01, C04, C06, C10, C13). *)
From WV Require Import Model.Base Generated.Consts Model.Bits.
From Coq Require Import Lia.
Open Scope N_scope.
Arguments N.add : simpl never. Arguments N.mul : simpl never. Arguments N.pow : simpl never.
Arguments N.div : simpl never. Arguments N.modulo : simpl never.

(* ------------------------------------------------------------------ generic part *)
Section Generic.
Variable sb : N.            (* bits per symbol *)
Variable pb : nat.          (* symbols per byte *)
Hypothesis Hpb : (0 < pb)%nat.
Hypothesis Hsb : N.of_nat pb * sb = 8.

Fixpoint wns (syms : list N) (work : N) : list N :=
  match syms with
  | [] => []
  | v :: rest =>
      let w := work * 2 ^ sb + v in
      if ((N.of_nat (length rest) * sb) mod 8 =? 0) then w :: wns rest 0 else wns rest w
  end.

Definition gdigit (b : N) (ii : nat) : N := (b / 2 ^ (N.of_nat ii * sb)) mod 2 ^ sb.
Definition gdigits (cnt : nat) (b : N) : list N := map (gdigit b) (rev (seq 0 cnt)).

(* big-endian value of a symbol list *)
Fixpoint val (acc : N) (l : list N) : N :=
  match l with [] => acc | s :: r => val (acc * 2 ^ sb + s) r end.

Definition small (l : list N) := Forall (fun s => s < 2 ^ sb) l.

Lemma val_app acc l1 l2 : val acc (l1 ++ l2) = val (val acc l1) l2.
Proof. revert acc; induction l1; simpl; auto. Qed.

Lemma val_acc acc l : val acc l = acc * 2 ^ (N.of_nat (length l) * sb) + val 0 l.
Proof.
  revert acc; induction l as [|s r IH]; intros acc; cbn [val length].
  - rewrite N.mul_0_l, N.pow_0_r. lia.
  - rewrite IH. rewrite (IH (0 * 2 ^ sb + s)).
    rewrite Nat2N.inj_succ, N.mul_succ_l, N.pow_add_r. lia.
Qed.

Lemma val_small l : small l -> val 0 l < 2 ^ (N.of_nat (length l) * sb).
Proof.
  induction l as [|s r IH] using rev_ind; intros H.
  - cbn. rewrite N.mul_0_l. cbn. lia.
  - unfold small in *. apply Forall_app in H as [H1 H2]. inversion H2; subst.
    rewrite val_app. cbn [val]. rewrite app_length. cbn [length].
    rewrite Nat.add_1_r, Nat2N.inj_succ, N.mul_succ_l, N.pow_add_r.
    specialize (IH H1). nia.
Qed.

Lemma gdigits_S c b : gdigits (S c) b = gdigit b c :: gdigits c b.
Proof. unfold gdigits. rewrite seq_S, rev_app_distr. reflexivity. Qed.

Lemma pow_pos' e : 2 ^ e <> 0. Proof. apply N.pow_nonzero; lia. Qed.

(* digits of (h * B^cnt + val l) are l : higher garbage (meta bits) is ignored *)
Lemma gdigits_val l : forall h, small l ->
  gdigits (length l) (h * 2 ^ (N.of_nat (length l) * sb) + val 0 l) = l.
Proof.
  induction l as [|s r IH]; intros h H.
  - reflexivity.
  - inversion H as [|? ? Hs Hr]; subst. cbn [length]. rewrite gdigits_S.
    cbn [val]. rewrite N.mul_0_l, N.add_0_l. rewrite (val_acc s r).
    set (m := N.of_nat (length r) * sb).
    assert (E : h * 2 ^ (N.of_nat (S (length r)) * sb) + (s * 2 ^ m + val 0 r)
                = (h * 2 ^ sb + s) * 2 ^ m + val 0 r).
    { rewrite Nat2N.inj_succ, N.mul_succ_l, N.pow_add_r. fold m. lia. }
    rewrite E. f_equal.
    + unfold gdigit. fold m.
      pose proof (val_small r Hr) as Hv. fold m in Hv.
      rewrite N.div_add_l by apply pow_pos'. rewrite (N.div_small _ _ Hv), N.add_0_r.
      rewrite N.add_comm. rewrite N.mod_add by apply pow_pos'.
      apply N.mod_small; assumption.
    + apply IH; assumption.
Qed.

Lemma push_cond (x : nat) : ((N.of_nat x * sb) mod 8 =? 0) = (x mod pb =? 0)%nat.
Proof.
  assert (Hsb0 : sb <> 0) by (intro; subst; lia).
  assert (Hpb0 : N.of_nat pb <> 0) by lia.
  rewrite <- Hsb. rewrite N.mul_mod_distr_r by assumption.
  destruct (Nat.eqb_spec (x mod pb) 0) as [E|E].
  - apply N.eqb_eq. apply (f_equal N.of_nat) in E. rewrite Nat2N.inj_mod in E. cbn in E. rewrite E. lia.
  - apply N.eqb_neq. intro H. apply E. apply N.mul_eq_0 in H as [H|H]; [|contradiction].
    rewrite <- Nat2N.inj_mod in H. lia.
Qed.

Lemma wns_prefix p : forall rest work, p <> [] -> (length p <= pb)%nat -> (length rest mod pb = 0)%nat ->
  wns (p ++ rest) work = val work p :: wns rest 0.
Proof.
  induction p as [|v p' IH]; intros rest work Hne Hlen Hrest; [congruence|].
  cbn [app wns val length] in *. rewrite push_cond, app_length.
  destruct p' as [|v' p''].
  - cbn [length app val]. rewrite Nat.add_0_l, Hrest. reflexivity.
  - assert (((length (v' :: p'') + length rest) mod pb =? 0)%nat = false) as ->.
    { apply Nat.eqb_neq. rewrite Nat.add_mod by lia. rewrite Hrest, Nat.add_0_r, Nat.mod_mod by lia.
      rewrite Nat.mod_small; cbn [length] in *; lia. }
    apply IH; [congruence| cbn [length] in *; lia | assumption].
Qed.

Definition chunks_ok (cs : list (list N)) := Forall (fun c => length c = pb) cs.

Lemma concat_len cs : chunks_ok cs -> (length (concat cs) mod pb = 0)%nat.
Proof.
  induction 1 as [|c cs Hc _ IH]; cbn [concat]; [apply Nat.mod_0_l; lia|].
  rewrite app_length, Hc, Nat.add_mod, Nat.mod_same, IH by lia. cbn. apply Nat.mod_0_l; lia.
Qed.

Lemma wns_chunks cs : chunks_ok cs -> wns (concat cs) 0 = map (val 0) cs.
Proof.
  induction 1 as [|c cs Hc Hcs IH]; [reflexivity|]. cbn [concat map].
  rewrite wns_prefix; [now rewrite IH| destruct c; cbn in *; [lia|congruence] | lia | now apply concat_len].
Qed.

Lemma unpack_chunks cs : chunks_ok cs -> Forall small cs -> flat_map (gdigits pb) (map (val 0) cs) = concat cs.
Proof.
  induction 1 as [|c cs Hc Hcs IH]; intros Hs; [reflexivity|]. apply Forall_cons_iff in Hs as [Hsc Hscs].
  cbn [map flat_map concat]. rewrite IH by assumption. f_equal.
  rewrite <- Hc. pose proof (gdigits_val c 0 Hsc) as D. rewrite N.mul_0_l, N.add_0_l in D. exact D.
Qed.

Lemma decompose (l : list N) : exists h cs, l = h ++ concat cs /\ (length h < pb)%nat /\ chunks_ok cs.
Proof.
  remember (length l) as n eqn:E. revert l E.
  induction n as [n IH] using lt_wf_ind; intros l E.
  destruct (Nat.ltb_spec (length l) pb) as [Hlt|Hge].
  - exists l, []. cbn. rewrite app_nil_r. repeat split; [assumption|constructor].
  - destruct (IH (length (firstn (length l - pb) l))) with (l := firstn (length l - pb) l) as (h & cs & E1 & Hh & Hcs).
    + rewrite firstn_length. lia.
    + reflexivity.
    + exists h, (cs ++ [skipn (length l - pb) l]). repeat split; [|assumption|].
      * rewrite concat_app. cbn [concat]. rewrite app_nil_r, app_assoc, <- E1. now rewrite firstn_skipn.
      * apply Forall_app; split; [assumption|]. constructor; [|constructor]. rewrite skipn_length. lia.
Qed.

(* the packed form of a symbol list: an optional partial first byte, then full bytes *)
Lemma wns_decomposed h cs : (length h < pb)%nat -> chunks_ok cs ->
  wns (h ++ concat cs) 0 = match h with [] => map (val 0) cs | _ => val 0 h :: map (val 0) cs end.
Proof.
  intros Hh Hcs. destruct h as [|s h'].
  - cbn [app]. now apply wns_chunks.
  - rewrite wns_prefix; [| congruence | lia | now apply concat_len ].
    now rewrite wns_chunks.
Qed.

Lemma length_mod_decomposed h cs : (length h < pb)%nat -> chunks_ok cs ->
  (length (h ++ concat cs) mod pb = length h)%nat.
Proof.
  intros Hh Hcs.
  rewrite app_length, Nat.add_mod, (concat_len cs Hcs), Nat.add_0_r, Nat.mod_mod by lia.
  now apply Nat.mod_small.
Qed.

Lemma forall_small_concat cs : small (concat cs) -> Forall small cs.
Proof.
  induction cs as [|c cs IH]; cbn [concat]; intros H; constructor;
    apply Forall_app in H as []; auto.
Qed.

End Generic.

(* ------------------------------------------------------------------ instantiation per state kind *)

Lemma per_byte_pos st : (0 < per_byte st)%nat.
Proof. destruct st; cbn; lia. Qed.

Lemma per_byte_sbits st : N.of_nat (per_byte st) * sbits st = 8.
Proof. destruct st; reflexivity. Qed.

Lemma wns_is_loop st : forall syms work,
  write_n_state_loop st syms work None = wns (sbits st) syms work.
Proof.
  induction syms as [|v r IH]; intros work; cbn [write_n_state_loop wns]; [reflexivity|].
  destruct (_ =? 0); now rewrite IH.
Qed.

Lemma digits_is_gdigits st cnt b : digits st cnt b = gdigits (sbits st) cnt b.
Proof. reflexivity. Qed.

Definition small_syms (st : states) (l : list N) := Forall (fun s => s < 2 ^ sbits st) l.

(* write_n_state followed by n_state_to_bit_string's symbol extraction is the identity,
   for every state kind, every width (every residue modulo the symbols per byte) *)
Theorem pack_unpack st syms : small_syms st syms ->
  n_state_symbols st (write_n_state_loop st syms 0 None) (length syms) = Ok syms.
Proof.
  intros Hs. rewrite wns_is_loop.
  pose proof (per_byte_pos st) as Hpb. pose proof (per_byte_sbits st) as Hsb.
  destruct (decompose (sbits st) (per_byte st) Hpb Hsb syms) as (h & cs & -> & Hh & Hcs).
  apply Forall_app in Hs as [Hsh Hsc].
  pose proof (forall_small_concat (sbits st) cs Hsc) as Hsc'.
  unfold n_state_symbols.
  destruct (Nat.eqb_spec (length (h ++ concat cs)) 0) as [E0|E0].
  - destruct h; [|discriminate]. destruct cs as [|c cs]; [reflexivity|].
    cbn [app concat] in E0. rewrite app_length in E0.
    apply Forall_cons_iff in Hcs as [Hc _]. lia.
  - rewrite (length_mod_decomposed (sbits st) (per_byte st) Hpb Hsb h cs Hh Hcs).
    rewrite (wns_decomposed (sbits st) (per_byte st) Hpb Hsb h cs Hh Hcs).
    destruct h as [|s h'].
    + cbn [length app]. f_equal.
      change (flat_map (digits st (per_byte st))) with (flat_map (gdigits (sbits st) (per_byte st))).
      now apply (unpack_chunks (sbits st) (per_byte st) Hpb Hsb).
    + cbn [length]. f_equal.
      change (flat_map (digits st (per_byte st))) with (flat_map (gdigits (sbits st) (per_byte st))).
      rewrite (unpack_chunks (sbits st) (per_byte st) Hpb Hsb) by assumption. f_equal.
      change (S (length h')) with (length (s :: h')).
      pose proof (gdigits_val (sbits st) (per_byte st) Hpb Hsb (s :: h') 0 Hsh) as D.
      rewrite N.mul_0_l, N.add_0_l in D. exact D.
Qed.

(* length of the packed form: div_ceil bits (symbols per byte) *)
Lemma packed_length st syms :
  length (write_n_state_loop st syms 0 None) = div_ceil (length syms) (per_byte st).
Proof.
  rewrite wns_is_loop.
  pose proof (per_byte_pos st) as Hpb. pose proof (per_byte_sbits st) as Hsb.
  destruct (decompose (sbits st) (per_byte st) Hpb Hsb syms) as (h & cs & -> & Hh & Hcs).
  rewrite (wns_decomposed (sbits st) (per_byte st) Hpb Hsb h cs Hh Hcs).
  assert (Hlen : length (concat cs) = (length cs * per_byte st)%nat).
  { clear -Hcs. induction Hcs as [|c cs Hc _ IH]; [reflexivity|].
    cbn [concat length]. rewrite app_length, Hc, IH. lia. }
  unfold div_ceil. rewrite app_length, Hlen.
  destruct h as [|s h'].
  - cbn [length]. rewrite map_length.
    replace (0 + length cs * per_byte st + per_byte st - 1)%nat
      with (per_byte st - 1 + length cs * per_byte st)%nat by lia.
    rewrite Nat.div_add by lia. rewrite Nat.div_small by lia. lia.
  - cbn [length]. rewrite map_length. cbn [length] in Hh.
    replace (S (length h') + length cs * per_byte st + per_byte st - 1)%nat
      with (length h' + per_byte st + length cs * per_byte st)%nat by lia.
    rewrite Nat.div_add by lia.
    replace (length h' + per_byte st)%nat with (length h' + 1 * per_byte st)%nat by lia.
    rewrite Nat.div_add by lia. rewrite Nat.div_small by lia. lia.
Qed.

Example pack_unpack_nonvacuous :
  n_state_symbols Nine (write_n_state_loop Nine [5; 0; 8; 1; 3] 0 None) 5 = Ok [5; 0; 8; 1; 3] /\
  n_state_symbols Four (write_n_state_loop Four [2; 0; 3; 1; 1; 0; 2] 0 None) 7 = Ok [2; 0; 3; 1; 1; 0; 2] /\
  write_n_state_loop Four [2; 0; 3; 1; 1; 0; 2] 0 None = [35; 82].
Proof. repeat split; reflexivity. Qed.

(* ------------------------------------------------------------------ tables (translated from the source) *)

Definition lower (c : byte) : byte := if (65 <=? c) && (c <=? 90) then c + 32 else c.

Lemma assoc_in k v t : assoc k t = Some v -> In (k, v) t.
Proof.
  induction t as [|[a b] r IH]; cbn [assoc]; [discriminate|].
  destruct (N.eqb_spec a k) as [->|]; intros H; [inversion H; now left|right; auto].
Qed.

(* every table entry is a number <= 8 whose nine-state lookup character is the lower-case character *)
Lemma table_sweep :
  forallb (fun cv => (snd cv <=? 8) &&
                     match nth_error nine_state_lookup (N.to_nat (snd cv)) with
                     | Some x => x =? lower (fst cv) | None => false end) bit_char_table = true.
Proof. vm_compute. reflexivity. Qed.

Lemma bit_char_facts c v : bit_char_to_num c = Some v ->
  v <= 8 /\ nth_error nine_state_lookup (N.to_nat v) = Some (lower c).
Proof.
  intros H. apply assoc_in in H.
  pose proof table_sweep as S. rewrite forallb_forall in S. specialize (S _ H). cbn [fst snd] in S.
  apply andb_prop in S as [S1 S2]. split; [now apply N.leb_le|].
  destruct (nth_error nine_state_lookup (N.to_nat v)); [|discriminate].
  apply N.eqb_eq in S2. now subst.
Qed.

Definition small9 : list N := [0;1;2;3;4;5;6;7;8].
Definition all_states : list states := [Two; Four; Nine].

Lemma le8_in v : v <= 8 -> In v small9.
Proof.
  intros H. assert (v = 0 \/ v = 1 \/ v = 2 \/ v = 3 \/ v = 4 \/ v = 5 \/ v = 6 \/ v = 7 \/ v = 8) by lia.
  cbn. intuition.
Qed.
Lemma states_in st : In st all_states. Proof. destruct st; cbn; auto. Qed.

(* the narrower lookup tables are prefixes of the nine-state table *)
Lemma lookup_prefix_sweep :
  forallb (fun st => forallb (fun v =>
     negb (v <? 2 ^ sbits st) ||
     match nth_error (lookup_table st) (N.to_nat v), nth_error nine_state_lookup (N.to_nat v) with
     | Some a, Some b => a =? b | _, _ => false end) small9) all_states = true.
Proof. vm_compute. reflexivity. Qed.

Lemma lookup_prefix st v : v <= 8 -> v < 2 ^ sbits st ->
  nth_error (lookup_table st) (N.to_nat v) = nth_error nine_state_lookup (N.to_nat v).
Proof.
  intros H8 Hs. pose proof lookup_prefix_sweep as S. rewrite forallb_forall in S.
  specialize (S st (states_in st)). rewrite forallb_forall in S. specialize (S v (le8_in v H8)).
  destruct (N.ltb_spec v (2 ^ sbits st)); [|lia]. cbn [negb orb] in S.
  destruct (nth_error (lookup_table st) (N.to_nat v)), (nth_error nine_state_lookup (N.to_nat v));
    try discriminate. apply N.eqb_eq in S. now subst.
Qed.

(* from_value is the least kind that can hold a symbol *)
Lemma from_value_sweep :
  forallb (fun v => forallb (fun st =>
     Bool.eqb (v <? 2 ^ sbits st) (states_num (from_value v) <=? states_num st)) all_states) small9 = true.
Proof. vm_compute. reflexivity. Qed.

Lemma from_value_least v st : v <= 8 ->
  (v < 2 ^ sbits st <-> states_num (from_value v) <= states_num st).
Proof.
  intros H8. pose proof from_value_sweep as S. rewrite forallb_forall in S.
  specialize (S v (le8_in v H8)). rewrite forallb_forall in S. specialize (S st (states_in st)).
  apply Bool.eqb_prop in S. split; intros H.
  - apply N.leb_le. rewrite <- S. now apply N.ltb_lt.
  - apply N.ltb_lt. rewrite S. now apply N.leb_le.
Qed.

Definition small16 : list N := [0;1;2;3;4;5;6;7;8;9;10;11;12;13;14;15].
Lemma lt16_in v : v < 16 -> In v small16.
Proof.
  intros H.
  assert (v = 0 \/ v = 1 \/ v = 2 \/ v = 3 \/ v = 4 \/ v = 5 \/ v = 6 \/ v = 7 \/ v = 8 \/ v = 9 \/
          v = 10 \/ v = 11 \/ v = 12 \/ v = 13 \/ v = 14 \/ v = 15) by lia.
  cbn. intuition.
Qed.

(* union |= v: the kind of the union is the join of the kinds *)
Lemma lor_sweep :
  forallb (fun u => forallb (fun v =>
     (N.lor u v <? 16) && (states_num (from_value (N.lor u v)) =? states_num (join (from_value u) (from_value v))))
     small16) small16 = true.
Proof. vm_compute. reflexivity. Qed.

Lemma lor_kind u v : u < 16 -> v < 16 ->
  N.lor u v < 16 /\ from_value (N.lor u v) = join (from_value u) (from_value v).
Proof.
  intros Hu Hv. pose proof lor_sweep as S. rewrite forallb_forall in S.
  specialize (S u (lt16_in u Hu)). rewrite forallb_forall in S. specialize (S v (lt16_in v Hv)).
  apply andb_prop in S as [S1 S2]. split; [now apply N.ltb_lt|].
  apply N.eqb_eq in S2. destruct (from_value (N.lor u v)), (join (from_value u) (from_value v));
    cbn in S2; try reflexivity; discriminate.
Qed.

Lemma join_num a b : states_num (join a b) = N.max (states_num a) (states_num b).
Proof. destruct a, b; reflexivity. Qed.

(* ------------------------------------------------------------------ check_states *)

Lemma check_states_union_spec value : forall u, u < 16 ->
  match check_states_union value u with
  | None => chars_to_nums value = None
  | Some u' =>
    u' < 16 /\
    exists nums, chars_to_nums value = Some nums /\ Forall (fun v => v <= 8) nums /\
      states_num (from_value u') =
      fold_right (fun v acc => N.max (states_num (from_value v)) acc) (states_num (from_value u)) nums
  end.
Proof.
  induction value as [|c r IH]; intros u Hu; cbn [check_states_union chars_to_nums].
  - split; [assumption|]. exists []. repeat split; constructor.
  - destruct (bit_char_to_num c) as [v|] eqn:E; [|reflexivity].
    destruct (bit_char_facts c v E) as [H8 _].
    destruct (lor_kind u v Hu ltac:(lia)) as [Hl Hk].
    specialize (IH (N.lor u v) Hl).
    destruct (check_states_union r (N.lor u v)) as [u'|].
    + destruct IH as (Hu' & nums & -> & Hall & Hmax). split; [assumption|].
      exists (v :: nums). split; [reflexivity|]. split; [constructor; assumption|].
      rewrite Hmax, Hk, join_num. cbn [fold_right].
      clear. induction nums as [|x xs IHx]; cbn [fold_right]; lia.
    + now rewrite IH.
Qed.

(* check_states returns the least kind able to hold every character of the value *)
Theorem check_states_min value st : check_states value = Some st ->
  exists nums, chars_to_nums value = Some nums /\
    small_syms st nums /\ Forall (fun v => v <= 8) nums /\
    forall st', small_syms st' nums -> states_num st <= states_num st'.
Proof.
  unfold check_states. intros H.
  pose proof (check_states_union_spec value 0 ltac:(lia)) as S.
  destruct (check_states_union value 0) as [u'|]; [|discriminate].
  cbn [option_map] in H. inversion H; subst st; clear H.
  destruct S as (_ & nums & Hn & H8 & Hmax). exists nums. split; [assumption|].
  change (states_num (from_value 0)) with 0 in Hmax.
  assert (Hle : forall v, In v nums -> states_num (from_value v) <= states_num (from_value u')).
  { rewrite Hmax. clear. induction nums as [|x xs IH]; intros v Hin; [destruct Hin|].
    destruct Hin as [->|Hin]; cbn [fold_right]; [lia|]. specialize (IH v Hin). lia. }
  split; [|split; [assumption|]].
  - apply Forall_forall. intros v Hin. rewrite Forall_forall in H8.
    apply from_value_least; [now apply H8|now apply Hle].
  - intros st' Hs'. rewrite Hmax. unfold small_syms in Hs'. rewrite Forall_forall in Hs', H8.
    clear Hmax Hle Hn. induction nums as [|x xs IH]; cbn [fold_right]; [lia|].
    assert (states_num (from_value x) <= states_num st').
    { apply from_value_least; [apply H8; now left|apply Hs'; now left]. }
    assert (fold_right (fun v acc => N.max (states_num (from_value v)) acc) 0 xs <= states_num st').
    { apply IH; intros; [apply H8|apply Hs']; now right. }
    lia.
Qed.

(* ------------------------------------------------------------------ rendering *)

Lemma lookup_all_spec st : forall nums chars,
  Forall (fun v => v <= 8) nums -> small_syms st nums ->
  Forall2 (fun v c => nth_error nine_state_lookup (N.to_nat v) = Some c) nums chars ->
  lookup_all (lookup_table st) nums = Ok chars.
Proof.
  induction nums as [|v r IH]; intros chars H8 Hs H2; inversion H2; subst; [reflexivity|].
  apply Forall_cons_iff in H8 as [H8 H8r]. apply Forall_cons_iff in Hs as [Hs Hsr].
  cbn [lookup_all]. rewrite (lookup_prefix st v H8 Hs).
  match goal with H : nth_error nine_state_lookup _ = Some _ |- _ => rewrite H end.
  rewrite (IH _ H8r Hsr ltac:(eassumption)). reflexivity.
Qed.

Lemma chars_to_nums_lookup value : forall nums, chars_to_nums value = Some nums ->
  length nums = length value /\
  Forall2 (fun v c => nth_error nine_state_lookup (N.to_nat v) = Some c) nums (map lower value).
Proof.
  induction value as [|c r IH]; intros nums H; cbn [chars_to_nums] in H.
  - inversion H. split; [reflexivity|constructor].
  - destruct (bit_char_to_num c) as [v|] eqn:E; [|discriminate].
    destruct (chars_to_nums r) as [l|]; [|discriminate]. inversion H; subst.
    destruct (IH l eq_refl) as [Hl H2]. split; [cbn; now rewrite Hl|].
    cbn [map]. constructor; [|assumption]. now apply (bit_char_facts c v E).
Qed.

(* a value written with its own kind and read back renders as the lower-cased characters,
   for every width and every character the loader accepts *)
Theorem write_render_roundtrip value st : check_states value = Some st ->
  exists packed, write_n_state st value None = Ok packed /\
                 length packed = div_ceil (length value) (per_byte st) /\
                 n_state_to_bit_string st packed (length value) = Ok (map lower value).
Proof.
  intros H. destruct (check_states_min value st H) as (nums & Hn & Hs & H8 & _).
  destruct (chars_to_nums_lookup value nums Hn) as [Hlen H2].
  unfold write_n_state. rewrite Hn. eexists. split; [reflexivity|]. split.
  - rewrite packed_length. now rewrite Hlen.
  - unfold n_state_to_bit_string. rewrite <- Hlen. rewrite (pack_unpack st nums Hs). cbn [bind].
    now apply lookup_all_spec.
Qed.

(* any wider kind renders the same characters: storage in a wider kind is transparent *)
Theorem write_render_wider value st st' : check_states value = Some st ->
  states_num st <= states_num st' ->
  exists packed, write_n_state st' value None = Ok packed /\
                 n_state_to_bit_string st' packed (length value) = Ok (map lower value).
Proof.
  intros H Hle. destruct (check_states_min value st H) as (nums & Hn & Hs & H8 & _).
  destruct (chars_to_nums_lookup value nums Hn) as [Hlen H2].
  assert (Hs' : small_syms st' nums).
  { unfold small_syms in *. rewrite Forall_forall in *. intros v Hin.
    specialize (Hs v Hin). specialize (H8 v Hin).
    apply from_value_least; [assumption|]. apply (from_value_least v st H8) in Hs. lia. }
  unfold write_n_state. rewrite Hn. eexists. split; [reflexivity|].
  unfold n_state_to_bit_string. rewrite <- Hlen. rewrite (pack_unpack st' nums Hs'). cbn [bind].
  now apply lookup_all_spec.
Qed.

Example roundtrip_nonvacuous :
  check_states [120; 48; 90; 49; 49] = Some Four /\
  (do p <- write_n_state Four [120; 48; 90; 49; 49] None; n_state_to_bit_string Four p 5)
  = Ok [120; 48; 122; 49; 49].
Proof. split; reflexivity. Qed.
