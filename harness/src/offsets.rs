//! `offsets <idx,idx,..> <query,query,..>`: point queries on a signal built with the public
//! constructor `Signal::new_var_len`; the string values are the positions so that
//! `get_value_at` and `iter_changes` reveal which entry they return.
use crate::util::*;
use wellen::{Signal, SignalRef, SignalValue};

pub fn run(args: &[&str]) -> String {
    let idxs: Vec<u32> = split(args[0], ',').iter().map(|s| hex_u64(s) as u32).collect();
    let queries: Vec<u64> = split(args[1], ',').iter().map(|s| hex_u64(s)).collect();
    let strings: Vec<String> = (0..idxs.len()).map(|i| i.to_string()).collect();
    let signal = Signal::new_var_len(SignalRef::from_index(0).unwrap(), idxs.clone(), strings);
    let mut out = String::new();
    out.push_str("iter=");
    let it: Vec<String> = signal
        .iter_changes()
        .map(|(t, v)| match v {
            SignalValue::String(s) => format!("{:x}:{}", t, s),
            _ => "?".to_string(),
        })
        .collect();
    out.push_str(&it.join(","));
    for q in queries {
        out.push(' ');
        out.push_str(&guarded(|| match signal.get_offset(q as u32) {
            None => "none".to_string(),
            Some(d) => {
                let tidx = guarded(|| format!("{:x}", signal.get_time_idx_at(&d)));
                let poss: Vec<String> = (0..d.elements)
                    .map(|k| {
                        guarded(|| match signal.get_value_at(&d, k) {
                            SignalValue::String(s) => s.to_string(),
                            _ => "?".to_string(),
                        })
                    })
                    .collect();
                format!(
                    "{}:{:x}:{}:{}:t{}:p{}",
                    d.start,
                    d.elements,
                    if d.time_match { "T" } else { "F" },
                    match d.next_index {
                        None => "-".to_string(),
                        Some(x) => format!("{:x}", x.get()),
                    },
                    tidx,
                    poss.join(".")
                )
            }
        }));
    }
    out
}
