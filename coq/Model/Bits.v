(* Model of the 2/4/9-state value codecs: wellen/src/wavemem.rs (States, bit_char_to_num,
   check_states, check_min_state, write_n_state, compress_template, expand_special_vector_cases),
   wellen/src/signals.rs (n_state_to_bit_string), wellen/src/fst.rs (get_len_and_meta,
   get_bytes_per_entry, push_zeros).
   Conventions: a byte is an N; `x >> k` is `x / 2^k`, `x & (2^k - 1)` is `x mod 2^k`
   (N.shiftr_div_pow2 / N.land_ones); `|` stays N.lor. *)
From WV Require Import Model.Base Generated.Consts.
Open Scope N_scope.

Inductive states := Two | Four | Nine.

Definition states_num (s : states) : N := match s with Two => 0 | Four => 1 | Nine => 2 end.

(* States::try_from_primitive *)
Definition states_of_num (n : N) : option states :=
  if n =? 0 then Some Two else if n =? 1 then Some Four else if n =? 2 then Some Nine else None.

Definition states_eqb (a b : states) : bool := states_num a =? states_num b.

(* States::from_value *)
Definition from_value (v : N) : states :=
  if v <=? 1 then Two else if v <=? 3 then Four else Nine.

(* States::join = max *)
Definition join (a b : states) : states := if states_num a <? states_num b then b else a.

(* States::bits *)
Definition sbits (s : states) : N := match s with Two => 1 | Four => 2 | Nine => 4 end.
(* States::mask = 2^bits - 1; `& mask` is `mod 2^bits` *)
Definition smod (s : states) : N := 2 ^ sbits s.
(* States::bits_in_a_byte *)
Definition per_byte (s : states) : nat := match s with Two => 8%nat | Four => 4%nat | Nine => 2%nat end.

Fixpoint assoc (k : N) (t : list (N * N)) : option N :=
  match t with
  | [] => None
  | (a, b) :: r => if a =? k then Some b else assoc k r
  end.

(* bit_char_to_num: table translated from the source *)
Definition bit_char_to_num (c : byte) : option N := assoc c bit_char_table.

(* check_states: union |= bit_char_to_num(c)?; from_value(union) *)
Fixpoint check_states_union (value : list byte) (union : N) : option N :=
  match value with
  | [] => Some union
  | c :: r => match bit_char_to_num c with
              | None => None
              | Some v => check_states_union r (N.lor union v)
              end
  end.
Definition check_states (value : list byte) : option states :=
  option_map from_value (check_states_union value 0).

(* usize::div_ceil *)
Definition div_ceil (a b : nat) : nat := ((a + b - 1) / b)%nat.

(* fst.rs get_len_and_meta / get_bytes_per_entry *)
Definition get_len_and_meta (st : states) (bits : nat) : nat * bool :=
  (div_ceil bits (per_byte st),
   negb (states_eqb st Two) && (Nat.eqb (bits mod per_byte st) 0)).
Definition get_bytes_per_entry (len : nat) (has_meta : bool) : nat :=
  if has_meta then S len else len.

Definition zeros (n : nat) : list byte := repeat 0 n.

(* write_n_state: packs the symbols of `value` (characters) most significant first; a byte is
   pushed whenever the remaining bit count is a multiple of 8, so that a partial byte comes
   first.  `meta` is or-ed into the first pushed byte. Invalid characters panic (unwrap). *)
Fixpoint write_n_state_loop (st : states) (syms : list N) (work : N) (meta : option N) : list byte :=
  match syms with
  | [] => []
  | v :: rest =>
    let w := work * 2 ^ sbits st + v in
    if (N.of_nat (length rest) * sbits st) mod 8 =? 0 then
      (match meta with Some m => N.lor w m | None => w end) :: write_n_state_loop st rest 0 None
    else write_n_state_loop st rest w meta
  end.

Fixpoint chars_to_nums (value : list byte) : option (list N) :=
  match value with
  | [] => Some []
  | c :: r => match bit_char_to_num c, chars_to_nums r with
              | Some v, Some l => Some (v :: l)
              | _, _ => None
              end
  end.

Definition write_n_state (st : states) (value : list byte) (meta : option N) : outcome (list byte) :=
  match chars_to_nums value with
  | None => Panic
  | Some syms => Ok (write_n_state_loop st syms 0 meta)
  end.

(* expand_special_vector_cases *)
Definition expand_special_vector_cases (value : list byte) (len : nat) : outcome (option (list byte)) :=
  if (len <=? length value)%nat then Ok None
  else match value with
       | [] => Panic                              (* value[0] *)
       | c :: _ =>
         if (c =? 49) || (c =? 48) then Ok (Some (repeat 48 (len - length value) ++ value))
         else if (c =? 120) || (c =? 88) || (c =? 122) || (c =? 90)
              then Ok (Some (repeat c (len - length value) ++ value))
              else Ok None
       end.

(* symbol `ii` (counted from the least significant end) of a byte *)
Definition digit (st : states) (b : byte) (ii : nat) : N :=
  (b / 2 ^ (N.of_nat ii * sbits st)) mod smod st.
Definition digits (st : states) (cnt : nat) (b : byte) : list N :=
  map (digit st b) (rev (seq 0 cnt)).

Definition lookup_table (st : states) : list N :=
  match st with Two => two_state_lookup | Four => four_state_lookup | Nine => nine_state_lookup end.

Fixpoint lookup_all (t : list N) (syms : list N) : outcome (list byte) :=
  match syms with
  | [] => Ok []
  | s :: r => match nth_error t (N.to_nat s) with
              | None => Panic                      (* lookup[value as usize] out of bounds *)
              | Some c => do l <- lookup_all t r; Ok (c :: l)
              end
  end.

(* n_state_to_bit_string as a list of symbols *)
Definition n_state_symbols (st : states) (data : list byte) (bits : nat) : outcome (list N) :=
  if Nat.eqb bits 0 then Ok []
  else
    let byte0_bits := (bits mod per_byte st)%nat in
    match byte0_bits, data with
    | O, _ => Ok (flat_map (digits st (per_byte st)) data)
    | S _, [] => Panic                             (* data[0] *)
    | S _, d0 :: rest => Ok (digits st byte0_bits d0 ++ flat_map (digits st (per_byte st)) rest)
    end.

Definition n_state_to_bit_string (st : states) (data : list byte) (bits : nat) : outcome (list byte) :=
  do syms <- n_state_symbols st data bits; lookup_all (lookup_table st) syms.

(* check_min_state: union of all symbol slots of all bytes *)
Definition check_min_state (value : list byte) (st : states) : states :=
  match st with
  | Two => Two
  | _ => from_value (fold_left (fun u b => fold_left (fun u ii => N.lor u (digit st b ii))
                                                     (seq 0 (per_byte st)) u) value 0)
  end.

(* compress_template: re-packs `bits` symbols from `in_st` to the narrower `out_st` *)
Fixpoint compress_loop (value : list byte) (in_st out_st : states) (max_bits : nat)
         (bit_plus_1 : nat) (work : N) : outcome (list byte) :=
  match bit_plus_1 with
  | O => Ok []
  | S bit =>
    do rev_bit <- usub max_bits (S bit);                   (* max_bits - bit - 1 *)
    do in_byte <- of_option (nth_error value (rev_bit / per_byte in_st));
    let in_value := digit in_st in_byte (bit mod per_byte in_st) in
    let w := work * 2 ^ sbits out_st + in_value in
    if Nat.eqb (bit mod per_byte out_st) 0
    then do r <- compress_loop value in_st out_st max_bits bit 0; Ok (w :: r)
    else compress_loop value in_st out_st max_bits bit w
  end.
Definition compress_template (value : list byte) (in_st out_st : states) (bits : nat) : outcome (list byte) :=
  compress_loop value in_st out_st (length value * per_byte in_st) bits 0.

(* check_if_changed_and_truncate: `out` already holds the new entry at its end *)
Fixpoint list_eqb (a b : list N) : bool :=
  match a, b with
  | [], [] => true
  | x :: a', y :: b' => (x =? y) && list_eqb a' b'
  | _, _ => false
  end.

Definition check_if_changed_and_truncate (bytes_per_entry : nat) (out : list byte) : bool * list byte :=
  if (length out <? 2 * bytes_per_entry)%nat then (true, out)
  else
    let prev_start := (length out - 2 * bytes_per_entry)%nat in
    let new_start := (length out - bytes_per_entry)%nat in
    let prev := firstn bytes_per_entry (skipn prev_start out) in
    let new := skipn new_start out in
    if list_eqb prev new then (false, firstn new_start out) else (true, out).
