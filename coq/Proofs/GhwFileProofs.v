(* C11: the two halves of the GHW loader fit together.  The decode information that the header reader (Model/GhwHier.v)
   hands to the signal-section reader satisfies the premise `sigs_ok` of the section theorems (Proofs/GhwProofs.v): every
   signal registered as an element of a std_logic / bit vector refers to a vector of the buffer of that kind.  Hence for a
   whole file (Model/GhwFile.v) the section theorems hold without any assumption about the header: what the file's signal
   sections make of the store is a history of well-formed operations and the time table is the strictly increasing list of
   accepted time stamps. *)
From Coq Require Import Lia Sorted.
From WV Require Import Model.Base Generated.Consts Model.Bits Model.WaveMem Model.Hierarchy Model.FstHier Model.Ghw Model.GhwAlias
  Model.GhwHier Model.GhwFile Spec.TimeSpec Proofs.TimeTableProofs Proofs.GhwProofs.
Open Scope N_scope.

(* ---- the invariant of the tracker *)
Definition known_tpe (tp : nat) : Prop := (tp <= 6)%nat.
Definition typed_slot (vectors : list vec_info) (s : sig_slot) : Prop :=
  match s with
  | None => True
  | Some (tp, _, v) =>
    known_tpe tp /\
    (tp = 1%nat \/ tp = 3%nat -> exists vid vv, v = Some vid /\ nth_error vectors vid = Some vv /\ vi_two vv = Nat.eqb tp 3)
  end.
Definition typed (t : tracker) : Prop := Forall (typed_slot (tr_vectors t)) (tr_signals t).

(* vectors are only appended, or updated without changing their kind *)
Definition vec_ext (vs vs' : list vec_info) : Prop :=
  forall vid vv, nth_error vs vid = Some vv -> exists vv', nth_error vs' vid = Some vv' /\ vi_two vv' = vi_two vv.

Lemma vec_ext_refl vs : vec_ext vs vs.
Proof. intros vid vv H. exists vv. split; [exact H|reflexivity]. Qed.

Lemma typed_slot_ext vs vs' s : vec_ext vs vs' -> typed_slot vs s -> typed_slot vs' s.
Proof.
  intros He. destruct s as [[[tp r] v]|]; [|exact (fun H => H)]. intros [Hk Hv]. split; [exact Hk|].
  intros Htp. destruct (Hv Htp) as (vid & vv & -> & Hn & Ht). destruct (He vid vv Hn) as (vv' & Hn' & Ht').
  exists vid, vv'. split; [reflexivity|]. split; [exact Hn'|]. congruence.
Qed.

Lemma forall_update {A} (P : A -> Prop) (l : list A) : forall i x, Forall P l -> P x -> Forall P (list_update l i x).
Proof.
  induction l as [|a r IH]; intros [|i] x Hl Hx; cbn [list_update]; try constructor; inversion Hl; subst; try assumption.
  apply IH; assumption.
Qed.

Lemma forall_fill (P : sig_slot -> Prop) (x : sig_slot) : forall n l ii, Forall P l -> P x -> Forall P (fill l ii n x).
Proof. induction n as [|n IH]; intros l ii Hl Hx; cbn [fill]; [exact Hl|]. apply IH; [apply forall_update; assumption|exact Hx]. Qed.

Lemma vec_ext_update vs vid v v' : nth_error vs vid = Some v -> vi_two v' = vi_two v -> vec_ext vs (list_update vs vid v').
Proof.
  intros Hn Ht i vv Hi. destruct (Nat.eq_dec i vid) as [->|Hne].
  - exists v'. split; [|congruence].
    clear -Hn. revert vid Hn. induction vs as [|a r IH]; intros [|vid] Hn; cbn in *; try discriminate; [reflexivity|apply IH; exact Hn].
  - exists vv. split; [|reflexivity].
    clear -Hi Hne. revert vid i Hi Hne. induction vs as [|a r IH]; intros [|vid] [|i] Hi Hne; cbn in *; try discriminate; try assumption; [lia|].
    apply (IH vid i Hi). lia.
Qed.

Lemma vec_ext_app vs v : vec_ext vs (vs ++ [v]).
Proof. intros i vv Hi. exists vv. split; [|reflexivity]. rewrite nth_error_app1; [exact Hi|]. apply nth_error_Some. congruence. Qed.

Lemma typed_ext t sigs vs : typed t -> sigs = tr_signals t -> vec_ext (tr_vectors t) vs -> Forall (typed_slot vs) sigs.
Proof. intros Ht -> He. unfold typed in Ht. rewrite Forall_forall in Ht |- *. intros s Hs. exact (typed_slot_ext _ _ s He (Ht s Hs)). Qed.

Lemma register_scalar_typed t idx tpe t' r :
  typed t -> (tpe <= 6)%nat -> tpe <> 1%nat -> tpe <> 3%nat -> register_scalar t idx tpe = Ok (t', r) -> typed t'.
Proof.
  intros Ht Hk H1 H3 H. unfold register_scalar in H.
  destruct (nth_error (tr_signals t) idx) as [[[[tp rr] v]|]|]; try discriminate.
  - destruct (Nat.eqb tp tpe); [|discriminate]. injection H as <- <-. exact Ht.
  - injection H as <- <-. unfold typed. cbn [tr_signals tr_vectors]. apply forall_update; [exact Ht|].
    split; [exact Hk|]. intros [E|E]; contradiction.
Qed.

Lemma alias_walk_typed : forall fuel t id msb lsb sliced t' r,
  alias_walk fuel t id msb lsb sliced = Ok (t', r) -> tr_signals t' = tr_signals t /\ tr_vectors t' = tr_vectors t.
Proof.
  induction fuel as [|f IH]; intros t id msb lsb sliced t' r H; cbn [alias_walk] in H; [discriminate|].
  destruct (nth_error (tr_aliases t) id) as [a|]; cbn [of_option bind] in H; [|discriminate].
  destruct (Nat.eqb (ai_msb a) msb && Nat.eqb (ai_lsb a) lsb); [injection H as <- <-; split; reflexivity|].
  destruct (ai_next a) as [nx|]; [exact (IH _ _ _ _ _ _ _ H)|]. injection H as <- <-. split; reflexivity.
Qed.

Lemma find_or_add_alias_typed t vid msb lsb t' r : typed t -> find_or_add_alias t vid msb lsb = Ok (t', r) -> typed t'.
Proof.
  intros Ht H. unfold find_or_add_alias in H.
  destruct (nth_error (tr_vectors t) vid) as [v|] eqn:Ev; cbn [of_option bind] in H; [|discriminate].
  destruct (vi_alias v) as [first|].
  - destruct (alias_walk_typed _ _ _ _ _ _ _ _ H) as [Hs Hv]. unfold typed. rewrite Hs, Hv. exact Ht.
  - injection H as <- <-. unfold typed. cbn [tr_signals tr_vectors].
    apply (typed_ext t _ _ Ht eq_refl). apply (vec_ext_update _ vid v); [exact Ev|reflexivity].
Qed.

Lemma register_bit_vec_typed t mn mx two t' r : typed t -> register_bit_vec t mn mx two = Ok (t', r) -> typed t'.
Proof.
  intros Ht H. unfold register_bit_vec in H.
  destruct (mx <? mn)%nat; [discriminate|].
  destruct (find_vec t mn mx) as [[vid|]| |]; cbn [bind] in H; try discriminate.
  - destruct (nth_error (tr_vectors t) vid) as [v|]; cbn [of_option bind] in H; [|discriminate].
    destruct (Nat.eqb mx (vi_max v) && Nat.eqb mn (vi_min v)).
    + destruct (nth_error (tr_signals t) mn) as [[[[tp rr] vv]|]|]; try discriminate. injection H as <- <-. exact Ht.
    + destruct ((vi_min v <=? mn)%nat && (mx <=? vi_max v)%nat); [|discriminate].
      exact (find_or_add_alias_typed _ _ _ _ _ _ Ht H).
  - destruct (Nat.eqb mn mx).
    + apply (register_scalar_typed t mn (if two then 2 else 0)%nat t' r Ht); [destruct two; lia|destruct two; lia|destruct two; lia|exact H].
    + destruct (negb (all_free (tr_signals t) mn (S mx - mn))); [discriminate|]. injection H as <- <-.
      unfold typed. cbn [tr_signals tr_vectors].
      apply forall_fill.
      * apply (typed_ext t _ _ Ht eq_refl). apply vec_ext_app.
      * split; [destruct two; unfold known_tpe; lia|]. intros _.
        exists (length (tr_vectors t)), (mk_vi mn mx two (tr_count t) None). split; [reflexivity|].
        split; [rewrite nth_error_app2, Nat.sub_diag by lia; reflexivity|]. destruct two; reflexivity.
Qed.

(* ---- the hierarchy section keeps it *)
Definition gtyped (g : gstate) : Prop := typed (g_tracker g).

Lemma array_loop_inv (h : elem_handler) :
  (forall g nm inp g' r, gtyped g -> h g nm inp = Ok (g', r) -> gtyped g') ->
  forall fuel2 s e downto k g inp g' r, gtyped g -> array_loop h fuel2 s e downto k g inp = Ok (g', r) -> gtyped g'.
Proof.
  intros Hh. induction fuel2 as [|f IH]; intros s e downto k g inp g' r Hg H; cbn [array_loop] in H; [discriminate|].
  destruct (e - s <=? k)%Z; [injection H as <- <-; exact Hg|].
  match type of H with context [h g ?nm inp] => destruct (h g nm inp) as [[g1 r1]| |] eqn:E end; cbn [bind] in H; try discriminate.
  exact (IH _ _ _ _ _ _ _ _ (Hh _ _ _ _ _ Hg E) H).
Qed.

Lemma record_loop_inv (h : gstate -> name -> N -> list byte -> outcome (gstate * list byte)) strings :
  (forall g nm t inp g' r, gtyped g -> h g nm t inp = Ok (g', r) -> gtyped g') ->
  forall fs g inp g' r, gtyped g -> record_loop h strings fs g inp = Ok (g', r) -> gtyped g'.
Proof.
  intros Hh. induction fs as [|[fn ft] fr IH]; intros g inp g' r Hg H; cbn [record_loop] in H; [injection H as <- <-; exact Hg|].
  destruct (nthN strings fn) as [fnm|]; cbn [of_option bind] in H; [|discriminate].
  destruct (h g fnm ft inp) as [[g1 r1]| |] eqn:E; cbn [bind] in H; try discriminate.
  exact (IH _ _ _ _ (Hh _ _ _ _ _ _ Hg E) H).
Qed.

Lemma add_var_typed debug : forall fuel strings types max_id dir g nm tid inp g' r,
  gtyped g -> add_var debug fuel strings types max_id dir g nm tid inp = Ok (g', r) -> gtyped g'.
Proof.
  induction fuel as [|f IH]; intros strings types max_id dir g nm tid inp g' r Hg H; cbn [add_var] in H; [discriminate|].
  destruct (get_type_and_name debug strings types tid) as [[ty tn]| |]; cbn [bind] in H; try discriminate.
  destruct ty as [n|n rg|n|n rg|n b|n rg|n rg|n|n fs|n lits eid|n el rg].
  - (* TNineBit *)
    destruct (read_signal_id max_id inp) as [[idx r0]| |]; cbn [bind] in H; try discriminate.
    destruct (register_bit_vec (g_tracker g) idx idx false) as [[t ref]| |] eqn:E; cbn [bind] in H; try discriminate.
    injection H as <- <-. exact (register_bit_vec_typed _ _ _ _ _ _ Hg E).
  - (* TNineVec *)
    match type of H with context [if ?c then _ else _] => destruct c end; [injection H as <- <-; exact Hg|].
    match type of H with context [read_sig_ids ?a ?b ?c ?d ?e] => destruct (read_sig_ids a b c d e) as [[ids r0]| |] end; cbn [bind] in H; try discriminate.
    destruct (debug && negb (contiguous ids)); [discriminate|].
    destruct (hd_error ids) as [mn|]; cbn [of_option bind] in H; [|discriminate].
    destruct (hd_error (rev ids)) as [mx|]; cbn [of_option bind] in H; [|discriminate].
    destruct (register_bit_vec (g_tracker g) mn mx false) as [[t ref]| |] eqn:E; cbn [bind] in H; try discriminate.
    destruct rg as [d l rr]. destruct (Model.VcdHeader.var_index_new l rr) as [ix| |]; cbn [bind] in H; try discriminate.
    injection H as <- <-. exact (register_bit_vec_typed _ _ _ _ _ _ Hg E).
  - (* TBit *)
    destruct (read_signal_id max_id inp) as [[idx r0]| |]; cbn [bind] in H; try discriminate.
    destruct (register_bit_vec (g_tracker g) idx idx true) as [[t ref]| |] eqn:E; cbn [bind] in H; try discriminate.
    injection H as <- <-. exact (register_bit_vec_typed _ _ _ _ _ _ Hg E).
  - (* TBitVec *)
    match type of H with context [if ?c then _ else _] => destruct c end; [injection H as <- <-; exact Hg|].
    match type of H with context [read_sig_ids ?a ?b ?c ?d ?e] => destruct (read_sig_ids a b c d e) as [[ids r0]| |] end; cbn [bind] in H; try discriminate.
    destruct (debug && negb (contiguous ids)); [discriminate|].
    destruct (hd_error ids) as [mn|]; cbn [of_option bind] in H; [|discriminate].
    destruct (hd_error (rev ids)) as [mx|]; cbn [of_option bind] in H; [|discriminate].
    destruct (register_bit_vec (g_tracker g) mn mx true) as [[t ref]| |] eqn:E; cbn [bind] in H; try discriminate.
    destruct rg as [d l rr]. destruct (Model.VcdHeader.var_index_new l rr) as [ix| |]; cbn [bind] in H; try discriminate.
    injection H as <- <-. exact (register_bit_vec_typed _ _ _ _ _ _ Hg E).
  - discriminate.
  - (* TI32 *)
    destruct (read_signal_id max_id inp) as [[idx r0]| |]; cbn [bind] in H; try discriminate.
    destruct (register_scalar (g_tracker g) idx 5) as [[t ref]| |] eqn:E; cbn [bind] in H; try discriminate.
    injection H as <- <-. apply (register_scalar_typed _ _ _ _ _ Hg) in E; [exact E|lia..].
  - discriminate.
  - (* TF64 *)
    destruct (read_signal_id max_id inp) as [[idx r0]| |]; cbn [bind] in H; try discriminate.
    destruct (register_scalar (g_tracker g) idx 6) as [[t ref]| |] eqn:E; cbn [bind] in H; try discriminate.
    injection H as <- <-. apply (register_scalar_typed _ _ _ _ _ Hg) in E; [exact E|lia..].
  - (* TRecord *)
    match type of H with context [record_loop ?h ?st ?fs ?g0 ?i0] => destruct (record_loop h st fs g0 i0) as [[g2 r2]| |] eqn:E end; cbn [bind] in H; try discriminate.
    injection H as <- <-.
    unfold gtyped. cbn [g_tracker]. fold (gtyped g2).
    refine (record_loop_inv (fun g0 fnm ftid inp0 => add_var debug f strings types max_id dir g0 fnm ftid inp0) strings
             (fun g0 nm0 t0 inp0 g1 r1 Hg0 H0 => IH strings types max_id dir g0 nm0 t0 inp0 g1 r1 Hg0 H0) _ _ _ _ _ _ E). exact Hg.
  - (* TEnum *)
    destruct (read_signal_id max_id inp) as [[idx r0]| |]; cbn [bind] in H; try discriminate.
    destruct (enum_bits (length lits)) as [bits| |]; cbn [bind] in H; try discriminate.
    destruct (register_scalar (g_tracker g) idx 4) as [[t ref]| |] eqn:E; cbn [bind] in H; try discriminate.
    injection H as <- <-. apply (register_scalar_typed _ _ _ _ _ Hg) in E; [exact E|lia..].
  - (* TArray *)
    destruct (ir_start_end (match rg with Some x => x | None => ir_default end)) as [s e].
    match type of H with context [array_loop ?h ?fu ?s0 ?e0 ?d0 ?k0 ?g0 ?i0] => destruct (array_loop h fu s0 e0 d0 k0 g0 i0) as [[g2 r2]| |] eqn:E end; cbn [bind] in H; try discriminate.
    injection H as <- <-.
    unfold gtyped. cbn [g_tracker]. fold (gtyped g2).
    refine (array_loop_inv (fun g0 enm inp0 => add_var debug f strings types max_id dir g0 enm el inp0)
             (fun g0 nm0 inp0 g1 r1 Hg0 H0 => IH strings types max_id dir g0 nm0 el inp0 g1 r1 Hg0 H0) _ _ _ _ _ _ _ _ _ _ E). exact Hg.
Qed.

Lemma hier_loop_typed debug : forall fuel strings types max_id ev nv g inp g' r,
  gtyped g -> hier_loop debug fuel strings types max_id ev nv g inp = Ok (g', r) -> gtyped g'.
Proof.
  induction fuel as [|f IH]; intros strings types max_id ev nv g inp g' r Hg H; cbn [hier_loop] in H; [discriminate|].
  destruct (read_u8 inp) as [[k r0]| |]; cbn [bind] in H; try discriminate.
  destruct (negb (hier_kind_known k)); [discriminate|].
  destruct (k =? 0); [injection H as <- <-; exact Hg|].
  destruct (k =? 15); [refine (IH _ _ _ _ _ _ _ _ _ _ H); exact Hg|].
  destruct (k =? 1); [discriminate|].
  destruct (k =? 13).
  { destruct (read_uleb r0) as [[x r2]| |]; cbn [bind] in H; try discriminate. refine (IH _ _ _ _ _ _ _ _ _ _ H); exact Hg. }
  destruct (scope_type_of_kind k) as [st|].
  - destruct (read_uleb r0) as [[nm r2]| |]; cbn [bind] in H; try discriminate.
    match type of H with context [bind ?x _] => destruct x as [r3| |] end; cbn [bind] in H; try discriminate.
    destruct (nthN strings nm) as [n|]; cbn [of_option bind] in H; [|discriminate].
    refine (IH _ _ _ _ _ _ _ _ _ _ H); exact Hg.
  - destruct (dir_of_kind k) as [d|]; [|discriminate].
    destruct (read_uleb r0) as [[nm r2]| |]; cbn [bind] in H; try discriminate.
    destruct (nthN strings nm) as [n|]; cbn [of_option bind] in H; [|discriminate].
    destruct (read_type_id r2) as [[tid r3]| |]; cbn [bind] in H; try discriminate.
    destruct (add_var debug (S (length types)) strings types max_id d g n tid r3) as [[g1 r4]| |] eqn:E; cbn [bind] in H; try discriminate.
    destruct (ev <? nv + 1); [discriminate|].
    exact (IH _ _ _ _ _ _ _ _ _ (add_var_typed debug _ _ _ _ _ _ _ _ _ _ _ Hg E) H).
Qed.

Lemma tr_new_typed n : typed (tr_new n).
Proof. unfold typed, tr_new. cbn [tr_signals]. apply Forall_forall. intros s Hs. apply repeat_spec in Hs. subst s. exact I. Qed.

Lemma header_sections_typed debug be : forall fuel strings types enums hier inp res,
  (match hier with Some g => gtyped g | None => True end) ->
  header_sections debug be fuel strings types enums hier inp = Ok res -> typed (ghr_tracker res).
Proof.
  induction fuel as [|f IH]; intros strings types enums hier inp res Hh H; cbn [header_sections] in H; [discriminate|].
  destruct (take 4 inp) as [[mark r]| |]; cbn [bind] in H; try discriminate.
  destruct (list_eqb mark ghw_string_section).
  { destruct (read_string_section be r) as [[tbl r2]| |]; cbn [bind] in H; try discriminate.
    destruct (debug && negb (match strings with [] => true | _ => false end)); [discriminate|]. exact (IH _ _ _ _ _ _ Hh H). }
  destruct (list_eqb mark ghw_type_section).
  { destruct (debug && negb (match types with [] => true | _ => false end)); [discriminate|].
    destruct (read_type_section debug be strings r) as [[tys r2]| |]; cbn [bind] in H; try discriminate.
    destruct (enums_of strings tys) as [es| |]; cbn [bind] in H; try discriminate. exact (IH _ _ _ _ _ _ Hh H). }
  destruct (list_eqb mark ghw_wk_type_section).
  { destruct (read_wkt_section debug types r) as [r2| |]; cbn [bind] in H; try discriminate. exact (IH _ _ _ _ _ _ Hh H). }
  destruct (list_eqb mark ghw_hierarchy_section).
  { destruct (read_hierarchy_section debug be strings types r) as [[g r2]| |] eqn:E; cbn [bind] in H; try discriminate.
    destruct (debug && (match hier with Some _ => true | None => false end)); [discriminate|].
    refine (IH _ _ _ _ _ _ _ H). cbn.
    unfold read_hierarchy_section in E.
    destruct (take 16 r) as [[h r3]| |]; cbn [bind] in E; try discriminate.
    destruct (negb (zeros4 h)); [discriminate|].
    destruct (u32_of be (firstn 4 (skipn 4 h))) as [x| |]; cbn [bind] in E; try discriminate.
    destruct (u32_of be (firstn 4 (skipn 8 h))) as [nvars| |]; cbn [bind] in E; try discriminate.
    destruct (u32_of be (skipn 12 h)) as [max_id| |]; cbn [bind] in E; try discriminate.
    destruct (1048576 <? max_id); [discriminate|].
    refine (hier_loop_typed debug _ _ _ _ _ _ _ _ _ _ _ E). apply tr_new_typed. }
  destruct (list_eqb mark ghw_end_of_header_section); [|discriminate].
  destruct hier as [g|]; [|discriminate]. injection H as <-. exact Hh.
Qed.

(* ---- from the invariant to the premise of the section theorems *)
Definition sts_of (vs : list vec_info) : list states :=
  map (fun v : nat * nat * bool * nat => if snd (fst v) then Two else Nine) (decode_vectors vs).

Lemma sts_nth vs vid vv : nth_error vs vid = Some vv -> nth_error (sts_of vs) vid = Some (if vi_two vv then Two else Nine).
Proof. intros H. unfold sts_of, decode_vectors. rewrite !nth_error_map, H. reflexivity. Qed.

Lemma decode_signals_ok vs : forall slots, Forall (typed_slot vs) slots ->
  exists sigs, decode_signals slots = Ok sigs /\
    Forall (fun info => match gs_tpe info with
                        | GNineVec => exists vid, gs_vec info = Some vid /\ nth_error (sts_of vs) vid = Some Nine
                        | GTwoVec => exists vid, gs_vec info = Some vid /\ nth_error (sts_of vs) vid = Some Two
                        | _ => True
                        end) sigs.
Proof.
  induction slots as [|s r IH]; intros H; [exists []; split; [reflexivity|constructor]|].
  apply Forall_cons_iff in H as [Hs Hr]. destruct (IH Hr) as (sigs & Hd & Hall).
  destruct s as [[[tp ref] v]|]; cbn [decode_signals]; [|exists sigs; split; assumption].
  destruct Hs as [Hk Hv]. unfold known_tpe in Hk.
  assert (Hcases : (tp = 0 \/ tp = 1 \/ tp = 2 \/ tp = 3 \/ tp = 4 \/ tp = 5 \/ tp = 6)%nat) by lia.
  destruct Hcases as [->|[->|[->|[->|[->|[->| ->]]]]]]; cbn [N.of_nat ghw_tpe_of]; cbn; rewrite Hd; cbn [bind];
    eexists; (split; [reflexivity|]); constructor; try exact Hall; cbn [gs_tpe gs_vec]; try exact I.
  - destruct (Hv (or_introl eq_refl)) as (vid & vv & -> & Hn & Ht). exists vid. split; [reflexivity|].
    rewrite (sts_nth _ _ _ Hn), Ht. reflexivity.
  - destruct (Hv (or_intror eq_refl)) as (vid & vv & -> & Hn & Ht). exists vid. split; [reflexivity|].
    rewrite (sts_nth _ _ _ Hn), Ht. reflexivity.
Qed.

(* the decode information of every header the model reads satisfies the premise of the section theorems *)
Theorem header_decode_info_ok debug inp be res :
  ghw_read_header debug inp = Ok (be, res) ->
  exists sigs, decode_signals (tr_signals (ghr_tracker res)) = Ok sigs /\
               sigs_ok sigs (map (fun v : nat * nat * bool * nat => if snd (fst v) then Two else Nine)
                                 (decode_vectors (tr_vectors (ghr_tracker res)))).
Proof.
  intros H. unfold ghw_read_header in H.
  destruct (read_ghw_header inp) as [[be0 r]| |]; cbn [bind] in H; try discriminate.
  destruct (header_sections debug be0 (S (length r)) [] [] [] None r) as [res0| |] eqn:E; cbn [bind] in H; try discriminate.
  injection H as <- <-.
  pose proof (header_sections_typed debug be0 (S (length r)) [] [] [] None r res0 I E) as Ht.
  destruct (decode_signals_ok _ _ Ht) as (sigs & Hd & Hall). exists sigs. split; [exact Hd|].
  intros idx info Hn. rewrite Forall_forall in Hall. exact (Hall info (nth_error_In _ _ Hn)).
Qed.

(* hence, for a whole file: the signal sections make of the store what a history of well-formed operations makes of it, and
   the time table is the strictly increasing list of the accepted time stamps - no assumption about the header is left *)
Theorem ghw_file_store_ops (parse_f64 : list byte -> option (list byte)) lz_compress cap debug inp res tpes blocks ttb :
  1 <= cap ->
  ghw_read_file lz_compress cap debug inp = Ok (res, tpes, Some (blocks, ttb)) -> bytes_ok (ghr_rest res) ->
  (exists ops e', run_ops parse_f64 lz_compress cap (enc_new tpes) ops = Ok e' /\ Forall ghw_op_ok ops /\
                  enc_finish lz_compress e' = Ok (blocks, ttb)) /\
  (exists ops, Forall ghw_op_ok ops /\ ttb = accepted (times_of ops) /\ StronglySorted N.lt ttb).
Proof.
  intros Hcap H Hb. unfold ghw_read_file in H.
  destruct (ghw_read_header_file debug inp) as [[be res0]| |] eqn:Eh; cbn [bind] in H; try discriminate.
  assert (Eh' : ghw_read_header debug inp = Ok (be, res0)).
  { unfold ghw_read_header_file in Eh. destruct (read_ghw_header inp) as [[b0 r0]| |]; cbn [bind] in Eh; try discriminate.
    destruct (try_read_directory b0 inp) as [u| |]; cbn [bind] in Eh; try discriminate. exact Eh. }
  destruct (header_decode_info_ok debug inp be res0 Eh') as (sigs & Hd & Hok).
  rewrite Hd in H. cbn [bind] in H.
  match type of H with context [read_signals ?a ?b ?c ?d ?e ?f ?g] => destruct (read_signals a b c d e f g) as [body| |] eqn:Er end; cbn [bind] in H; try discriminate.
  injection H as <- <- ->.
  split.
  - exact (read_signals_ops parse_f64 lz_compress cap be _ sigs _ _ blocks ttb Hok Hb Er).
  - exact (read_signals_time_table parse_f64 lz_compress cap Hcap be _ sigs _ _ blocks ttb Hok Hb Er).
Qed.
