(* Property C13: a variable aliasing a sub-range of a vector reports exactly that sub-range. *)
From WV Require Import Model.Base Model.Bits Model.Slice Proofs.BitsProofs Proofs.SliceProofs.
Open Scope N_scope.

(* for every state kind, parent width and sub-range strictly inside the parent: slicing the packed
   parent value yields the packed form of the characters W-1-msb .. W-1-lsb (counted from the left) *)
Check slice_n_states_spec :
  forall debug st syms msb lsb, small_syms st syms ->
  (lsb <= msb < length syms)%nat -> (msb - lsb + 1 < length syms)%nat ->
  slice_n_states debug st (write_n_state_loop st syms 0 None) msb lsb (length syms)
  = Ok (write_n_state_loop st (firstn (msb - lsb + 1) (skipn (length syms - 1 - msb) syms)) 0 None).

(* ... which renders as exactly those characters, in the same order *)
Check slice_renders_substring :
  forall debug st syms msb lsb, small_syms st syms ->
  (lsb <= msb < length syms)%nat -> (msb - lsb + 1 < length syms)%nat ->
  exists packed,
    slice_n_states debug st (write_n_state_loop st syms 0 None) msb lsb (length syms) = Ok packed /\
    n_state_symbols st packed (msb - lsb + 1) = Ok (firstn (msb - lsb + 1) (skipn (length syms - 1 - msb) syms)).

(* the symbol at bit i of a right-aligned packed value (stray bits of the first byte are never read) *)
Check packed_symbol :
  forall st syms (i : nat), small_syms st syms -> (i < length syms)%nat ->
  let data := write_n_state_loop st syms 0 None in
  let max_bits := (length data * per_byte st)%nat in
  exists b, nth_error data ((max_bits - S i) / per_byte st) = Some b /\
            digit st b (i mod per_byte st) = nth (length syms - 1 - i) syms 0.

Print Assumptions slice_n_states_spec.
Print Assumptions slice_renders_substring.
Print Assumptions packed_symbol.
