"""C02 - the time table is the strictly increasing list of recorded time steps."""
from .. import core, gen
from . import vcdfam

PID = "C02"
LEVEL = "proof"
RULE = ("histories (time steps with value changes) are driven through wavemem::Encoder (hook) and printed as VCD "
        "files loaded single-/multi-threaded and through the reader; sizes 1, 2, 65534..65537, 131069..131072 "
        "(+200000 in thorough) time steps and random small histories with repeated, backwards and late-start "
        "timestamps, values before the first timestamp, a repeated/backwards timestamp directly after exactly k*65535 accepted steps, and files ending directly after a timestamp. Oracle: table == accepted(times) computed from the "
        "abstract history, strictly increasing, every signal index valid and non-decreasing. Non-trivial: the "
        "history has >= 2 accepted steps and (a repeated/backwards timestamp, or crosses a 65535 boundary, or has an "
        "implicit first step); distinct = distinct case lines.")
ASSUMPTIONS = ["FST time table is the dependency's own time chain (A-fst): exercised by C10, not modelled",
               "GHW uses the same Encoder::time_change; its section reader is covered by C11"]
TRUSTED_BASE = ["Python oracle gen.expected_obs (meaning of an abstract history)"]


def monitor(obs):
    """strictness and index validity on any observation string"""
    if not obs.startswith("tt="):
        return None
    parts = obs.split(" ")
    tt = [] if parts[0] == "tt=-" else [int(x, 16) for x in parts[0][3:].split(",")]
    for a, b in zip(tt, tt[1:]):
        if not a < b:
            return "time table not strictly increasing: %x then %x" % (a, b)
    for p in parts[1:]:
        if not p.startswith("s") or "=" not in p:
            continue
        body = p.split("=", 1)[1]
        if body == "-":
            continue
        last = -1
        for e in body.split(","):
            idx = int(e.split(":", 1)[0], 16)
            if idx >= len(tt):
                return "signal index %d outside the time table (len %d)" % (idx, len(tt))
            if idx < last:
                return "signal indices decrease"
            last = idx
    return None


def big_history(n, start=0, stride=1):
    sigs = [gen.Sig("b", 1), gen.Sig("b", 8), gen.Sig("r")]
    marks = set([0, 1, n - 1, n - 2])
    for m in (65535, 131070, 196605):
        marks.update(range(m - 3, m + 4))
    steps = []
    for k in range(n):
        ch = []
        if k in marks:
            ch = [(0, "01"[k % 2]), (1, format(k % 251, "08b")), (2, "%d.5" % (k % 1000))]
        steps.append((start + k * stride, ch))
    return sigs, steps


def nontrivial_key(line, steps, implicit):
    times = [t for t, _ in steps]
    acc = 0
    last = None
    weird = implicit
    for t in times:
        if last is None or t > last:
            acc += 1
            last = t
        else:
            weird = True
    if acc >= 2 and (weird or acc > 65535):
        return line[:200] + str(hash(line))
    return None


def run(res, rng, tier, model_ok, replay=None):
    cases = []
    if replay:
        line = replay.get("case") or replay["broken_correspondence"]["case"]
        cases.append({"line": line, "expect": replay.get("expected") if isinstance(replay.get("expected"), str) and replay.get("expected", "").startswith("tt=") else None, "pred": monitor})
    else:
        sizes = [1, 2, 65534, 65535, 65536, 65537, 131069, 131070, 131071, 131072]
        if tier == "thorough":
            sizes += [196604, 196605, 196606, 200000, 262140]
        for n in sizes:
            sigs, steps = big_history(n, start=rng.choice([0, 7]), stride=rng.choice([1, 3]))
            table, out = gen.expected_obs(sigs, steps, False)
            exp = gen.obs_string(table, out)
            line = gen.enc_case(rng, sigs, steps)
            cases.append({"line": line, "expect": exp, "key": nontrivial_key(line, steps, False), "klass": "enc-big", "pred": monitor})
            if n in (2, 65535, 65536, 65537, 131071) or tier == "thorough":
                for mode in (["st", "rd"] if tier == "quick" else ["st", "rd", "mt:4:0"]):
                    l2, e2, _ = gen.vcd_case(rng, mode, sigs, steps, False, ws="plain", regime="dense")
                    cases.append({"line": l2, "expect": e2, "key": nontrivial_key(l2, steps, False), "klass": "vcd-big-" + mode.split(":")[0], "pred": monitor})
        # a storage block (65535 steps) in which no signal changes at all, between blocks that hold changes
        for n in ([140000] if tier == "quick" else [131071, 140000, 200000]):
            sigs = [gen.Sig("b", 1), gen.Sig("b", 8), gen.Sig("r")]
            steps = []
            for k in range(n):
                ch = [(0, "01"[k % 2]), (1, format(k % 251, "08b")), (2, "%d.5" % (k % 1000))] if k in (0, 1, n - 2, n - 1) else []
                steps.append((k * 2, ch))
            table, out = gen.expected_obs(sigs, steps, False)
            exp = gen.obs_string(table, out)
            cases.append({"line": gen.enc_case(rng, sigs, steps), "expect": exp, "key": ("idle-block", n, "enc"), "klass": "enc-idle-block", "pred": monitor})
            l2, e2, _ = gen.vcd_case(rng, "st", sigs, steps, False, ws="plain", regime="dense")
            cases.append({"line": l2, "expect": e2, "key": ("idle-block", n, "vcd"), "klass": "vcd-idle-block", "pred": monitor})
        # exactly k*65535 accepted steps followed by a repeated / backwards / equal-to-earlier timestamp
        for k in ([1, 2] if tier == "quick" else [1, 2, 3]):
            for kind in ("repeat", "back", "back-then-forward"):
                sigs, steps = big_history(k * 65535)
                last = steps[-1][0]
                extra = {"repeat": [(last, [(0, "x")]), (last + 5, [(0, "0")])],
                         "back": [(last - 3, [(0, "x")]), (last + 5, [(0, "0")])],
                         "back-then-forward": [(3, [(0, "z")]), (last, [(0, "x")]), (last + 1, [(0, "1")])]}[kind]
                steps = steps + extra
                table, out = gen.expected_obs(sigs, steps, False)
                exp = gen.obs_string(table, out)
                line = gen.enc_case(rng, sigs, steps)
                cases.append({"line": line, "expect": exp, "key": ("boundary", k, kind), "klass": "enc-boundary-" + kind, "pred": monitor})
                l2, e2, _ = gen.vcd_case(rng, "st", sigs, steps, False, ws="plain", regime="dense")
                cases.append({"line": l2, "expect": e2, "key": ("boundary-vcd", k, kind), "klass": "vcd-boundary-" + kind, "pred": monitor})
        nsmall = 400 if tier == "quick" else 5000
        for _ in range(nsmall):
            sigs, steps, imp = gen.gen_history(rng, max_steps=14)
            table, out = gen.expected_obs(sigs, steps, imp)
            if rng.random() < 0.5:
                if imp and steps and steps[0][1]:
                    steps = [(0, [])] + steps     # the encoder API has no implicit step: explicit time 0
                    st2 = [(0, steps[1][1])] + steps[2:]
                    steps = st2
                    imp = False
                    table, out = gen.expected_obs(sigs, steps, False)
                elif imp:
                    imp = False
                    steps = steps[1:]
                    table, out = gen.expected_obs(sigs, steps, False)
                line = gen.enc_case(rng, sigs, steps, split_prob=0.0)
                exp = gen.obs_string(table, out)
                if not steps:
                    continue
                cases.append({"line": line, "expect": exp, "key": nontrivial_key(line, steps, imp), "klass": "enc-small", "pred": monitor})
            else:
                mode = rng.choice(["st", "rd", "hc"])
                line, exp, _ = gen.vcd_case(rng, mode, sigs, steps, imp, strip_end=(rng.random() < 0.3))
                cases.append({"line": line, "expect": exp, "key": nontrivial_key(line, steps, imp), "klass": "vcd-small-" + mode, "pred": monitor})
        # GHW: the time table of generated signal sections (cycle sections with deltas of 0, small steps, backwards section
        # times and gaps beyond 2^31 and 2^32 fs); the values are property C11, here the table must be strictly increasing
        # and equal the accepted section times
        from . import c11
        for _ in range(120 if tier == "quick" else 2000):
            line, exp, nt, data = c11.build(rng)
            cases.append({"line": line, "expect": exp, "key": ("ghw", hash(line)) if nt else None, "klass": "ghw-sections", "pred": monitor})
        # files that end directly after a time stamp token (no trailing blank): the time step still counts
        for mode in ("st", "rd", "hc", "rb"):
            for k in range(3):
                sigs, steps, imp = gen.gen_history(rng, max_steps=6)
                last_t = (steps[-1][0] if steps else 0) + 1 + k
                steps = steps + [(last_t, [])]
                line, exp, _ = gen.vcd_case(rng, mode, sigs, steps, imp, ws="plain", strip_end=True)
                cases.append({"line": line, "expect": exp, "key": ("ends-after-time", mode, k), "klass": "vcd-ends-after-time", "pred": monitor})
    vcdfam.run_both(res, cases, "c02", model_ok, timeout=1200)
    res.samples = [c["line"][:300] for c in cases[-3:]] + [cases[0]["line"][:300]]


def check_known(entry):
    return False
