(* Property C09: VCD declarations appear in the hierarchy as declared.  Pinned: the bit-range packing
   (var_index_roundtrip), the identifier-code arithmetic (id_to_int_injective) and the name clause
   (parse_name_range / parse_name_single / parse_name_plain): a `$var` reference made of a base name, any number of
   bracket groups and a final numeric group `[i]` or `[msb:lsb]` - negative bounds allowed, up to 18 digits, with or
   without separating blanks - is split by the model of vcd.rs parse_name / extract_suffix_index into exactly that bit
   range, the last array group as the variable's name and the base name followed by the other groups as array scopes
   (NameProofs.name_result).  NOT proved: the command loop of the header reader (scope stack, keyword tables - those are
   regenerated from the source by the translator -, attributes, $date/$version/$timescale); decided by the
   correspondence run against the real header reader and the oracle computed from the declaration tree. *)
From Coq Require Import ZArith List. Import ListNotations.
From WV Require Import Model.Base Model.VcdBody Model.VcdHeader Proofs.HeaderProofs Proofs.NameProofs.
Open Scope N_scope.

(* [msb:lsb] with negative bounds survives the packed VarIndex representation *)
Check var_index_roundtrip :
  forall msb lsb : Z, (-2147483648 < msb - lsb < 2147483648)%Z -> var_index_new msb lsb = Ok (msb, lsb).

(* variables share a signal exactly when they share an identifier code (direct mapping):
   equal numbers only come from equal codes *)
Check id_to_int_injective :
  forall id id' v, id_to_int id = Some v -> id_to_int id' = Some v -> id = id'.

(* base name b0 ++ [c], groups gs (each preceded by any number of blanks), s blanks, `[msb:lsb]`, t blanks *)
Check parse_name_range :
  forall b0 c gs s nm rdm nl rdl t,
  c <> 32 -> c <> 93 -> ~ In 91 (b0 ++ [c]) -> Forall (fun sg : nat * list byte => ~ In 91 (snd sg)) gs ->
  digits rdl -> (length rdl <= 18)%nat -> digits rdm -> (length rdm <= 18)%nat ->
  (-2147483648 < zval nm rdm - zval nl rdl < 2147483648)%Z ->
  parse_name (((b0 ++ [c]) ++ segs gs) ++ repeat 32 s ++ [91] ++ numtext nm rdm ++ [58] ++ numtext nl rdl ++ [93] ++ repeat 32 t)
  = Ok (name_result b0 c gs (Some (zval nm rdm, zval nl rdl))).

Check parse_name_single :
  forall b0 c gs s n rd t,
  c <> 32 -> c <> 93 -> ~ In 91 (b0 ++ [c]) -> Forall (fun sg : nat * list byte => ~ In 91 (snd sg)) gs ->
  digits rd -> (length rd <= 18)%nat ->
  parse_name (((b0 ++ [c]) ++ segs gs) ++ repeat 32 s ++ [91] ++ numtext n rd ++ [93] ++ repeat 32 t)
  = Ok (name_result b0 c gs (Some (zval n rd, zval n rd))).

Check parse_name_plain :
  forall b0 c, c <> 32 -> c <> 93 -> ~ In 91 (b0 ++ [c]) -> parse_name (b0 ++ [c]) = Ok (b0 ++ [c], None, []).

(* the vocabulary of the three statements *)
Check (eq_refl : name_result = fun b0 c gs idx =>
  match rev gs with
  | [] => (b0 ++ [c], idx, [])
  | (_, g) :: before => (G g, idx, (b0 ++ [c]) :: map (fun sg => G (snd sg)) (rev before))
  end).
Check (eq_refl : G = fun g => [91] ++ g ++ [93]).
Check (eq_refl : numtext = fun neg rd => (if neg then [45] else []) ++ rev rd).
Check (eq_refl : zval = fun neg rd => if neg then (- valr rd)%Z else valr rd).
Check (eq_refl : valr = fun rd => fold_right (fun d acc => (Z.of_N (d - 48) + 10 * acc)%Z) 0%Z rd).

Print Assumptions var_index_roundtrip.
Print Assumptions id_to_int_injective.
Print Assumptions parse_name_range.
Print Assumptions parse_name_single.
Print Assumptions parse_name_plain.
