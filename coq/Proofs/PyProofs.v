(* Proofs about Model/Py.v (property C18). *)
From WV Require Import Model.Base Model.Bits Model.WaveMem Model.Signals Model.Py.
From Coq Require Import Lia Sorted ZifyBool ZifyNat ZifyN.
Ltac Zify.zify_post_hook ::= Z.div_mod_to_equations.
Open Scope N_scope.

(* ---------- TimeTable.__getitem__: Python index conventions ---------- *)

Theorem getitem_nonneg tt (i : nat) : time_table_getitem tt (Z.of_nat i) = nth_error tt i.
Proof.
  unfold time_table_getitem. destruct (Z.ltb_spec (Z.of_nat i) 0); [lia|].
  destruct (Z.ltb_spec (Z.of_nat i) 0); [lia|]. now rewrite Nat2Z.id.
Qed.

Theorem getitem_negative tt (k : nat) : (1 <= k <= length tt)%nat ->
  time_table_getitem tt (- Z.of_nat k) = nth_error tt (length tt - k).
Proof.
  intros H. unfold time_table_getitem. destruct (Z.ltb_spec (- Z.of_nat k) 0); [|lia].
  destruct (Z.ltb_spec (- Z.of_nat k + Z.of_nat (length tt)) 0); [lia|]. f_equal. lia.
Qed.

Theorem getitem_out_of_range tt (i : Z) :
  (i < - Z.of_nat (length tt) \/ Z.of_nat (length tt) <= i)%Z -> time_table_getitem tt i = None.
Proof.
  intros H. unfold time_table_getitem. destruct (Z.ltb_spec i 0).
  - destruct (Z.ltb_spec (i + Z.of_nat (length tt)) 0); [reflexivity|lia].
  - destruct (Z.ltb_spec i 0); [lia|]. apply nth_error_None. lia.
Qed.

(* ---------- value_at_time: the latest time step at or before t ---------- *)

(* number of table entries <= t: for an increasing table these are exactly the entries before the
   insertion point *)
Definition count_le (tt : list N) (t : N) : nat := length (filter (fun x => x <=? t) tt).

Lemma insertion_point_spec tt t : StronglySorted N.lt tt -> forall pos,
  match insertion_point tt t pos with
  | (i, true) => i = (pos + count_le tt t - 1)%nat /\ (1 <= count_le tt t)%nat /\
                 nth_error tt (count_le tt t - 1) = Some t
  | (i, false) => i = (pos + count_le tt t)%nat /\
                  (forall k x, nth_error tt k = Some x -> (k < count_le tt t)%nat -> x < t)
  end.
Proof.
  induction 1 as [|a r Hs IH Hf]; intros pos; cbn [insertion_point].
  - split; [cbn; lia|]. intros k x Hk. destruct k; discriminate.
  - unfold count_le. cbn [filter].
    assert (Hlater : forall x, In x r -> a < x) by (now apply Forall_forall).
    destruct (N.eqb_spec a t) as [->|Hne].
    + (* found: nothing after `t` is <= t *)
      assert (Hnone : filter (fun x => x <=? t) r = []).
      { clear -Hlater. induction r as [|x r IHr]; [reflexivity|]. cbn [filter].
        destruct (N.leb_spec x t) as [Hle|_].
        - specialize (Hlater x (or_introl eq_refl)). lia.
        - apply IHr. intros y Hy. apply Hlater. now right. }
      destruct (N.leb_spec t t); [|lia]. cbn [length]. rewrite Hnone. cbn [length].
      split; [lia|]. split; [lia|reflexivity].
    + destruct (N.ltb_spec t a) as [Hlt|Hge].
      * (* t < a: nothing is <= t *)
        assert (Hnone : filter (fun x => x <=? t) r = []).
        { clear -Hlater Hlt. induction r as [|x r IHr]; [reflexivity|]. cbn [filter].
          destruct (N.leb_spec x t) as [Hle|_].
          - specialize (Hlater x (or_introl eq_refl)). lia.
          - apply IHr. intros y Hy. apply Hlater. now right. }
        destruct (N.leb_spec a t); [lia|]. rewrite Hnone. cbn [length]. split; [lia|].
        intros k x _ Hk. lia.
      * destruct (N.leb_spec a t); [|lia]. cbn [length]. specialize (IH (S pos)).
        fold (count_le r t) in *.
        destruct (insertion_point r t (S pos)) as [i [|]].
        -- destruct IH as (Hi & Hc & Hn). split; [lia|]. split; [lia|].
           replace (S (count_le r t) - 1)%nat with (S (count_le r t - 1)) by lia. exact Hn.
        -- destruct IH as (Hi & Hall). split; [lia|]. intros k x Hk Hlt.
           destruct k; [cbn in Hk; inversion Hk; lia|]. apply (Hall k x Hk). lia.
Qed.

Lemma filter_len_le {A} (f : A -> bool) l : (length (filter f l) <= length l)%nat.
Proof. induction l as [|a r IH]; cbn [filter length]; [lia|]. destruct (f a); cbn [length]; lia. Qed.

(* value_at_time(t) is value_at_idx of the latest table index whose time is <= t, and None before
   the first time step *)
Theorem value_at_time_spec tt s t : StronglySorted N.lt tt -> (N.of_nat (length tt) < 4294967296) ->
  value_at_time tt s t =
  match count_le tt t with
  | O => Ok None
  | S i => value_at_idx s (N.of_nat i)
  end.
Proof.
  intros Hs Hlen. unfold value_at_time. pose proof (insertion_point_spec tt t Hs 0) as P.
  assert (Hc : (count_le tt t <= length tt)%nat) by (unfold count_le; apply filter_len_le).
  destruct (insertion_point tt t 0) as [i [|]].
  - destruct P as (Hi & Hc1 & _). destruct (count_le tt t) as [|k]; [lia|].
    replace i with k by lia. destruct k; unfold u32_wrap; rewrite N.mod_small by lia; reflexivity.
  - destruct P as (Hi & _). cbn in Hi. subst i. destruct (count_le tt t) as [|k]; [reflexivity|].
    unfold u32_wrap; rewrite N.mod_small by lia; reflexivity.
Qed.

Example value_at_time_example :
  count_le [0; 5; 10] 6 = 2%nat /\ count_le [3; 5] 2 = 0%nat /\ count_le [0; 5; 10] 99 = 3%nat.
Proof. repeat split; reflexivity. Qed.
