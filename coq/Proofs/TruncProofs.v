(* Property C15, the line-boundary clause: a VCD body written one token group per line and cut at the end of a line
   loads - single-threaded - as exactly the lines present, and that is a prefix of what the complete body loads as. *)
From Coq Require Import Lia.
From WV Require Import Model.Base Generated.Consts Model.Bits Model.Leb128 Model.WaveMem Model.VcdBody
  Spec.TimeSpec Spec.StoreSpec Proofs.BitsProofs Proofs.StoreProofs Proofs.TimeTableProofs Proofs.EncoderProofs
  Proofs.CanonProofs Proofs.BodyProofs Proofs.VcdStreamProofs Proofs.PrefixProofs Proofs.TokenProofs Proofs.CutProofs Proofs.TilingProofs
  Proofs.MtProofs.
Open Scope N_scope.

Lemma body_app A B : body (A ++ B) = body A ++ bytes_of B.
Proof. unfold body, bytes_of. now rewrite map_app, concat_app. Qed.

(* the table clause of the property from the shape "common table plus at most one entry" *)
Lemma table_without_last {A} (T0 t1 t2 : list A) : is_prefix T0 t1 -> (length t1 <= length T0 + 1)%nat -> is_prefix T0 t2 ->
  is_prefix (removelast t1) t2.
Proof.
  intros (r & ->) Hl (r2 & ->). rewrite app_length in Hl. destruct r as [|x [|y r]]; [| |cbn in Hl; lia].
  - rewrite app_nil_r. destruct T0 as [|a T0'] using rev_ind; [exists r2; reflexivity|].
    rewrite removelast_last. exists ([a] ++ r2). now rewrite <- app_assoc.
  - rewrite removelast_last. exists r2. reflexivity.
Qed.

Section Trunc.
Variable parse_f64 : list byte -> option (list byte).
Variable lz_compress : list byte -> list byte.
Variable lz_decompress : list byte -> nat -> option (list byte).
Hypothesis lz_ok : forall d n, (length d <= n)%nat -> lz_decompress (lz_compress d) n = Some d.
Variable cap : N.
Hypothesis cap_pos : 1 <= cap.
Hypothesis cap_u16 : cap <= 65536.

Lemma st_lines debug tpes lookup ls blocks ttb : Forall line_ok ls ->
  read_values_st parse_f64 lz_compress cap debug tpes lookup (body ls) = Ok (blocks, ttb) ->
  exists ve ops e,
    feed_events parse_f64 lz_compress cap lookup (mk_ve (enc_new tpes) true false) (evs ls) = Ok ve /\
    ops_of lookup true false (evs ls) = Some ops /\
    run_ops parse_f64 lz_compress cap (enc_new tpes) ops = Ok e /\
    enc_finish lz_compress e = Ok (blocks, ttb).
Proof.
  intros Hok H. unfold read_values_st in H.
  destruct (read_single_stream _ _ _ _ _ _ _ _ _) as [e| |] eqn:Er; try discriminate. cbn [bind] in H.
  unfold read_single_stream in Er. rewrite body_render, (parse_body_lines debug ls _ Hok) in Er.
  2:{ rewrite <- body_render. unfold body. cbn [length]. lia. }
  cbn [fst snd] in Er. fold (evs ls) in Er.
  destruct (feed_events parse_f64 lz_compress cap lookup (mk_ve (enc_new tpes) true false) (evs ls)) as [ve| |] eqn:Ef; try discriminate.
  cbn [bind] in Er. inversion Er; subst e.
  destruct (feed_events_ops parse_f64 lz_compress cap lookup _ _ _ _ _ Ef) as (ops & Ho & Hro).
  exists ve, ops, (ve_enc ve). repeat split; assumption.
Qed.

Theorem truncated_at_line_end debug tpes lookup (A B : list line) id bits b1 t1 b2 t2 :
  Forall line_ok (A ++ B) -> (1 <= bits)%nat -> nth_error tpes id = Some (EncBits bits) ->
  read_values_st parse_f64 lz_compress cap debug tpes lookup (body A) = Ok (b1, t1) ->
  read_values_st parse_f64 lz_compress cap debug tpes lookup (body A ++ bytes_of B) = Ok (b2, t2) ->
  N.of_nat (length t2) < 4294967296 ->
  (forall ops, ops_of lookup true false (evs (A ++ B)) = Some ops ->
               N.of_nat (count_vcd id ops) * (10 + N.of_nat bits) < 4294967264) ->
  is_prefix t1 t2 /\
  exists ops1 R s1 s2 l2,
    (* exactly the lines present *)
    ops_of lookup true false (evs A) = Some ops1 /\ t1 = accepted (times_of ops1) /\
    Forall2 (decodes bits) R (recorded id ops1 [] false) /\
    load_signal lz_decompress b1 id (EncBits bits) = Ok s1 /\ observe_signal s1 = outcome_map render_of (dedup R) /\
    (* a prefix of the complete load *)
    load_signal lz_decompress b2 id (EncBits bits) = Ok s2 /\ observe_signal s2 = Ok l2 /\
    exists l1, observe_signal s1 = Ok l1 /\ is_prefix l1 l2.
Proof.
  intros Hok Hb Htp H1 H2 Hl2 Hbud. rewrite <- body_app in H2.
  pose proof (Forall_app line_ok A B) as [Hsplit _]. destruct (Hsplit Hok) as [HokA HokB]. clear Hsplit.
  destruct (st_lines debug tpes lookup A b1 t1 HokA H1) as (ve1 & ops1 & e1 & Hf1 & Ho1 & Hr1 & Hfin1).
  destruct (st_lines debug tpes lookup (A ++ B) b2 t2 Hok H2) as (ve2 & ops2 & e2 & Hf2 & Ho2 & Hr2 & Hfin2).
  rewrite evs_app in Ho2. destruct (ops_of_app lookup _ _ _ _ _ Ho2) as (ops1' & more & Ho1' & ->).
  rewrite Ho1 in Ho1'. inversion Ho1'; subst ops1'.
  rewrite <- evs_app in Ho2. specialize (Hbud _ Ho2).
  pose proof (ops_of_ok lookup id bits _ _ _ _ Ho2) as Hopok.
  destruct (prefix_history_prefix_report parse_f64 lz_compress lz_decompress lz_ok cap cap_pos cap_u16 id bits tpes ops1 more _ _ b1 t1 b2 t2
              Hb Htp Hopok Hbud Hr1 Hr2 Hfin1 Hfin2 Hl2) as (Hpt & s1 & s2 & l1 & l2 & Hs1 & Hob1 & Hs2 & Hob2 & Hpl).
  split; [exact Hpt|].
  assert (Hl1 : N.of_nat (length t1) < 4294967296).
  { destruct Hpt as (r & ->). rewrite app_length in Hl2. lia. }
  assert (Hbud1 : N.of_nat (count_vcd id ops1) * (10 + N.of_nat bits) < 4294967264).
  { rewrite count_vcd_app in Hbud. lia. }
  apply Forall_app in Hopok as [Hopok1 _].
  destruct (storage_transparent parse_f64 lz_compress lz_decompress lz_ok cap cap_pos cap_u16 id bits Hb tpes ops1 e1 b1 t1
              Htp Hopok1 Hbud1 Hr1 Hfin1 Hl1) as (R & sig & HR & Hsig & Hobs).
  rewrite Hs1 in Hsig. inversion Hsig; subst sig.
  destruct (time_table_spec parse_f64 lz_compress cap cap_pos tpes ops1 e1 Hr1) as (bb1 & Ht1). rewrite Hfin1 in Ht1. inversion Ht1; subst.
  exists ops1, R, s1, s2, l2. repeat split; try assumption.
  exists l1. split; assumption.
Qed.

(* ------------------------------------------------------------------ any cut *)
Definition is_optime (op : enc_op) : bool := match op with OpTime _ => true | _ => false end.

Lemma run_ops_split : forall a b e e2, run_ops parse_f64 lz_compress cap e (a ++ b) = Ok e2 ->
  exists e1, run_ops parse_f64 lz_compress cap e a = Ok e1 /\ run_ops parse_f64 lz_compress cap e1 b = Ok e2.
Proof.
  induction a as [|op a IH]; intros b e e2 H; cbn [app WaveMem.run_ops] in *; [eauto|].
  destruct (run_op parse_f64 lz_compress cap e op) as [e'| |]; try discriminate. cbn [bind] in *. now apply IH.
Qed.

Lemma recorded_times_only id : forall tms tbl sk, forallb is_optime tms = true -> recorded id tms tbl sk = [].
Proof.
  induction tms as [|op tms IH]; intros tbl sk H; [reflexivity|]. cbn [forallb] in H. apply andb_prop in H as [Ho H].
  destruct op; try discriminate. cbn [recorded]. destruct (last_of tbl) as [p|]; [destruct (N.compare p t)|]; now apply IH.
Qed.

Lemma recorded_no_times id : forall vals tbl sk, forallb (fun op => negb (is_optime op)) vals = true ->
  Forall (fun r : N * rec_val => fst r = N.of_nat (length tbl) - 1) (recorded id vals tbl sk).
Proof.
  induction vals as [|op vals IH]; intros tbl sk H; [constructor|]. cbn [forallb] in H. apply andb_prop in H as [Ho H].
  destruct op as [t|i v|i d st|i le]; try discriminate; cbn [recorded].
  - destruct (sk || negb (Nat.eqb i id)); [now apply IH|]. constructor; [reflexivity|now apply IH].
  - destruct (sk || negb (Nat.eqb i id)); [now apply IH|]. constructor; [reflexivity|now apply IH].
  - now apply IH.
Qed.

Lemma times_no_times : forall vals, forallb (fun op => negb (is_optime op)) vals = true -> times_of vals = [].
Proof.
  induction vals as [|op vals IH]; intros H; [reflexivity|]. cbn [forallb] in H. apply andb_prop in H as [Ho H].
  destruct op; try discriminate; unfold times_of in *; cbn [flat_map app]; now apply IH.
Qed.

Lemma dedup_by_sub (l : list aentry) (P : aentry -> Prop) : forall prev, Forall P l -> Forall P (dedup_by akey_eqb akey l prev).
Proof. intros prev H. rewrite Forall_forall in *. intros a Ha. apply H. eapply dedup_by_in; eauto. Qed.

Lemma recorded_idx_ge id : forall ops tbl sk, Forall (fun r : N * rec_val => N.of_nat (length tbl) - 1 <= fst r) (recorded id ops tbl sk).
Proof.
  induction ops as [|op ops IH]; intros tbl sk; [constructor|]. destruct op as [t|i v|i d st|i le]; cbn [recorded].
  - assert (Hgrow : Forall (fun r : N * rec_val => N.of_nat (length tbl) - 1 <= fst r) (recorded id ops (tbl ++ [t]) false)).
    { eapply Forall_impl; [|apply IH]. intros r Hr. cbn beta in *. rewrite app_length in Hr. cbn [length] in Hr. lia. }
    destruct (last_of tbl) as [p|]; [destruct (N.compare p t)|]; try apply IH; exact Hgrow.
  - destruct (sk || negb (Nat.eqb i id)); [apply IH|]. constructor; [cbn [fst]; lia|apply IH].
  - destruct (sk || negb (Nat.eqb i id)); [apply IH|]. constructor; [cbn [fst]; lia|apply IH].
  - apply IH.
Qed.

Lemma accept_shape T t : accept T t = T \/ (accept T t = T ++ [t] /\ match last_of T with Some p => p < t | None => True end).
Proof. unfold accept. destruct (last_of T) as [p|]; [destruct (N.ltb_spec p t); [right; split; [reflexivity|assumption]|now left]|right; split; [reflexivity|exact I]]. Qed.

(* Store side of property C15 for a cut anywhere: the recording of the truncated file is the recording of the common
   events `oc` followed by at most the flushed token (time stamps `tms`, then value changes `vals`); the complete file
   continues the common events with `more`.  Then both reports extend the report of the common events, and everything the
   truncated file adds lies at its last time *)
Theorem cut_history_report id bits tpes oc tms vals more e1 e2 b1 t1 b2 t2 :
  (1 <= bits)%nat -> nth_error tpes id = Some (EncBits bits) ->
  Forall (op_ok id bits) (oc ++ tms ++ vals) -> Forall (op_ok id bits) (oc ++ more) ->
  N.of_nat (count_vcd id (oc ++ tms ++ vals)) * (10 + N.of_nat bits) < 4294967264 ->
  N.of_nat (count_vcd id (oc ++ more)) * (10 + N.of_nat bits) < 4294967264 ->
  forallb is_optime tms = true -> forallb (fun op => negb (is_optime op)) vals = true ->
  run_ops parse_f64 lz_compress cap (enc_new tpes) (oc ++ tms ++ vals) = Ok e1 ->
  run_ops parse_f64 lz_compress cap (enc_new tpes) (oc ++ more) = Ok e2 ->
  enc_finish lz_compress e1 = Ok (b1, t1) -> enc_finish lz_compress e2 = Ok (b2, t2) ->
  N.of_nat (length t1) < 4294967296 -> N.of_nat (length t2) < 4294967296 ->
  (length tms <= 1)%nat -> (tms <> [] -> vals <> [] -> oc = []) ->
  (forall t, tms = [OpTime t] -> vals = [] -> more = [] \/ exists t' r, more = OpTime t' :: r /\ t <= t') ->
  exists T0 L0 s1 s2 extra rest2,
    is_prefix T0 t1 /\ is_prefix T0 t2 /\ (length t1 <= length T0 + length tms)%nat /\
    load_signal lz_decompress b1 id (EncBits bits) = Ok s1 /\ observe_signal s1 = Ok (L0 ++ extra) /\
    load_signal lz_decompress b2 id (EncBits bits) = Ok s2 /\ observe_signal s2 = Ok (L0 ++ rest2) /\
    Forall (fun x : N * value_kind * list byte => fst (fst x) = N.of_nat (length t1) - 1) extra /\
    Forall (fun x : N * value_kind * list byte => N.of_nat (length t1) - 1 <= fst (fst x)) rest2.
Proof.
  intros Hb Htp Hok1 Hok2 Hbud1 Hbud2 Htm Hvl Hr1 Hr2 Hf1 Hf2 Hl1 Hl2 Hlt Himp Hmore.
  destruct (run_ops_split oc _ _ _ Hr1) as (e0 & Hr0 & _).
  destruct (time_table_spec parse_f64 lz_compress cap cap_pos tpes oc e0 Hr0) as (b0 & Hf0).
  destruct (time_table_spec parse_f64 lz_compress cap cap_pos tpes _ e1 Hr1) as (bb1 & Ht1). rewrite Hf1 in Ht1. inversion Ht1; subst t1 bb1.
  destruct (time_table_spec parse_f64 lz_compress cap cap_pos tpes _ e2 Hr2) as (bb2 & Ht2). rewrite Hf2 in Ht2. inversion Ht2; subst t2 bb2.
  set (T0 := accepted (times_of oc)) in *.
  assert (Hp1 : is_prefix T0 (accepted (times_of (oc ++ tms ++ vals)))) by (rewrite times_of_app; apply accepted_app).
  assert (Hp2 : is_prefix T0 (accepted (times_of (oc ++ more)))) by (rewrite times_of_app; apply accepted_app).
  assert (Hl0 : N.of_nat (length T0) < 4294967296) by (destruct Hp2 as (r & E); rewrite E, app_length in Hl2; lia).
  apply Forall_app in Hok1 as Hok1'. destruct Hok1' as [Hok0 _].
  assert (Hbud0 : N.of_nat (count_vcd id oc) * (10 + N.of_nat bits) < 4294967264) by (rewrite count_vcd_app in Hbud2; lia).
  destruct (report_list parse_f64 lz_compress lz_decompress lz_ok cap cap_pos cap_u16 id bits tpes oc e0 b0 _ Hb Htp Hok0 Hbud0 Hr0 Hf0 Hl0) as (R0 & s0 & Hd0 & _ & _).
  destruct (report_list parse_f64 lz_compress lz_decompress lz_ok cap cap_pos cap_u16 id bits tpes _ e1 b1 _ Hb Htp Hok1 Hbud1 Hr1 Hf1 Hl1) as (R1 & s1 & Hd1 & Hload1 & Hobs1).
  destruct (report_list parse_f64 lz_compress lz_decompress lz_ok cap cap_pos cap_u16 id bits tpes _ e2 b2 _ Hb Htp Hok2 Hbud2 Hr2 Hf2 Hl2) as (R2 & s2 & Hd2 & Hload2 & Hobs2).
  (* the truncated recording *)
  rewrite recorded_app_exact in Hd1. destruct (forall2_app_inv_r _ R1 _ _ Hd1) as (R1a & Rx & -> & Ha1 & Hx).
  assert (R1a = R0) by (eapply forall2_decodes_fun; eauto). subst R1a.
  rewrite recorded_app_exact, (recorded_times_only id tms _ _ Htm) in Hx. cbn [app] in Hx.
  (* the complete recording *)
  rewrite recorded_app_exact in Hd2.
  destruct (forall2_app_inv_r _ R2 _ _ Hd2) as (R2a & Ry & -> & Ha2 & Hy).
  assert (R2a = R0) by (eapply forall2_decodes_fun; eauto). subst R2a.
  unfold dedup in Hobs1, Hobs2.
  destruct (dedup_by_app akey_eqb akey R0 Rx None) as (p1 & E1). destruct (dedup_by_app akey_eqb akey R0 Ry None) as (p2 & E2).
  rewrite E1, map_app in Hobs1. rewrite E2, map_app in Hobs2.
  exists T0, (map rendered (dedup_by akey_eqb akey R0 None)), s1, s2, (map rendered (dedup_by akey_eqb akey Rx p1)), (map rendered (dedup_by akey_eqb akey Ry p2)).
  split; [exact Hp1|]. split; [exact Hp2|]. split.
  { rewrite !times_of_app, (times_no_times vals Hvl), app_nil_r. unfold accepted. rewrite fold_left_app. fold (accepted (times_of oc)). fold T0.
    clear. generalize T0. assert (Hlen : (length (times_of tms) <= length tms)%nat).
    { induction tms as [|op tms IH]; [cbn; lia|]. destruct op; unfold times_of in *; cbn [flat_map app length]; lia. }
    revert Hlen. generalize (times_of tms). intros ts. revert tms. induction ts as [|t ts IH]; intros tms Hlen T; cbn [fold_left]; [lia|].
    destruct tms as [|op tms]; [cbn in Hlen; lia|]. cbn [length] in *. specialize (IH tms ltac:(lia) (accept T t)).
    assert (length (accept T t) <= S (length T))%nat.
    { unfold accept. destruct (last_of T) as [p|]; [destruct (p <? t)|]; rewrite ?app_length; cbn [length]; lia. }
    lia. }
  split; [exact Hload1|]. split; [exact Hobs1|]. split; [exact Hload2|]. split; [exact Hobs2|].
  assert (Hacc1 : accepted (times_of (oc ++ tms ++ vals)) = fold_left accept (times_of tms) T0).
  { rewrite !times_of_app, (times_no_times vals Hvl), app_nil_r. unfold accepted. now rewrite fold_left_app. }
  split.
  2:{ (* what the complete file adds lies at or after the truncated file's last time *)
      apply Forall_map. apply dedup_by_sub.
      assert (Hidx : Forall (fun r : N * rec_val => N.of_nat (length (accepted (times_of (oc ++ tms ++ vals)))) - 1 <= fst r)
                            (recorded id more (fold_left accept (times_of oc) []) (skip_after oc [] false))).
      { fold (accepted (times_of oc)). fold T0. rewrite Hacc1.
        destruct tms as [|[t| | |] [|op2 tms']]; try (cbn in Hlt; lia); try discriminate.
        - cbn [times_of flat_map fold_left]. apply recorded_idx_ge.
        - unfold times_of. cbn [flat_map app fold_left]. destruct (accept_shape T0 t) as [->|[-> Hlast]]; [apply recorded_idx_ge|].
          rewrite app_length. cbn [length]. replace (N.of_nat (length T0 + 1) - 1) with (N.of_nat (length T0)) by lia.
          destruct vals as [|vop vals'].
          + destruct (Hmore t eq_refl eq_refl) as [->|(t' & r & -> & Hle)]; [constructor|]. cbn [recorded].
            assert (Hgrow : Forall (fun r0 : N * rec_val => N.of_nat (length T0) <= fst r0) (recorded id r (T0 ++ [t']) false)).
            { eapply Forall_impl; [|apply recorded_idx_ge]. intros r0 Hq0. cbn beta in *. rewrite app_length in Hq0. cbn [length] in Hq0. lia. }
            destruct (last_of T0) as [p|]; [|exact Hgrow]. destruct (N.compare_spec p t'); try lia. exact Hgrow.
          + (* a time stamp followed by a change is the implicit time 0 of a file that recorded nothing before *)
            apply Forall_forall. intros r0 _. pose proof (Himp ltac:(discriminate) ltac:(discriminate)) as Eoc. unfold T0. rewrite Eoc. cbn. apply N.le_0_l. }
      clear -Hy Hidx. revert Hy Hidx. generalize (recorded id more (fold_left accept (times_of oc) []) (skip_after oc [] false)).
      intros rec Hy. induction Hy as [|a r Ry rec Ha _ IH]; intros Hidx; [constructor|]. apply Forall_cons_iff in Hidx as [Hr Hidx].
      constructor; [|now apply IH]. destruct a as [[g l] sy]. destruct Ha as (Hg & _). cbn [rendered fst]. now rewrite Hg. }
  (* everything added lies at the last time *)
  apply Forall_map. apply dedup_by_sub.
  assert (Hidx : Forall (fun r : N * rec_val => fst r = N.of_nat (length (accepted (times_of (oc ++ tms ++ vals)))) - 1)
                        (recorded id vals (fold_left accept (times_of tms) (fold_left accept (times_of oc) [])) (skip_after tms (fold_left accept (times_of oc) []) (skip_after oc [] false)))).
  { rewrite Hacc1. unfold T0, accepted. apply recorded_no_times. exact Hvl. }
  clear -Hx Hidx. revert Hx Hidx. generalize (recorded id vals (fold_left accept (times_of tms) (fold_left accept (times_of oc) [])) (skip_after tms (fold_left accept (times_of oc) []) (skip_after oc [] false))).
  intros rec Hx. induction Hx as [|a r Rx rec Ha _ IH]; intros Hidx; [constructor|]. apply Forall_cons_iff in Hidx as [Hr Hidx].
  constructor; [|now apply IH]. destruct a as [[g l] sy]. destruct Ha as (Hg & _). cbn [rendered fst]. now rewrite Hg.
Qed.

Lemma ops_of_app_strong lookup : forall evs1 evs2 first found ops,
  ops_of lookup first found (evs1 ++ evs2) = Some ops ->
  exists o1 found' o2, ops_of lookup first found evs1 = Some o1 /\ ops_of lookup first found' evs2 = Some o2 /\ ops = o1 ++ o2 /\
    (found = true -> found' = true) /\ (first = true -> found' = false -> o1 = []).
Proof.
  induction evs1 as [|ev evs1 IH]; intros evs2 first found ops H; cbn [app] in H.
  - exists [], found, ops. repeat split; try assumption; auto.
  - destruct ev as [t|v i]; cbn [ops_of] in *.
    + destruct (ops_of lookup first true (evs1 ++ evs2)) as [o|] eqn:E; [|discriminate]. inversion H; subst ops.
      destruct (IH evs2 first true o E) as (o1 & f' & o2 & H1 & H2 & -> & Hm & Hz). rewrite H1. exists (OpTime t :: o1), f', o2.
      repeat split; try assumption; try reflexivity.
      * intros _. now apply Hm.
      * intros _ Hf. rewrite (Hm eq_refl) in Hf. discriminate.
    + destruct (found || first) eqn:Ef.
      * destruct (lookup_id lookup i) as [n|]; [|discriminate].
        destruct (ops_of lookup first true (evs1 ++ evs2)) as [o|] eqn:E; [|discriminate]. inversion H; subst ops.
        destruct (IH evs2 first true o E) as (o1 & f' & o2 & H1 & H2 & -> & Hm & Hz). rewrite H1. eexists. exists f', o2. split; [reflexivity|]. split; [exact H2|].
        split; [now rewrite <- app_assoc|]. split.
        -- intros _. now apply Hm.
        -- intros _ Hf. rewrite (Hm eq_refl) in Hf. discriminate.
      * destruct (IH evs2 first false ops H) as (o1 & f' & o2 & H1 & H2 & E & Hm & Hz). exists o1, f', o2. repeat split; try assumption.
        intros Hfd. subst found. discriminate.
Qed.

(* the operations of at most one event: at most one time stamp (a real one, or the implicit time 0 in front of the very
   first change of the file), then at most one change *)
Lemma ops_of_short lookup first found tail o : (length tail <= 1)%nat -> ops_of lookup first found tail = Some o ->
  exists tms vals, o = tms ++ vals /\ forallb is_optime tms = true /\ forallb (fun op => negb (is_optime op)) vals = true /\ (length tms <= 1)%nat /\
    (forall t, tms = [OpTime t] -> vals = [] -> tail = [EvTime t]) /\
    (tms <> [] -> vals <> [] -> found = false).
Proof.
  intros Hl H. destruct tail as [|e [|e' tl]]; [| |cbn in Hl; lia].
  - injection H as <-. exists [], []. split; [reflexivity|]. split; [reflexivity|]. split; [reflexivity|]. split; [cbn; lia|].
    split; [intros t0 E; discriminate|intros N1; congruence].
  - destruct e as [t|v i]; cbn [ops_of] in H.
    + injection H as <-. exists [OpTime t], []. split; [reflexivity|]. split; [reflexivity|]. split; [reflexivity|]. split; [cbn; lia|].
      split; [intros t0 E _; now inversion E|intros _ N2; congruence].
    + destruct (found || first) eqn:Ef.
      * destruct (lookup_id lookup i) as [n|]; [|discriminate]. injection H as <-.
        destruct (first && negb found) eqn:Ep.
        -- exists [OpTime 0], [OpVcd n v]. split; [reflexivity|]. split; [reflexivity|]. split; [reflexivity|]. split; [cbn; lia|].
           split; [intros t0 _ E; discriminate|]. intros _ _. destruct found; [now rewrite Bool.andb_false_r in Ep|reflexivity].
        -- exists [], [OpVcd n v]. split; [reflexivity|]. split; [reflexivity|]. split; [reflexivity|]. split; [cbn; lia|].
           split; [intros t0 E; discriminate|intros N1; congruence].
      * injection H as <-. exists [], []. split; [reflexivity|]. split; [reflexivity|]. split; [reflexivity|]. split; [cbn; lia|].
        split; [intros t0 E; discriminate|intros N1; congruence].
Qed.

(* Property C15 for a cut at ANY byte of the body (single-threaded loader): whenever the truncated body loads, its time
   table is the table of the common events plus at most one entry, both reports extend the report of the common
   events, every change the truncated file adds lies at its last time, and every change the complete file adds lies at or
   after it - so the table without its last entry is a prefix of the complete table and the changes before the last time
   are the same *)
Theorem truncated_any_cut debug tpes lookup (a b : list byte) stop id bits e1 e2 b1 t1 b2 t2 :
  (1 <= bits)%nat -> nth_error tpes id = Some (EncBits bits) ->
  read_single_stream parse_f64 lz_compress cap debug tpes lookup a stop true = Ok e1 ->
  read_single_stream parse_f64 lz_compress cap debug tpes lookup (a ++ b) stop true = Ok e2 ->
  enc_finish lz_compress e1 = Ok (b1, t1) -> enc_finish lz_compress e2 = Ok (b2, t2) ->
  N.of_nat (length t1) < 4294967296 -> N.of_nat (length t2) < 4294967296 ->
  (forall x ops, (x = a \/ x = a ++ b) -> ops_of lookup true false (fst (parse_body debug x stop)) = Some ops ->
               N.of_nat (count_vcd id ops) * (10 + N.of_nat bits) < 4294967264) ->
  exists T0 L0 s1 s2 extra rest2,
    is_prefix T0 t1 /\ is_prefix T0 t2 /\ (length t1 <= length T0 + 1)%nat /\
    load_signal lz_decompress b1 id (EncBits bits) = Ok s1 /\ observe_signal s1 = Ok (L0 ++ extra) /\
    load_signal lz_decompress b2 id (EncBits bits) = Ok s2 /\ observe_signal s2 = Ok (L0 ++ rest2) /\
    Forall (fun x : N * value_kind * list byte => fst (fst x) = N.of_nat (length t1) - 1) extra /\
    Forall (fun x : N * value_kind * list byte => N.of_nat (length t1) - 1 <= fst (fst x)) rest2.
Proof.
  intros Hb Htp Hr1 Hr2 Hf1 Hf2 Hl1 Hl2 Hbud.
  destruct (prefix_events_time debug stop a b) as (common & tail & rest & Hev & Hfull & Htl & Hnext).
  pose proof (Hbud a) as Hbud1. pose proof (Hbud (a ++ b)) as Hbud2. clear Hbud.
  unfold read_single_stream in Hr1, Hr2.
  destruct (parse_body debug a stop) as [evs1 pres1] eqn:Ep1. destruct (parse_body debug (a ++ b) stop) as [evs2 pres2] eqn:Ep2.
  cbn [fst snd] in *. subst evs1 evs2.
  destruct (feed_events parse_f64 lz_compress cap lookup (mk_ve (enc_new tpes) true false) (common ++ tail)) as [ve1| |] eqn:Ef1; try discriminate.
  cbn [bind] in Hr1. destruct pres1; try discriminate. inversion Hr1; subst e1.
  destruct (feed_events parse_f64 lz_compress cap lookup (mk_ve (enc_new tpes) true false) (common ++ rest)) as [ve2| |] eqn:Ef2; try discriminate.
  cbn [bind] in Hr2. destruct pres2; try discriminate. inversion Hr2; subst e2.
  destruct (feed_events_ops parse_f64 lz_compress cap lookup _ _ _ _ _ Ef1) as (ops1 & Ho1 & Hro1).
  destruct (feed_events_ops parse_f64 lz_compress cap lookup _ _ _ _ _ Ef2) as (ops2 & Ho2 & Hro2).
  specialize (Hbud1 ops1 (or_introl eq_refl) Ho1). specialize (Hbud2 ops2 (or_intror eq_refl) Ho2).
  pose proof (ops_of_ok lookup id bits _ _ _ _ Ho1) as Hok1. pose proof (ops_of_ok lookup id bits _ _ _ _ Ho2) as Hok2.
  destruct (ops_of_app_strong lookup _ _ _ _ _ Ho1) as (oc & f' & otl & Hoc & Hotl & E1 & _ & Hz1). subst ops1.
  destruct (ops_of_app_strong lookup _ _ _ _ _ Ho2) as (oc' & f2 & more & Hoc' & Hmore & E2 & _ & _). subst ops2.
  rewrite Hoc in Hoc'. injection Hoc' as <-.
  destruct (ops_of_short lookup true f' tail otl Htl Hotl) as (tms & vals & -> & Htm & Hvl & Hlt & Htime & Himp).
  assert (Himp' : tms <> [] -> vals <> [] -> oc = []) by (intros N1 N2; apply Hz1; [reflexivity|now apply Himp]).
  assert (Hmore' : forall t, tms = [OpTime t] -> vals = [] -> more = [] \/ exists t' r, more = OpTime t' :: r /\ t <= t').
  { intros t Et Ev. destruct (Hnext t (Htime t Et Ev)) as [->|(v' & r & -> & Hle)].
    - cbn [ops_of] in Hmore. injection Hmore as <-. now left.
    - cbn [ops_of] in Hmore. destruct (ops_of lookup true true r) as [o|]; [|discriminate]. injection Hmore as <-. right. eauto. }
  destruct (cut_history_report id bits tpes oc tms vals more _ _ b1 t1 b2 t2 Hb Htp Hok1 Hok2 Hbud1 Hbud2 Htm Hvl Hro1 Hro2 Hf1 Hf2 Hl1 Hl2 Hlt Himp' Hmore')
    as (T0 & L0 & s1 & s2 & extra & rest2 & H1 & H2 & H3 & H4 & H5 & H6 & H7 & H8 & H9).
  exists T0, L0, s1, s2, extra, rest2. repeat split; try assumption. lia.
Qed.

End Trunc.

(* the changes clause of the property: the entries before the last time are the same *)
Definition before (k : N) (l : list (N * value_kind * list byte)) : list (N * value_kind * list byte) :=
  filter (fun x => fst (fst x) <? k) l.

Lemma before_app k a c : before k (a ++ c) = before k a ++ before k c.
Proof. unfold before. apply filter_app. Qed.

Lemma before_none k l : Forall (fun x : N * value_kind * list byte => k <= fst (fst x)) l -> before k l = [].
Proof.
  induction 1 as [|x l Hx _ IH]; [reflexivity|]. unfold before in *. cbn [filter]. destruct (N.ltb_spec (fst (fst x)) k); [lia|exact IH].
Qed.

Corollary changes_before_last k L0 extra rest2 :
  Forall (fun x : N * value_kind * list byte => fst (fst x) = k) extra ->
  Forall (fun x : N * value_kind * list byte => k <= fst (fst x)) rest2 ->
  before k (L0 ++ extra) = before k (L0 ++ rest2).
Proof.
  intros He Hr. rewrite !before_app, (before_none k rest2 Hr), (before_none k extra); [reflexivity|].
  eapply Forall_impl; [|exact He]. intros x Hx. cbn beta in *. lia.
Qed.


(* `#1 1! #25 0!` cut inside `#25`: the truncated file loads with the table [1; 2] - its last entry is not an entry of the
   complete table [1; 25], the table without it is a prefix; cut after `0` (a change without identifier code) the model
   panics as the code does (finding D9) *)
Example truncated_any_cut_example :
  let full : list byte := [10; 35;49; 10; 49;33; 10; 35;50;53; 10; 48;33; 10] in
  let lk : id_lookup := Some [([33], 0%nat)] in
  let ld (x : list byte) := do e <- read_single_stream (fun _ => None) (fun d => d) 4 true [EncBits 1] lk x 100 true; enc_finish (fun d => d) e in
  let report (x : list byte) := do bt <- ld x; do s <- load_signal (fun d _ => Some d) (fst bt) 0 (EncBits 1); do o <- observe_signal s; Ok (snd bt, o) in
  report (firstn 9 full) = Ok ([1; 2], [(0, KBinary, [49])]) /\
  report full = Ok ([1; 25], [(0, KBinary, [49]); (1, KBinary, [48])]) /\
  report (firstn 12 full) = Panic.
Proof. vm_compute. repeat split; reflexivity. Qed.
