(* Proofs about the VCD body parser of Model/VcdBody.v (properties C15, C01, C03):
   the byte machine is a fold with early exit, the end-of-input flush adds at most one event. *)
From WV Require Import Model.Base Generated.Consts Model.Bits Model.VcdBody.
From Coq Require Import Lia.
Open Scope N_scope.

(* the machine state between two bytes *)
Record pstate := mk_ps {
  ps_pos : N; ps_state : body_state; ps_first : list byte; ps_id : list byte; ps_acc : list event
}.

Inductive run_result := Running (s : pstate) | Finished (r : list event * presult).

(* parse_loop without the end-of-input flush: consumes `input`, stops early on error / panic / the
   hand-over stop rule *)
Fixpoint run_bytes (debug : bool) (stop_pos : N) (input : list byte) (s : pstate) : run_result :=
  match input with
  | [] => Running s
  | b :: r =>
    let pos := ps_pos s in let first := ps_first s in let id := ps_id s in let acc := ps_acc s in
    match ps_state s with
    | SkippingNewLine =>
      run_bytes debug stop_pos r (mk_ps (pos + 1) (if b =? 10 then ParsingFirstToken else SkippingNewLine) first id acc)
    | ParsingFirstToken =>
      if is_white_space b then
        match first with
        | [] => run_bytes debug stop_pos r (mk_ps (pos + 1) ParsingFirstToken first id acc)
        | c :: rest =>
          match parse_first_token debug first with
          | Err => Finished (rev_append acc [], PErr)
          | Panic => Finished (rev_append acc [], PPanic)
          | Ok (FtTime v) =>
            if pos <? N.of_nat (length first) + 1 then Finished (rev_append acc [], PPanic)
            else if stop_pos <? pos - N.of_nat (length first) - 1 then Finished (rev_append acc [], PDone)
            else run_bytes debug stop_pos r (mk_ps (pos + 1) ParsingFirstToken [] id (EvTime v :: acc))
          | Ok FtOneBit =>
            run_bytes debug stop_pos r (mk_ps (pos + 1) ParsingFirstToken [] id (EvValue [c] rest :: acc))
          | Ok FtMultiBit => run_bytes debug stop_pos r (mk_ps (pos + 1) ParsingIdToken first id acc)
          | Ok FtComment => run_bytes debug stop_pos r (mk_ps (pos + 1) LookingForEndToken [] id acc)
          | Ok FtIgnored => run_bytes debug stop_pos r (mk_ps (pos + 1) ParsingFirstToken [] id acc)
          end
        end
      else run_bytes debug stop_pos r (mk_ps (pos + 1) ParsingFirstToken (first ++ [b]) id acc)
    | ParsingIdToken =>
      if is_white_space b then
        match id with
        | [] => run_bytes debug stop_pos r (mk_ps (pos + 1) ParsingIdToken first id acc)
        | _ => run_bytes debug stop_pos r (mk_ps (pos + 1) ParsingFirstToken [] [] (EvValue first id :: acc))
        end
      else run_bytes debug stop_pos r (mk_ps (pos + 1) ParsingIdToken first (id ++ [b]) acc)
    | LookingForEndToken =>
      if is_white_space b then
        match first with
        | [] => run_bytes debug stop_pos r (mk_ps (pos + 1) LookingForEndToken first id acc)
        | _ => run_bytes debug stop_pos r
                         (mk_ps (pos + 1) (if bytes_eqb first kw_end then ParsingFirstToken else LookingForEndToken) [] id acc)
        end
      else run_bytes debug stop_pos r (mk_ps (pos + 1) LookingForEndToken (first ++ [b]) id acc)
    end
  end.

(* the end-of-input flush of parse_body: a pending token is emitted without consulting the stop rule *)
Definition eof_flush (debug : bool) (s : pstate) : list event * presult :=
  match ps_state s with
  | ParsingFirstToken =>
    match ps_first s with
    | [] => (rev_append (ps_acc s) [], PDone)
    | c :: rest =>
      match parse_first_token debug (ps_first s) with
      | Ok (FtTime v) => (rev_append (EvTime v :: ps_acc s) [], PDone)
      | Ok FtOneBit => (rev_append (EvValue [c] rest :: ps_acc s) [], PDone)
      | Ok _ => (rev_append (ps_acc s) [], PDone)
      | Err => (rev_append (ps_acc s) [], PErr)
      | Panic => (rev_append (ps_acc s) [], PPanic)
      end
    end
  | ParsingIdToken => (rev_append (EvValue (ps_first s) (ps_id s) :: ps_acc s) [], PDone)
  | _ => (rev_append (ps_acc s) [], PDone)
  end.

Definition finish (debug : bool) (r : run_result) : list event * presult :=
  match r with Finished x => x | Running s => eof_flush debug s end.

(* parse_loop = run the bytes, then flush *)
Lemma parse_loop_run debug stop_pos : forall input pos st first id acc,
  parse_loop debug input pos stop_pos st first id acc
  = finish debug (run_bytes debug stop_pos input (mk_ps pos st first id acc)).
Proof.
  induction input as [|b r IH]; intros pos st first id acc.
  - cbn [parse_loop run_bytes finish eof_flush ps_state ps_first ps_id ps_acc].
    destruct st; try reflexivity; destruct first as [|c rest]; try reflexivity;
      destruct (parse_first_token debug (c :: rest)) as [[v| | | |]| |]; reflexivity.
  - cbn [parse_loop run_bytes ps_pos ps_state ps_first ps_id ps_acc]. destruct st.
    + apply IH.
    + destruct (is_white_space b); [|apply IH]. destruct first as [|c rest]; [apply IH|].
      destruct (parse_first_token debug (c :: rest)) as [[v| | | |]| |]; try reflexivity; try apply IH.
      destruct (pos <? _); [reflexivity|]. destruct (stop_pos <? _); [reflexivity|apply IH].
    + destruct (is_white_space b); [|apply IH]. destruct id; apply IH.
    + destruct (is_white_space b); [|apply IH]. destruct first; apply IH.
Qed.

Lemma run_bytes_app debug stop_pos : forall a b s,
  run_bytes debug stop_pos (a ++ b) s =
  match run_bytes debug stop_pos a s with
  | Finished r => Finished r
  | Running s' => run_bytes debug stop_pos b s'
  end.
Proof.
  induction a as [|x a IH]; intros b s; [reflexivity|].
  cbn [app run_bytes]. destruct (ps_state s).
  - apply IH.
  - destruct (is_white_space x); [|apply IH]. destruct (ps_first s) as [|c rest]; [apply IH|].
    destruct (parse_first_token debug (c :: rest)) as [[v| | | |]| |]; try reflexivity; try apply IH.
    destruct (ps_pos s <? _); [reflexivity|]. destruct (stop_pos <? _); [reflexivity|apply IH].
  - destruct (is_white_space x); [|apply IH]. destruct (ps_id s); apply IH.
  - destruct (is_white_space x); [|apply IH]. destruct (ps_first s); apply IH.
Qed.

(* events are only ever added: what has been emitted stays emitted *)
Lemma run_bytes_mono debug stop_pos : forall input s,
  match run_bytes debug stop_pos input s with
  | Running s' => exists more, ps_acc s' = more ++ ps_acc s
  | Finished (evs, _) => exists more, evs = rev (ps_acc s) ++ more
  end.
Proof.
  induction input as [|b r IH]; intros s.
  - cbn. exists []. reflexivity.
  - assert (Hstep : forall s1, (exists m1, ps_acc s1 = m1 ++ ps_acc s) ->
      match run_bytes debug stop_pos r s1 with
      | Running s' => exists more, ps_acc s' = more ++ ps_acc s
      | Finished (evs, _) => exists more, evs = rev (ps_acc s) ++ more
      end).
    { intros s1 [m1 H1]. specialize (IH s1). destruct (run_bytes debug stop_pos r s1) as [s'|[evs pr]].
      - destruct IH as [m E]. exists (m ++ m1). rewrite E, H1. now rewrite app_assoc.
      - destruct IH as [m E]. exists (rev m1 ++ m). rewrite E, H1, rev_app_distr. now rewrite app_assoc. }
    assert (Hfin : exists more : list event, rev_append (ps_acc s) [] = rev (ps_acc s) ++ more).
    { exists []. now rewrite rev_append_rev. }
    cbn [run_bytes]. destruct (ps_state s).
    + apply Hstep. exists []. reflexivity.
    + destruct (is_white_space b); [|apply Hstep; exists []; reflexivity].
      destruct (ps_first s) as [|c rest]; [apply Hstep; exists []; reflexivity|].
      destruct (parse_first_token debug (c :: rest)) as [[v| | | |]| |]; try exact Hfin;
        try (apply Hstep; cbn [ps_acc]; (exists []; reflexivity) || (eexists [_]; reflexivity)).
      destruct (ps_pos s <? _); [exact Hfin|]. destruct (stop_pos <? _); [exact Hfin|].
      apply Hstep. cbn [ps_acc]. eexists [_]. reflexivity.
    + destruct (is_white_space b); [|apply Hstep; exists []; reflexivity].
      destruct (ps_id s); apply Hstep; cbn [ps_acc]; [exists []|eexists [_]]; reflexivity.
    + destruct (is_white_space b); [|apply Hstep; exists []; reflexivity].
      destruct (ps_first s); apply Hstep; exists []; reflexivity.
Qed.

Definition init_state : pstate := mk_ps 0 SkippingNewLine [] [] [].

(* ---------- C15: a truncated body yields a prefix of the events, plus at most one flushed token ---------- *)

Definition is_prefix {A} (p l : list A) : Prop := exists rest, l = p ++ rest.

Theorem prefix_events debug stop_pos (a b : list byte) :
  exists common tail,
    fst (parse_body debug a stop_pos) = common ++ tail /\ (length tail <= 1)%nat /\
    is_prefix common (fst (parse_body debug (a ++ b) stop_pos)).
Proof.
  unfold parse_body. rewrite !parse_loop_run, run_bytes_app.
  fold init_state.
  pose proof (run_bytes_mono debug stop_pos a init_state) as Ma.
  destruct (run_bytes debug stop_pos a init_state) as [s|[evs pr]].
  - (* the cut is reached with the machine still running *)
    exists (rev (ps_acc s)).
    pose proof (run_bytes_mono debug stop_pos b s) as Mb.
    assert (Hpre : is_prefix (rev (ps_acc s)) (fst (finish debug (run_bytes debug stop_pos b s)))).
    { destruct (run_bytes debug stop_pos b s) as [s'|[evs pr]].
      - destruct Mb as [m E]. cbn [finish]. unfold eof_flush.
        assert (P : forall x, is_prefix (rev (ps_acc s)) (rev_append (x ++ ps_acc s') [])).
        { intros x. rewrite rev_append_rev, app_nil_r, E, !rev_app_distr. eexists. rewrite <- app_assoc. reflexivity. }
        destruct (ps_state s'); cbn [fst];
          try (apply (P [])); try (apply (P [_])).
        destruct (ps_first s') as [|c rest]; [apply (P [])|].
        destruct (parse_first_token debug (c :: rest)) as [[v| | | |]| |]; cbn [fst];
          try (apply (P [])); try (apply (P [_])).
      - destruct Mb as [m E]. cbn [finish fst]. exists m. exact E. }
    cbn [finish]. unfold eof_flush.
    assert (Q0 : rev_append (ps_acc s) [] = rev (ps_acc s) ++ []) by (rewrite rev_append_rev; reflexivity).
    assert (Q1 : forall e, rev_append (e :: ps_acc s) [] = rev (ps_acc s) ++ [e]).
    { intros e. rewrite rev_append_rev. cbn [rev]. now rewrite app_nil_r. }
    destruct (ps_state s); cbn [fst].
    + exists []. rewrite Q0. repeat split; [cbn; lia|exact Hpre].
    + destruct (ps_first s) as [|c rest].
      * exists []. rewrite Q0. repeat split; [cbn; lia|exact Hpre].
      * destruct (parse_first_token debug (c :: rest)) as [[v| | | |]| |]; cbn [fst];
          try (exists []; rewrite Q0; repeat split; [cbn; lia|exact Hpre]);
          try (eexists [_]; rewrite Q1; repeat split; [cbn; lia|exact Hpre]).
    + eexists [_]. rewrite Q1. repeat split; [cbn; lia|exact Hpre].
    + exists []. rewrite Q0. repeat split; [cbn; lia|exact Hpre].
  - (* the parser already stopped inside `a`: both results are identical *)
    exists evs, []. cbn [finish fst]. rewrite app_nil_r. repeat split; [cbn; lia|].
    exists []. now rewrite app_nil_r.
Qed.

(* a cut at a point where no token is pending loses nothing and adds nothing *)
Theorem cut_at_token_boundary debug stop_pos (a b : list byte) s :
  run_bytes debug stop_pos a init_state = Running s ->
  ps_state s = ParsingFirstToken -> ps_first s = [] ->
  parse_body debug a stop_pos = (rev (ps_acc s), PDone) /\
  is_prefix (rev (ps_acc s)) (fst (parse_body debug (a ++ b) stop_pos)).
Proof.
  intros Hr Hst Hf. unfold parse_body. rewrite !parse_loop_run, run_bytes_app. fold init_state. rewrite Hr.
  split.
  - cbn [finish]. unfold eof_flush. rewrite Hst, Hf. now rewrite rev_append_rev, app_nil_r.
  - pose proof (run_bytes_mono debug stop_pos b s) as Mb.
    destruct (run_bytes debug stop_pos b s) as [s'|[evs pr]].
    + destruct Mb as [m E]. cbn [finish]. unfold eof_flush.
      assert (P : forall x, is_prefix (rev (ps_acc s)) (rev_append (x ++ ps_acc s') [])).
      { intros x. rewrite rev_append_rev, app_nil_r, E, !rev_app_distr. eexists. rewrite <- app_assoc. reflexivity. }
      destruct (ps_state s'); cbn [fst]; try (apply (P [])); try (apply (P [_])).
      destruct (ps_first s') as [|c rest]; [apply (P [])|].
      destruct (parse_first_token debug (c :: rest)) as [[v| | | |]| |]; cbn [fst];
        try (apply (P [])); try (apply (P [_])).
    + destruct Mb as [m E]. cbn [finish fst]. exists m. exact E.
Qed.

(* the parser is total: it never loops (structural recursion) and always returns one of the three
   outcomes - "no hang" of C15 is the totality of the model function *)
Example parse_example :
  parse_body true [10; 35; 48; 10; 49; 33; 10; 98; 49; 48; 32; 34; 10] 100
  = ([EvTime 0; EvValue [49] [33]; EvValue [98; 49; 48] [34]], PDone).
Proof. reflexivity. Qed.
