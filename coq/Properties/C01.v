(* Property C01: VCD value changes are reported faithfully.
   Pinned: (1) the value codec; (2) vcd_stream_transparent: for the single-threaded body path
   (read_single_stream_of_values + VcdEncoder + wavemem) a bit-vector variable loads as exactly what the parser's
   events record - index into the time table, least kind, characters, equal neighbours once - for every body,
   every identifier lookup, every block capacity; vcd_stream_transparent_rs: the same for real-valued and
   string-valued variables (reals as the 8 bytes of the parsed double, strings verbatim); (3) the rendering of a
   recorded value is its lower-cased characters (write_render_roundtrip).
   (4) the text level (Proofs/TokenProofs.v): parse_body_lines - a body written one token group per line (`#<time>`,
   `<scalar><id>`, `<vector> <id>`, `$comment words $end`, `$dumpvars`/`$end`/`$dumpoff`/`$dumpon`) is parsed into exactly the
   events its lines denote; vcd_lines_transparent composes it with (2): from the text to the report.
   (5) any layout (Proofs/LayoutProofs.v, LayoutStream.v): parse_body_layout - whatever precedes the first line feed is
   skipped (known finding D6 is exactly this), then token groups separated by ANY non-empty blank space (blanks, tabs, CR,
   LF in any mixture: several groups on one line, CRLF files, indentation, empty lines) are parsed into exactly the events
   they denote, no error, no panic; vcd_layout_transparent / vcd_layout_transparent_rs: from such a text to the report.
   NOT proved: `$dumpall` (an alias of a time stamp 0 in this reader), a last token without blank space behind it (the
   end-of-input flush; prefix_events / cut_at_token_boundary in Properties/C15.v are properties of it) and the
   multi-threaded path (C03).  Those are decided by the correspondence run and the oracle that is
   computed from the abstract history (MANIFEST level_note). *)
From WV Require Import Model.Base Model.Bits Model.WaveMem Model.VcdBody Spec.TimeSpec Spec.StoreSpec
  Proofs.BitsProofs Proofs.StoreProofs Proofs.EncoderProofs Proofs.VcdStreamProofs Proofs.RealStringEnc Proofs.VcdStreamRS Proofs.BodyProofs Proofs.TokenProofs
  Proofs.LayoutProofs Proofs.LayoutStream.
From Coq Require Import List. Import ListNotations.
Open Scope N_scope.

Check vcd_stream_transparent :
  forall (parse_f64 : list byte -> option (list byte)) (lz_compress : list byte -> list byte)
         (lz_decompress : list byte -> nat -> option (list byte)),
  (forall d n, (length d <= n)%nat -> lz_decompress (lz_compress d) n = Some d) ->
  forall cap, 1 <= cap -> cap <= 65536 ->
  forall debug tpes lookup input stop_pos e blocks ttb id bits,
  (1 <= bits)%nat -> nth_error tpes id = Some (EncBits bits) ->
  read_single_stream parse_f64 lz_compress cap debug tpes lookup input stop_pos true = Ok e ->
  enc_finish lz_compress e = Ok (blocks, ttb) -> N.of_nat (length ttb) < 4294967296 ->
  exists ops, ops_of lookup true false (fst (parse_body debug input stop_pos)) = Some ops /\
    (N.of_nat (count_vcd id ops) * (10 + N.of_nat bits) < 4294967264 ->
     exists R sig,
       Forall2 (decodes bits) R (recorded id ops [] false) /\
       load_signal lz_decompress blocks id (EncBits bits) = Ok sig /\
       observe_signal sig = outcome_map render_of (dedup R)).

(* a value written with the kind the loader determines for it is rendered back as exactly its
   characters, lower-cased, at its full width - for every width and every accepted character *)
Check write_render_roundtrip :
  forall value st, check_states value = Some st ->
  exists packed, write_n_state st value None = Ok packed /\
                 length packed = div_ceil (length value) (per_byte st) /\
                 n_state_to_bit_string st packed (length value) = Ok (map lower value).

(* the characters render_of reports for a recorded value are the lower-cased characters of its text *)
Check lookup_ok :
  forall l s, small_syms l s -> Forall (fun v => v <= 8) s -> lookup_all (lookup_table l) s = Ok (map char_of s).

Check vcd_stream_transparent_rs :
  forall (parse_f64 : list byte -> option (list byte)),
  (forall r le, parse_f64 r = Some le -> length le = 8%nat) ->
  forall (lz_compress : list byte -> list byte) (lz_decompress : list byte -> nat -> option (list byte)),
  (forall d n, (length d <= n)%nat -> lz_decompress (lz_compress d) n = Some d) ->
  forall cap, 1 <= cap -> cap <= 65536 ->
  forall debug tpes lookup input stop_pos e blocks ttb id str,
  nth_error tpes id = Some (rs_tpe str) ->
  read_single_stream parse_f64 lz_compress cap debug tpes lookup input stop_pos true = Ok e ->
  enc_finish lz_compress e = Ok (blocks, ttb) -> N.of_nat (length ttb) < 4294967296 ->
  exists ops, ops_of lookup true false (fst (parse_body debug input stop_pos)) = Some ops /\
    (Forall (rs_op_ok id str) ops -> ops_cost id ops < 4294967264 ->
     exists R sig,
       Forall2 (gdecodes parse_f64 str) R (recorded_rs id ops [] false) /\
       load_signal lz_decompress blocks id (rs_tpe str) = Ok sig /\
       observe_signal sig = Ok (map (fun a : N * list byte => (fst a, if str then KString else KReal, snd a)) (gdedup R))).

Check parse_body_lines :
  forall debug ls stop, Forall line_ok ls -> N.of_nat (length (render ls)) <= stop + 1 ->
  parse_body debug (render ls) stop = (flat_map events_of ls, PDone).

Check vcd_lines_transparent :
  forall (parse_f64 : list byte -> option (list byte)) (lz_compress : list byte -> list byte)
         (lz_decompress : list byte -> nat -> option (list byte)),
  (forall d n, (length d <= n)%nat -> lz_decompress (lz_compress d) n = Some d) ->
  forall cap, 1 <= cap -> cap <= 65536 ->
  forall debug tpes lookup (ls : list line) stop e blocks ttb id bits,
  Forall line_ok ls -> N.of_nat (length (render ls)) <= stop + 1 ->
  (1 <= bits)%nat -> nth_error tpes id = Some (EncBits bits) ->
  read_single_stream parse_f64 lz_compress cap debug tpes lookup (render ls) stop true = Ok e ->
  enc_finish lz_compress e = Ok (blocks, ttb) -> N.of_nat (length ttb) < 4294967296 ->
  exists ops, ops_of lookup true false (flat_map events_of ls) = Some ops /\
    (N.of_nat (count_vcd id ops) * (10 + N.of_nat bits) < 4294967264 ->
     exists R sig,
       Forall2 (decodes bits) R (recorded id ops [] false) /\
       load_signal lz_decompress blocks id (EncBits bits) = Ok sig /\
       observe_signal sig = outcome_map render_of (dedup R)).


Check parse_body_layout :
  forall debug pre ws0 items stop,
  ~ In 10 pre -> ws ws0 -> Forall item_ok items ->
  N.of_nat (length (pre ++ [10] ++ ws0 ++ btext items)) <= stop + 1 ->
  parse_body debug (pre ++ [10] ++ ws0 ++ btext items) stop = (ievents items, PDone).

Check vcd_layout_transparent :
  forall (parse_f64 : list byte -> option (list byte)) (lz_compress : list byte -> list byte)
         (lz_decompress : list byte -> nat -> option (list byte)),
  (forall d n, (length d <= n)%nat -> lz_decompress (lz_compress d) n = Some d) ->
  forall cap, 1 <= cap -> cap <= 65536 ->
  forall debug tpes lookup pre ws0 items stop e blocks ttb id bits,
  ~ In 10 pre -> ws ws0 -> Forall item_ok items ->
  N.of_nat (length (pre ++ [10] ++ ws0 ++ btext items)) <= stop + 1 ->
  (1 <= bits)%nat -> nth_error tpes id = Some (EncBits bits) ->
  read_single_stream parse_f64 lz_compress cap debug tpes lookup (pre ++ [10] ++ ws0 ++ btext items) stop true = Ok e ->
  enc_finish lz_compress e = Ok (blocks, ttb) -> N.of_nat (length ttb) < 4294967296 ->
  exists ops, ops_of lookup true false (ievents items) = Some ops /\
    (N.of_nat (count_vcd id ops) * (10 + N.of_nat bits) < 4294967264 ->
     exists R sig,
       Forall2 (decodes bits) R (recorded id ops [] false) /\
       load_signal lz_decompress blocks id (EncBits bits) = Ok sig /\
       observe_signal sig = outcome_map render_of (dedup R)).

Check vcd_layout_transparent_rs :
  forall (parse_f64 : list byte -> option (list byte)),
  (forall r le, parse_f64 r = Some le -> length le = 8%nat) ->
  forall (lz_compress : list byte -> list byte) (lz_decompress : list byte -> nat -> option (list byte)),
  (forall d n, (length d <= n)%nat -> lz_decompress (lz_compress d) n = Some d) ->
  forall cap, 1 <= cap -> cap <= 65536 ->
  forall debug tpes lookup pre ws0 items stop e blocks ttb id str,
  ~ In 10 pre -> ws ws0 -> Forall item_ok items ->
  N.of_nat (length (pre ++ [10] ++ ws0 ++ btext items)) <= stop + 1 ->
  nth_error tpes id = Some (rs_tpe str) ->
  read_single_stream parse_f64 lz_compress cap debug tpes lookup (pre ++ [10] ++ ws0 ++ btext items) stop true = Ok e ->
  enc_finish lz_compress e = Ok (blocks, ttb) -> N.of_nat (length ttb) < 4294967296 ->
  exists ops, ops_of lookup true false (ievents items) = Some ops /\
    (Forall (rs_op_ok id str) ops -> ops_cost id ops < 4294967264 ->
     exists R sig,
       Forall2 (gdecodes parse_f64 str) R (recorded_rs id ops [] false) /\
       load_signal lz_decompress blocks id (rs_tpe str) = Ok sig /\
       observe_signal sig = Ok (map (fun a : N * list byte => (fst a, if str then KString else KReal, snd a)) (gdedup R))).

(* the vocabulary: an item is a token group with the blank space that follows its tokens *)
Check (eq_refl : itext = fun i =>
  match i with
  | ITime d sep => (35 :: d) ++ sep
  | IScalar c id sep => (c :: id) ++ sep
  | IVector v sep1 id sep => v ++ sep1 ++ id ++ sep
  | IComment words sepe sep => kw_comment ++ swords words ++ sepe ++ kw_end ++ sep
  | IIgnored kw sep => kw ++ sep
  end).
Check (eq_refl : ievents = fun items => flat_map (fun i => events_of (line_of i)) items).
Check (eq_refl : sepd = fun w => w <> [] /\ ws w).
Check (eq_refl : ws = fun w => Forall (fun b => is_white_space b = true) w).

Print Assumptions vcd_stream_transparent.
Print Assumptions parse_body_layout.
Print Assumptions vcd_layout_transparent.
Print Assumptions vcd_layout_transparent_rs.
Print Assumptions parse_body_lines.
Print Assumptions vcd_lines_transparent.
Print Assumptions vcd_stream_transparent_rs.
Print Assumptions write_render_roundtrip.
Print Assumptions lookup_ok.
