"""C04 - storage is transparent: packing, compression and segmentation never alter data."""
import itertools
from .. import core, gen
from . import vcdfam

PID = "C04"
LEVEL = "proof"
RULE = ("recorded histories are driven through wavemem::Encoder (hook): vcd_value_change, raw_value_change (pre-packed "
        "2/4/9-state data, also wider than necessary), real_change; one or several encoders appended in order; and the same "
        "histories as VCD files. Exhaustive: every ordered pair and triple of state kinds x widths 1..40 (meta bits in the "
        "first byte vs. extra meta byte); sizes around the 32-byte compression threshold with compressible and "
        "incompressible payloads; signals absent from some segments; signals quiet for 4095..70000 steps (time deltas of 12..17 bits, also across the 65535 roll-over with little/no data in the finished block). Oracle: meaning of the abstract history. "
        "Non-trivial: a signal with >= 2 changes whose kinds differ, or >= 32 bytes of data for one signal, or >= 2 segments.")
ASSUMPTIONS = ["lz4_flex: decompress(compress(d), n) = d for n >= |d| (A-lz4); the model runs with the identity compressor, "
               "the implementation with lz4 - equal observations on both sides of the threshold exercise the assumption",
               "time indices fit u32; block-relative indices fit u16 by the roll-over"]
TRUSTED_BASE = ["Python oracle gen.expected_obs", "Python packer pack_symbols (mirror of the storage format for raw_value_change inputs)"]

SYM = {c: i for i, c in enumerate("01xzhuwl-")}


def pack_symbols(v, states):
    bits = {2: 1, 4: 2, 9: 4}[states]
    n = 0
    for c in v:
        n = (n << bits) | SYM[c]
    nbytes = (len(v) * bits + 7) // 8
    return n.to_bytes(nbytes, "big")


def kinds_case(rng, w, kinds):
    sigs = [gen.Sig("b", w)]
    steps = []
    for k, st in enumerate(kinds):
        alpha = gen.ALPHA[st]
        # make sure the value really needs `st`
        v = "".join(rng.choice(alpha) for _ in range(w))
        need = {2: "1", 4: "x", 9: "u"}[st]
        pos = rng.randrange(w)
        v = v[:pos] + need + v[pos + 1:]
        steps.append((k * 3, [(0, v)]))
    return sigs, steps


def raw_case(rng, sigs, steps):
    """same history through raw_value_change/real_change (the GHW path)"""
    ops = []
    for (t, changes) in steps:
        ops.append("t%x" % t)
        for (si, v) in changes:
            s = sigs[si]
            if s.tpe == "b":
                mk = int(gen.min_kind(v))
                st = rng.choice([k for k in (2, 4, 9) if k >= mk])
                data = pack_symbols(v, st)
                if rng.random() < 0.2:
                    data = b"\x00" * rng.randint(1, 2) + data     # unnecessary leading zero bytes
                if s.width == 1:
                    data = bytes([SYM[v]])
                ops.append("n%d:%d:%s" % (si, {2: 0, 4: 1, 9: 2}[st], data.hex()))
            elif s.tpe == "r":
                ops.append("f%d:%016x" % (si, gen.real_bits(v)))
            else:
                ops.append("v%d:%s" % (si, ("s" + v).encode().hex()))
    return "enc %s %s" % (",".join(s.tstr() for s in sigs), ";".join(ops) or "-")


def split_ok_steps(steps):
    """indices k at which a new encoder may start: t_k greater than every earlier time"""
    ok = []
    mx = None
    for k, (t, _) in enumerate(steps):
        if k > 0 and mx is not None and t > mx:
            ok.append(k)
        mx = t if mx is None else max(mx, t)
    return ok


def enc_split_case(rng, sigs, steps):
    ok = set(k for k in split_ok_steps(steps) if rng.random() < 0.4)
    ops = []
    for k, (t, changes) in enumerate(steps):
        if k in ok:
            ops.append("A")
        ops.append("t%x" % t)
        for (si, v) in changes:
            s = sigs[si]
            txt = ("b" + v) if s.tpe == "b" else (("r" if s.tpe == "r" else "s") + v)
            ops.append("v%d:%s" % (si, txt.encode().hex()))
    return "enc %s %s" % (",".join(s.tstr() for s in sigs), ";".join(ops) or "-"), len(ok) + 1


def nontrivial(sigs, steps, nseg, line):
    per = {}
    size = {}
    for _, ch in steps:
        for si, v in ch:
            per.setdefault(si, set()).add(gen.min_kind(v) if sigs[si].tpe == "b" else "o")
            size[si] = size.get(si, 0) + 1 + (len(v) + 7) // 8
    if nseg >= 2 or any(len(k) >= 2 for k in per.values()) or any(s >= 32 for s in size.values()):
        return hash(line)
    return None


def threshold_history(rng, compressible):
    w = rng.choice([8, 16, 24, 64])
    sigs = [gen.Sig("b", w), gen.Sig("b", 1), gen.Sig("r"), gen.Sig("s")]
    n = rng.randint(4, 40)
    steps = []
    a = gen.rand_bits(rng, w, 2)
    b = gen.rand_bits(rng, w, rng.choice([2, 4]))
    for k in range(n):
        v = (a if k % 2 == 0 else b) if compressible else gen.rand_bits(rng, w, rng.choice([2, 2, 4, 9]))
        ch = [(0, v)]
        if rng.random() < 0.5:
            ch.append((1, rng.choice("01xz")))
        if rng.random() < 0.3:
            ch.append((2, rng.choice(gen.REALS)))
        if rng.random() < 0.3:
            ch.append((3, "abc" if compressible else gen.rand_value(rng, sigs[3], None)))
        steps.append((k * 2, ch))
    return sigs, steps


def run(res, rng, tier, model_ok, replay=None):
    cases = []
    if replay:
        line = replay.get("case") or replay["broken_correspondence"]["case"]
        exp = replay.get("expected")
        cases.append({"line": line, "expect": exp if isinstance(exp, str) and exp.startswith("tt=") else None})
    else:
        # exhaustive kind orders x widths
        for w in range(1, 41):
            for n in (2, 3):
                for kinds in itertools.product((2, 4, 9), repeat=n):
                    sigs, steps = kinds_case(rng, w, kinds)
                    table, out = gen.expected_obs(sigs, steps, False)
                    exp = gen.obs_string(table, out)
                    line = gen.enc_case(rng, sigs, steps) if rng.random() < 0.5 else raw_case(rng, sigs, steps)
                    cases.append({"line": line, "expect": exp, "key": ("kinds", w, kinds), "klass": "kind-orders"})
        res.exhaustive = True
        n = 600 if tier == "quick" else 12000
        for i in range(n):
            r = rng.random()
            if r < 0.25:
                sigs, steps = threshold_history(rng, compressible=(i % 2 == 0))
                imp = False
            else:
                big = tier == "thorough" and i % 40 == 0
                sigs, steps, imp = gen.gen_history(rng, max_steps=(60 if big else 14), time_profile="mixed",
                                                   widths=([4096, 1000] if big else None))
                if imp:
                    imp = False
                    steps = steps[1:] if not steps[0][1] else [(0, steps[0][1])] + steps[1:]
                    if not steps:
                        continue
            table, out = gen.expected_obs(sigs, steps, imp)
            exp = gen.obs_string(table, out)
            r = rng.random()
            nseg = 1
            if r < 0.35:
                line, nseg = enc_split_case(rng, sigs, steps)
                kl = "enc-vcd-split%d" % min(nseg, 4)
            elif r < 0.6:
                line = raw_case(rng, sigs, steps)
                kl = "enc-raw"
            elif r < 0.8:
                line = gen.enc_case(rng, sigs, steps, mt=True)
                kl = "enc-vcd-loadmt"
            else:
                line, exp, _ = gen.vcd_case(rng, rng.choice(["st", "rd"]), sigs, steps, imp, ws="plain")
                kl = "vcd-file"
            cases.append({"line": line, "expect": exp, "key": nontrivial(sigs, steps, nseg, line), "klass": kl})
        for gap in ([4095, 4096, 16383, 16384, 16385, 65534, 65535, 65536, 65537, 70000] if tier == "quick" else
                    [127, 128, 4095, 4096, 4097, 16383, 16384, 16385, 32767, 32768, 65534, 65535, 65536, 65537, 70000, 131071, 140000]):
            sigs, steps = gen.gap_history(rng, gap)
            table, out = gen.expected_obs(sigs, steps, False)
            cases.append({"line": gen.enc_case(rng, sigs, steps), "expect": gen.obs_string(table, out),
                          "key": ("gap", gap), "klass": "quiet-gap"})
            cases.append({"line": raw_case(rng, sigs, steps), "expect": gen.obs_string(table, out),
                          "key": ("gapraw", gap), "klass": "quiet-gap-raw"})
    vcdfam.run_both(res, cases, "c04", model_ok)
    res.samples = [c["line"][:400] for c in cases[-2:]] + [cases[0]["line"][:300]]


def check_known(entry):
    return False
