"""C10 - FST files load faithfully."""
import itertools
from .. import core, gen, designs
from . import vcdfam, c06, c12

PID = "C10"
LEVEL = "proof"
RULE = ("(1) value sequences are fed to fst::SignalWriter (hook; the values as the FST reader delivers them: ASCII characters, "
        "8-byte reals, strings) exhaustively for every ordered pair and triple of state kinds x widths 1..40, and randomly with "
        "redundant values, non-decreasing time indices and upper-case characters; oracle: the de-duplicated sequence in the smallest "
        "sufficient kinds, independent of the order in which kinds first appear; the Gallina model of add_change / expand_entries / "
        "finish is run on the same sequences. (2) every corpus FST file that has a VCD twin is loaded and compared with the VCD load "
        "(tree, time table x timescale, value at every time). (3) the FST corpus files go through load/unload histories (C07), "
        "all entry points (C14) and serde (C17). (4) random designs (scope tree with all 22 scope types, components, source "
        "locators; variables of all 28 usable FST type codes, six directions, ranges, aliases, enum tables, VHDL type attributes, "
        "reals incl. +-0, strings; 1..n value change blocks, initial values in the frame or as changes, gzip/lz4 hierarchy, zlib "
        "or raw streams, every timescale exponent class) are written as FST files by vlib/filegen.py and loaded; the full listing "
        "(harness command wfull) must equal the listing computed from the design. (5) model of fst.rs on the dependency's real "
        "output: every generated and corpus FST file is read with fst-reader directly (hierarchy entries, header, time table, "
        "callbacks of a random subset of the signals in a random order) and through wellen; the extracted model of read_hierarchy / "
        "convert_timescale / load_signals / SignalWriter run on the former must print what wellen reports. The FST container is "
        "decoded by the dependency fst-reader and is not modelled in Coq. Non-trivial: a sequence whose kinds widen at least once; "
        "distinct sequences / files.")
ASSUMPTIONS = ["A-fst: the dependency fst-reader 0.8.7 decodes the container correctly and delivers per-signal time-ordered callbacks",
               "A-utf8: String::from_utf8_lossy (std) is applied to string values before the model sees them",
               "VCD twins were produced by vcd2fst (third party)"]
TRUSTED_BASE = ["Python oracle (dedup + minimal kinds)", "Python FST writer and expected listing (vlib/filegen.py, vlib/designs.py)", "comparison with the VCD twin (the VCD loader is the subject of C01)"]


def run(res, rng, tier, model_ok, replay=None):
    if replay and designs.replay_filecase(res, replay, "c10f"):
        return
    if replay:
        line = replay.get("case") or replay["broken_correspondence"]["case"]
        vcdfam.run_both(res, [{"line": line}], "c10", model_ok)
        return
    cases = []
    for w in range(1, 41):
        for n in (2, 3):
            for kinds in itertools.product((2, 4, 9), repeat=n):
                vals = []
                for k in kinds:
                    v = "".join(rng.choice(gen.ALPHA[k]) for _ in range(w))
                    need = {2: "1", 4: "x", 9: "u"}[k]
                    pos = rng.randrange(w)
                    vals.append(v[:pos] + need + v[pos + 1:])
                exp = []
                prev = None
                for i, v in enumerate(vals):
                    if v != prev:
                        exp.append("%x:%s:%s" % (i, gen.min_kind(v), v))
                    prev = v
                line = "fstw b%d %s" % (w, ",".join("%x:%s" % (i, gen.upper_some(rng, v).encode().hex()) for i, v in enumerate(vals)))
                cases.append({"line": line, "expect": "s0=" + ",".join(exp), "pred": c06.canonical({0: ("b", w)}),
                              "key": (w, kinds) if len(set(kinds)) > 1 else None, "klass": "kind-orders"})
    res.exhaustive = True
    cases += c06.fstw_cases(rng, 600 if tier == "quick" else 12000)
    vcdfam.run_both(res, cases, "c10", model_ok)
    pairs = [(a, b) for a, b in c12.corpus_pairs(tier)]
    lines = []
    for a, b in pairs:
        lines += ["wobs " + a, "wobs " + b]
    outs = core.run_cases(core.WV_DEBUG, lines, "c10w", timeout=1500)
    for i, (a, b) in enumerate(pairs):
        res.evaluations += 1
        res.distribution["corpus-fst-vs-vcd-twin"] = res.distribution.get("corpus-fst-vs-vcd-twin", 0) + 1
        why = c12.compare_pair(a, b, outs[2 * i], outs[2 * i + 1], skip_params=("picorv32" in a))
        if why:
            res.violations.append(("wobs " + b, why, "the VCD twin " + a, "an FST file loads differently from its VCD twin"))
        else:
            res.nontrivial.add(b)
    # (4) generated FST files (hierarchy with every scope / variable type, directions, aliases, enum tables, source
    # locators, VHDL type names; several value change blocks, frames, compression variants), full listing vs design
    seed = rng.randrange(1 << 30)
    designs.run_file_cases(res, designs.fst_cases(rng, tier), "c10f",
                           with_files=lambda paths: designs.fst_model_tie(res, paths, "c10m", model_ok, seed))
    # (5) the same tie on the corpus FST files
    import glob, os
    corpus = sorted(f for f in glob.glob("/repo/wellen/inputs/**/*.fst", recursive=True)
                    if os.path.getsize(f) < (400000 if tier == "quick" else 6000000))
    designs.fst_model_tie(res, corpus, "c10c", model_ok, seed, what="corpus")
    res.samples = [c["line"][:200] for c in cases[:2]] + ["wobs " + pairs[0][1]] + res.samples[-1:]


def check_known(entry):
    return False
