(* A whole GHW file in the model: the header (Model/GhwHier.v) yields the hierarchy and the decode information, the
   signal sections that follow the end-of-header mark (Model/Ghw.v read_signals) are read with it.
   No proofs live in Model/ files. *)
From WV Require Import Model.Base Generated.Consts Model.Bits Model.WaveMem Model.Hierarchy Model.FstHier Model.Ghw
  Model.GhwAlias Model.GhwHier.
Open Scope N_scope.

(* into_decode_info: the registered signals, the unregistered slots dropped *)
Fixpoint decode_signals (slots : list sig_slot) : outcome (list ghw_sig) :=
  match slots with
  | [] => Ok []
  | None :: r => decode_signals r
  | Some (tp, ref, vec) :: r =>
    do t <- of_option (ghw_tpe_of (N.of_nat tp));
    do rest <- decode_signals r;
    Ok (mk_gs t ref vec :: rest)
  end.

(* VecBuffer::from_vec_info takes the 1-based ids *)
Definition decode_vectors (vs : list vec_info) : list (nat * nat * bool * nat) :=
  map (fun v => (S (vi_min v), S (vi_max v), vi_two v, vi_ref v)) vs.

(* the encoding of every signal reference: that of the first variable declared with it *)
Fixpoint enc_of_ref (calls : list fcall) (ref : nat) : sig_enc :=
  match calls with
  | [] => EncBits 1
  | FcVar _ _ _ enc _ r _ _ :: rest => if Nat.eqb r ref then enc else enc_of_ref rest ref
  | _ :: rest => enc_of_ref rest ref
  end.

Section WithExternals.
Variable lz_compress : list byte -> list byte.
Variable cap : N.

Definition ghw_read_file (debug : bool) (inp : list byte)
  : outcome (ghw_header_result * list sig_enc * option (list block * list N)) :=
  do '(be, res) <- ghw_read_header debug inp;
  let t := ghr_tracker res in
  do sigs <- decode_signals (tr_signals t);
  let tpes := map (enc_of_ref (ghr_calls res)) (seq 0 (tr_count t)) in
  do body <- read_signals lz_compress cap be tpes sigs (decode_vectors (tr_vectors t)) (ghr_rest res);
  Ok (res, tpes, body).
End WithExternals.
