"""C16 - format detection is total and correct."""
import glob
import os
from .. import core, gen
from . import vcdfam

PID = "C16"
LEVEL = "proof"
RULE = ("byte strings are offered to viewers::open_and_detect_file_format under a watchdog: exhaustively every string of "
        "length <= 2, every first byte x corner values of the 8-byte block length field, `$`+word forms, truncated and "
        "corrupted magic numbers of the three formats, valid headers followed by garbage, generated VCD files and every "
        "non-empty corpus file (there also read_header on a Cursor, which proves the rewind). Oracle: never PANIC/HANG outside "
        "the two recorded classes of the FST block walk (D13 cycle, D17 length 2^63..2^63+7); generated/corpus files are "
        "classified by their real format; data that begins like none of the three (first non-blank byte not `$`, first byte "
        "not an FST block type, no `GH` magic) is Unknown. Non-trivial: the input is not classified by its first byte alone "
        "(i.e. it passes the first-byte test of at least one probe); distinct inputs.")
ASSUMPTIONS = ["Seek/BufRead behave like a position in a byte list (Cursor and BufReader<File> both exercised); seeks to offsets between 2^40 and 2^63 are excluded: on a real file they fail with EINVAL depending on the file system, on a Cursor they succeed",
               "fst_reader::is_fst_file is modelled from the dependency's source (fst-reader 0.8.7 src/reader.rs:196-218)"]
TRUSTED_BASE = ["Python class predicate c16.fst_walk_class (decides the two recorded classes)"]
BLOCK_TYPES = set(range(9)) | {254, 255}


def fst_walk_class(data, debug=True):
    """'hang' / 'panic' when the dependency's block walk cycles / overflows, else None"""
    pos = 0
    seen = set()
    while True:
        if pos in seen:
            return "hang"
        seen.add(pos)
        if pos >= len(data):
            return None
        if data[pos] not in BLOCK_TYPES:
            return None
        lb = data[pos + 1:pos + 9]
        if len(lb) < 8:
            return None
        ln = int.from_bytes(lb, "big")
        as_i64 = ln if ln < 2 ** 63 else ln - 2 ** 64
        off = as_i64 - 8
        if off < -2 ** 63:
            if debug:
                return "panic"
            off += 2 ** 64
        np = pos + 9 + off
        if np < 0 or np > 2 ** 63 - 1:
            return None
        if np > 2 ** 40:
            return "bigseek"       # lseek beyond the file system's maximum offset: environment dependent
        pos = np


def begins_like_none(data):
    if not data:
        return True
    if data[0] in BLOCK_TYPES:
        return False
    stripped = data.lstrip(b" \t\r\n")
    if stripped[:1] == b"$":
        return False
    if data[:2] == b"GH":
        return False
    return True


def ghw_header_ok(data):
    """the 16-byte GHW header as GHDL writes it: magic, header length 16, a zero, version 0 or 1, endianness 1 (little)
    or 2 (big), word length, offset length, a zero"""
    return (len(data) >= 16 and data[:9] == b"GHDLwave\n" and data[9] == 16 and data[10] == 0 and data[11] <= 1
            and data[12] in (1, 2) and data[15] == 0)


def expected_class(data):
    """the class of data that does not begin like an FST block: decided by the GHW header rule or by the VCD rule
    (first `$`-word a known command, a later `$end`)"""
    if not data or data[0] in BLOCK_TYPES:
        return None
    if data[:2] == b"GH":
        return "ghw" if ghw_header_ok(data) else "unknown"
    if data.lstrip(b" \t\r\n")[:1] == b"$":
        return "vcd" if vcd_is_vcd(data) else "unknown"
    return "unknown"


def oracle_for(data, expect_fmt=None):
    klass = fst_walk_class(data)
    if expect_fmt is None and ghw_header_ok(data):
        expect_fmt = "ghw"
    if expect_fmt is None and klass is None:
        expect_fmt = expected_class(data)
    vcd_like = data.lstrip(b" \t\r\n")[:1] == b"$"

    def pred(obs):
        if obs == "HANG":
            return None if (klass == "hang" and not vcd_is_vcd(data)) else "detection hangs"
        if obs == "PANIC":
            return None if (klass == "panic" and not vcd_is_vcd(data)) else "detection panics"
        if obs == "CRASH-OR-HANG":
            return "harness crashed"
        if expect_fmt and obs != expect_fmt:
            return "a %s file is classified as %s" % (expect_fmt, obs)
        if begins_like_none(data) and obs != "unknown":
            return "data that begins like none of the formats is classified as %s" % obs
        return None
    return pred


CMDS = [b"date", b"timescale", b"var", b"scope", b"upscope", b"comment", b"version", b"enddefinitions", b"attrbegin"]


def find_end(rest):
    """read_until_end_token's matcher: a 4-state automaton over `$end`; any mismatch resets it to its start state
    WITHOUT looking at the mismatching byte again (so `$$end` is not an end token)"""
    st = 0
    for b in rest:
        if st == 0 and b == 36:
            st = 1
        elif st == 1 and b == 101:
            st = 2
        elif st == 2 and b == 110:
            st = 3
        elif st == 3 and b == 100:
            return True
        else:
            st = 0
    return False


def vcd_is_vcd(data):
    s = data.lstrip(b" \t\r\n")
    if s[:1] != b"$":
        return False
    for i, c in enumerate(s[1:]):
        if c in b" \t\r\n":
            return s[1:1 + i] in CMDS and find_end(s[2 + i:])
    return False


def nontrivial(data):
    return bool(data) and (data[0] in BLOCK_TYPES or data.lstrip(b" \t\r\n")[:1] == b"$" or data[:2] == b"GH")


GHW_OK = b"GHDLwave\n" + bytes([16, 0, 1, 1, 4, 0, 0])


def run(res, rng, tier, model_ok, replay=None):
    cases = []

    def add(data, klass, expect=None, cmd="detect"):
        if fst_walk_class(data) == "bigseek" and not vcd_is_vcd(data):
            return
        cases.append({"line": "%s %s" % (cmd, gen.hexs(data)), "pred": oracle_for(data, expect) if cmd == "detect" else None,
                      "key": data if nontrivial(data) else None, "klass": klass})

    if replay:
        line = replay.get("case") or replay["broken_correspondence"]["case"]
        data = bytes.fromhex(line.split(" ")[1]) if line.split(" ")[1] != "-" else b""
        add(data, "replay")
    else:
        add(b"", "short")
        for a in range(256):
            add(bytes([a]), "short")
        step = 1 if tier == "thorough" else 3
        for a in range(256):
            for b in range(0, 256, step):
                add(bytes([a, (b + a) % 256]), "short")
        res.exhaustive = tier == "thorough"
        corner = [0, 1, 7, 8, 9, 10, 16, 17, 100, 2 ** 31, 2 ** 32, 2 ** 63 - 1, 2 ** 63, 2 ** 63 + 7, 2 ** 63 + 8, 2 ** 64 - 9,
                  2 ** 64 - 8, 2 ** 64 - 2, 2 ** 64 - 1]
        hang_budget = 6
        for t in range(256):
            for ln in corner:
                for tail in (b"", b"\x00" * 12, bytes([t]) + (8).to_bytes(8, "big")):
                    data = bytes([t]) + ln.to_bytes(8, "big") + tail
                    if fst_walk_class(data) == "bigseek":
                        continue
                    if fst_walk_class(data) == "hang":
                        if hang_budget <= 0:
                            continue
                        hang_budget -= 1
                    add(data, "block-header-corners")
        words = [b"date", b"var", b"foo", b"end", b"enddefinitions", b"", b"$", b"comment", b"DATE", b"scope x", b"dumpvars",
                 # words that extend a command name, and proper prefixes of command names
                 b"dated", b"variable", b"versions", b"comments", b"scope_name", b"timescales", b"upscopes", b"enddefinitionsx",
                 b"attrbeginx", b"dat", b"va", b"versio", b"enddefinition", b"attrbegin", b"timescale", b"version", b"upscope"]
        for w in words:
            for pre in (b"", b" ", b"\n\t ", b"\t", b"\r\n", b"\r", b"\t \n"):
                for post in (b"", b" ", b" $end", b" x $end ", b" $en", b"$end", b" $$end", b" x $end\n$var"):
                    add(pre + b"$" + w + post, "dollar-word")
        # `$`-words that are no VCD command, of every length around the implementation's message limits, holding
        # multi-byte UTF-8 characters and invalid UTF-8 at every offset
        for ln in list(range(0, 72)) + [100, 127, 128, 129, 255, 256, 257, 1000]:
            for filler in (b"a", "\u00e4".encode(), "\u20ac".encode(), b"\xff", b"\xf0\x9f"):
                for k in range(len(filler)):
                    body = (b"q" * k + filler * (ln // len(filler) + 1))[:max(ln, 1)]
                    for post in (b"", b" $end", b" x $end\n"):
                        add(b"$" + body + post, "dollar-long-word")
        for k in range(len(GHW_OK) + 1):
            add(GHW_OK[:k], "ghw-magic")
        for k in range(len(GHW_OK)):
            for v in (0, 1, 2, 3, 16, 255):
                d = bytearray(GHW_OK + b"garbage")
                d[k] = v
                add(bytes(d), "ghw-magic")
        add(b"\x1f\x8b" + b"\x00" * 20, "ghw-magic")
        add(b"BZh9" + b"\x00" * 20, "ghw-magic")
        n = 150 if tier == "quick" else 3000
        for _ in range(n):
            sigs, steps, imp = gen.gen_history(rng, max_steps=4)
            idents, kind, idx, nuniq = gen.assign_ids(rng, len(sigs))
            data = gen.header_text(rng, sigs, idents) + gen.body_text(rng, sigs, idents, steps, imp)
            data = rng.choice([b"", b"\n", b"  \t", b"\t", b"\r\n", b"\r\n\r\n\t"]) + data + rng.choice([b"", b"garbage \x00\xff"])
            add(data, "generated-vcd", "vcd")
            add(data, "generated-vcd-cursor", cmd="detectc")
            cases[-1]["pred"] = lambda obs: None if obs in ("ok:vcd", "err:vcd") else "read_header on a Cursor: " + obs
        for _ in range(n):
            ln = rng.randint(0, 40)
            data = bytes(rng.choice([0, 1, 4, 36, 32, 71, 72, 255, rng.randrange(256)]) for _ in range(ln))
            if fst_walk_class(data) in ("hang", "bigseek"):
                continue
            add(data, "random-bytes")
        # a VCD whose first command, or whose leading blank space, is longer than any read buffer
        for n in (4000, 8191, 8192, 8193, 9000, 70000):
            add(b"$comment " + b"x" * n + b" $end\n$enddefinitions $end\n", "long-prefix-vcd", "vcd")
            add(b"\n" * n + b"$date today $end\n$enddefinitions $end\n", "long-prefix-vcd", "vcd")
            add(b" " * n + b"foo", "long-prefix-junk", "unknown")
        files = sorted(glob.glob("/repo/wellen/inputs/**/*", recursive=True))
        for f in files:
            ext = f.rsplit(".", 1)[-1]
            if ext not in ("vcd", "fst", "ghw") or not os.path.isfile(f) or os.path.getsize(f) == 0:
                continue
            if os.path.getsize(f) > (300000 if tier == "quick" else 5000000):
                continue
            data = open(f, "rb").read()
            if f.endswith("sigrok/libsigrok.vcd.fst"):
                continue                      # known finding D18 (re-confirmed separately)
            cases.append({"line": "detect %s" % data.hex(), "klass": "corpus-" + ext, "key": f,
                          "pred": (lambda obs, ext=ext: None if obs == ext else "corpus file classified as " + obs)})
            # the same content under a file name with another format's extension
            for other_ext in ("vcd", "fst", "ghw"):
                if other_ext != ext and os.path.getsize(f) < 60000:
                    cases.append({"line": "detectx %s %s" % (data.hex(), other_ext), "klass": "corpus-misnamed-" + ext, "key": (f, other_ext),
                                  "pred": (lambda obs, ext=ext: None if obs == ext else "misnamed corpus file classified as " + obs)})
            cases.append({"line": "detectc %s" % data.hex(), "klass": "corpus-cursor-" + ext,
                          "pred": (lambda obs, ext=ext, f=f: None if (obs == "ok:" + ext or (obs == "err:" + ext and "with_errors" in f)
                                                                       or "ghdl_issue_538" in f)
                                   else "read_header on a Cursor: " + obs)})
    model_cases = [c for c in cases if c["line"].startswith("detect ")]
    other = [c for c in cases if not c["line"].startswith("detect ")]
    vcdfam.run_both(res, model_cases, "c16", model_ok)
    vcdfam.run_both(res, other, "c16c", False)
    res.samples = [c["line"][:200] for c in cases[300:303]] + [cases[-1]["line"][:120]]


def check_known(entry):
    if "file" in entry:
        line = "detect " + open(entry["file"], "rb").read().hex()
    else:
        line = entry["case"]
    io = core.run_cases(core.WV_DEBUG, [line], "c16k")[0]
    return io == entry["observed"]
