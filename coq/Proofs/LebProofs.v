(* LEB128 round trip as used by wavemem.rs (properties C01, C04). *)
From WV Require Import Model.Base Model.Leb128.
From Coq Require Import Lia ZifyBool ZifyNat ZifyN.
Ltac Zify.zify_post_hook ::= Z.div_mod_to_equations.
Open Scope N_scope.
Arguments N.add : simpl never. Arguments N.mul : simpl never. Arguments N.pow : simpl never.
Arguments N.div : simpl never. Arguments N.modulo : simpl never.

Lemma leb_go_roundtrip : forall fuel v shift acc rest,
  (1 <= fuel)%nat -> v < 2 ^ (7 * N.of_nat fuel) -> v * 2 ^ shift < 2 ^ 64 ->
  leb_read_go (leb_write_fuel fuel v ++ rest) shift acc = Some (acc + v * 2 ^ shift, rest).
Proof.
  induction fuel as [|f IH]; intros v shift acc rest Hf Hv Hs; [lia|].
  cbn [leb_write_fuel].
  assert (Hdm : v = 128 * (v / 128) + v mod 128) by (apply N.div_mod; lia).
  assert (Hmod : v mod 128 < 128) by (apply N.mod_lt; lia).
  destruct (N.eqb_spec (v / 128) 0) as [E|E].
  - (* last group *)
    assert (Hv128 : v < 128) by lia.
    assert (Hvm : v mod 128 = v) by (apply N.mod_small; lia).
    cbn [app leb_read_go]. rewrite Hvm.
    assert (Hchk : (shift =? 63) && negb (v =? 0) && negb (v =? 1) = false).
    { destruct (N.eqb_spec shift 63) as [->|]; [|reflexivity].
      assert (v < 2) by (change (2 ^ 64) with (2 * 2 ^ 63) in Hs; nia).
      destruct (N.eqb_spec v 0); [reflexivity|]. destruct (N.eqb_spec v 1); [reflexivity|lia]. }
    rewrite Hchk. rewrite Hvm.
    destruct (N.ltb_spec v 128); [reflexivity|lia].
  - (* continuation *)
    cbn [app leb_read_go].
    assert (Hge : 128 <= v) by (destruct (N.lt_ge_cases v 128) as [H|H]; [rewrite N.div_small in E by assumption; congruence|assumption]).
    assert (Hshift : shift <> 63).
    { intros ->. change (2 ^ 64) with (2 * 2 ^ 63) in Hs. nia. }
    destruct (N.eqb_spec shift 63); [contradiction|]. cbn [andb].
    assert (Hb : (v mod 128 + 128) mod 128 = v mod 128).
    { replace (v mod 128 + 128) with (v mod 128 + 1 * 128) by lia.
      rewrite N.mod_add by lia. now rewrite N.mod_mod by lia. }
    rewrite Hb. destruct (N.ltb_spec (v mod 128 + 128) 128); [lia|].
    assert (Hf1 : (1 <= f)%nat).
    { destruct f; [|lia]. cbn in Hv. lia. }
    rewrite IH.
    + f_equal. f_equal. rewrite N.pow_add_r. change (2 ^ 7) with 128. nia.
    + exact Hf1.
    + rewrite Nat2N.inj_succ in Hv. replace (7 * N.succ (N.of_nat f)) with (7 * N.of_nat f + 7) in Hv by lia.
      rewrite N.pow_add_r in Hv. change (2 ^ 7) with 128 in Hv.
      apply N.div_lt_upper_bound; lia.
    + rewrite N.pow_add_r. change (2 ^ 7) with 128. nia.
Qed.

(* every u64 written by leb128::write::unsigned is read back exactly, whatever follows *)
Theorem leb_roundtrip v rest : v < 2 ^ 64 ->
  leb_read (leb_write v ++ rest) = Some (v, rest).
Proof.
  intros Hv. unfold leb_read, leb_write.
  rewrite leb_go_roundtrip; [f_equal; f_equal; rewrite N.pow_0_r; lia|lia| |rewrite N.pow_0_r; lia].
  change (7 * N.of_nat 10) with 70. assert (2 ^ 64 < 2 ^ 70) by (apply N.pow_lt_mono_r; lia). lia.
Qed.

Example leb_example : leb_write 300 = [172; 2] /\ leb_read [172; 2; 9] = Some (300, [9]).
Proof. split; reflexivity. Qed.
