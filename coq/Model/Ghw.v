(* Model of wellen/src/ghw/signals.rs: read_signals (snapshot / cycle / directory / tailer sections),
   read_cycle_signals, read_signal_value, finish_time_step and the VecBuffer that assembles bit vectors
   from per-bit records (get_data_index, set_value, is_second_change, full_signal_has_changed,
   get_full_value_and_clear_changes, process_changed_signals), plus STD_LOGIC_LUT.
   Not modelled: the GHW header / string / type / hierarchy sections (ghw/hierarchy.rs); the decode
   information they produce is an input here. *)
From WV Require Import Model.Base Generated.Consts Model.Bits Model.Leb128 Model.WaveMem.
Open Scope N_scope.

(* SignalType codes *)
Inductive ghw_tpe := GNine | GNineVec | GTwo | GTwoVec | GU8 | GLeb | GF64.
Definition ghw_tpe_of (n : N) : option ghw_tpe :=
  if n =? 0 then Some GNine else if n =? 1 then Some GNineVec else if n =? 2 then Some GTwo
  else if n =? 3 then Some GTwoVec else if n =? 4 then Some GU8 else if n =? 5 then Some GLeb
  else if n =? 6 then Some GF64 else None.

Record ghw_sig := mk_gs { gs_tpe : ghw_tpe; gs_ref : nat; gs_vec : option nat }.

(* one vector of the VecBuffer *)
Record vec_entry := mk_ve {
  ve_bits : nat;
  ve_states : states;
  ve_ref : nat;
  ve_max_index : nat;           (* max.index() *)
  ve_data : list byte;          (* packed, right aligned, big endian *)
  ve_bit_change : list bool;    (* bit i has been written in this time step *)
  ve_signal_change : bool
}.

Record vec_buffer := mk_vb { vb_vecs : list vec_entry; vb_change_list : list nat }.

(* STD_LOGIC_LUT: position in the VHDL enum -> wellen's nine state code *)
Definition std_logic_lut : list N := ghw_std_logic_lut.      (* Generated/Consts.v, from ghw/common.rs *)

(* VecBuffer::from_vec_info: vectors as (min id, max id, two_state, signal ref) *)
Definition vec_of (v : nat * nat * bool * nat) : outcome vec_entry :=
  let '(mn, mx, two, r) := v in
  (* ids are 1-based NonZeroU32; index() = id - 1 *)
  if (Nat.eqb mn 0) || (Nat.eqb mx 0) then Panic
  else
    do d <- usub (mx - 1) (mn - 1);
    let bits := S d in
    let st := if two then Two else Nine in
    Ok (mk_ve bits st r (mx - 1) (zeros (div_ceil bits (per_byte st))) (repeat false bits) false).

(* get_data_index *)
Definition data_index (bits bit : nat) (st : states) : nat * nat :=
  let pb := per_byte st in
  let bytes := div_ceil bits pb in
  ((bytes - 1 - bit / pb)%nat, (bit mod pb)%nat).

Definition ve_get_value (v : vec_entry) (bit : nat) : outcome N :=
  let '(index, slot) := data_index (ve_bits v) bit (ve_states v) in
  do b <- of_option (nth_error (ve_data v) index);
  Ok (digit (ve_states v) b slot).

(* set_value: old_data = data & !(mask << shift); data = old_data | (value << shift) *)
Definition ve_set_value (v : vec_entry) (bit : nat) (value : N) : outcome (list byte) :=
  let '(index, slot) := data_index (ve_bits v) bit (ve_states v) in
  do b <- of_option (nth_error (ve_data v) index);
  let shift := N.of_nat slot * sbits (ve_states v) in
  let cleared := b - (digit (ve_states v) b slot) * 2 ^ shift in
  Ok (list_update (ve_data v) index ((N.lor cleared (value * 2 ^ shift)) mod 256)).

Definition bit_of (v : vec_entry) (signal_index : nat) : outcome nat := usub (ve_max_index v) signal_index.

(* full_signal_has_changed: every byte of the change mask is 0xff, the first one (partial) equals the mask
   of the valid bits.  On bits: every bit of every full byte, and of the partial first byte, is set. *)
Definition full_signal_has_changed (v : vec_entry) : bool := forallb (fun b => b) (ve_bit_change v).

Definition clear_changes (v : vec_entry) : vec_entry :=
  mk_ve (ve_bits v) (ve_states v) (ve_ref v) (ve_max_index v) (ve_data v) (repeat false (ve_bits v)) false.

Section WithExternals.
Variable lz_compress : list byte -> list byte.
Variable cap : N.

Definition raw (e : encoder) (r : nat) (data : list byte) (st : states) : outcome encoder :=
  raw_value_change e r data st.

(* the vector part of read_signal_value *)
Definition vec_update (vb : vec_buffer) (e : encoder) (vec_id signal_index : nat) (value : N) (sref : nat)
           (st : states) : outcome (vec_buffer * encoder) :=
  do v <- of_option (nth_error (vb_vecs vb) vec_id);
  do bit <- bit_of v signal_index;
  do changed <- of_option (nth_error (ve_bit_change v) bit);
  do old <- ve_get_value v bit;
  (* is_second_change: dispatch the pending value first *)
  do '(v1, e1) <- (if changed && negb (old =? value)
                   then do e' <- raw e sref (ve_data v) st; Ok (clear_changes v, e')
                   else Ok (v, e));
  (* update_value *)
  do data <- ve_set_value v1 bit value;
  let was_listed := ve_signal_change v1 in
  let v2 := mk_ve (ve_bits v1) (ve_states v1) (ve_ref v1) (ve_max_index v1) data
                  (list_update (ve_bit_change v1) bit true) true in
  let cl := if was_listed then vb_change_list vb else vb_change_list vb ++ [vec_id] in
  (* full_signal_has_changed: report as early as possible *)
  do '(v3, e3) <- (if full_signal_has_changed v2
                   then do e' <- raw e1 sref (ve_data v2) st; Ok (clear_changes v2, e')
                   else Ok (v2, e1));
  Ok (mk_vb (list_update (vb_vecs vb) vec_id v3) cl, e3).

(* signed LEB128 (leb128::read::signed) *)
Fixpoint sleb_read_go (data : list byte) (shift : N) (result : N) : option (Z * list byte) :=
  match data with
  | [] => None
  | b :: r =>
    if (shift =? 63) && negb (b =? 0) && negb (b =? 127) then None
    else
      let result' := result + (b mod 128) * 2 ^ shift in
      let shift' := shift + 7 in
      if b <? 128 then
        (* sign extend when the sign bit of the last group is set and shift < 64 *)
        let z := if (shift' <? 64) && ((b / 64) mod 2 =? 1)
                 then (Z.of_N result' - 2 ^ Z.of_N shift')%Z
                 else (let m := result' mod 18446744073709551616 in
                       if m <? 9223372036854775808 then Z.of_N m else (Z.of_N m - 18446744073709551616)%Z) in
        Some (z, r)
      else sleb_read_go r shift' result'
  end.
Definition sleb_read (data : list byte) : option (Z * list byte) := sleb_read_go data 0 0.

Definition u64_of_z (z : Z) : N := Z.to_N (z mod 18446744073709551616).
Fixpoint be_bytes (n : nat) (v : N) : list byte :=
  match n with O => [] | S k => be_bytes k (v / 256) ++ [v mod 256] end.

Inductive gres (A : Type) := GOk (a : A) | GErr | GPanic.
Arguments GOk {A} a. Arguments GErr {A}. Arguments GPanic {A}.

(* read_signal_value: consumes bytes, returns the rest *)
Definition read_signal_value (sigs : list ghw_sig) (signal_index : nat) (vb : vec_buffer) (e : encoder)
           (input : list byte) : outcome (option (vec_buffer * encoder * list byte)) :=
  do info <- of_option (nth_error sigs signal_index);
  match gs_tpe info with
  | GNine =>
    match input with
    | [] => Ok None
    | g :: r => do v <- of_option (nth_error std_logic_lut (N.to_nat g));
                do e' <- raw e (gs_ref info) [v] Nine; Ok (Some (vb, e', r))
    end
  | GTwo =>
    match input with
    | [] => Ok None
    | g :: r => if 1 <? g then Panic                                   (* debug_assert!(value[0] <= 1) *)
                else do e' <- raw e (gs_ref info) [g] Two; Ok (Some (vb, e', r))
    end
  | GNineVec | GTwoVec =>
    match input with
    | [] => Ok None
    | g :: r =>
      do '(value, st) <- (match gs_tpe info with
                          | GNineVec => do v <- of_option (nth_error std_logic_lut (N.to_nat g)); Ok (v, Nine)
                          | _ => if 1 <? g then Panic else Ok (g, Two)
                          end);
      do vec_id <- of_option (gs_vec info);
      do '(vb', e') <- vec_update vb e vec_id signal_index value (gs_ref info) st;
      Ok (Some (vb', e', r))
    end
  | GU8 =>
    match input with
    | [] => Ok None
    | g :: r => do e' <- raw e (gs_ref info) [g] Two; Ok (Some (vb, e', r))
    end
  | GLeb =>
    match sleb_read input with
    | None => Ok None
    | Some (z, r) => do e' <- raw e (gs_ref info) (be_bytes 8 (u64_of_z z)) Two; Ok (Some (vb, e', r))
    end
  | GF64 =>
    if (length input <? 8)%nat then Ok None
    else do e' <- real_change e (gs_ref info) (firstn 8 input); Ok (Some (vb, e', skipn 8 input))
  end.

(* finish_time_step / process_changed_signals *)
Fixpoint process_changed (vecs : list vec_entry) (cl : list nat) (e : encoder) : outcome (list vec_entry * encoder) :=
  match cl with
  | [] => Ok (vecs, e)
  | id :: r =>
    do v <- of_option (nth_error vecs id);
    if ve_signal_change v then
      do e' <- raw e (ve_ref v) (ve_data v) (ve_states v);
      process_changed (list_update vecs id (clear_changes v)) r e'
    else process_changed vecs r e
  end.
Definition finish_time_step (vb : vec_buffer) (e : encoder) : outcome (vec_buffer * encoder) :=
  do '(vecs, e') <- process_changed (vb_vecs vb) (vb_change_list vb) e;
  Ok (mk_vb vecs [], e').

Definition read_int (big_endian : bool) (bs : list byte) : N :=
  (fix go (l : list byte) (acc : N) := match l with [] => acc | b :: r => go r (acc * 256 + b) end)
    (if big_endian then bs else rev bs) 0.

Definition mark_eq (a b : list byte) : bool := list_eqb a b.
(* section markers: Generated/Consts.v, from ghw/common.rs *)
Definition SNP := ghw_snapshot_section. Definition ESN := ghw_end_snapshot_section.
Definition CYC := ghw_cycle_section. Definition ECY := ghw_end_cycle_section.
Definition DIR := ghw_directory_section. Definition EOD := ghw_end_directory_section.
Definition TAI := ghw_tailer_section.

(* read_cycle_signals: fuel = input length.  `pos` is the usize position counter (an N here: a
   delta can be any u64, so it must never become a unary nat before it is known to be an index):
   `pos += delta` panics on overflow (debug build), `pos as u32` truncates, NonZeroU32::new(0).unwrap()
   and the index into the signal table panic when out of range *)
Fixpoint cycle_signals (fuel : nat) (sigs : list ghw_sig) (pos : N) (vb : vec_buffer) (e : encoder)
         (input : list byte) : outcome (option (vec_buffer * encoder * list byte)) :=
  match fuel with
  | O => Ok None
  | S f =>
    match leb_read input with
    | None => Ok None
    | Some (delta, r) =>
      if delta =? 0 then Ok (Some (vb, e, r))
      else
        let pos' := pos + delta in
        if 18446744073709551616 <=? pos' then Panic
        else
          let id32 := pos' mod 4294967296 in
          if id32 =? 0 then Panic
          else if N.of_nat (length sigs) <=? id32 - 1 then Panic
          else
            do x <- read_signal_value sigs (N.to_nat (id32 - 1)) vb e r;
            match x with
            | None => Ok None
            | Some (vb', e', r') => cycle_signals f sigs pos' vb' e' r'
            end
    end
  end.

(* the loop of read_cycle_section *)
Fixpoint cycle_loop (fuel : nat) (sigs : list ghw_sig) (time : N) (vb : vec_buffer) (e : encoder)
         (input : list byte) : outcome (option (vec_buffer * encoder * list byte)) :=
  match fuel with
  | O => Ok None
  | S f =>
    do e1 <- time_change lz_compress cap e time;
    do x <- cycle_signals (S (length input)) sigs 0%N vb e1 input;
    match x with
    | None => Ok None
    | Some (vb2, e2, r) =>
      do '(vb3, e3) <- finish_time_step vb2 e2;
      match sleb_read r with
      | None => Ok None
      | Some (dt, r2) =>
        if (dt <? 0)%Z then Ok (Some (vb3, e3, r2))
        else cycle_loop f sigs (u64_wrap (time + Z.to_N dt)) vb3 e3 r2
      end
    end
  end.

(* all signals of a snapshot, in order *)
Fixpoint snapshot_signals (sigs : list ghw_sig) (n : nat) (idx : nat) (vb : vec_buffer) (e : encoder)
         (input : list byte) : outcome (option (vec_buffer * encoder * list byte)) :=
  match n with
  | O => Ok (Some (vb, e, input))
  | S k =>
    do x <- read_signal_value sigs idx vb e input;
    match x with
    | None => Ok None
    | Some (vb', e', r) => snapshot_signals sigs k (S idx) vb' e' r
    end
  end.

(* read_directory: every entry is a 4 byte section name and a position read with read_u32, which rejects
   values with the sign bit set *)
Fixpoint dir_entries_ok (big_endian : bool) (n : nat) (body : list byte) : bool :=
  match n with
  | O => true
  | S k => (read_int big_endian (firstn 4 (skipn 4 body)) <? 2147483648) && dir_entries_ok big_endian k (skipn 8 body)
  end.

(* read_signals: Ok None = an error (unexpected end of input, bad marker, ...) *)
Fixpoint sections (fuel : nat) (big_endian : bool) (sigs : list ghw_sig) (vb : vec_buffer) (e : encoder)
         (input : list byte) : outcome (option encoder) :=
  match fuel with
  | O => Ok None
  | S f =>
    if (length input <? 4)%nat then Ok None
    else
      let mark := firstn 4 input in
      let r := skipn 4 input in
      if mark_eq mark SNP then
        if (length r <? 12)%nat then Ok None
        else if negb (list_eqb (firstn 4 r) [0;0;0;0]) then Ok None
        else
          let t := read_int big_endian (firstn 8 (skipn 4 r)) in
          do e1 <- time_change lz_compress cap e t;
          do x <- snapshot_signals sigs (length sigs) 0 vb e1 (skipn 12 r);
          match x with
          | None => Ok None
          | Some (vb2, e2, r2) =>
            do '(vb3, e3) <- finish_time_step vb2 e2;
            if mark_eq (firstn 4 r2) ESN then sections f big_endian sigs vb3 e3 (skipn 4 r2) else Ok None
          end
      else if mark_eq mark CYC then
        if (length r <? 8)%nat then Ok None
        else
          let t := read_int big_endian (firstn 8 r) in
          do x <- cycle_loop (S (length r)) sigs t vb e (skipn 8 r);
          match x with
          | None => Ok None
          | Some (vb2, e2, r2) =>
            if mark_eq (firstn 4 r2) ECY then sections f big_endian sigs vb2 e2 (skipn 4 r2) else Ok None
          end
      else if mark_eq mark DIR then
        if (length r <? 8)%nat then Ok None
        else
          let n := read_int big_endian (firstn 4 (skipn 4 r)) in
          if 2147483648 <=? n then Ok None                        (* read_u32 of a negative i32 *)
          else
            let body := skipn 8 r in
            if N.of_nat (length body) <? n * 8 + 4 then Ok None       (* decided in N: n may be any u31 *)
            else
            let need := (N.to_nat n * 8)%nat in
            if negb (dir_entries_ok big_endian (N.to_nat n) body) then Ok None
            else if mark_eq (firstn 4 (skipn need body)) EOD
                 then sections f big_endian sigs vb e (skipn (need + 4) body) else Ok None
      else if mark_eq mark TAI then
        if (length r <? 8)%nat then Ok None else Ok (Some e)
      else Ok None
  end.

Definition read_signals (big_endian : bool) (tpes : list sig_enc) (sigs : list ghw_sig)
           (vectors : list (nat * nat * bool * nat)) (input : list byte) : outcome (option (list block * list N)) :=
  do vecs <- outcome_map vec_of vectors;
  do r <- sections (S (length input)) big_endian sigs (mk_vb vecs []) (enc_new tpes) input;
  match r with
  | None => Ok None
  | Some e => do x <- enc_finish lz_compress e; Ok (Some x)
  end.

End WithExternals.
