"""C12 - the same waveform loads identically from VCD, FST and GHW."""
import glob
import itertools
import os
from .. import core, gen, designs
from . import vcdfam, c11

PID = "C12"
LEVEL = "translation_validation"
RULE = ("(1) one abstract value history per variable is delivered through the three value paths - VCD text "
        "(Encoder::vcd_value_change), the FST signal writer (text values, widening on demand) and the GHW signal sections "
        "(per-bit records assembled by the VecBuffer) - each run on the real code and on its Gallina model; all observations "
        "must be equal to each other and to the meaning of the history; exhaustive over widths 1..24 x kind orders over "
        "{binary, nine-state}, random to width 130. (2) every corpus waveform that exists in two formats (36 VCD/FST pairs made "
        "by vcd2fst, the GHDL GHW/FST pair) is loaded from both files: same scope/variable tree (names, nesting, order, widths), "
        "same time table scaled by the timescale, same value at every time for every bit-vector and real variable. "
        "(3) random designs of the common subset (nested scopes, scalars and [n-1:0] vectors of widths 2..65 over all nine states, "
        "reals incl. +-0 and infinities, 32-bit integers, histories with redundant changes; scenarios: several vectors written "
        "in the same step, 4/2/9-state kind orders for every width residue, a vector idle for more than 16384 steps) are "
        "written as one VCD, one FST and one GHW file by vlib/filegen.py; the three loaded listings must all equal the listing "
        "computed from the design. Non-trivial: a history with >= 2 kinds or a pair with >= 2 variables; distinct histories / pairs / designs.")
ASSUMPTIONS = ["corpus twins were produced by third-party converters; three documented conversion artefacts are excluded "
               "(parameters without value in picorv32.vcd.fst, the scope named `$end` in verilator_empty_scope.vcd.fst, "
               "the additional `standard` package of the GHW file)"]
TRUSTED_BASE = ["Python comparison of the format independent listing (harness command wobs)", "Python VCD/FST/GHW file writers and expected listing (vlib/filegen.py, vlib/designs.py)"]

STD = c11.STD


def corpus_pairs(tier):
    pairs = []
    for f in sorted(glob.glob("/repo/wellen/inputs/**/*.vcd.fst", recursive=True)):
        v = f[:-4]
        if os.path.exists(v) and 0 < os.path.getsize(v) < (400000 if tier == "quick" else 5000000) \
                and "with_errors" not in v and "libsigrok" not in v and "sigmoid_tb" not in v \
                and "verilator_empty_scope" not in v:
            pairs.append((v, f))
    pairs.append(("/repo/wellen/inputs/ghdl/oscar/vhdl3.vcd", "/repo/wellen/inputs/ghdl/oscar/vhdl3.fst"))
    return pairs


def parse_wobs(o):
    parts = o.split(" ")
    ts = parts[0][3:]
    tt = [] if parts[1] == "tt=-" else [int(x, 16) for x in parts[1][3:].split(",")]
    items = []
    for p in parts[2:]:
        head, _, ch = p.partition("=")
        items.append((head, ch))
    return ts, tt, items


def scale(ts):
    if ts == "~" or "?" in ts:
        return None
    f, e = ts.split("e")
    return int(f), int(e)


def final_values(ch):
    """value at every time: the last change at each time"""
    out = {}
    if ch in ("", "-"):
        return out
    for e in ch.split(","):
        t, k, v = e.split(":", 2)
        out[int(t, 16)] = (k, v)
    return out


def compare_pair(a, b, oa, ob, skip_params=False):
    if not oa.startswith("ts=") or not ob.startswith("ts="):
        return "one of the files does not load: %s / %s" % (oa[:40], ob[:40])
    ta, tta, ia = parse_wobs(oa)
    tb, ttb, ib = parse_wobs(ob)
    sa, sb = scale(ta), scale(tb)
    if sa and sb:
        # same time table up to the timescales: compare in units of 10^min exponent
        m = min(sa[1], sb[1])
        xa = [t * sa[0] * 10 ** (sa[1] - m) for t in tta]
        xb = [t * sb[0] * 10 ** (sb[1] - m) for t in ttb]
        if xa != xb:
            return "time tables differ (%d vs %d entries)" % (len(xa), len(xb))
        fa, fb = sa[0] * 10 ** (sa[1] - m), sb[0] * 10 ** (sb[1] - m)
    else:
        if tta != ttb:
            return "time tables differ"
        fa = fb = 1
    ha = [h for h, _ in ia]
    hb = [h for h, _ in ib]
    if ha != hb:
        k = next((j for j, (x, y) in enumerate(zip(ha, hb)) if x != y), min(len(ha), len(hb)))
        return "trees differ at item %d: %s vs %s" % (k, ha[k] if k < len(ha) else None, hb[k] if k < len(hb) else None)
    for (h, ca), (_, cb) in zip(ia, ib):
        if ":V:" not in h or h.endswith(":s"):
            continue
        va = {t * fa: v for t, v in final_values(ca).items()}
        vb = {t * fb: v for t, v in final_values(cb).items()}
        if skip_params and not vb and len(va) <= 1:
            continue
        # value at every time of either list
        ka, kb = sorted(va), sorted(vb)
        cur_a = cur_b = None
        for t in sorted(set(ka) | set(kb)):
            if t in va:
                cur_a = va[t]
            if t in vb:
                cur_b = vb[t]
            if cur_a != cur_b:
                return "variable %s differs at time %d: %s vs %s" % (h, t, str(cur_a)[:40], str(cur_b)[:40])
    return None


def three_path_cases(rng, width, kinds, nvals=None):
    """one bit-vector variable, values of the given kinds (2 or 9), through vcd / fst / ghw value paths"""
    vals = []
    for k in kinds:
        alpha = "01" if k == 2 else "01xzhuwl-"
        v = "".join(rng.choice(alpha) for _ in range(width))
        if k == 9:
            pos = rng.randrange(width)
            v = v[:pos] + rng.choice("uwlh-xz") + v[pos + 1:]
        vals.append(v)
    steps = [(i, [(0, v)]) for i, v in enumerate(vals)]
    sig = gen.Sig("b", width)
    table, out = gen.expected_obs([sig], steps, False)
    exp_sig = ",".join("%x:%s:%s" % e for e in out[0]) or "-"
    vcd_line = gen.enc_case(rng, [sig], steps)
    fst_line = "fstw b%d %s" % (width, ",".join("%x:%s" % (i, v.encode().hex()) for i, v in enumerate(vals)))
    # GHW: a std_logic vector; snapshot with the first value, then one cycle section per further value
    import struct
    data = bytearray(b"SNP\x00\x00\x00\x00\x00" + struct.pack("<q", 0))
    for c in vals[0]:
        data.append(STD.index(c))
    data += b"ESN\x00"
    prev = vals[0]
    for i, v in enumerate(vals[1:], 1):
        data += b"CYC\x00" + struct.pack("<q", i)
        pos = 0
        for k, (p, q) in enumerate(zip(prev, v)):
            if p != q or rng.random() < 0.2:
                data += c11.leb(k + 1 - pos)
                pos = k + 1
                data.append(STD.index(q))
        data += c11.leb(0) + c11.sleb(-1) + b"ECY\x00"
        prev = v
    data += b"TAI\x00" + b"\x00" * 8
    if width == 1:
        ghw_line = "ghws l b1 0:0:~ - %s" % bytes(data).hex()
    else:
        ghw_line = "ghws l b%d %s 1:%d:0:0 %s" % (width, ",".join("1:0:0" for _ in range(width)), width, bytes(data).hex())
    return vcd_line, fst_line, ghw_line, exp_sig


def run(res, rng, tier, model_ok, replay=None):
    if replay and designs.replay_filecase(res, replay, "c12f"):
        return
    if replay:
        line = replay.get("case") or replay["broken_correspondence"]["case"]
        vcdfam.run_both(res, [{"line": line}], "c12", model_ok)
        return
    cases = []
    groups = []
    combos = []
    for w in range(1, 25 if tier == "quick" else 41):
        for n in (1, 2, 3):
            for kinds in itertools.product((2, 9), repeat=n):
                combos.append((w, kinds))
    for _ in range(150 if tier == "quick" else 3000):
        combos.append((rng.choice([25, 31, 32, 33, 63, 64, 65, 100, 127, 128, 130]), tuple(rng.choice((2, 9)) for _ in range(rng.randint(1, 5)))))
    for w, kinds in combos:
        v, f, g, exp = three_path_cases(rng, w, kinds)
        start = len(cases)
        cases.append({"line": v, "klass": "path-vcd"})
        cases.append({"line": f, "klass": "path-fst"})
        cases.append({"line": g, "klass": "path-ghw"})
        groups.append((start, exp, (w, kinds)))
    res.exhaustive = True
    impl, _ = vcdfam.run_both(res, cases, "c12", model_ok)
    for start, exp, key in groups:
        obs = []
        for k in range(3):
            o = impl[start + k]
            part = [p for p in o.split(" ") if p.startswith("s0=")]
            obs.append(part[0][3:] if part else o)
        if not (obs[0] == obs[1] == obs[2] == exp):
            res.violations.append((cases[start]["line"][:300] + " | " + cases[start + 1]["line"][:200] + " | " + cases[start + 2]["line"][:200],
                                   "vcd=%s fst=%s ghw=%s" % tuple(o[:200] for o in obs), exp[:300],
                                   "the three value paths report different signals for the same history"))
        elif len(set(key[1])) >= 2:
            res.nontrivial.add(key)
    # corpus twins
    pairs = corpus_pairs(tier)
    lines = []
    for a, b in pairs:
        lines += ["wobs " + a, "wobs " + b]
    outs = core.run_cases(core.WV_DEBUG, lines, "c12w", timeout=1500)
    for i, (a, b) in enumerate(pairs):
        res.evaluations += 2
        res.distribution["corpus-twin"] = res.distribution.get("corpus-twin", 0) + 1
        why = compare_pair(a, b, outs[2 * i], outs[2 * i + 1], skip_params=("picorv32" in a))
        if why:
            res.violations.append(("wobs %s | wobs %s" % (a, b), why, "equal observations", "the two formats of one waveform load differently"))
        else:
            res.nontrivial.add(a)
    res.samples = [cases[0]["line"][:200], cases[1]["line"][:200], cases[2]["line"][:200], "wobs " + pairs[0][0]]
    # (3) one design written as a VCD, an FST and a GHW file: all three listings must equal the listing computed from the design
    designs.run_file_cases(res, designs.tri_cases(rng, tier), "c12f", timeout=1500)
    # (4) name shapes: variables whose names carry array groups (`mem [0] [7:0]`, `mem[0] [7:0]`, `cube [1] [2] [3:0]`,
    # with and without separating spaces) written as a VCD and an FST file: the two loaded listings must agree
    # (which array scopes such names open is property C09; here the two formats must decide alike)
    d = designs.prepare_dir("c12n")
    lines, keys = [], []
    for k in range(24 if tier == "quick" else 300):
        used = set()
        vs = []
        for _ in range(rng.randint(1, 5)):
            base = designs.fresh(rng, used)
            groups = "".join(rng.choice([" [%d]", "[%d]"]) % rng.randrange(4) for _ in range(rng.choice([0, 1, 1, 2, 3])))
            w = rng.choice([1, 4, 8])
            vs.append(designs.fg.Var(base + groups, "logic", rng=(w - 1, 0) if w > 1 or rng.random() < 0.5 else None))
        items = [designs.fg.Scope("top", vs, kind="module")]
        designs.fill_history(rng, vs, designs.rand_times(rng, 4))
        spec = designs._js(designs.to_spec(items))
        for fmt in ("vcd", "fst"):
            ln, _ = designs.write_case(d, 2 * k + (fmt == "fst"), {"fmt": fmt, "spec": spec, "opts": {}})
            lines.append(ln)
        keys.append(("names", k) if any("[" in v.name for v in vs) else None)
    outs = core.run_cases(core.WV_DEBUG, lines, "c12n", timeout=600)
    for k, key in enumerate(keys):
        res.evaluations += 2
        res.distribution["name-shape-twin"] = res.distribution.get("name-shape-twin", 0) + 1
        why = compare_pair(lines[2 * k], lines[2 * k + 1], outs[2 * k], outs[2 * k + 1])
        if why:
            import shutil as _sh
            keep = os.path.join(core.CACHE, "replay", "c12-names-%d" % k)
            os.makedirs(keep, exist_ok=True)
            for ln in (lines[2 * k], lines[2 * k + 1]):
                _sh.copy(ln.split(" ")[1], keep)
            res.violations.append(("%s | %s (files kept in %s)" % (lines[2 * k], lines[2 * k + 1], keep), why + " :: " + outs[2 * k][:400] + " <> " + outs[2 * k + 1][:400],
                                   "equal observations", "a VCD and an FST file declaring the same variable names load with different trees"))
        elif key is not None:
            res.nontrivial.add(key)
    import shutil
    shutil.rmtree(d, ignore_errors=True)


def check_known(entry):
    return False
