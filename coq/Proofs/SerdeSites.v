(* C17: the round trip for the shapes translated from the derive sites of the current source
   (Generated/SerdeSchema.v).  Everything here is re-checked whenever the translation changes. *)
From WV Require Import Model.Base Model.Serde Generated.SerdeSchema Proofs.SerdeProofs.
Open Scope Z_scope.

(* no derive site has an Option directly inside an Option, a map with a non-integer key or two variants of one name *)
Lemma serde_types_ok : forallb (fun p : list byte * ty => ty_okb (snd p)) serde_types = true.
Proof. vm_compute. reflexivity. Qed.

Theorem derive_sites_roundtrip :
  forall name t, In (name, t) serde_types -> forall v j, ser t v = Some j -> de t j = Some v.
Proof.
  intros name t Hin. apply de_ser.
  pose proof serde_types_ok as H. rewrite forallb_forall in H. exact (H _ Hin).
Qed.

Theorem derive_sites_reserialise :
  forall name t, In (name, t) serde_types -> forall v j, ser t v = Some j -> reserialises t j = Some j.
Proof.
  intros name t Hin. apply reserialises_image.
  pose proof serde_types_ok as H. rewrite forallb_forall in H. exact (H _ Hin).
Qed.

(* non-vacuity: every translated shape has a value that serde writes (the last variant of every enum, both members of
   every sequence and map present) and, by the theorem, reads back *)
Lemma serde_types_inhabited :
  forallb (fun p : list byte * ty =>
    match ser (snd p) (inhabitant (snd p)) with
    | Some j => match de (snd p) j with Some _ => true | None => false end
    | None => false
    end) serde_types = true.
Proof. vm_compute. reflexivity. Qed.

(* the two types the property names are among the sites *)
Lemma roots_present :
  existsb (fun p : list byte * ty => bytes_eqb (fst p) (str [72; 105; 101; 114; 97; 114; 99; 104; 121]%N)) serde_types = true /\
  existsb (fun p : list byte * ty => bytes_eqb (fst p) (str [83; 105; 103; 110; 97; 108]%N)) serde_types = true.
Proof. split; vm_compute; reflexivity. Qed.
