(* Reals and strings through the whole store (wavemem.rs Encoder -> blocks -> Reader::load_signal -> iter_changes):
   the same end-to-end statement as Proofs/EncoderProofs.v storage_transparent, for real-valued and string-valued
   signals.  `str` selects the kind: false = real (EncReal, 8 little endian bytes per value), true = string
   (EncString, length-prefixed bytes).  The block bookkeeping (blk, blocks_abs, blocks_len, region_found,
   region_decodes, time table invariant) is shared with the bit-vector development: a real / string entry
   (delta, payload) is carried in a `sentry` as (delta, Two, payload). *)
From Coq Require Import Lia ZifyBool ZifyNat ZifyN.
From WV Require Import Model.Base Generated.Consts Model.Bits Model.Leb128 Model.WaveMem
  Spec.TimeSpec Spec.StoreSpec
  Proofs.BitsProofs Proofs.LebProofs Proofs.WaveMemProofs Proofs.TimeTableProofs Proofs.StoreProofs
  Proofs.EncoderProofs Proofs.RealStringProofs Proofs.CanonProofs.
Ltac Zify.zify_post_hook ::= Z.div_mod_to_equations.
Open Scope N_scope.
Arguments N.add : simpl never. Arguments N.mul : simpl never. Arguments N.div : simpl never.
Arguments N.modulo : simpl never. Arguments N.pow : simpl never. Arguments N.lor : simpl never.
Arguments N.sub : simpl never.

Notation gent := (N * list byte)%type.

Section RS.

Definition rs_tpe (str : bool) : sig_enc := if str then EncString else EncReal.
Definition genc (str : bool) (e : gent) : list byte := if str then senc e else renc e.
Definition gstream (str : bool) (es : list gent) : list byte := concat (map (genc str) es).
Definition gwf (str : bool) (e : gent) : Prop := if str then swf e else rwf e.
Definition grep (str : bool) (acc : load_acc) (canon : list (N * list byte)) : Prop :=
  if str then str_rep acc canon else acc_rep 8 acc canon.

Definition unemb (e : sentry) : gent := let '(d, _, p) := e in (d, p).
Definition emb (e : gent) : sentry := (fst e, Two, snd e).

Lemma unemb_emb e : unemb (emb e) = e.
Proof. now destruct e. Qed.

Lemma genc_nonempty (str : bool) e : (genc str) e <> [].
Proof.
  unfold genc, senc, renc. destruct str; intros H; apply app_eq_nil in H as [H _]; now apply leb_write_nonempty in H.
Qed.

Lemma gstream_nil_iff (str : bool) es : (gstream str) es = [] <-> es = [].
Proof.
  split; [|now intros ->]. destruct es as [|e r]; [reflexivity|].
  unfold gstream. cbn [map concat]. intros H. apply app_eq_nil in H as [H _]. now apply (genc_nonempty str) in H.
Qed.

Lemma gstream_length (str : bool) es : (length es <= length ((gstream str) es))%nat.
Proof.
  induction es as [|e r IH]; [cbn; lia|]. unfold gstream in *. cbn [map concat length].
  rewrite app_length. pose proof (genc_nonempty str e). destruct ((genc str) e); [congruence|]. cbn [length]. lia.
Qed.

Lemma gstream_app (str : bool) es e : (gstream str) (es ++ [e]) = (gstream str) es ++ (genc str) e.
Proof. unfold gstream. rewrite map_app, concat_app. cbn [map concat]. now rewrite app_nil_r. Qed.

(* one block's stream through the loader of this kind *)
Lemma load_one (str : bool) (es : list gent) off acc canon mx : Forall (gwf str) es -> (grep str) acc canon ->
  exists acc',
    (match (rs_tpe str) with
     | EncString => load_strings (S (length ((gstream str) es))) ((gstream str) es) off acc
     | EncBits bits => load_fixed (S (length ((gstream str) es))) ((gstream str) es) off bits mx acc
     | EncReal => load_reals (S (length ((gstream str) es))) ((gstream str) es) off acc
     end) = Ok acc' /\ (grep str) acc' (rspec es off canon).
Proof.
  intros Hwf Hrep. pose proof (gstream_length str es) as Hl. unfold rs_tpe, gwf, grep in *.
  assert (Hs : (gstream str) es = if str then sstream es else rstream es).
  { unfold gstream, genc, sstream, rstream. destruct str; reflexivity. }
  destruct str; rewrite Hs in *; clear Hs.
  - destruct (load_strings_stream es (S (length (sstream es))) off acc canon Hwf Hrep ltac:(lia)) as (acc' & H1 & H2 & _).
    exists acc'. split; assumption.
  - destruct (load_reals_stream es (S (length (rstream es))) off acc canon Hwf Hrep ltac:(lia)) as (acc' & H1 & H2 & _).
    exists acc'. split; assumption.
Qed.

Variable lz_compress : list byte -> list byte.
Variable lz_decompress : list byte -> nat -> option (list byte).
Hypothesis lz_ok : forall d n, (length d <= n)%nat -> lz_decompress (lz_compress d) n = Some d.

Definition gblk_ok (str : bool) (id : nat) (x : blk) : Prop :=
  let '(sigs, st, ttb, se, es) := x in
  nth_error sigs id = Some se /\ se_data se = (gstream str) (map unemb es) /\
  Forall (gwf str) (map unemb es) /\ N.of_nat (length (se_data se)) < 4294967264.

Fixpoint gblks_spec (str : bool) (bl : list blk) (off : N) (canon : list (N * list byte)) : list (N * list byte) :=
  match bl with
  | [] => canon
  | (_, _, ttb, _, es) :: r =>
    (gblks_spec str) r (u32_wrap (off + N.of_nat (length ttb))) (rspec (map unemb es) off canon)
  end.

Definition gmeta_of (str : bool) (x : blk) (m : N * list byte * enc_meta) : Prop :=
  let '(_, _, _, se, es) := x in
  (match em_comp (snd m) with
   | Compressed ulen => of_option (lz_decompress (snd (fst m)) (N.to_nat ulen))
   | Uncompressed => Ok (snd (fst m))
   end) = Ok ((gstream str) (map unemb es)).

Fixpoint gmetas_rel (str : bool) (bl : list blk) (off : N) (ms : list (N * list byte * enc_meta)) : Prop :=
  match bl with
  | [] => ms = []
  | ((_, _, ttb, _, es) as x) :: r =>
    match es with
    | [] => (gmetas_rel str) r (u32_wrap (off + N.of_nat (length ttb))) ms
    | _ => match ms with
           | [] => False
           | m :: ms' => fst (fst m) = off /\ (gmeta_of str) x m /\ (gmetas_rel str) r (u32_wrap (off + N.of_nat (length ttb))) ms'
           end
    end
  end.

Lemma gcollect_meta_spec (str : bool) id : forall bl off, Forall ((gblk_ok str) id) bl ->
  exists ms, collect_meta (map (blk_block lz_compress) bl) id off = Ok ms /\ (gmetas_rel str) bl off ms.
Proof.
  induction bl as [|x r IH]; intros off Hok.
  - exists []. split; reflexivity.
  - apply Forall_cons_iff in Hok as [Hx Hr]. destruct x as [[[[sigs st] ttb] se] es].
    destruct Hx as (Hn & Hd & Hwf & Hlen).
    cbn [map collect_meta blk_block]. unfold block_of.
    pose proof (region_found lz_compress lz_decompress sigs id se st ttb Hn) as Hrf.
    destruct (finish_signals lz_compress sigs []) as [[sigs' offs] data].
    cbn [b_tt]. destruct (IH (u32_wrap (off + N.of_nat (length ttb))) Hr) as (ms & Hcm & Hrel).
    destruct es as [|e0 er].
    + assert (Hreg : region lz_compress se = []).
      { unfold region, se_finish. rewrite Hd. reflexivity. }
      rewrite Hreg in Hrf. rewrite Hrf. cbn [bind]. rewrite Hcm. cbn [bind].
      exists ms. split; [reflexivity|exact Hrel].
    + assert (Hne : se_data se <> []).
      { rewrite Hd. intros E. apply gstream_nil_iff in E. discriminate. }
      destruct (region_decodes lz_compress lz_decompress lz_ok se Hne Hlen) as (meta & payload & Hlr & Hmd & Hmax & Hdec).
      destruct (region lz_compress se) as [|b0 rr] eqn:Er; [cbn in Hlr; discriminate|].
      destruct Hrf as (start & len & Hgo & Hfs). rewrite Hgo. cbn [bind]. rewrite Hcm. cbn [bind].
      cbn [b_data]. rewrite Hfs, Hlr, Hmd. cbn [bind].
      eexists. split; [reflexivity|]. cbn [gmetas_rel fst snd gmeta_of]. repeat split; try assumption.
      now rewrite <- Hd.
Qed.

Lemma gload_go_spec (str : bool) mx : forall bl off ms acc canon,
  (gmetas_rel str) bl off ms ->
  Forall (fun x : blk => let '(_, _, _, _, es) := x in Forall (gwf str) (map unemb es)) bl ->
  (grep str) acc canon ->
  exists acc', load_go lz_decompress (rs_tpe str) mx ms acc = Ok acc' /\ (grep str) acc' ((gblks_spec str) bl off canon).
Proof.
  induction bl as [|x r IH]; intros off ms acc canon Hrel Hwf Hrep.
  - cbn in Hrel. subst ms. exists acc. split; [reflexivity|exact Hrep].
  - apply Forall_cons_iff in Hwf as [Hx Hr]. destruct x as [[[[sigs st] ttb] se] es].
    cbn [gmetas_rel gblks_spec] in *.
    destruct es as [|e0 er].
    + cbn [map rspec]. now apply IH.
    + destruct ms as [|m ms']; [contradiction|]. destruct Hrel as (Hoff & Hdec & Hrel').
      destruct m as [[o payload] meta]. cbn [fst snd gmeta_of] in *. subst o.
      cbn [load_go]. rewrite Hdec. cbn [bind].
      destruct (load_one str (map unemb (e0 :: er)) off acc canon mx Hx Hrep) as (acc1 & H1 & H2).
      rewrite H1. cbn [bind].
      destruct (IH _ ms' acc1 _ Hrel' Hr H2) as (acc' & Ha & Hb').
      exists acc'. split; assumption.
Qed.

(* Reader::load_signal over any list of finished blocks, for a real or string signal *)
Theorem gload_signal_blocks (str : bool) id bl : Forall ((gblk_ok str) id) bl ->
  load_signal lz_decompress (map (blk_block lz_compress) bl) id (rs_tpe str)
  = Ok (mk_signal (map fst ((gblks_spec str) bl 0 []))
                  (if str then SigStrings (map snd ((gblks_spec str) bl 0 []))
                   else SigReal (concat (map snd ((gblks_spec str) bl 0 []))))).
Proof.
  intros Hok. destruct (gcollect_meta_spec str id bl 0 Hok) as (ms & Hcm & Hrel).
  unfold load_signal. rewrite Hcm. cbn [bind].
  assert (Hwf : Forall (fun x : blk => let '(_, _, _, _, es) := x in Forall (gwf str) (map unemb es)) bl).
  { rewrite Forall_forall in *. intros x Hin. specialize (Hok x Hin).
    destruct x as [[[[sigs st] ttb] se] es]. now destruct Hok as (_ & _ & Hw & _). }
  destruct (gload_go_spec str (max_states_of ms) bl 0 ms (mk_acc [] [] []) [] Hrel Hwf) as (acc & Hgo & Hrep).
  { unfold grep, str_rep, acc_rep. destruct str; repeat split; constructor. }
  rewrite Hgo. cbn [bind]. unfold grep, rs_tpe, str_rep, acc_rep in *. destruct str.
  - destruct Hrep as [Hi Hs]. now rewrite Hi, Hs.
  - destruct Hrep as (Hi & Hb & _). now rewrite Hi, Hb.
Qed.

End RS.

(* ------------------------------------------------------------------ one value change *)

Lemma add_vcd_change_rs parse_f64 (str : bool) se t value se' : se_tpe se = rs_tpe str ->
  add_vcd_change parse_f64 se t value = Ok se' ->
  exists payload,
    se_prev se <= t /\
    se' = mk_se (se_data se ++ genc str (t - se_prev se, payload)) (se_tpe se) t (se_max se) /\
    (if str then exists c, value = c :: payload
     else exists c rest, value = c :: rest /\ parse_f64 rest = Some payload).
Proof.
  intros Ht H. unfold add_vcd_change, nsub in H. rewrite Ht in H.
  destruct (N.leb_spec (se_prev se) t) as [Hle|]; [|discriminate]. cbn [bind] in H.
  unfold rs_tpe, genc, senc, renc in *. destruct str.
  - destruct value as [|c r]; [discriminate|]. destruct ((c =? 115) || (c =? 83)); [|discriminate].
    inversion H; subst se'. exists r. split; [exact Hle|]. split; [|now exists c]. cbn [fst snd]. now rewrite Ht.
  - destruct value as [|c r]; [discriminate|]. destruct ((c =? 114) || (c =? 82)); [|discriminate].
    destruct (parse_f64 r) as [le|] eqn:Ep; [|discriminate].
    inversion H; subst se'. exists le. split; [exact Hle|]. split; [|now exists c, r]. cbn [fst snd]. now rewrite Ht.
Qed.

Lemma genc_length (str : bool) e : (length (genc str e) <= 20 + length (snd e))%nat.
Proof.
  unfold genc, senc, renc. pose proof (leb_write_length (fst e)). pose proof (leb_write_length (N.of_nat (length (snd e)))).
  destruct str; rewrite !app_length; lia.
Qed.

(* ------------------------------------------------------------------ the encoder invariant *)

Section GEnc.
Variable parse_f64 : list byte -> option (list byte).
(* A-f64: parse_f64 stands for str::parse::<f64> followed by to_le_bytes, which yields 8 bytes *)
Hypothesis parse_f64_len : forall r le, parse_f64 r = Some le -> length le = 8%nat.
Variable lz_compress : list byte -> list byte.
Variable cap : N.
Hypothesis cap_pos : 1 <= cap.
Hypothesis cap_u16 : cap <= 65536.
Variable id : nat.

Notation time_change := (time_change lz_compress cap).
Notation run_op := (run_op parse_f64 lz_compress cap).
Notation run_ops := (run_ops parse_f64 lz_compress cap).
Notation finish_block := (finish_block lz_compress).
Notation enc_finish := (enc_finish lz_compress).

(* an abstract entry: absolute time-table index and payload (8 bytes of a double / the bytes of a string) *)
Fixpoint gcost (R : list gent) : N := match R with [] => 0 | a :: r => gcost r + 20 + N.of_nat (length (snd a)) end.

Lemma gcost_app R1 R2 : gcost (R1 ++ R2) = gcost R1 + gcost R2.
Proof. induction R1 as [|a r IH]; cbn [app gcost]; [lia|]. rewrite IH. lia. Qed.

Definition gdecodes (str : bool) (a : gent) (r : N * rs_val) : Prop :=
  fst a = fst r /\
  match snd r with
  | PText v => if str then exists c, v = c :: snd a
               else exists c rest, v = c :: rest /\ parse_f64 rest = Some (snd a)
  | PReal le => str = false /\ snd a = le
  end.

Definition payload_ok (str : bool) (a : gent) : Prop :=
  if str then N.of_nat (length (snd a)) < 2 ^ 64 else length (snd a) = 8%nat.

Record gsinv (str : bool) (e : encoder) (bl : list blk) (es : list sentry) (R : list gent) : Prop := {
  gi_inv : inv e;
  gi_cap : e_len e <= cap;
  gi_blocks : e_blocks e = map (blk_block lz_compress) bl;
  gi_ok : Forall (gblk_ok str id) bl;
  gi_idle : e_ttr e = [] -> es = [];
  gi_sig : exists se, nth_error (e_signals e) id = Some se /\ se_tpe se = rs_tpe str /\
             se_data se = gstream str (map unemb es) /\ Forall (gwf str) (map unemb es) /\
             se_prev se = sum_deltas es /\
             N.of_nat (length (se_data se)) <= gcost (map unemb es);
  gi_count : gcost (map unemb es) <= gcost R;
  gi_abs : map emb R = blocks_abs bl 0 ++ abs_from (blocks_len bl) es;
  gi_rec : Forall (payload_ok str) R
}.

Lemma gtable_len str e bl es R : gsinv str e bl es R -> N.of_nat (length (table e)) = blocks_len bl + e_len e.
Proof.
  intros H. unfold table. rewrite app_length, rev_length, (gi_blocks _ _ _ _ _ H).
  pose proof (flat_tt_len lz_compress bl). rewrite (inv_len _ (gi_inv _ _ _ _ _ H)). lia.
Qed.

Lemma gwf_of str d p : d < 65536 -> payload_ok str (d, p) -> gwf str (d, p).
Proof.
  unfold payload_ok, gwf, swf, rwf. cbn [fst snd]. assert (2 ^ 32 = 4294967296) by reflexivity.
  destruct str; intros; split; try assumption; lia.
Qed.

(* appending one entry with absolute index (blocks_len bl + (e_len e - 1)) and payload p *)
Lemma gappend_entry str e bl es R se sei' i p ttr sk :
  gsinv str e bl es R -> ttr = e_ttr e -> e_ttr e <> [] -> nth_error (e_signals e) id = Some se -> i = id ->
  se_prev se <= e_len e - 1 ->
  sei' = mk_se (se_data se ++ genc str (e_len e - 1 - se_prev se, p)) (se_tpe se) (e_len e - 1) (se_max se) ->
  payload_ok str (blocks_len bl + (e_len e - 1), p) ->
  gsinv str (mk_enc ttr (e_len e) (list_update (e_signals e) i sei') true sk (e_blocks e))
        bl (es ++ [(e_len e - 1 - se_prev se, Two, p)]) (R ++ [(blocks_len bl + (e_len e - 1), p)]).
Proof.
  intros Hs -> Hne Hn -> Hle -> Hp.
  destruct Hs as [Hinv Hcap Hbl Hok Hidle (se0 & Hn0 & Htp & Hd & Hwf & Hprev & Hsz) Hcnt Habs Hrec].
  rewrite Hn in Hn0. inversion Hn0; subst se0; clear Hn0.
  pose proof (inv_len _ Hinv) as Hlen.
  assert (Hpos : 1 <= e_len e) by (destruct (e_ttr e); [congruence|cbn [length] in Hlen; lia]).
  apply Build_gsinv; cbn [e_len e_ttr e_blocks e_signals]; auto.
  - destruct Hinv as [H1 H2 H3 H4]. constructor; cbn [e_len e_ttr e_new e_blocks]; auto.
    intros E. congruence.
  - intros E. congruence.
  - eexists. split; [eapply nth_error_update_same; eassumption|]. cbn [se_tpe se_data se_prev se_max].
    split; [exact Htp|]. rewrite map_app. cbn [map unemb]. split; [now rewrite gstream_app, Hd|].
    split.
    { apply Forall_app. split; [exact Hwf|]. constructor; [|constructor]. apply gwf_of; [lia|].
      unfold payload_ok in *. cbn [snd] in *. exact Hp. }
    split; [rewrite sum_deltas_app; cbn [fst]; lia|].
    rewrite app_length, gcost_app. pose proof (genc_length str (e_len e - 1 - se_prev se, p)). cbn [snd] in *.
    cbn [gcost snd]. lia.
  - rewrite map_app, !gcost_app. cbn [map unemb gcost snd]. lia.
  - rewrite map_app, Habs, abs_from_app, <- app_assoc. cbn [map emb fst snd].
    replace (blocks_len bl + sum_deltas es + (e_len e - 1 - se_prev se)) with (blocks_len bl + (e_len e - 1))
      by (rewrite <- Hprev; lia). reflexivity.
  - apply Forall_app. split; [assumption|]. constructor; [exact Hp|constructor].
Qed.

Lemma gkeep str e bl es R e' : gsinv str e bl es R ->
  inv e' -> e_len e' = e_len e -> e_ttr e' = e_ttr e -> e_blocks e' = e_blocks e ->
  (forall se, nth_error (e_signals e) id = Some se -> nth_error (e_signals e') id = Some se) ->
  gsinv str e' bl es R.
Proof.
  intros [Hinv Hcap Hbl Hok Hidle (se & Hn & Hrest) Hcnt Habs Hrec] Hinv' Hl Ht Hb Hsig.
  apply Build_gsinv; try assumption.
  - now rewrite Hl.
  - now rewrite Hb.
  - rewrite Ht. exact Hidle.
  - exists se. split; [now apply Hsig|exact Hrest].
Qed.

(* a VCD value change of the signal appends exactly one abstract entry (or nothing while skipping) *)
Lemma gvcd_step str e bl es R i value e' : gsinv str e bl es R ->
  (i = id -> str = true -> N.of_nat (length value) < 2 ^ 64) ->
  vcd_value_change parse_f64 e i value = Ok e' ->
  exists es' R',
    gsinv str e' bl es' (R ++ R') /\ e_skip e' = e_skip e /\ table e' = table e /\
    Forall2 (gdecodes str) R' (if e_skip e || negb (Nat.eqb i id) then []
                               else [(N.of_nat (length (table e)) - 1, PText value)]) /\
    gcost R' <= (if Nat.eqb i id then 28 + N.of_nat (length value) else 0).
Proof.
  intros Hs Hlen64 H. pose proof (gtable_len _ _ _ _ _ Hs) as Htl. pose proof Hs as Hs0.
  destruct Hs as [Hinv Hcap Hbl Hok Hidle (se & Hn & Htp & Hd & Hwf & Hprev & Hsz) Hcnt Habs Hrec].
  unfold vcd_value_change in H.
  destruct (with_signal_inv e i _ e' Hinv H) as [Hinv' Htab].
  unfold with_signal in H. destruct (e_ttr e) as [|t0 tr] eqn:Ettr; [discriminate|].
  destruct (e_skip e) eqn:Esk.
  - inversion H; subst e'. exists es, []. rewrite app_nil_r. cbn [orb].
    split; [exact Hs0|]. split; [exact Esk|]. split; [reflexivity|]. split; [constructor|]. cbn [gcost]. destruct (Nat.eqb i id); lia.
  - destruct (nth_error (e_signals e) i) as [sei|] eqn:Eni; [|discriminate]. cbn [of_option bind] in H.
    destruct (add_vcd_change parse_f64 sei (u16_wrap (e_len e - 1)) value) as [sei'| |] eqn:Eadd; try discriminate.
    cbn [bind] in H. inversion H; subst e'; clear H. cbn [e_skip orb].
    destruct (Nat.eqb_spec i id) as [->|Hne]; cbn [negb].
    + rewrite Hn in Eni. inversion Eni; subst sei; clear Eni.
      pose proof (inv_len _ Hinv) as Hlen. rewrite Ettr in Hlen. cbn [length] in Hlen.
      assert (Hidx : u16_wrap (e_len e - 1) = e_len e - 1) by (unfold u16_wrap; rewrite N.mod_small; lia).
      rewrite Hidx in *.
      destruct (add_vcd_change_rs parse_f64 str se _ value sei' Htp Eadd) as (p & Hle & Hse' & Hval).
      assert (Hp : payload_ok str (blocks_len bl + (e_len e - 1), p) /\ N.of_nat (length p) <= 8 + N.of_nat (length value)).
      { unfold payload_ok. cbn [snd]. destruct str.
        - destruct Hval as (c & ->). specialize (Hlen64 eq_refl eq_refl). cbn [length] in *. split; lia.
        - destruct Hval as (c & rest & -> & Hpf). rewrite (parse_f64_len _ _ Hpf). split; [reflexivity|lia]. }
      destruct Hp as [Hp Hpl].
      exists (es ++ [(e_len e - 1 - se_prev se, Two, p)]), [(blocks_len bl + (e_len e - 1), p)].
      split.
      { eapply gappend_entry; try eassumption; try reflexivity; [now rewrite Ettr|rewrite Ettr; discriminate]. }
      split; [reflexivity|]. split; [exact Htab|]. split.
      * constructor; [|constructor]. unfold gdecodes. cbn [fst snd]. split; [lia|exact Hval].
      * cbn [gcost snd]. lia.
    + exists es, []. rewrite app_nil_r.
      split; [|split; [reflexivity|split; [exact Htab|split; [constructor|cbn [gcost]; lia]]]].
      eapply gkeep; [exact Hs0|exact Hinv'|reflexivity|cbn [e_ttr]; now rewrite Ettr|reflexivity|].
      intros se0 Hse0. cbn [e_signals]. now rewrite nth_error_update_other by assumption.
Qed.

(* a double handed over as 8 bytes (GHW, FST) *)
Lemma greal_step str e bl es R i le e' : gsinv str e bl es R ->
  (i = id -> str = false /\ length le = 8%nat) ->
  real_change e i le = Ok e' ->
  exists es' R',
    gsinv str e' bl es' (R ++ R') /\ e_skip e' = e_skip e /\ table e' = table e /\
    Forall2 (gdecodes str) R' (if e_skip e || negb (Nat.eqb i id) then []
                               else [(N.of_nat (length (table e)) - 1, PReal le)]) /\
    gcost R' <= (if Nat.eqb i id then 28 + N.of_nat (length le) else 0).
Proof.
  intros Hs Hop H. pose proof (gtable_len _ _ _ _ _ Hs) as Htl. pose proof Hs as Hs0.
  destruct Hs as [Hinv Hcap Hbl Hok Hidle (se & Hn & Htp & Hd & Hwf & Hprev & Hsz) Hcnt Habs Hrec].
  unfold real_change in H.
  destruct (with_signal_inv e i _ e' Hinv H) as [Hinv' Htab].
  unfold with_signal in H. destruct (e_ttr e) as [|t0 tr] eqn:Ettr; [discriminate|].
  destruct (e_skip e) eqn:Esk.
  - inversion H; subst e'. exists es, []. rewrite app_nil_r. cbn [orb].
    split; [exact Hs0|]. split; [exact Esk|]. split; [reflexivity|]. split; [constructor|]. cbn [gcost]. destruct (Nat.eqb i id); lia.
  - destruct (nth_error (e_signals e) i) as [sei|] eqn:Eni; [|discriminate]. cbn [of_option bind] in H.
    destruct (add_real_change sei (u16_wrap (e_len e - 1)) le) as [sei'| |] eqn:Eadd; try discriminate.
    cbn [bind] in H. inversion H; subst e'; clear H. cbn [e_skip orb].
    destruct (Nat.eqb_spec i id) as [->|Hne]; cbn [negb].
    + rewrite Hn in Eni. inversion Eni; subst sei; clear Eni.
      destruct (Hop eq_refl) as [-> Hl8].
      pose proof (inv_len _ Hinv) as Hlen. rewrite Ettr in Hlen. cbn [length] in Hlen.
      assert (Hidx : u16_wrap (e_len e - 1) = e_len e - 1) by (unfold u16_wrap; rewrite N.mod_small; lia).
      rewrite Hidx in *.
      unfold add_real_change, nsub in Eadd.
      destruct (N.leb_spec (se_prev se) (e_len e - 1)) as [Hle|]; [|discriminate]. cbn [bind] in Eadd.
      inversion Eadd; subst sei'; clear Eadd.
      exists (es ++ [(e_len e - 1 - se_prev se, Two, le)]), [(blocks_len bl + (e_len e - 1), le)].
      split.
      { eapply gappend_entry; try eassumption; try reflexivity; try (now rewrite Ettr); try (rewrite Ettr; discriminate); try exact Hl8. }
      split; [reflexivity|]. split; [exact Htab|]. split.
      * constructor; [|constructor]. unfold gdecodes. cbn [fst snd]. split; [lia|split; reflexivity].
      * cbn [gcost snd]. lia.
    + exists es, []. rewrite app_nil_r.
      split; [|split; [reflexivity|split; [exact Htab|split; [constructor|cbn [gcost]; lia]]]].
      eapply gkeep; [exact Hs0|exact Hinv'|reflexivity|cbn [e_ttr]; now rewrite Ettr|reflexivity|].
      intros se0 Hse0. cbn [e_signals]. now rewrite nth_error_update_other by assumption.
Qed.

Lemma gother_step str e bl es R i f e' : gsinv str e bl es R -> i <> id ->
  with_signal e i f = Ok e' -> gsinv str e' bl es R /\ e_skip e' = e_skip e /\ table e' = table e.
Proof.
  intros Hs Hne H. pose proof Hs as Hs0.
  destruct Hs as [Hinv Hcap Hbl Hok Hidle (se & Hn & Htp & Hd & Hwf & Hprev & Hsz) Hcnt Habs Hrec].
  destruct (with_signal_inv e i _ e' Hinv H) as [Hinv' Htab].
  unfold with_signal in H. destruct (e_ttr e) as [|t0 tr] eqn:Ettr; [discriminate|].
  destruct (e_skip e) eqn:Esk.
  - inversion H; subst e'. split; [exact Hs0|split; [exact Esk|reflexivity]].
  - destruct (nth_error (e_signals e) i) as [sei|] eqn:Eni; [|discriminate]. cbn [of_option bind] in H.
    destruct (f sei (u16_wrap (e_len e - 1))) as [sei'| |]; try discriminate.
    cbn [bind] in H. inversion H; subst e'; clear H. cbn [e_skip].
    split; [|split; [reflexivity|exact Htab]].
    eapply gkeep; [exact Hs0|exact Hinv'|reflexivity|cbn [e_ttr]; now rewrite Ettr|reflexivity|].
    intros se0 Hse0. cbn [e_signals]. now rewrite nth_error_update_other by assumption.
Qed.

(* a time stamp: the step is accepted (possibly after closing a full block), repeated or rejected *)
Lemma gtime_step str e bl es R t e' : gsinv str e bl es R ->
  gcost R < 4294967264 ->
  time_change e t = Ok e' ->
  exists bl' es',
    gsinv str e' bl' es' R /\ table e' = accept (table e) t /\
    e_skip e' = match last_of (table e) with
                | None => false
                | Some p => match N.compare p t with Gt => true | _ => false end
                end.
Proof.
  intros Hs Hbud H.
  destruct (time_change_inv lz_compress cap cap_pos e t (gi_inv _ _ _ _ _ Hs)) as (e'' & He'' & Hinv' & Htab).
  rewrite H in He''. inversion He''; subst e''; clear He''. pose proof Hs as Hs0.
  destruct Hs as [Hinv Hcap Hbl Hok Hidle (se & Hn & Htp & Hd & Hwf & Hprev & Hsz) Hcnt Habs Hrec].
  pose proof Hinv as [Hlen Hnew Hidl Hlast].
  assert (Hcont : forall e2,
    (do e1 <- (if cap <=? e_len e
               then do e0 <- finish_block e;
                    Ok (mk_enc [] 0 (e_signals e0) (e_new e0) (e_skip e0) (e_blocks e0))
               else Ok e);
     Ok (mk_enc (t :: e_ttr e1) (e_len e1 + 1) (e_signals e1) true false (e_blocks e1))) = Ok e2 ->
    inv e2 -> exists bl' es', gsinv str e2 bl' es' R /\ e_skip e2 = false).
  { intros e2 H2 Hinv2. destruct (N.leb_spec cap (e_len e)) as [Hfull|Hroom].
    - assert (Hne : e_ttr e <> []) by (intros E; rewrite E in Hlen; cbn in Hlen; lia).
      unfold WaveMem.finish_block in H2. rewrite (Hnew Hne) in H2. cbn [negb] in H2.
      pose proof (finish_signals_spec lz_compress (e_signals e) []) as Hfs.
      destruct (finish_signals lz_compress (e_signals e) []) as [[sigs' offs] data] eqn:Efs.
      destruct Hfs as (Hsigs & _ & _).
      destruct (last_opt (e_ttr e)) as [stt|] eqn:El; [|cbn in H2; discriminate].
      destruct (hd_error (e_ttr e)) as [endt|] eqn:Eh; [|cbn in H2; discriminate].
      cbn [of_option bind e_signals e_new e_skip e_blocks e_len e_ttr] in H2. inversion H2; subst e2; clear H2.
      set (x := (e_signals e, stt, rev (e_ttr e), se, es) : blk).
      exists (bl ++ [x]), []. split; [|reflexivity].
      apply Build_gsinv; cbn [e_len e_ttr e_blocks e_signals].
      + exact Hinv2.
      + lia.
      + rewrite Hbl, map_app. cbn [map]. f_equal. f_equal. unfold x, blk_block, block_of. rewrite Efs.
        now rewrite rev_append_rev, app_nil_r.
      + apply Forall_app. split; [assumption|]. constructor; [|constructor]. unfold x, gblk_ok.
        repeat split; try assumption. lia.
      + intros E; discriminate.
      + exists (mk_se [] (se_tpe se) 0 (se_max se)). rewrite Hsigs, nth_error_map_, Hn. cbn [option_map].
        unfold se_finish. cbn [fst]. split.
        * destruct (se_data se); [reflexivity|]. destruct (_ || _); [reflexivity|]. destruct (_ <=? _)%nat; reflexivity.
        * cbn [se_tpe se_data se_prev se_max length map gcost]. repeat split; try assumption; try constructor; try reflexivity; try lia.
      + cbn [map gcost]. lia.
      + rewrite Habs, blocks_abs_app. unfold x. cbn [abs_from]. rewrite app_nil_r. now rewrite N.add_0_l.
      + exact Hrec.
    - cbn [bind] in H2. inversion H2; subst e2; clear H2.
      exists bl, es. split; [|reflexivity].
      apply Build_gsinv; cbn [e_len e_ttr e_blocks e_signals]; try assumption.
      + lia.
      + intros E; discriminate.
      + exists se. repeat split; auto. }
  unfold WaveMem.time_change in H.
  destruct (hd_error (e_ttr e)) as [prev|] eqn:Ehd.
  - assert (Hl : last_of (table e) = Some prev).
    { destruct Hlast as [Hx|[Hx _]]; [congruence|]. rewrite Hx in Ehd. discriminate. }
    rewrite Hl. destruct (N.compare_spec prev t) as [Heq|Hlt|Hgt].
    + inversion H; subst e'; clear H. exists bl, es. split; [|split; [exact Htab|reflexivity]].
      eapply gkeep; [exact Hs0|exact Hinv'|reflexivity|reflexivity|reflexivity|auto].
    + destruct (Hcont e' H Hinv') as (bl' & es' & Hs' & Hsk). exists bl', es'. split; [exact Hs'|split; [exact Htab|exact Hsk]].
    + inversion H; subst e'; clear H. exists bl, es. split; [|split; [exact Htab|reflexivity]].
      eapply gkeep; [exact Hs0|exact Hinv'|reflexivity|reflexivity|reflexivity|auto].
  - assert (Hnil : e_ttr e = []) by (destruct (e_ttr e); [reflexivity|discriminate]).
    destruct (Hcont e' H Hinv') as (bl' & es' & Hs' & Hsk). exists bl', es'.
    split; [exact Hs'|]. split; [exact Htab|]. rewrite Hsk.
    destruct Hlast as [Hx|[_ Hb]].
    + rewrite Hx. reflexivity.
    + unfold table. rewrite Hb, Hnil. reflexivity.
Qed.

(* the histories considered: doubles handed over directly only to a real signal, as 8 bytes;
   strings shorter than 2^64 bytes *)
Definition rs_op_ok (str : bool) (op : enc_op) : Prop :=
  match op with
  | OpReal i le => i = id -> str = false /\ length le = 8%nat
  | OpVcd i v => i = id -> str = true -> N.of_nat (length v) < 2 ^ 64
  | _ => True
  end.

(* an upper bound of the stream bytes the operations on the signal produce *)
Fixpoint ops_cost (ops : list enc_op) : N :=
  match ops with
  | [] => 0
  | OpVcd i v :: r => (if Nat.eqb i id then 28 + N.of_nat (length v) else 0) + ops_cost r
  | OpReal i le :: r => (if Nat.eqb i id then 28 + N.of_nat (length le) else 0) + ops_cost r
  | _ :: r => ops_cost r
  end.

Lemma grun_ops_sinv str : forall ops e bl es R e',
  gsinv str e bl es R -> Forall (rs_op_ok str) ops ->
  gcost R + ops_cost ops < 4294967264 ->
  run_ops e ops = Ok e' ->
  exists bl' es' R', gsinv str e' bl' es' (R ++ R') /\ Forall2 (gdecodes str) R' (recorded_rs id ops (table e) (e_skip e)) /\
                     gcost R' <= ops_cost ops.
Proof.
  induction ops as [|op ops IH]; intros e bl es R e' Hs Hok Hbud H; cbn [WaveMem.run_ops] in H.
  - inversion H; subst e'. exists bl, es, []. rewrite app_nil_r. split; [exact Hs|split; [constructor|cbn [gcost ops_cost]; lia]].
  - apply Forall_cons_iff in Hok as [Hop Hok].
    destruct (run_op e op) as [e1| |] eqn:E1; try discriminate. cbn [bind] in H.
    destruct op as [t|i v|i v st|i le]; cbn [WaveMem.run_op] in E1; cbn [recorded_rs ops_cost rs_op_ok] in *.
    + (* time *)
      destruct (gtime_step str e bl es R t e1 Hs ltac:(lia) E1) as (bl1 & es1 & Hs1 & Htab & Hsk).
      destruct (IH e1 bl1 es1 R e' Hs1 Hok Hbud H) as (bl' & es' & R' & Hs' & Hrec & Hc').
      exists bl', es', R'. split; [exact Hs'|]. split; [|exact Hc']. rewrite Htab, Hsk in Hrec. unfold accept in Hrec.
      destruct (last_of (table e)) as [p|]; [|exact Hrec].
      destruct (N.compare_spec p t); destruct (N.ltb_spec p t); try lia; exact Hrec.
    + (* VCD value change *)
      destruct (gvcd_step str e bl es R i v e1 Hs Hop E1) as (es1 & R1 & Hs1 & Hsk & Htab & Hdec & Hc).
      destruct (IH e1 bl es1 (R ++ R1) e' Hs1 Hok) as (bl' & es' & R' & Hs' & Hrec & Hc'); [|exact H|].
      { rewrite gcost_app. lia. }
      exists bl', es', (R1 ++ R'). rewrite app_assoc. split; [exact Hs'|]. split; [|rewrite gcost_app; lia].
      rewrite Htab, Hsk in Hrec.
      destruct (e_skip e || negb (Nat.eqb i id)).
      * inversion Hdec; subst. exact Hrec.
      * inversion Hdec as [|a b l1 l2 Hab Hl12]; subst. inversion Hl12; subst. cbn [app]. constructor; assumption.
    + (* raw value change: on this signal it is dropped (rejected time step) or panics *)
      destruct (Nat.eqb_spec i id) as [Ei|Ei].
      * assert (He1 : e1 = e).
        { subst i. unfold raw_value_change, with_signal in E1.
          destruct Hs as [Hinv Hcap Hbl Hok' Hidle (se & Hn & Htp & Hrest) Hcnt Habs Hrec].
          destruct (e_ttr e) as [|t0 tr]; [discriminate|].
          destruct (e_skip e) eqn:Esk; [now inversion E1|]. exfalso.
          rewrite Hn in E1. cbn [of_option bind] in E1. unfold add_n_bit_change, nsub in E1. rewrite Htp in E1.
          destruct (_ <=? _); cbn [bind] in E1; unfold rs_tpe in E1; destruct str; discriminate. }
        subst e1. destruct (IH e bl es R e' Hs Hok Hbud H) as (bl' & es' & R' & Hs' & Hrec & Hc').
        exists bl', es', R'. split; [exact Hs'|split; [exact Hrec|exact Hc']].
      * destruct (gother_step str e bl es R i _ e1 Hs Ei E1) as (Hs1 & Hsk & Htab).
        destruct (IH e1 bl es R e' Hs1 Hok Hbud H) as (bl' & es' & R' & Hs' & Hrec & Hc').
        exists bl', es', R'. split; [exact Hs'|]. split; [|exact Hc']. now rewrite Htab, Hsk in Hrec.
    + (* real *)
      destruct (greal_step str e bl es R i le e1 Hs Hop E1) as (es1 & R1 & Hs1 & Hsk & Htab & Hdec & Hc).
      destruct (IH e1 bl es1 (R ++ R1) e' Hs1 Hok) as (bl' & es' & R' & Hs' & Hrec & Hc'); [|exact H|].
      { rewrite gcost_app. lia. }
      exists bl', es', (R1 ++ R'). rewrite app_assoc. split; [exact Hs'|]. split; [|rewrite gcost_app; lia].
      rewrite Htab, Hsk in Hrec.
      destruct (e_skip e || negb (Nat.eqb i id)).
      * inversion Hdec; subst. exact Hrec.
      * inversion Hdec as [|a b l1 l2 Hab Hl12]; subst. inversion Hl12; subst. cbn [app]. constructor; assumption.
Qed.

Lemma gsinv_new str tpes : nth_error tpes id = Some (rs_tpe str) -> gsinv str (enc_new tpes) [] [] [].
Proof.
  intros H. apply Build_gsinv; cbn [enc_new e_len e_ttr e_blocks e_signals map].
  - apply inv_new_enc.
  - lia.
  - reflexivity.
  - constructor.
  - reflexivity.
  - exists (se_new (rs_tpe str)). rewrite nth_error_map_, H. cbn. repeat split; try constructor. lia.
  - cbn; lia.
  - reflexivity.
  - constructor.
Qed.

(* Encoder::finish: all recorded entries end up in finished blocks *)
Lemma gfinish_sinv str e bl es R blocks ttb : gsinv str e bl es R ->
  gcost R < 4294967264 ->
  enc_finish e = Ok (blocks, ttb) ->
  exists bl', blocks = map (blk_block lz_compress) bl' /\ Forall (gblk_ok str id) bl' /\
              blocks_abs bl' 0 = map emb R /\ blocks_len bl' = N.of_nat (length ttb).
Proof.
  intros Hs Hbud H.
  destruct Hs as [Hinv Hcap Hbl Hok Hidle (se & Hn & Htp & Hd & Hwf & Hprev & Hsz) Hcnt Habs Hrec].
  pose proof Hinv as [Hlen Hnew Hidl Hlast].
  unfold WaveMem.enc_finish, WaveMem.finish_block in H.
  destruct (e_new e) eqn:Enew; cbn [negb] in H.
  - pose proof (finish_signals_spec lz_compress (e_signals e) []) as Hfs.
    destruct (finish_signals lz_compress (e_signals e) []) as [[sigs' offs] data] eqn:Efs.
    destruct (last_opt (e_ttr e)) as [stt|] eqn:El; [|cbn in H; discriminate].
    destruct (hd_error (e_ttr e)) as [endt|] eqn:Eh; [|cbn in H; discriminate].
    cbn [of_option bind e_blocks] in H. inversion H; subst blocks ttb; clear H.
    set (x := (e_signals e, stt, rev (e_ttr e), se, es) : blk).
    assert (Hx : mk_block stt (rev_append (e_ttr e) []) offs data = blk_block lz_compress x).
    { unfold x, blk_block, block_of. rewrite Efs. now rewrite rev_append_rev, app_nil_r. }
    exists (bl ++ [x]). rewrite Hx. split; [now rewrite Hbl, map_app|]. split; [|split].
    + apply Forall_app. split; [assumption|]. constructor; [|constructor]. unfold x, gblk_ok.
      repeat split; try assumption. lia.
    + rewrite blocks_abs_app. unfold x. now rewrite N.add_0_l, Habs.
    + rewrite Hbl. change [blk_block lz_compress x] with (map (blk_block lz_compress) [x]). rewrite <- map_app. apply eq_sym, flat_tt_len.
  - cbn [bind] in H. inversion H; subst blocks ttb; clear H.
    assert (Hnil : e_ttr e = []).
    { destruct (e_ttr e) eqn:E; [reflexivity|]. exfalso. assert (X : false = true) by (apply Hnew; discriminate). discriminate. }
    rewrite (Hidle Hnil) in Habs. cbn [abs_from] in Habs. rewrite app_nil_r in Habs.
    exists bl. split; [exact Hbl|]. split; [exact Hok|]. split; [now rewrite Habs|].
    rewrite Hbl. apply eq_sym, flat_tt_len.
Qed.

End GEnc.

(* ------------------------------------------------------------------ the loaded list is the de-duplicated recorded list *)

Lemma rspec_fold : forall (es : list sentry) t canon,
  rspec (map unemb es) t canon = fold_left push_canon (map unemb (abs_from t es)) canon.
Proof.
  induction es as [|[[d l] p] r IH]; intros t canon; [reflexivity|].
  cbn [map unemb rspec abs_from fold_left]. apply IH.
Qed.

Lemma gblks_spec_fold str : forall bl off canon, off + blocks_len bl < 4294967296 ->
  gblks_spec str bl off canon = fold_left push_canon (map unemb (blocks_abs bl off)) canon.
Proof.
  induction bl as [|[[[[s st] ttb] se] es] r IH]; intros off canon Hlt; [reflexivity|].
  cbn [gblks_spec blocks_abs]. rewrite map_app, fold_left_app, <- rspec_fold.
  unfold blocks_len in Hlt. cbn [fold_left] in Hlt. rewrite blocks_len_acc in Hlt.
  unfold u32_wrap. rewrite N.mod_small by lia. apply IH. lia.
Qed.

Definition gdedup (R : list gent) : list gent := dedup_by list_eqb snd R None.

Lemma push_canon_gdedup : forall (l c : list gent),
  fold_left push_canon l c = c ++ dedup_by list_eqb snd l (option_map snd (last_opt c)).
Proof.
  induction l as [|a l IH]; intros c; cbn [fold_left dedup_by]; [now rewrite app_nil_r|].
  rewrite IH. unfold push_canon. unfold byte in *. destruct (last_opt c) as [[tp prev]|] eqn:El; cbn [option_map snd].
  - destruct (list_eqb prev (snd a)) eqn:Eq.
    + rewrite El. reflexivity.
    + rewrite last_opt_app. cbn [option_map]. now rewrite <- app_assoc.
  - rewrite last_opt_app. cbn [option_map]. now rewrite <- app_assoc.
Qed.

Lemma map_unemb_emb (R : list gent) : map unemb (map emb R) = R.
Proof. induction R as [|[g p] r IH]; [reflexivity|]. cbn [map emb unemb fst snd]. now rewrite IH. Qed.

Lemma dedup_by_sub {A B} (eqb : B -> B -> bool) (key : A -> B) (P : A -> Prop) : forall l prev,
  Forall P l -> Forall P (dedup_by eqb key l prev).
Proof.
  induction l as [|a l IH]; intros prev H; [constructor|]. apply Forall_cons_iff in H as [Ha Hl].
  cbn [dedup_by]. destruct prev as [p|]; [destruct (eqb p (key a))|]; try (constructor; [exact Ha|]); now apply IH.
Qed.

(* ------------------------------------------------------------------ the end-to-end theorem *)

Section GTransparent.
Variable parse_f64 : list byte -> option (list byte).
Hypothesis parse_f64_len : forall r le, parse_f64 r = Some le -> length le = 8%nat.
Variable lz_compress : list byte -> list byte.
Variable lz_decompress : list byte -> nat -> option (list byte).
Hypothesis lz_ok : forall d n, (length d <= n)%nat -> lz_decompress (lz_compress d) n = Some d.
Variable cap : N.
Hypothesis cap_pos : 1 <= cap.
Hypothesis cap_u16 : cap <= 65536.
Variable id : nat.

(* Property C04 for real-valued (str = false) and string-valued (str = true) signals: whatever history of time
   stamps and value changes is written, the signal loaded back reports, for every recorded change that is not a
   repetition of the value before it, its time-table index and its value (the 8 bytes of the double / the bytes
   of the string), in order, and nothing else. *)
Theorem storage_transparent_rs str tpes ops e blocks ttb :
  nth_error tpes id = Some (rs_tpe str) ->
  Forall (rs_op_ok id str) ops ->
  ops_cost id ops < 4294967264 ->
  run_ops parse_f64 lz_compress cap (enc_new tpes) ops = Ok e ->
  enc_finish lz_compress e = Ok (blocks, ttb) -> N.of_nat (length ttb) < 4294967296 ->
  exists R sig,
    Forall2 (gdecodes parse_f64 str) R (recorded_rs id ops [] false) /\ Forall (payload_ok str) R /\
    load_signal lz_decompress blocks id (rs_tpe str) = Ok sig /\
    observe_signal sig = Ok (map (fun a : gent => (fst a, if str then KString else KReal, snd a)) (gdedup R)).
Proof.
  intros Htp Hok Hbud Hrun Hfin Hlen.
  pose proof (gsinv_new lz_compress cap cap_pos cap_u16 id str tpes Htp) as Hnew.
  destruct (grun_ops_sinv parse_f64 parse_f64_len lz_compress cap cap_pos cap_u16 id str ops _ [] [] [] e
              Hnew Hok ltac:(cbn [gcost]; lia) Hrun)
    as (bl1 & es1 & R & Hs & Hdec & HcR).
  cbn [app] in Hs. cbn [enc_new e_skip] in Hdec.
  assert (Htab0 : table (enc_new tpes) = []) by reflexivity. rewrite Htab0 in Hdec.
  destruct (gfinish_sinv parse_f64 parse_f64_len lz_compress cap cap_pos cap_u16 id str e bl1 es1 R blocks ttb Hs ltac:(lia) Hfin) as (bl & -> & Hbok & Habs & Hbl).
  exists R. eexists. split; [exact Hdec|]. split; [exact (gi_rec _ _ _ _ _ _ _ _ Hs)|].
  rewrite (gload_signal_blocks lz_compress lz_decompress lz_ok str id bl Hbok). split; [reflexivity|].
  rewrite (gblks_spec_fold str bl 0 []) by lia. rewrite Habs, map_unemb_emb, push_canon_gdedup. cbn [last_opt option_map app].
  fold (gdedup R).
  destruct str.
  - apply observe_strings.
  - apply observe_reals. apply dedup_by_sub. exact (gi_rec _ _ _ _ _ _ _ _ Hs).
Qed.

End GTransparent.

(* ------------------------------------------------------------------ several encoders (parser threads) appended *)

Definition gshift (k : N) (R : list gent) : list gent := map (fun a : gent => (k + fst a, snd a)) R.

Lemma gshift_shift a b R : gshift a (gshift b R) = gshift (a + b) R.
Proof. unfold gshift. rewrite map_map. apply map_ext. intros [g p]. cbn [fst snd]. f_equal. lia. Qed.
Lemma gshift_app k R1 R2 : gshift k (R1 ++ R2) = gshift k R1 ++ gshift k R2.
Proof. unfold gshift. apply map_app. Qed.
Lemma gshift_0 R : gshift 0 R = R.
Proof. unfold gshift. rewrite <- (map_id R) at 2. apply map_ext. intros [g p]. reflexivity. Qed.

Fixpoint gcat_shift (l : list (list gent * N)) (off : N) : list gent :=
  match l with
  | [] => []
  | (R, n) :: r => gshift off R ++ gcat_shift r (off + n)
  end.

Section GAppend.
Variable parse_f64 : list byte -> option (list byte).
Hypothesis parse_f64_len : forall r le, parse_f64 r = Some le -> length le = 8%nat.
Variable lz_compress : list byte -> list byte.
Variable lz_decompress : list byte -> nat -> option (list byte).
Hypothesis lz_ok : forall d n, (length d <= n)%nat -> lz_decompress (lz_compress d) n = Some d.
Variable cap : N.
Hypothesis cap_pos : 1 <= cap.
Hypothesis cap_u16 : cap <= 65536.
Variable id : nat.

(* an encoder whose pending data has been moved into blocks *)
Definition gfin (str : bool) (e : encoder) (bl : list blk) (R : list gent) : Prop :=
  e_new e = false /\ e_blocks e = map (blk_block lz_compress) bl /\ Forall (gblk_ok str id) bl /\
  blocks_abs bl 0 = map emb R /\ Forall (payload_ok str) R.

Lemma gfinish_block_fin str e bl es R e1 : gsinv lz_compress cap id str e bl es R ->
  gcost R < 4294967264 ->
  finish_block lz_compress e = Ok e1 -> exists bl', gfin str e1 bl' R /\ blocks_len bl' = N.of_nat (length (table e)).
Proof.
  intros Hs Hbud H. assert (Htl : N.of_nat (length (table e)) = blocks_len bl + e_len e) by (eapply gtable_len; eauto).
  destruct Hs as [Hinv Hcap Hbl Hok Hidle (se & Hn & Htp & Hd & Hwf & Hprev & Hsz) Hcnt Habs Hrec].
  pose proof Hinv as [Hlen Hnew Hidl Hlast].
  unfold WaveMem.finish_block in H.
  destruct (e_new e) eqn:Enew; cbn [negb] in H.
  - destruct (finish_signals lz_compress (e_signals e) []) as [[sigs' offs] data] eqn:Efs.
    destruct (last_opt (e_ttr e)) as [stt|] eqn:El; [|cbn in H; discriminate].
    destruct (hd_error (e_ttr e)) as [endt|] eqn:Eh; [|cbn in H; discriminate].
    cbn [of_option bind] in H. inversion H; subst e1; clear H.
    set (x := (e_signals e, stt, rev (e_ttr e), se, es) : blk).
    assert (Hx : mk_block stt (rev_append (e_ttr e) []) offs data = blk_block lz_compress x).
    { unfold x, blk_block, block_of. rewrite Efs. now rewrite rev_append_rev, app_nil_r. }
    exists (bl ++ [x]). split.
    + unfold gfin. cbn [e_new e_blocks]. rewrite Hx. split; [reflexivity|].
      split; [now rewrite Hbl, map_app|]. split; [|split; [|exact Hrec]].
      * apply Forall_app. split; [assumption|]. constructor; [|constructor]. unfold x, gblk_ok.
        repeat split; try assumption. lia.
      * rewrite blocks_abs_app. unfold x. now rewrite N.add_0_l, Habs.
    + rewrite blocks_len_app. unfold x. rewrite rev_length. lia.
  - inversion H; subst e1; clear H.
    assert (Hnil : e_ttr e = []).
    { destruct (e_ttr e) eqn:E; [reflexivity|]. exfalso. assert (X : false = true) by (apply Hnew; discriminate). discriminate. }
    rewrite (Hidle Hnil) in Habs. cbn [abs_from] in Habs. rewrite app_nil_r in Habs.
    exists bl. split; [unfold gfin; repeat split; auto|]. rewrite Hnil in Hlen. cbn in Hlen. lia.
Qed.

Lemma gappend_fin str e o bl1 bl2 R1 R2 e' : gfin str e bl1 R1 -> gfin str o bl2 R2 ->
  append lz_compress e o = Ok e' ->
  gfin str e' (bl1 ++ bl2) (R1 ++ gshift (blocks_len bl1) R2).
Proof.
  intros (Hn1 & Hb1 & Hok1 & Ha1 & Hr1) (Hn2 & Hb2 & Hok2 & Ha2 & Hr2) H.
  unfold append in H. rewrite (finish_block_idem lz_compress e Hn1), (finish_block_idem lz_compress o Hn2) in H. cbn [bind] in H.
  assert (Hshift : map emb (gshift (blocks_len bl1) R2) = map (shift3 (blocks_len bl1)) (map emb R2)).
  { unfold gshift. rewrite !map_map. apply map_ext. intros [g p]. reflexivity. }
  assert (Hrs : Forall (payload_ok str) (gshift (blocks_len bl1) R2)).
  { unfold gshift. rewrite Forall_forall in *. intros a Ha. apply in_map_iff in Ha as ([g p] & <- & Hin).
    specialize (Hr2 _ Hin). unfold payload_ok in *. exact Hr2. }
  destruct (e_blocks o) as [|first rest] eqn:Eo.
  - inversion H; subst e'; clear H. assert (bl2 = []) by (destruct bl2; [reflexivity|discriminate]). subst bl2.
    cbn [blocks_abs map] in Ha2. destruct R2; [|discriminate]. cbn [gshift map]. rewrite !app_nil_r.
    unfold gfin. repeat split; auto.
  - destruct (last_opt (e_blocks e)) as [lb|]; [|cbn in H; discriminate]. cbn [of_option bind] in H.
    destruct (last_opt (b_tt lb)) as [ue|]; [|cbn in H; discriminate]. cbn [of_option bind] in H.
    destruct (ue <=? b_start first); [|discriminate]. inversion H; subst e'; clear H.
    unfold gfin. cbn [e_new e_blocks]. split; [exact Hn1|]. split; [now rewrite Hb1, Hb2, map_app|].
    split; [apply Forall_app; now split|]. split; [|apply Forall_app; now split].
    rewrite blocks_abs_app2, map_app, Ha1, Hshift, <- Ha2.
    rewrite (N.add_comm 0 (blocks_len bl1)), blocks_abs_shift. reflexivity.
Qed.

Definition gthread_ok (str : bool) (x : encoder * list blk * list sentry * list gent) : Prop :=
  let '(e, bl, es, R) := x in gsinv lz_compress cap id str e bl es R /\ gcost R < 4294967264.

Lemma gappend_all_fin str : forall (ths : list (encoder * list blk * list sentry * list gent)) acc bla Ra e',
  gfin str acc bla Ra -> Forall (gthread_ok str) ths ->
  append_all lz_compress acc (map (fun x => fst (fst (fst x))) ths) = Ok e' ->
  exists bls, Forall2 (fun b x => blocks_len b = N.of_nat (length (table (fst (fst (fst x)))))) bls ths /\
    gfin str e' (bla ++ concat bls)
         (Ra ++ gcat_shift (combine (map (fun x => snd x) ths) (map blocks_len bls)) (blocks_len bla)).
Proof.
  induction ths as [|[[[o blo] eso] Ro] ths IH]; intros acc bla Ra e' Hf Hok H; cbn [map append_all] in H.
  - inversion H; subst e'. exists []. cbn [concat combine gcat_shift map]. rewrite !app_nil_r. split; [constructor|exact Hf].
  - apply Forall_cons_iff in Hok as [[Hs Hbud] Hok]. cbn [fst] in H.
    destruct (append lz_compress acc o) as [a| |] eqn:Ea; try discriminate. cbn [bind] in H.
    destruct (append_unfold lz_compress acc o a Ea) as (acc1 & o1 & F1 & F2 & Ea').
    assert (acc1 = acc).
    { destruct Hf as (Hn & _). rewrite (finish_block_idem lz_compress acc Hn) in F1. now inversion F1. } subst acc1.
    destruct (gfinish_block_fin str o blo eso Ro o1 Hs Hbud F2) as (blo' & Hfo & Hlo).
    pose proof (gappend_fin str acc o1 bla blo' Ra Ro a Hf Hfo Ea') as Hfa.
    destruct (IH a _ _ e' Hfa Hok H) as (bls & Hl & Hfe).
    exists (blo' :: bls). split; [constructor; [exact Hlo|exact Hl]|].
    cbn [concat map combine gcat_shift snd]. rewrite <- !app_assoc in Hfe. rewrite blocks_len_app2 in Hfe. exact Hfe.
Qed.

(* loading from a finished encoder *)
Lemma gfin_load str e bl R blocks ttb : gfin str e bl R ->
  enc_finish lz_compress e = Ok (blocks, ttb) -> N.of_nat (length ttb) < 4294967296 ->
  exists sig, load_signal lz_decompress blocks id (rs_tpe str) = Ok sig /\
              observe_signal sig = Ok (map (fun a : gent => (fst a, if str then KString else KReal, snd a)) (gdedup R)).
Proof.
  intros (Hn & Hb & Hok & Habs & Hrec) Hfin Hlen.
  unfold WaveMem.enc_finish in Hfin. rewrite (finish_block_idem lz_compress e Hn) in Hfin. cbn [bind] in Hfin.
  inversion Hfin; subst blocks ttb; clear Hfin. rewrite Hb in *.
  rewrite (gload_signal_blocks lz_compress lz_decompress lz_ok str id bl Hok). eexists. split; [reflexivity|].
  rewrite (gblks_spec_fold str bl 0 []) by (rewrite N.add_0_l, <- (flat_tt_len lz_compress bl); exact Hlen).
  rewrite Habs, map_unemb_emb, push_canon_gdedup. cbn [last_opt option_map app]. fold (gdedup R).
  destruct str.
  - apply observe_strings.
  - apply observe_reals. apply dedup_by_sub. exact Hrec.
Qed.

(* "however the recording was divided among parser threads", for real and string signals: k encoders, each fed its
   own history, appended in order and finished; the loaded signal reports the recordings of the threads one after the
   other, each thread's time indices shifted by the lengths of the time tables before it, de-duplicated across the
   seams as well *)
Theorem appended_transparent_rs str tpes (opss : list (list enc_op)) (encs : list encoder) first others e blocks ttb :
  nth_error tpes id = Some (rs_tpe str) ->
  Forall2 (fun ops en => run_ops parse_f64 lz_compress cap (enc_new tpes) ops = Ok en) opss encs ->
  Forall (fun ops => Forall (rs_op_ok id str) ops /\ ops_cost id ops < 4294967264) opss ->
  encs = first :: others ->
  append_all lz_compress first others = Ok e ->
  enc_finish lz_compress e = Ok (blocks, ttb) -> N.of_nat (length ttb) < 4294967296 ->
  exists Rs sig,
    Forall2 (fun R ops => Forall2 (gdecodes parse_f64 str) R (recorded_rs id ops [] false)) Rs opss /\
    load_signal lz_decompress blocks id (rs_tpe str) = Ok sig /\
    observe_signal sig
    = Ok (map (fun a : gent => (fst a, if str then KString else KReal, snd a))
              (gdedup (gcat_shift (combine Rs (map (fun ops => N.of_nat (length (accepted (times_of ops)))) opss)) 0))).
Proof.
  intros Htp Hruns Hops Hencs Happ Hfin Hlen.
  assert (Hth : exists ths : list (encoder * list blk * list sentry * list gent),
            map (fun x => fst (fst (fst x))) ths = encs /\ Forall (gthread_ok str) ths /\
            Forall2 (fun R ops => Forall2 (gdecodes parse_f64 str) R (recorded_rs id ops [] false)) (map (fun x => snd x) ths) opss /\
            Forall2 (fun x ops => table (fst (fst (fst x))) = accepted (times_of ops)) ths opss).
  { clear Hencs Happ. induction Hruns as [|ops en opss encs Hrun Hruns IH].
    - exists []. repeat split; constructor.
    - apply Forall_cons_iff in Hops as [[Hok Hbud] Hops]. destruct (IH Hops) as (ths & Hm & Hto & Hdec & Htab).
      destruct (grun_ops_sinv parse_f64 parse_f64_len lz_compress cap cap_pos cap_u16 id str ops _ [] [] [] en
                  (gsinv_new lz_compress cap cap_pos cap_u16 id str tpes Htp) Hok ltac:(cbn [gcost]; lia) Hrun)
        as (bl & es & R & Hs & Hrec & HcR).
      cbn [app] in Hs. change (table (enc_new tpes)) with (@nil N) in Hrec. cbn [enc_new e_skip] in Hrec.
      destruct (run_ops_inv parse_f64 lz_compress cap cap_pos ops _ _ (inv_new_enc tpes) Hrun) as [_ Ht].
      exists ((en, bl, es, R) :: ths). cbn [map fst snd]. split; [now rewrite Hm|]. split; [|split].
      + constructor; [|exact Hto]. split; [exact Hs|lia].
      + constructor; assumption.
      + constructor; [|exact Htab]. cbn [fst]. rewrite Ht. reflexivity. }
  destruct Hth as (ths & Hm & Hto & Hdec & Htab).
  destruct ths as [|[[[f blf] esf] Rf] ths]; [rewrite Hencs in Hm; discriminate|].
  cbn [map fst] in Hm. rewrite Hencs in Hm. injection Hm as Hf Hothers. subst f.
  apply Forall_cons_iff in Hto as [[Hsf Hbf] Hto].
  destruct opss as [|ops0 opss]; [inversion Hdec|].
  inversion Hdec as [|? ? ? ? Hdec0 Hdecs]; subst. inversion Htab as [|? ? ? ? Htab0 Htabs]; subst. cbn [fst snd] in *.
  destruct (append_all_first lz_compress first _ e (blocks, ttb) Happ Hfin) as (f1 & Ef & e' & Happ' & Hfin').
  destruct (gfinish_block_fin str first blf esf Rf f1 Hsf Hbf Ef) as (blf' & Hfin1 & Hl1).
  destruct (gappend_all_fin str ths f1 blf' Rf e' Hfin1 Hto Happ') as (bls & Hlens & Hfe).
  destruct (gfin_load str e' _ _ blocks ttb Hfe Hfin' Hlen) as (sig & Hload & Hobs).
  exists (Rf :: map (fun x => snd x) ths), sig. split; [constructor; assumption|]. split; [exact Hload|].
  rewrite Hobs. f_equal. f_equal. f_equal. cbn [map combine gcat_shift]. rewrite gshift_0. f_equal.
  rewrite N.add_0_l, Hl1, Htab0. f_equal.
  clear -Hlens Htabs. revert bls opss Hlens Htabs. induction ths as [|t0 ths IH]; intros bls opss Hl Ht.
  - inversion Hl; subst. reflexivity.
  - inversion Hl as [|b ? bls' ? Hb Hl']; subst. inversion Ht as [|? ops ? opss' Ho Ht']; subst.
    cbn [map combine]. f_equal; [f_equal; now rewrite Hb, Ho|]. now apply IH.
Qed.

End GAppend.

Lemma dedup_by_no_adjacent {A B} (eqb : B -> B -> bool) (key : A -> B) (l : list A) : forall prev,
  no_adjacent eqb prev (map key (dedup_by eqb key l prev)).
Proof.
  induction l as [|a l IH]; intros prev; cbn [dedup_by map no_adjacent]; [exact I|].
  destruct prev as [p|].
  - destruct (eqb p (key a)) eqn:E; [apply IH|]. cbn [map no_adjacent]. split; [exact E|apply IH].
  - cbn [map no_adjacent]. split; [exact I|apply IH].
Qed.

(* Property C06 for real and string signals: no two neighbours of the report carry the same bytes; a real is
   reported as its 8 bytes *)
Theorem loaded_rs_canonical
  (parse_f64 : list byte -> option (list byte)) (parse_f64_len : forall r le, parse_f64 r = Some le -> length le = 8%nat)
  (lz_compress : list byte -> list byte) (lz_decompress : list byte -> nat -> option (list byte))
  (lz_ok : forall d n, (length d <= n)%nat -> lz_decompress (lz_compress d) n = Some d)
  cap (cap_pos : 1 <= cap) (cap_u16 : cap <= 65536) id str tpes ops e blocks ttb :
  nth_error tpes id = Some (rs_tpe str) ->
  Forall (rs_op_ok id str) ops ->
  ops_cost id ops < 4294967264 ->
  run_ops parse_f64 lz_compress cap (enc_new tpes) ops = Ok e ->
  enc_finish lz_compress e = Ok (blocks, ttb) -> N.of_nat (length ttb) < 4294967296 ->
  exists sig (A : list gent),
    load_signal lz_decompress blocks id (rs_tpe str) = Ok sig /\
    observe_signal sig = Ok (map (fun a : gent => (fst a, if str then KString else KReal, snd a)) A) /\
    no_adjacent list_eqb None (map snd A) /\
    (str = false -> Forall (fun a : gent => length (snd a) = 8%nat) A).
Proof.
  intros Htp Hok Hbud Hrun Hfin Hlen.
  destruct (storage_transparent_rs parse_f64 parse_f64_len lz_compress lz_decompress lz_ok cap cap_pos cap_u16 id str
              tpes ops e blocks ttb Htp Hok Hbud Hrun Hfin Hlen) as (R & sig & Hdec & Hpay & Hload & Hobs).
  exists sig, (gdedup R). split; [exact Hload|]. split; [exact Hobs|]. split.
  - apply dedup_by_no_adjacent.
  - intros ->. apply dedup_by_sub. exact Hpay.
Qed.

(* the hypotheses are satisfiable and the conclusion is what one expects: a string signal and a real signal, block
   capacity 2, a repeated string, a rejected (backwards) time step, a double handed over as bytes *)
Example storage_rs_example :
  let pf := (fun r : list byte => match r with [49] => Some [0;0;0;0;0;0;240;63] | _ => Some [0;0;0;0;0;0;0;0] end) in
  let ops := [OpTime 1; OpVcd 0 [115; 97; 98]; OpVcd 1 [114; 49]; OpTime 2; OpVcd 0 [115; 97; 98]; OpTime 3;
              OpVcd 0 [115]; OpReal 1 [1;2;3;4;5;6;7;8]; OpTime 2; OpVcd 0 [115; 120]; OpTime 5; OpVcd 0 [83; 99]; OpVcd 1 [114; 48]] in
  exists e blocks ttb,
    run_ops pf (fun d => d) 2 (enc_new [EncString; EncReal]) ops = Ok e /\
    enc_finish (fun d => d) e = Ok (blocks, ttb) /\ length blocks = 2%nat /\ ttb = [1; 2; 3; 5] /\
    Forall (rs_op_ok 0 true) ops /\ Forall (rs_op_ok 1 false) ops /\
    recorded_rs 0 ops [] false = [(0, PText [115; 97; 98]); (1, PText [115; 97; 98]); (2, PText [115]); (3, PText [83; 99])] /\
    recorded_rs 1 ops [] false = [(0, PText [114; 49]); (2, PReal [1;2;3;4;5;6;7;8]); (3, PText [114; 48])] /\
    (do s <- load_signal (fun d _ => Some d) blocks 0 EncString; observe_signal s)
    = Ok [(0, KString, [97; 98]); (2, KString, []); (3, KString, [99])] /\
    (do s <- load_signal (fun d _ => Some d) blocks 1 EncReal; observe_signal s)
    = Ok [(0, KReal, [0;0;0;0;0;0;240;63]); (2, KReal, [1;2;3;4;5;6;7;8]); (3, KReal, [0;0;0;0;0;0;0;0])].
Proof.
  cbn zeta. do 3 eexists. split; [vm_compute; reflexivity|]. split; [vm_compute; reflexivity|].
  split; [reflexivity|]. split; [reflexivity|].
  split. { repeat constructor; cbn; intros; try discriminate; try (split; reflexivity); cbn; lia. }
  split. { repeat constructor; cbn; intros; try discriminate; try (split; reflexivity); cbn; lia. }
  split; [vm_compute; reflexivity|]. split; [vm_compute; reflexivity|]. split; vm_compute; reflexivity.
Qed.
