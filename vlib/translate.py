"""Translator: regenerates coq/Generated/*.v from /repo's current source (DESIGN.md section 1)."""
import os


def regenerate():
    return {"status": "no generated files yet"}
