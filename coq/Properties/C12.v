(* Property C12: the same waveform loads identically from VCD, FST and GHW.
   Pinned: the value paths of VCD (wavemem Encoder, any block segmentation) and FST (SignalWriter with widening)
   report the same changes for the same (time index, value) list, for bit vectors of width >= 1.
   NOT proved: the GHW path (VecBuffer assembly), real and string variables, the hierarchy and the time tables of
   whole files; those are decided by the three-format file generators (MANIFEST level_note). *)
From WV Require Import Model.Base Model.Bits Model.WaveMem Model.FstLoad Spec.TimeSpec Spec.StoreSpec
  Proofs.StoreProofs Proofs.EncoderProofs Proofs.FstProofs Proofs.CrossProofs.
Open Scope N_scope.

Check vcd_fst_same_report :
  forall (parse_f64 : list byte -> option (list byte)) (lz_compress : list byte -> list byte)
         (lz_decompress : list byte -> nat -> option (list byte)),
  (forall d n, (length d <= n)%nat -> lz_decompress (lz_compress d) n = Some d) ->
  forall cap, 1 <= cap -> cap <= 65536 ->
  forall id bits tpes ops e blocks ttb (cs : list (N * list byte)) sw,
  (1 <= bits)%nat -> nth_error tpes id = Some (EncBits bits) -> Forall (op_ok id bits) ops ->
  N.of_nat (count_vcd id ops) * (10 + N.of_nat bits) < 4294967264 ->
  run_ops parse_f64 lz_compress cap (enc_new tpes) ops = Ok e ->
  enc_finish lz_compress e = Ok (blocks, ttb) -> N.of_nat (length ttb) < 4294967296 ->
  recorded id ops [] false = map (fun c : N * list byte => (fst c, RText (98 :: snd c))) cs ->
  Forall (fun c : N * list byte => length (snd c) = bits) cs ->
  sw_run (sw_new (EncBits bits)) (map (fun c : N * list byte => (fst c, FvString (snd c))) cs) = Ok sw ->
  exists sig, load_signal lz_decompress blocks id (EncBits bits) = Ok sig /\
              observe_signal sig = observe_signal (sw_finish sw).

Print Assumptions vcd_fst_same_report.
