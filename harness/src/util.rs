//! Parsing and printing helpers shared by all sub-commands.
use std::panic::{catch_unwind, AssertUnwindSafe};

pub fn split<'a>(s: &'a str, c: char) -> Vec<&'a str> {
    if s.is_empty() || s == "-" {
        vec![]
    } else {
        s.split(c).collect()
    }
}

pub fn hex_u64(s: &str) -> u64 {
    u64::from_str_radix(s, 16).unwrap()
}

pub fn bytes_of_hex(s: &str) -> Vec<u8> {
    if s == "-" {
        return vec![];
    }
    (0..s.len() / 2)
        .map(|i| u8::from_str_radix(&s[2 * i..2 * i + 2], 16).unwrap())
        .collect()
}

pub fn hex_of_bytes(b: &[u8]) -> String {
    if b.is_empty() {
        return "-".to_string();
    }
    b.iter().map(|x| format!("{:02x}", x)).collect()
}

/// Runs `f`; a panic becomes the observation `PANIC`.
pub fn guarded(f: impl FnOnce() -> String) -> String {
    catch_unwind(AssertUnwindSafe(f)).unwrap_or_else(|_| "PANIC".to_string())
}
