#!/bin/bash
# re-runs every stored seeded change against the checks recorded as having detected it (meta.json detected_by)
cd /verif
for d in seeded/*/; do
  id=$(basename $d)
  checks=$(python3 - "$d/meta.json" <<'PY'
import json,sys
m=json.load(open(sys.argv[1]))
det=m.get("detected_by") or {}
ks=[k for k,v in det.items() if isinstance(v,dict) and v.get("exit")==1]
if not ks: ks=[m.get("breaks_property") or m["id"].split("-")[0]]
print(" ".join(sorted(ks)[:2]))
PY
)
  bash scripts/mutant_check.sh $id $checks
done
