(* Property C08: the hierarchy is a well-formed, fully navigable tree.
   Pinned: for every hierarchy built by a balanced sequence of HierarchyBuilder calls (add_scope with or without
   flatten, re-opening of same-named scopes, add_var, pop_scope; `balanced` = no $upscope below the top level)
   there are children lists kt (top level) and ks (one per scope) such that
   - items() / Scope::items() return exactly those lists (the iterators terminate and follow the links),
   - every variable and every scope occurs in exactly one list, exactly once,
   - the parent link of every item is the scope whose list holds it, and parents precede their children,
   - no two sibling scopes share a name,
   - within every list the variables appear in the order in which they were added, and so do the scopes.
   hierarchy_walk (Proofs/NavProofs.v): the pre-order walk from the top-level items through each scope's items
   terminates within the fuel of the model and visits every variable and every scope exactly once; full_name of
   every scope and variable is defined (the parent chain is strictly decreasing).
   hierarchy_lookup (Proofs/LookupProofs.v): lookup_scope is sound (the scope it returns for a path has exactly that path
   of ancestors' names and own name) and complete (every scope is found under its own path - sibling scopes have
   different names), and Scope::full_name is the '.'-join of that path.
   signal_refs_resolve (Proofs/SigTableProofs.v): for every sequence of builder calls, every variable's signal reference
   lies below num_unique_signals and get_signal_tpe resolves it to the encoding of a variable carrying that reference.
   hierarchy_lookup_var: lookup_var(_with_index) returns the first declared variable of the looked-up scope (of the top
   level for an empty path) with the given name and, if asked for, the given index.
   The tie of the model to hierarchy.rs is the correspondence run against the real builder and the rose-tree oracle
   (MANIFEST level_note). *)
From Coq Require Import Permutation.
From WV Require Import Model.Base Model.Bits Model.WaveMem Model.Hierarchy Proofs.HierProofs Proofs.NavProofs Proofs.LookupProofs Proofs.SigTableProofs.

Check hierarchy_wellformed :
  forall ops b, balanced 0 ops -> hier_run hb_new ops = Ok b ->
  exists kt ks,
    top_items b = Ok kt /\
    (forall s, (s < length (hb_scopes b))%nat -> scope_items b s = Ok (nth s ks [])) /\
    Permutation (kt ++ concat ks) (all_ids b) /\ NoDup (kt ++ concat ks) /\
    (forall p x, pvalid ks p -> In x (kids kt ks p) -> parent_of b x = p) /\
    (forall i p, parent_of b (IScope i) = Some p -> (p < i)%nat) /\
    (forall p, pvalid ks p -> NoDup (scope_names b (kids kt ks p))) /\
    (forall p, pvalid ks p -> increasing (vars_of (kids kt ks p)) /\ increasing (scopes_of (kids kt ks p))) /\
    length ks = length (hb_scopes b).

(* the steps: what each builder call does to the children lists *)
Check add_var_inv :
  forall b kt ks nm tpe dir enc idx sig tn b', hinv b kt ks ->
  add_var b nm tpe dir enc idx sig tn = Ok b' ->
  let P := top_parent (hb_stack b) in
  let node := IVar (length (hb_vars b)) in
  hinv b' (fst (add_kid kt ks P node)) (snd (add_kid kt ks P node)) /\
  hb_scopes b' = hb_scopes b' /\ length (hb_scopes b') = length (hb_scopes b) /\
  length (hb_vars b') = S (length (hb_vars b)) /\
  (forall i, option_map sc_name (nth_error (hb_scopes b') i) = option_map sc_name (nth_error (hb_scopes b) i)) /\
  stack_scopes (hb_stack b') = stack_scopes (hb_stack b) /\ length (hb_stack b') = length (hb_stack b).

Check hierarchy_walk :
  forall ops b, balanced 0 ops -> hier_run hb_new ops = Ok b ->
  (exists w, full_walk b = Ok w /\ Permutation (map snd w) (all_ids b) /\ NoDup (map snd w)) /\
  (forall s, (s < length (hb_scopes b))%nat -> exists nm, scope_full_name (items_fuel b) b s = Ok nm) /\
  (forall v, (v < length (hb_vars b))%nat -> exists nm, var_full_name b v = Ok nm).


Check hierarchy_lookup :
  forall ops b, balanced 0 ops -> hier_run hb_new ops = Ok b ->
  (forall path s, lookup_scope b path = Ok (Some s) -> path_of b s = Ok path /\ (s < length (hb_scopes b))%nat) /\
  (forall s, (s < length (hb_scopes b))%nat ->
     exists p, path_of b s = Ok p /\ lookup_scope b p = Ok (Some s) /\ scope_full_name (items_fuel b) b s = Ok (join p)).


Check signal_refs_resolve :
  forall ops b, hier_run hb_new ops = Ok b ->
  forall v vr, nth_error (hb_vars b) v = Some vr ->
  (v_signal vr < num_unique_signals b)%nat /\
  exists w vw, nth_error (hb_vars b) w = Some vw /\ v_signal vw = v_signal vr /\ get_signal_tpe b (v_signal vr) = Some (v_enc vw).


Check hierarchy_lookup_var :
  forall ops b path nm index v, balanced 0 ops -> hier_run hb_new ops = Ok b ->
  lookup_var b path nm index = Ok (Some v) ->
  exists P vr,
    (match path with [] => P = None | _ => exists s, lookup_scope b path = Ok (Some s) /\ P = Some s end) /\
    nth_error (hb_vars b) v = Some vr /\ v_parent vr = P /\ v_name vr = nm /\ (index = None \/ v_index vr = index) /\
    (forall v' vr', nth_error (hb_vars b) v' = Some vr' -> v_parent vr' = P -> v_name vr' = nm ->
                    (index = None \/ v_index vr' = index) -> (v <= v')%nat).

Print Assumptions hierarchy_wellformed.
Print Assumptions hierarchy_lookup_var.
Print Assumptions signal_refs_resolve.
Print Assumptions hierarchy_lookup.
Print Assumptions hierarchy_walk.
Print Assumptions add_var_inv.
Print Assumptions add_scope_inv.
Print Assumptions pop_scope_inv.
