(* Model of crate leb128 0.2.x (write::unsigned, read::unsigned) as used by wavemem.rs. *)
From WV Require Import Model.Base.
Open Scope N_scope.

(* loop { byte = val & 0x7f; val >>= 7; if val != 0 { byte |= 0x80 }; push; if val == 0 { return } } *)
Fixpoint leb_write_fuel (fuel : nat) (val : N) : list byte :=
  match fuel with
  | O => []
  | S f =>
    let b := val mod 128 in
    let rest := val / 128 in
    if rest =? 0 then [b] else (b + 128) :: leb_write_fuel f rest
  end.
(* a u64 needs at most 10 groups of 7 bits *)
Definition leb_write (val : N) : list byte := leb_write_fuel 10 val.

(* read::unsigned: Err on end of input or overflow (shift == 63 and byte not 0/1) *)
Fixpoint leb_read_go (data : list byte) (shift : N) (result : N) : option (N * list byte) :=
  match data with
  | [] => None
  | b :: r =>
    if (shift =? 63) && negb (b =? 0) && negb (b =? 1) then None
    else
      let result' := result + (b mod 128) * 2 ^ shift in
      if b <? 128 then Some (result', r) else leb_read_go r (shift + 7) result'
  end.
Definition leb_read (data : list byte) : option (N * list byte) := leb_read_go data 0 0.
