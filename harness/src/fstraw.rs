//! `fsthier <path>` / `fstsig <path>`: reads an FST file twice - with the dependency `fst-reader` directly (the
//! hierarchy entry stream, the time table and the value-change callbacks, i.e. exactly what wellen's fst.rs receives)
//! and through wellen - and prints both, so that the model of fst.rs (Model/FstHier.v, Model/FstLoad.v) can be run on
//! the former and compared with the latter.
use crate::hier::*;
use crate::obs::*;
use crate::util::*;
use fst_reader::*;
use wellen::*;

fn hx(s: &str) -> String {
    if s.is_empty() { "_".to_string() } else { hex_of_bytes(s.as_bytes()) }
}

fn open(path: &str) -> Option<FstReader<std::io::BufReader<std::fs::File>>> {
    let f = std::fs::File::open(path).ok()?;
    FstReader::open_and_read_time_table(std::io::BufReader::new(f)).ok()
}

pub fn run_hier(args: &[&str]) -> String {
    let mut reader = match open(args[0]) {
        Some(r) => r,
        None => return "NOFST".to_string(),
    };
    let header = reader.get_header();
    let mut entries: Vec<String> = vec![];
    let ok = reader.read_hierarchy(|e| {
        entries.push(match e {
            FstHierarchyEntry::Scope { tpe, name, component } => format!("S:{}:{}:{}", tpe as u8, hx(&name), hx(&component)),
            FstHierarchyEntry::UpScope => "U".to_string(),
            FstHierarchyEntry::Var { tpe, direction, name, length, handle, .. } => {
                format!("V:{}:{}:{}:{}:{}", tpe as u8, direction as u8, hx(&name), length, handle.get_index())
            }
            FstHierarchyEntry::PathName { id, name } => format!("P:{}:{}", id, hx(&name)),
            FstHierarchyEntry::SourceStem { is_instantiation, path_id, line } => {
                format!("T:{}:{}:{}", if is_instantiation { 1 } else { 0 }, path_id, line)
            }
            FstHierarchyEntry::Comment { .. } => "C".to_string(),
            FstHierarchyEntry::EnumTable { name, handle, mapping } => format!(
                "E:{}:{}:{}",
                hx(&name),
                handle,
                if mapping.is_empty() { "_".to_string() } else { mapping.iter().map(|(a, b)| format!("{}>{}", hx(a), hx(b))).collect::<Vec<_>>().join("+") }
            ),
            FstHierarchyEntry::EnumTableRef { handle } => format!("R:{}", handle),
            FstHierarchyEntry::VhdlVarInfo { type_name, var_type, data_type } => {
                format!("H:{}:{}:{}", hx(&type_name), var_type as u8, data_type as u8)
            }
            FstHierarchyEntry::AttributeEnd => "A".to_string(),
        });
    });
    if ok.is_err() {
        return "NOFST".to_string();
    }
    let raw = format!(
        "entries={} date={} version={} exp={}",
        if entries.is_empty() { "-".to_string() } else { entries.join(";") },
        hx(&header.date),
        hx(&header.version),
        header.timescale_exponent
    );
    // what wellen makes of it
    let loaded = guarded(|| {
        let w = viewers::read_header_from_file(args[0], &LoadOptions::default()).unwrap();
        let h = &w.hierarchy;
        let vx: Vec<String> = h
            .iter_vars()
            .map(|v| {
                format!(
                    "{}/{}",
                    v.vhdl_type_name(h).map(hx).unwrap_or("~".to_string()),
                    v.enum_type(h)
                        .map(|(n, m)| format!("{}[{}]", hx(n), m.iter().map(|(a, b)| format!("{}>{}", hx(a), hx(b))).collect::<Vec<_>>().join("+")))
                        .unwrap_or("~".to_string())
                )
            })
            .collect();
        let sx: Vec<String> = h
            .iter_scopes()
            .map(|s| {
                format!(
                    "{}/{}",
                    s.source_loc(h).map(|(p, l)| format!("{}@{}", hx(p), l)).unwrap_or("~".to_string()),
                    s.instantiation_source_loc(h).map(|(p, l)| format!("{}@{}", hx(p), l)).unwrap_or("~".to_string())
                )
            })
            .collect();
        let ts = h.timescale().map(|t| format!("{}:{}", t.factor, timescale_unit_code(t.unit))).unwrap_or("~".to_string());
        format!(
            "{} vx={} sx={} date={} version={} ts={}",
            hierarchy_obs(h, false).replace(' ', ","),
            if vx.is_empty() { "-".to_string() } else { vx.join(";") },
            if sx.is_empty() { "-".to_string() } else { sx.join(";") },
            hx(h.date()),
            hx(h.version()),
            ts
        )
    });
    format!("{} || {}", raw, loaded)
}

fn timescale_unit_code(u: TimescaleUnit) -> usize {
    match u {
        TimescaleUnit::FemtoSeconds => 0,
        TimescaleUnit::PicoSeconds => 1,
        TimescaleUnit::NanoSeconds => 2,
        TimescaleUnit::MicroSeconds => 3,
        TimescaleUnit::MilliSeconds => 4,
        TimescaleUnit::Seconds => 5,
        TimescaleUnit::Unknown => 6,
    }
}

/// `fstsig <path> <seed>`: time table and value-change callbacks for a pseudo-randomly chosen subset of the signals,
/// as the dependency delivers them, and wellen's load of the same subset in the same order
pub fn run_sig(args: &[&str]) -> String {
    let mut wave = match std::panic::catch_unwind(|| simple::read(args[0])) {
        Ok(Ok(w)) => w,
        _ => return "LOADFAIL".to_string(),
    };
    let mut seed = args[1].parse::<u64>().unwrap() | 1;
    let mut next = move || {
        seed ^= seed << 13;
        seed ^= seed >> 7;
        seed ^= seed << 17;
        seed
    };
    // the subset: every variable's signal with probability 1/2 (at least one), in a shuffled order
    let mut ids: Vec<SignalRef> = vec![];
    for v in wave.hierarchy().iter_vars() {
        if !ids.contains(&v.signal_ref()) && next() % 2 == 0 {
            ids.push(v.signal_ref());
        }
    }
    if ids.is_empty() {
        if let Some(v) = wave.hierarchy().iter_vars().next() {
            ids.push(v.signal_ref());
        }
    }
    for i in (1..ids.len()).rev() {
        let j = (next() % (i as u64 + 1)) as usize;
        ids.swap(i, j);
    }
    ids.truncate(24);
    let tpes: Vec<String> = ids.iter().map(|i| enc_str(wave.hierarchy().get_signal_tpe(*i).unwrap())).collect();
    // raw callbacks
    let mut reader = match open(args[0]) {
        Some(r) => r,
        None => return "NOFST".to_string(),
    };
    let tt: Vec<u64> = reader.get_time_table().unwrap().to_vec();
    let filter = FstFilter::filter_signals(ids.iter().map(|i| FstSignalHandle::from_index(i.index())).collect());
    let mut cbs: Vec<String> = vec![];
    let ok = reader.read_signals(&filter, |time, handle, value| {
        cbs.push(match value {
            FstSignalValue::String(s) => format!("{:x}:{}:s{}", time, handle.get_index(), if s.is_empty() { "_".to_string() } else { hex_of_bytes(s) }),
            FstSignalValue::Real(r) => format!("{:x}:{}:r{:016x}", time, handle.get_index(), r.to_bits()),
        });
    });
    if ok.is_err() || cbs.len() > 200000 {
        return "SKIP".to_string();
    }
    let raw = format!(
        "tt={} ids={} tpes={} cbs={}",
        time_table_obs(&tt),
        ids.iter().map(|i| i.index().to_string()).collect::<Vec<_>>().join(","),
        tpes.join(","),
        if cbs.is_empty() { "-".to_string() } else { cbs.join(";") }
    );
    let loaded = guarded(|| {
        // through SignalSource::load_signals -> FstWaveDatabase::load_signals
        wave.load_signals(&ids);
        ids.iter().map(|i| signal_obs(wave.get_signal(*i).unwrap())).collect::<Vec<_>>().join("|")
    });
    format!("{} || {}", raw, loaded)
}

/// `ghwhier <path>`: what wellen makes of the header of a GHW file, in the format of the model runner's `ghwh`
pub fn run_ghw_hier(args: &[&str]) -> String {
    guarded(|| {
        let w = match viewers::read_header_from_file(args[0], &LoadOptions::default()) {
            Ok(w) => w,
            Err(_) => return "ERR".to_string(),
        };
        let h = &w.hierarchy;
        let vx: Vec<String> = h
            .iter_vars()
            .map(|v| {
                format!(
                    "{}/{}",
                    v.vhdl_type_name(h).map(hx).unwrap_or("~".to_string()),
                    v.enum_type(h)
                        .map(|(n, m)| format!("{}[{}]", hx(n), m.iter().map(|(a, b)| format!("{}>{}", hx(a), hx(b))).collect::<Vec<_>>().join("+")))
                        .unwrap_or("~".to_string())
                )
            })
            .collect();
        let mut sl: Vec<String> = vec![];
        for v in h.iter_vars() {
            if let Some(s) = h.get_slice_info(v.signal_ref()) {
                let e = format!("{}:{}:{}:{}", v.signal_ref().index(), s.msb, s.lsb, s.sliced_signal.index());
                if !sl.contains(&e) {
                    sl.push(e);
                }
            }
        }
        sl.sort();
        format!(
            "{} vx={} slices={}",
            hierarchy_obs(h, false).replace(' ', ","),
            if vx.is_empty() { "-".to_string() } else { vx.join(";") },
            if sl.is_empty() { "-".to_string() } else { sl.join(",") }
        )
    })
}

/// `ghwfile <path>`: time table and every signal that is not a sub-range of another one (format of the model runner's `ghwf`)
pub fn run_ghw_file(args: &[&str]) -> String {
    guarded(|| {
        let mut wave = match simple::read(args[0]) {
            Ok(w) => w,
            Err(_) => return "ERR".to_string(),
        };
        let n = wave.hierarchy().num_unique_signals();
        let ids: Vec<SignalRef> = (0..n)
            .map(|i| SignalRef::from_index(i).unwrap())
            .filter(|r| wave.hierarchy().get_signal_tpe(*r).is_some() && wave.hierarchy().get_slice_info(*r).is_none())
            .collect();
        wave.load_signals(&ids);
        let mut out = format!("tt={}", time_table_obs(wave.time_table()));
        for id in ids {
            out.push_str(&format!(" s{}={}", id.index(), signal_obs(wave.get_signal(id).unwrap())));
        }
        out
    })
}
