(* Model of the slicing path of wellen/src/signals.rs: slice_signal, slice_bit_vector,
   slice_n_states, BitVectorBuilder::{new, add_change, finish}. *)
From WV Require Import Model.Base Model.Bits Model.WaveMem.
Open Scope N_scope.

(* for (out_bit, in_bit) in (lsb..msb+1).enumerate().rev() *)
Fixpoint slice_loop (st : states) (data : list byte) (lsb max_bits : nat)
         (out_bit_plus_1 : nat) (work : N) : outcome (list byte) :=
  match out_bit_plus_1 with
  | O => Ok []
  | S out_bit =>
    let in_bit := (lsb + out_bit)%nat in
    do rev_in_bit <- usub max_bits (S in_bit);                       (* max_bits - in_bit - 1 *)
    do in_byte <- of_option (nth_error data (rev_in_bit / per_byte st));
    let in_value := digit st in_byte (in_bit mod per_byte st) in
    let w := work * 2 ^ sbits st + in_value in
    if Nat.eqb (out_bit mod per_byte st) 0
    then do r <- slice_loop st data lsb max_bits out_bit 0; Ok (w :: r)
    else slice_loop st data lsb max_bits out_bit w
  end.

(* slice_n_states; `debug`: debug_assert!(in_bits > out_bits), debug_assert!(max_bits >= in_bits) *)
Definition slice_n_states (debug : bool) (st : states) (data : list byte) (msb lsb in_bits : nat)
  : outcome (list byte) :=
  do d <- usub msb lsb;
  let out_bits := S d in
  let max_bits := (length data * per_byte st)%nat in
  if debug && ((in_bits <=? out_bits)%nat || (max_bits <? in_bits)%nat) then Panic
  else slice_loop st data lsb max_bits out_bits 0.

Record bv_builder := mk_bvb {
  bb_max : states;
  bb_bits : nat;
  bb_len : nat;
  bb_has_meta : bool;
  bb_bpe : nat;
  bb_data : list byte;
  bb_idx : list N
}.

(* BitVectorBuilder::new: assert!(bits > 0) *)
Definition bvb_new (max_states : states) (bits : nat) : outcome bv_builder :=
  if Nat.eqb bits 0 then Panic
  else let '(len, has_meta) := get_len_and_meta max_states bits in
       Ok (mk_bvb max_states bits len has_meta (get_bytes_per_entry len has_meta) [] []).

(* BitVectorBuilder::add_change with a value of kind `local` *)
Definition bvb_add_change (debug : bool) (b : bv_builder) (time_idx : N) (local : states)
           (data : list byte) : outcome bv_builder :=
  if debug && (states_num (bb_max b) <? states_num local) then Panic     (* debug_assert!(local <= max) *)
  else
    do entry <-
      (if Nat.eqb (bb_bits b) 1 then
         do d0 <- of_option (hd_error data);
         Ok [N.lor (d0 mod 16) (states_num local * 64)]
       else
         let num_bytes := div_ceil (bb_bits b) (per_byte local) in
         if negb (Nat.eqb (length data) num_bytes) then Panic              (* assert_eq! *)
         else
           let '(local_len, local_has_meta) := get_len_and_meta local (bb_bits b) in
           let meta_data := states_num local * 64 in
           if Nat.eqb local_len (bb_len b) && Bool.eqb local_has_meta (bb_has_meta b) then
             if bb_has_meta b then Ok (meta_data :: data)
             else match data with
                  | d0 :: dr => Ok (N.lor meta_data d0 :: dr)
                  | [] => Panic
                  end
           else
             do pad <- (if bb_has_meta b then usub (bb_len b) local_len
                        else do x <- usub (bb_len b) local_len; usub x 1);
             Ok (meta_data :: zeros pad ++ data));
    let '(changed, out) := check_if_changed_and_truncate (bb_bpe b) (bb_data b ++ entry) in
    Ok (mk_bvb (bb_max b) (bb_bits b) (bb_len b) (bb_has_meta b) (bb_bpe b) out
               (if changed then bb_idx b ++ [time_idx] else bb_idx b)).

Definition bvb_finish (b : bv_builder) : signal :=
  mk_signal (bb_idx b) (SigBits (bb_max b) (bb_bits b) (bb_has_meta b) (bb_bpe b) (bb_data b)).

(* the raw value SignalChangeData::get_value_at hands to the slicer: (kind, data bytes, bits) *)
Definition get_raw_value (d : signal_data) (offset : nat) : outcome (states * list byte) :=
  match d with
  | SigBits max_states bits meta_byte width bytes =>
    let start := (offset * width)%nat in
    if (length bytes <? start + width)%nat then Panic
    else
      let raw_data := firstn width (skipn start bytes) in
      do data <- (if meta_byte then match raw_data with [] => Panic | _ :: r => Ok r end else Ok raw_data);
      match max_states with
      | Two => Ok (Two, data)
      | _ =>
        do r0 <- of_option (hd_error raw_data);
        do st <- of_option (states_of_num ((r0 / 64) mod 4));
        let num_out_bytes := div_ceil bits (per_byte st) in
        do drop <- usub (length data) num_out_bytes;
        Ok (st, skipn drop data)
      end
  | _ => Panic
  end.

(* the loop of slice_bit_vector over the entries (offset, time index) of the parent *)
Fixpoint slice_go (debug : bool) (d : signal_data) (msb lsb in_bits result_bits : nat) (l : list (nat * N))
         (b : bv_builder) : outcome bv_builder :=
  match l with
  | [] => Ok b
  | (k, t) :: r =>
    do b' <- (do '(st, data) <- get_raw_value d k;
              do buf <- slice_n_states debug st data msb lsb in_bits;
              let min_states := check_min_state buf st in
              if states_eqb min_states st then bvb_add_change debug b t st buf
              else do mb <- compress_template buf st min_states result_bits;
                   bvb_add_change debug b t min_states mb);
    slice_go debug d msb lsb in_bits result_bits r b'
  end.

(* slice_signal / slice_bit_vector, including the reduction to the smallest sufficient kind *)
Definition slice_signal (debug : bool) (s : signal) (msb lsb : nat) : outcome signal :=
  match s_data s with
  | SigBits max_states in_bits _ _ _ =>
    if debug && (msb <? lsb)%nat then Panic
    else
      do d <- usub msb lsb;
      let result_bits := S d in
      do b0 <- bvb_new max_states result_bits;
      do b <- slice_go debug (s_data s) msb lsb in_bits result_bits
                       (combine (seq 0 (length (s_idx s))) (s_idx s)) b0;
      Ok (bvb_finish b)
  | _ => Panic
  end.
