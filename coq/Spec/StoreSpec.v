(* Specification of the value store (property C04): what a sequence of encoder operations records
   for one signal, independent of blocks, packing and compression. *)
From WV Require Import Model.Base Model.Bits Model.WaveMem Spec.TimeSpec.
Open Scope N_scope.

(* a recorded value: the text of a VCD value change, or a pre-packed value with its kind (GHW path) *)
Inductive rec_val := RText (v : list byte) | RRaw (data : list byte) (st : Bits.states).

(* the changes recorded for signal `id`: (index into the accepted time table, value).
   `tbl` is the table accepted so far, `skip` says that the current time step was rejected
   (its time stamp went backwards) so that its changes are dropped *)
Fixpoint recorded (id : nat) (ops : list enc_op) (tbl : list N) (skip : bool) : list (N * rec_val) :=
  match ops with
  | [] => []
  | OpTime t :: r =>
    match last_of tbl with
    | None => recorded id r (tbl ++ [t]) false
    | Some p =>
      match N.compare p t with
      | Lt => recorded id r (tbl ++ [t]) false
      | Eq => recorded id r tbl false
      | Gt => recorded id r tbl true
      end
    end
  | OpVcd i v :: r =>
    if skip || negb (Nat.eqb i id) then recorded id r tbl skip
    else (N.of_nat (length tbl) - 1, RText v) :: recorded id r tbl skip
  | OpRaw i data st :: r =>
    if skip || negb (Nat.eqb i id) then recorded id r tbl skip
    else (N.of_nat (length tbl) - 1, RRaw data st) :: recorded id r tbl skip
  | _ :: r => recorded id r tbl skip
  end.

(* real-valued and string-valued signals: a recorded value is the text of a VCD value change ("r1.5", "sfoo")
   or the 8 little endian bytes of a double handed over directly (GHW, FST) *)
Inductive rs_val := PText (v : list byte) | PReal (le : list byte).

Fixpoint recorded_rs (id : nat) (ops : list enc_op) (tbl : list N) (skip : bool) : list (N * rs_val) :=
  match ops with
  | [] => []
  | OpTime t :: r =>
    match last_of tbl with
    | None => recorded_rs id r (tbl ++ [t]) false
    | Some p =>
      match N.compare p t with
      | Lt => recorded_rs id r (tbl ++ [t]) false
      | Eq => recorded_rs id r tbl false
      | Gt => recorded_rs id r tbl true
      end
    end
  | OpVcd i v :: r =>
    if skip || negb (Nat.eqb i id) then recorded_rs id r tbl skip
    else (N.of_nat (length tbl) - 1, PText v) :: recorded_rs id r tbl skip
  | OpReal i le :: r =>
    if skip || negb (Nat.eqb i id) then recorded_rs id r tbl skip
    else (N.of_nat (length tbl) - 1, PReal le) :: recorded_rs id r tbl skip
  | _ :: r => recorded_rs id r tbl skip
  end.

(* consecutive entries with the same payload are reported once (the first one) *)
Fixpoint dedup_by {A B} (eqb : B -> B -> bool) (key : A -> B) (l : list A) (prev : option B) : list A :=
  match l with
  | [] => []
  | a :: r =>
    match prev with
    | Some p => if eqb p (key a) then dedup_by eqb key r prev else a :: dedup_by eqb key r (Some (key a))
    | None => a :: dedup_by eqb key r (Some (key a))
    end
  end.
