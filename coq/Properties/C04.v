(* Property C04: storage is transparent.  Pinned: the codec layer (packing of 2/4/9-state symbols,
   LEB128, meta-data word), the value stream (load_fixed_stream), the block layout (region_found,
   region_decodes), loading over any list of blocks (load_signal_blocks), the rendering of every
   stored entry (entry_render, observe_entries), and the end-to-end theorems:
     storage_transparent      bit-vector signals of every width >= 1, written through the VCD text path
                              (vcd_value_change) and through the raw path (raw_value_change with packed data, GHW);
     storage_transparent_rs   real-valued and string-valued signals (VCD text path and doubles handed over as 8 bytes);
     appended_transparent, appended_transparent_rs
                              the same when the recording was divided among several encoders (parser threads) that
                              are appended in order;
     storage_independent_of_segmentation
                              two stores with different block capacities / compressors report the same.
   Together they state the property for every signal kind, every segmentation into blocks and every division among
   threads.  Their premises are the size limits beyond which the real code's u32 length fields wrap (fewer than 2^32
   time table entries, less than 4 GiB of data per signal), block capacity <= 65536, the LZ4 round-trip law and
   (reals) that the f64 parser yields 8 bytes. *)
From WV Require Import Model.Base Model.Bits Model.Leb128 Model.WaveMem Proofs.BitsProofs Proofs.LebProofs Proofs.WaveMemProofs Proofs.StoreProofs Proofs.EncoderProofs Proofs.RealStringProofs Proofs.RealStringEnc.
From WV Require Import Spec.TimeSpec Spec.StoreSpec Proofs.TimeTableProofs.
Open Scope N_scope.

(* write_n_state followed by the symbol extraction of n_state_to_bit_string is the identity for
   every state kind and every width (right-aligned partial first byte, all residues) *)
Check pack_unpack :
  forall st syms, small_syms st syms ->
  n_state_symbols st (write_n_state_loop st syms 0 None) (length syms) = Ok syms.

Check packed_length :
  forall st syms, length (write_n_state_loop st syms 0 None) = div_ceil (length syms) (per_byte st).

(* a value stored in its own or any wider kind renders as the same (lower-cased) characters *)
Check write_render_wider :
  forall value st st', check_states value = Some st -> states_num st <= states_num st' ->
  exists packed, write_n_state st' value None = Ok packed /\
                 n_state_to_bit_string st' packed (length value) = Ok (map lower value).

Check leb_roundtrip :
  forall v rest, v < 2 ^ 64 -> leb_read (leb_write v ++ rest) = Some (v, rest).

(* the per-signal meta-data word survives encode/decode; the rounded length is never too small *)
Check metadata_roundtrip_uncompressed :
  forall mx, meta_decode (meta_encode (mk_meta Uncompressed mx)) = Ok (mk_meta Uncompressed mx).
Check metadata_roundtrip_compressed :
  forall mx n, n < 4294967264 ->
  meta_decode (meta_encode (meta_compressed mx n)) = Ok (meta_compressed mx n) /\
  match em_comp (meta_compressed mx n) with Compressed len => n <= len | Uncompressed => False end.

(* load_fixed_len_signal over a value stream: the de-duplicated widened entries, time indices = running sums *)
Check load_fixed_stream :
  forall mx bits es fuel t acc canon,
  Forall (wf_sentry mx bits) es -> acc_rep (bpe_of mx bits) acc canon -> (length es < fuel)%nat ->
  exists acc', load_fixed fuel (enc_stream bits es) t bits mx acc = Ok acc' /\
               acc_rep (bpe_of mx bits) acc' (load_spec mx bits es t canon) /\
               la_strings acc' = la_strings acc.

(* get_value_at on any entry of a loaded signal: the kind it was recorded with and exactly its symbols,
   for every widest kind of the signal, every width >= 1 and whatever surrounds the entry *)
Check entry_render :
  forall mx bits local syms pre post (k : nat),
  (1 <= bits)%nat -> length syms = bits -> small_syms local syms -> states_num local <= states_num mx ->
  length pre = (k * bpe_of mx bits)%nat ->
  get_value_at (SigBits mx bits (snd (get_len_and_meta mx bits)) (bpe_of mx bits)
                        (pre ++ wide mx bits local (write_n_state_loop local syms 0 None) ++ post)) k
  = do s <- lookup_all (lookup_table local) syms; Ok (kind_of_states local, s).

(* Reader::load_signal over any list of finished blocks (any segmentation, compressed or raw):
   the canonical entries of all blocks in order, each block's time index offset added.
   lz4 is a parameter constrained only by decompress (compress d) = d (assumption A-lz4) *)
Check load_signal_blocks :
  forall (lz_compress : list byte -> list byte) (lz_decompress : list byte -> nat -> option (list byte)),
  (forall d n, (length d <= n)%nat -> lz_decompress (lz_compress d) n = Some d) ->
  forall id bits (bl : list blk), (1 <= bits)%nat -> Forall (blk_ok id bits) bl ->
  exists mx,
    Forall (fun x : blk => let '(_, _, _, se, es) := x in es <> [] -> states_num (se_max se) <= states_num mx) bl /\
    load_signal lz_decompress (map (blk_block lz_compress) bl) id (EncBits bits)
    = Ok (mk_signal (map fst (blks_spec mx bits bl 0 []))
                    (SigBits mx bits (snd (get_len_and_meta mx bits)) (bpe_of mx bits)
                             (concat (map snd (blks_spec mx bits bl 0 []))))).

(* iter_changes over a signal holding the widened entries of `abs`: time index, kind and characters of each *)
Check observe_entries :
  forall mx bits (abs : list aentry), (1 <= bits)%nat -> Forall (aentry_ok mx bits) abs ->
  observe_signal (mk_signal (map fst (map (wide_of mx bits) abs))
                            (SigBits mx bits (snd (get_len_and_meta mx bits)) (bpe_of mx bits)
                                     (concat (map snd (map (wide_of mx bits) abs)))))
  = outcome_map render_of abs.

(* END-TO-END (bit vectors of any width >= 1, VCD text path and raw path): for every operation history over any
   number of signals, every block capacity 1..65536 (every segmentation; the code's 65535 is one instance),
   every compressor satisfying the round-trip law: the loaded signal reports exactly the recorded changes
   (Spec/StoreSpec.v `recorded`): index into the accepted time table, least kind holding the value, its
   characters; consecutive equal values once.  Size side conditions: fewer than 2^32 time table entries and
   less than 4 GiB of data for the signal (beyond that the real code's u32 length fields wrap). *)
Check storage_transparent :
  forall (parse_f64 : list byte -> option (list byte)) (lz_compress : list byte -> list byte)
         (lz_decompress : list byte -> nat -> option (list byte)),
  (forall d n, (length d <= n)%nat -> lz_decompress (lz_compress d) n = Some d) ->
  forall cap, 1 <= cap -> cap <= 65536 -> forall id bits, (1 <= bits)%nat ->
  forall tpes ops e blocks ttb,
  nth_error tpes id = Some (EncBits bits) ->
  Forall (op_ok id bits) ops ->
  N.of_nat (count_vcd id ops) * (10 + N.of_nat bits) < 4294967264 ->
  run_ops parse_f64 lz_compress cap (enc_new tpes) ops = Ok e ->
  enc_finish lz_compress e = Ok (blocks, ttb) ->
  N.of_nat (length ttb) < 4294967296 ->
  exists R sig,
    Forall2 (decodes bits) R (recorded id ops [] false) /\
    load_signal lz_decompress blocks id (EncBits bits) = Ok sig /\
    observe_signal sig = outcome_map render_of (dedup R).

(* the same for real-valued (str = false) and string-valued (str = true) signals: every recorded change that is
   not a repetition of the value before it is reported with its time-table index and its value (the 8 bytes of
   the double / the bytes of the string), in order, and nothing else.  parse_f64 stands for
   str::parse::<f64>().to_le_bytes() (8 bytes). *)
Check storage_transparent_rs :
  forall (parse_f64 : list byte -> option (list byte)),
  (forall r le, parse_f64 r = Some le -> length le = 8%nat) ->
  forall (lz_compress : list byte -> list byte) (lz_decompress : list byte -> nat -> option (list byte)),
  (forall d n, (length d <= n)%nat -> lz_decompress (lz_compress d) n = Some d) ->
  forall cap, 1 <= cap -> cap <= 65536 -> forall id str tpes ops e blocks ttb,
  nth_error tpes id = Some (rs_tpe str) ->
  Forall (rs_op_ok id str) ops ->
  ops_cost id ops < 4294967264 ->
  run_ops parse_f64 lz_compress cap (enc_new tpes) ops = Ok e ->
  enc_finish lz_compress e = Ok (blocks, ttb) -> N.of_nat (length ttb) < 4294967296 ->
  exists R sig,
    Forall2 (gdecodes parse_f64 str) R (recorded_rs id ops [] false) /\ Forall (payload_ok str) R /\
    load_signal lz_decompress blocks id (rs_tpe str) = Ok sig /\
    observe_signal sig = Ok (map (fun a : N * list byte => (fst a, if str then KString else KReal, snd a)) (gdedup R)).

Check appended_transparent_rs :
  forall (parse_f64 : list byte -> option (list byte)),
  (forall r le, parse_f64 r = Some le -> length le = 8%nat) ->
  forall (lz_compress : list byte -> list byte) (lz_decompress : list byte -> nat -> option (list byte)),
  (forall d n, (length d <= n)%nat -> lz_decompress (lz_compress d) n = Some d) ->
  forall cap, 1 <= cap -> cap <= 65536 -> forall id str tpes
         (opss : list (list enc_op)) (encs : list encoder) first others e blocks ttb,
  nth_error tpes id = Some (rs_tpe str) ->
  Forall2 (fun ops en => run_ops parse_f64 lz_compress cap (enc_new tpes) ops = Ok en) opss encs ->
  Forall (fun ops => Forall (rs_op_ok id str) ops /\ ops_cost id ops < 4294967264) opss ->
  encs = first :: others ->
  append_all lz_compress first others = Ok e ->
  enc_finish lz_compress e = Ok (blocks, ttb) -> N.of_nat (length ttb) < 4294967296 ->
  exists Rs sig,
    Forall2 (fun R ops => Forall2 (gdecodes parse_f64 str) R (recorded_rs id ops [] false)) Rs opss /\
    load_signal lz_decompress blocks id (rs_tpe str) = Ok sig /\
    observe_signal sig
    = Ok (map (fun a : N * list byte => (fst a, if str then KString else KReal, snd a))
              (gdedup (gcat_shift (combine Rs (map (fun ops => N.of_nat (length (accepted (times_of ops)))) opss)) 0))).

(* two stores with different block capacities / compressors fed the same history report the same changes *)
Check storage_independent_of_segmentation :
  forall parse1 parse2 lzc1 lzd1 lzc2 lzd2 cap1 cap2 id bits tpes ops e1 e2 b1 t1 b2 t2,
  (forall d n, (length d <= n)%nat -> lzd1 (lzc1 d) n = Some d) ->
  (forall d n, (length d <= n)%nat -> lzd2 (lzc2 d) n = Some d) ->
  1 <= cap1 <= 65536 -> 1 <= cap2 <= 65536 -> (1 <= bits)%nat ->
  nth_error tpes id = Some (EncBits bits) -> Forall (op_ok id bits) ops ->
  N.of_nat (count_vcd id ops) * (10 + N.of_nat bits) < 4294967264 ->
  run_ops parse1 lzc1 cap1 (enc_new tpes) ops = Ok e1 -> enc_finish lzc1 e1 = Ok (b1, t1) ->
  run_ops parse2 lzc2 cap2 (enc_new tpes) ops = Ok e2 -> enc_finish lzc2 e2 = Ok (b2, t2) ->
  N.of_nat (length t1) < 4294967296 -> N.of_nat (length t2) < 4294967296 ->
  exists s1 s2, load_signal lzd1 b1 id (EncBits bits) = Ok s1 /\ load_signal lzd2 b2 id (EncBits bits) = Ok s2 /\
                observe_signal s1 = observe_signal s2.

(* several encoders (one per parser thread), each fed its own history, appended in order: the loaded signal
   reports the threads' recordings one after the other, time indices shifted by the earlier time tables *)
Check appended_transparent :
  forall (parse_f64 : list byte -> option (list byte)) (lz_compress : list byte -> list byte)
         (lz_decompress : list byte -> nat -> option (list byte)),
  (forall d n, (length d <= n)%nat -> lz_decompress (lz_compress d) n = Some d) ->
  forall cap, 1 <= cap -> cap <= 65536 -> forall id bits, (1 <= bits)%nat ->
  forall tpes (opss : list (list enc_op)) (encs : list encoder) first others e blocks ttb,
  nth_error tpes id = Some (EncBits bits) ->
  Forall2 (fun ops en => run_ops parse_f64 lz_compress cap (enc_new tpes) ops = Ok en) opss encs ->
  Forall (fun ops => Forall (op_ok id bits) ops /\ N.of_nat (count_vcd id ops) * (10 + N.of_nat bits) < 4294967264) opss ->
  encs = first :: others ->
  append_all lz_compress first others = Ok e ->
  enc_finish lz_compress e = Ok (blocks, ttb) -> N.of_nat (length ttb) < 4294967296 ->
  exists Rs sig,
    Forall2 (fun R ops => Forall2 (decodes bits) R (recorded id ops [] false)) Rs opss /\
    load_signal lz_decompress blocks id (EncBits bits) = Ok sig /\
    observe_signal sig
    = outcome_map render_of
        (dedup (cat_shift (combine Rs (map (fun ops => N.of_nat (length (accepted (times_of ops)))) opss)) 0)).

Check load_reals_stream : forall es fuel t acc canon,
  Forall rwf es -> acc_rep 8 acc canon -> (length es < fuel)%nat ->
  exists acc', load_reals fuel (rstream es) t acc = Ok acc' /\ acc_rep 8 acc' (rspec es t canon) /\
               la_strings acc' = la_strings acc.

Check observe_reals : forall canon : list (N * list byte), entries_ok 8 canon ->
  observe_signal (mk_signal (map fst canon) (SigReal (concat (map snd canon))))
  = Ok (map (fun e : N * list byte => (fst e, KReal, snd e)) canon).

Check load_strings_stream : forall es fuel t acc canon,
  Forall swf es -> str_rep acc canon -> (length es < fuel)%nat ->
  exists acc', load_strings fuel (sstream es) t acc = Ok acc' /\ str_rep acc' (rspec es t canon) /\
               la_bytes acc' = la_bytes acc.

Check observe_strings : forall canon : list (N * list byte),
  observe_signal (mk_signal (map fst canon) (SigStrings (map snd canon)))
  = Ok (map (fun e : N * list byte => (fst e, KString, snd e)) canon).

Print Assumptions appended_transparent.
Print Assumptions load_reals_stream.
Print Assumptions observe_reals.
Print Assumptions load_strings_stream.
Print Assumptions observe_strings.
Print Assumptions storage_transparent.
Print Assumptions appended_transparent_rs.
Print Assumptions storage_transparent_rs.
Print Assumptions storage_independent_of_segmentation.
Print Assumptions load_fixed_stream.
Print Assumptions entry_render.
Print Assumptions load_signal_blocks.
Print Assumptions observe_entries.
Print Assumptions metadata_roundtrip_uncompressed.
Print Assumptions metadata_roundtrip_compressed.
Print Assumptions pack_unpack.
Print Assumptions packed_length.
Print Assumptions write_render_wider.
Print Assumptions leb_roundtrip.
