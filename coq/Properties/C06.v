(* Property C06: loaded signals are in canonical form.  Pinned so far: the kind determined on write
   is the least kind able to hold the value (tables re-checked against the translated source). *)
From WV Require Import Model.Base Model.Bits Proofs.BitsProofs.
Open Scope N_scope.

Check check_states_min :
  forall value st, check_states value = Some st ->
  exists nums, chars_to_nums value = Some nums /\
    small_syms st nums /\ Forall (fun v => v <= 8) nums /\
    forall st', small_syms st' nums -> states_num st <= states_num st'.

Check from_value_least :
  forall v st, v <= 8 -> (v < 2 ^ sbits st <-> states_num (from_value v) <= states_num st).

Print Assumptions check_states_min.
Print Assumptions from_value_least.
