(* The GHW vector buffer over a whole time step (ghw/signals.rs VecBuffer: set_value / is_second_change /
   full_signal_has_changed / process_changed_signals; property C11): what exactly is handed to the store while the per-bit
   records of a time step come in and when the step is finished - every value handed over is the vector's symbols at that
   moment, an untouched vector hands over nothing, and the last value handed over for a touched vector is its final
   symbols. *)
From Coq Require Import Lia ZifyBool ZifyNat ZifyN.
From WV Require Import Model.Base Generated.Consts Model.Bits Model.Leb128 Model.WaveMem Model.Ghw
  Proofs.BitsProofs Proofs.SliceProofs Proofs.StoreProofs Proofs.RawProofs Proofs.VecProofs.
Open Scope N_scope.

Definition pk (st : states) (syms : list N) : list byte := write_n_state_loop st syms 0 None.

(* what one per-bit record does, exactly *)
Section One.
Variable parse_f64 : list byte -> option (list byte).
Variable lz_compress : list byte -> list byte.
Variable cap : N.

Definition emit_ops (sref : nat) (st : states) (emits : list (list N)) : list enc_op :=
  map (fun s => OpRaw sref (pk st s) st) emits.

Theorem vec_update_exact vb e vec_id signal_index value sref vb' e' S v :
  vbinv vb S -> nth_error (vb_vecs vb) vec_id = Some v ->
  value < 2 ^ sbits (ve_states v) -> value <= 8 ->
  vec_update vb e vec_id signal_index value sref (ve_states v) = Ok (vb', e') ->
  exists syms bit,
    nth_error S vec_id = Some syms /\ bit_of v signal_index = Ok bit /\ (bit < ve_bits v)%nat /\
    let pos := (ve_bits v - 1 - bit)%nat in
    let second := nth bit (ve_bit_change v) false && negb (nth pos syms 0 =? value) in
    let syms' := list_update syms pos value in
    let mask1 := if second then repeat false (ve_bits v) else ve_bit_change v in
    let mask2 := list_update mask1 bit true in
    let full := forallb (fun b => b) mask2 in
    let emits := (if second then [syms] else []) ++ (if full then [syms'] else []) in
    run_ops parse_f64 lz_compress cap e (emit_ops sref (ve_states v) emits) = Ok e' /\
    exists v',
      vb_vecs vb' = list_update (vb_vecs vb) vec_id v' /\ vinv' v' syms' /\
      ve_bit_change v' = (if full then repeat false (ve_bits v) else mask2) /\ ve_signal_change v' = negb full /\
      ve_ref v' = ve_ref v /\ ve_states v' = ve_states v /\ ve_bits v' = ve_bits v /\ ve_max_index v' = ve_max_index v /\
      vb_change_list vb' = (if (if second then false else ve_signal_change v) then vb_change_list vb else vb_change_list vb ++ [vec_id]).
Proof.
  intros Hinv Hv Hval H8 H. unfold vec_update in H. rewrite Hv in H. cbn [of_option bind] in H.
  destruct (forall2_nth vinv' _ _ _ _ Hinv Hv) as (syms & HS & [Hvi Hmask]).
  destruct (bit_of v signal_index) as [bit| |] eqn:Ebit; try discriminate. cbn [bind] in H.
  destruct (nth_error (ve_bit_change v) bit) as [changed|] eqn:Ech; [|discriminate]. cbn [of_option bind] in H.
  destruct (Nat.ltb_spec bit (ve_bits v)) as [Hbit|Hbit].
  2:{ exfalso. assert (bit < length (ve_bit_change v))%nat by (apply nth_error_Some; congruence). lia. }
  rewrite (ve_get_spec v syms bit Hvi Hbit) in H. cbn [bind] in H.
  exists syms, bit. split; [exact HS|]. split; [reflexivity|]. split; [exact Hbit|]. cbn zeta.
  assert (Enth : nth bit (ve_bit_change v) false = changed) by (now apply nth_error_nth).
  rewrite Enth. set (old := nth (ve_bits v - 1 - bit) syms 0) in *.
  destruct (changed && negb (old =? value)) eqn:Efirst.
  - destruct (raw e sref (ve_data v) (ve_states v)) as [e1| |] eqn:E1; try discriminate. cbn [bind] in H.
    pose proof (vinv_clear v syms Hvi) as Hvc.
    destruct (ve_set_value (clear_changes v) bit value) as [data| |] eqn:Eset; try discriminate. cbn [bind] in H.
    pose proof (vinv_set (clear_changes v) syms bit value data Hvc Hbit Hval H8 Eset) as Hv2.
    rewrite (ve_set_spec (clear_changes v) syms bit value Hvc Hbit Hval) in Eset. inversion Eset; subst data. clear Eset.
    cbn [clear_changes ve_bits ve_states ve_ref ve_max_index ve_signal_change ve_bit_change ve_data] in *.
    assert (Hd : ve_data v = pk (ve_states v) syms) by (destruct Hvi as (Hd & _); exact Hd).
    match type of H with context [full_signal_has_changed ?vv] => set (v2 := vv) in *; destruct (full_signal_has_changed v2) eqn:Efull end;
      unfold full_signal_has_changed, v2 in Efull; cbn [ve_bit_change] in Efull; rewrite Efull.
    + match type of H with context [raw e1 sref ?dd ?ss] => destruct (raw e1 sref dd ss) as [e2| |] eqn:E2 end; try discriminate. cbn [bind] in H. injection H as <- <-.
      split.
      { cbn [app emit_ops map WaveMem.run_ops WaveMem.run_op]. unfold raw in E1, E2. rewrite <- Hd, E1. cbn [bind]. unfold pk. rewrite E2. reflexivity. }
      eexists. cbn [vb_vecs vb_change_list]. split; [reflexivity|]. cbn [clear_changes ve_bit_change ve_signal_change ve_ref ve_states ve_bits ve_max_index negb].
      split; [split; [apply vinv_clear; apply Hv2|apply repeat_length]|repeat split; reflexivity].
    + injection H as <- <-. split.
      { cbn [app emit_ops map WaveMem.run_ops WaveMem.run_op]. unfold raw in E1. rewrite <- Hd, E1. reflexivity. }
      eexists. cbn [vb_vecs vb_change_list]. split; [reflexivity|]. unfold v2. cbn [ve_bit_change ve_signal_change ve_ref ve_states ve_bits ve_max_index negb].
      split; [split; [apply Hv2|cbn [ve_bit_change ve_bits]; rewrite list_update_length, repeat_length; reflexivity]|repeat split; reflexivity].
  - cbn [bind] in H.
    destruct (ve_set_value v bit value) as [data| |] eqn:Eset; try discriminate. cbn [bind] in H.
    pose proof (vinv_set v syms bit value data Hvi Hbit Hval H8 Eset) as Hv2.
    rewrite (ve_set_spec v syms bit value Hvi Hbit Hval) in Eset. inversion Eset; subst data. clear Eset.
    match type of H with context [full_signal_has_changed ?vv] => set (v2 := vv) in *; destruct (full_signal_has_changed v2) eqn:Efull end;
      unfold full_signal_has_changed, v2 in Efull; cbn [ve_bit_change] in Efull; rewrite Efull.
    + match type of H with context [raw e sref ?dd ?ss] => destruct (raw e sref dd ss) as [e2| |] eqn:E2 end; try discriminate. cbn [bind] in H. injection H as <- <-.
      split.
      { cbn [app emit_ops map WaveMem.run_ops WaveMem.run_op]. unfold raw in E2. unfold pk. try (unfold v2 in E2; cbn [ve_data] in E2). rewrite E2. reflexivity. }
      eexists. cbn [vb_vecs vb_change_list]. split; [reflexivity|]. cbn [clear_changes ve_bit_change ve_signal_change ve_ref ve_states ve_bits ve_max_index negb].
      split; [split; [apply vinv_clear; apply Hv2|apply repeat_length]|repeat split; reflexivity].
    + injection H as <- <-. split; [reflexivity|].
      eexists. cbn [vb_vecs vb_change_list]. split; [reflexivity|]. unfold v2. cbn [ve_bit_change ve_signal_change ve_ref ve_states ve_bits ve_max_index negb].
      split; [split; [apply Hv2|cbn [ve_bit_change ve_bits]; rewrite list_update_length; exact Hmask]|repeat split; reflexivity].
Qed.

End One.

(* ------------------------------------------------------------------ a whole time step *)
(* what is handed to the store, tagged with the vector it belongs to *)
Definition for_id (id : nat) (T : list (nat * list N)) : list (list N) :=
  map snd (filter (fun p => Nat.eqb (fst p) id) T).

Lemma for_id_app id A B : for_id id (A ++ B) = for_id id A ++ for_id id B.
Proof. unfold for_id. now rewrite filter_app, map_app. Qed.

Lemma for_id_same id emits : for_id id (map (fun s => (id, s)) emits) = emits.
Proof. unfold for_id. induction emits as [|s r IH]; [reflexivity|]. cbn [map filter fst]. rewrite Nat.eqb_refl. cbn [map snd]. now rewrite IH. Qed.

Lemma for_id_other id id' emits : id' <> id -> for_id id (map (fun s => (id', s)) emits) = [].
Proof.
  intros Hne. unfold for_id. induction emits as [|s r IH]; [reflexivity|]. cbn [map filter fst].
  destruct (Nat.eqb_spec id' id); [congruence|exact IH].
Qed.

Lemma update_same_nth {A} : forall (l : list A) i x, nth_error l i = Some x -> list_update l i x = l.
Proof. induction l as [|a l IH]; intros [|i] x H; cbn in *; try discriminate; [now inversion H|]. now rewrite IH. Qed.

Definition ops_of_trace (vecs : list vec_entry) (T : list (nat * list N)) : list enc_op :=
  map (fun p => match nth_error vecs (fst p) with
                | Some v => OpRaw (ve_ref v) (pk (ve_states v) (snd p)) (ve_states v)
                | None => OpTime 0
                end) T.

(* the static part of the vectors: width, kind, signal reference, index base *)
Definition shape (v : vec_entry) := (ve_bits v, ve_states v, ve_ref v, ve_max_index v).
Definition same_shape (a b : list vec_entry) : Prop := map shape a = map shape b.

Lemma same_shape_nth a b id v : same_shape a b -> nth_error b id = Some v -> exists v0, nth_error a id = Some v0 /\ shape v0 = shape v.
Proof.
  unfold same_shape. intros H Hv. assert (Hm : nth_error (map shape b) id = Some (shape v)) by (now rewrite nth_error_map, Hv).
  rewrite <- H, nth_error_map in Hm. destruct (nth_error a id) as [v0|]; [|discriminate]. cbn [option_map] in Hm. exists v0. split; [reflexivity|]. congruence.
Qed.

Lemma same_shape_update a b id v v' : same_shape a b -> nth_error b id = Some v -> shape v' = shape v -> same_shape a (list_update b id v').
Proof.
  unfold same_shape. intros H Hv Hs. rewrite H, map_update, Hs. symmetry. apply update_same_nth. now rewrite nth_error_map, Hv.
Qed.

Lemma ops_of_trace_shape a b T : same_shape a b -> (forall p, In p T -> (fst p < length b)%nat) -> ops_of_trace a T = ops_of_trace b T.
Proof.
  intros H Hb. unfold ops_of_trace. apply map_ext_in. intros p Hp. specialize (Hb p Hp).
  destruct (nth_error b (fst p)) as [v|] eqn:E; [|apply nth_error_None in E; lia].
  destruct (same_shape_nth a b (fst p) v H E) as (v0 & E0 & Hs). rewrite E0. unfold shape in Hs. inversion Hs. congruence.
Qed.

Lemma nth_error_upd_eq {A} (l : list A) : forall i x, (i < length l)%nat -> nth_error (list_update l i x) i = Some x.
Proof. induction l as [|a l IH]; intros [|i] x H; cbn in *; try lia; [reflexivity|]. apply IH. lia. Qed.
Lemma nth_error_upd_neq {A} (l : list A) : forall i j x, i <> j -> nth_error (list_update l i x) j = nth_error l j.
Proof. induction l as [|a l IH]; intros [|i] [|j] x H; cbn; try reflexivity; try congruence. apply IH. congruence. Qed.
Lemma last_opt_end {A} (l : list A) x : last_opt (l ++ [x]) = Some x.
Proof. induction l as [|a l IH]; [reflexivity|]. cbn [app last_opt]. destruct (l ++ [x]) eqn:E; [destruct l; discriminate|]. exact IH. Qed.

Lemma run_ops_cat parse_f64 lz cap : forall a b e e1 e2,
  run_ops parse_f64 lz cap e a = Ok e1 -> run_ops parse_f64 lz cap e1 b = Ok e2 -> run_ops parse_f64 lz cap e (a ++ b) = Ok e2.
Proof.
  induction a as [|op a IH]; intros b e e1 e2 Ha Hb; cbn [app WaveMem.run_ops] in *.
  - inversion Ha; subst. exact Hb.
  - destruct (run_op parse_f64 lz cap e op) as [e'| |]; try discriminate. cbn [bind] in *. eapply IH; eauto.
Qed.

Lemma f2_length {A B} (P : A -> B -> Prop) l1 l2 : Forall2 P l1 l2 -> length l1 = length l2.
Proof. induction 1; cbn; congruence. Qed.

Lemma for_id_none id T : (forall p, In p T -> fst p <> id) -> for_id id T = [].
Proof.
  unfold for_id. induction T as [|p T IH]; intros H; [reflexivity|]. cbn [filter]. destruct (Nat.eqb_spec (fst p) id) as [E|_]; [exfalso; apply (H p); [now left|exact E]|].
  apply IH. intros q Hq. apply H. now right.
Qed.

Section Step.
Variable parse_f64 : list byte -> option (list byte).
Variable lz_compress : list byte -> list byte.
Variable cap : N.
Variable vecs0 : list vec_entry.

Record sinv (vb : vec_buffer) (S : list (list N)) (T : list (nat * list N)) (touched : list nat) : Prop := {
  si_inv : vbinv vb S;
  si_shape : same_shape vecs0 (vb_vecs vb);
  si_tr : forall p, In p T -> (fst p < length vecs0)%nat;
  si_cl : forall id, In id (vb_change_list vb) -> In id touched;
  si_vec : forall id v syms, nth_error (vb_vecs vb) id = Some v -> nth_error S id = Some syms ->
     (ve_signal_change v = true -> In id (vb_change_list vb)) /\
     (ve_signal_change v = false -> In id touched -> last_opt (for_id id T) = Some syms) /\
     (~ In id touched -> for_id id T = [] /\ ve_signal_change v = false)
}.

Lemma shape_len vb : same_shape vecs0 (vb_vecs vb) -> length vecs0 = length (vb_vecs vb).
Proof. unfold same_shape. intros H. apply (f_equal (@length _)) in H. now rewrite !map_length in H. Qed.

(* one per-bit record *)
Lemma update_step vb S T touched e vid si value vb' e' v :
  sinv vb S T touched -> nth_error (vb_vecs vb) vid = Some v ->
  value < 2 ^ sbits (ve_states v) -> value <= 8 ->
  vec_update vb e vid si value (ve_ref v) (ve_states v) = Ok (vb', e') ->
  exists syms bit emits,
    nth_error S vid = Some syms /\ bit_of v si = Ok bit /\ (bit < ve_bits v)%nat /\
    run_ops parse_f64 lz_compress cap e (ops_of_trace vecs0 (map (fun s => (vid, s)) emits)) = Ok e' /\
    Forall (fun s => s = syms \/ s = list_update syms (ve_bits v - 1 - bit) value) emits /\
    sinv vb' (list_update S vid (list_update syms (ve_bits v - 1 - bit) value)) (T ++ map (fun s => (vid, s)) emits) (vid :: touched).
Proof.
  intros [Hinv Hsh Htr Hcl Hvec] Hv Hval H8 H.
  destruct (vec_update_exact parse_f64 lz_compress cap vb e vid si value (ve_ref v) vb' e' S v Hinv Hv Hval H8 H)
    as (syms & bit & HS & Hbit & Hlt & Hex). cbn zeta in Hex.
  set (pos := (ve_bits v - 1 - bit)%nat) in *.
  set (second := nth bit (ve_bit_change v) false && negb (nth pos syms 0 =? value)) in *.
  set (syms' := list_update syms pos value) in *.
  set (mask2 := list_update (if second then repeat false (ve_bits v) else ve_bit_change v) bit true) in *.
  set (full := forallb (fun b : bool => b) mask2) in *.
  set (emits := (if second then [syms] else []) ++ (if full then [syms'] else [])) in *.
  destruct Hex as (Hrun & v' & Hvecs' & Hv' & Hbc & Hsc & Hr & Hst & Hbits & Hmx & Hcl').
  assert (Hvid : (vid < length (vb_vecs vb))%nat) by (apply nth_error_Some; congruence).
  exists syms, bit, emits. split; [exact HS|]. split; [exact Hbit|]. split; [exact Hlt|]. split.
  { destruct (same_shape_nth vecs0 (vb_vecs vb) vid v Hsh Hv) as (v0 & E0 & Hs0). unfold shape in Hs0. inversion Hs0 as [[Hb0 Hst0 Hr0 Hm0]].
    replace (ops_of_trace vecs0 (map (fun s => (vid, s)) emits)) with (emit_ops (ve_ref v) (ve_states v) emits); [exact Hrun|].
    unfold ops_of_trace, emit_ops. rewrite map_map. apply map_ext. intros s. cbn [fst snd]. rewrite E0, Hr0, Hst0. reflexivity. }
  split.
  { unfold emits. apply Forall_app. split; [destruct second; [constructor; [now left|constructor]|constructor]|destruct full; [constructor; [now right|constructor]|constructor]]. }
  constructor.
  - unfold vbinv. rewrite Hvecs'. apply forall2_update; [exact Hinv|exact Hv'].
  - rewrite Hvecs'. apply (same_shape_update vecs0 (vb_vecs vb) vid v v' Hsh Hv). unfold shape. congruence.
  - intros p Hp. apply in_app_or in Hp as [Hp|Hp]; [now apply Htr|]. apply in_map_iff in Hp as (s & <- & _). cbn [fst]. rewrite (shape_len vb Hsh). exact Hvid.
  - intros id Hid. rewrite Hcl' in Hid. destruct (if second then false else ve_signal_change v).
    + right. now apply Hcl.
    + apply in_app_or in Hid as [Hid|[<-|[]]]; [right; now apply Hcl|now left].
  - intros id vx symsx Hvx Hsx. rewrite Hvecs' in Hvx. destruct (Nat.eq_dec vid id) as [<-|Hne].
    + rewrite nth_error_upd_eq in Hvx by exact Hvid. inversion Hvx; subst vx. clear Hvx.
      rewrite nth_error_upd_eq in Hsx by (apply nth_error_Some; congruence). inversion Hsx; subst symsx. clear Hsx.
      rewrite Hsc. split; [|split].
      * intros Hd. rewrite Hcl'. destruct (if second then false else ve_signal_change v) eqn:Ec.
        -- destruct second; [discriminate|]. destruct (Hvec vid v syms Hv HS) as (Hin & _ & _). now apply Hin.
        -- apply in_or_app. right. now left.
      * intros Hd _. rewrite for_id_app, for_id_same. unfold emits. destruct full; [|discriminate]. rewrite app_assoc. apply last_opt_end.
      * intros Hn. exfalso. apply Hn. now left.
    + rewrite nth_error_upd_neq in Hvx by exact Hne. rewrite nth_error_upd_neq in Hsx by exact Hne.
      destruct (Hvec id vx symsx Hvx Hsx) as (H1 & H2 & H3). rewrite for_id_app, (for_id_other id vid emits Hne), app_nil_r. split; [|split].
      * intros Hd. rewrite Hcl'. destruct (if second then false else ve_signal_change v); [now apply H1|apply in_or_app; left; now apply H1].
      * intros Hd [Hi|Hi]; [congruence|now apply H2].
      * intros Hn. apply H3. intros Hi. apply Hn. now right.
Qed.

(* the end of the time step: every vector still marked as changed hands over its symbols once *)
Lemma process_step S touched : forall cl vecs e vecs' e' T,
  Forall2 vinv' vecs S -> same_shape vecs0 vecs -> (forall p, In p T -> (fst p < length vecs0)%nat) ->
  (forall id, In id cl -> In id touched) ->
  (forall id v syms, nth_error vecs id = Some v -> nth_error S id = Some syms ->
     (ve_signal_change v = true -> In id cl) /\
     (ve_signal_change v = false -> In id touched -> last_opt (for_id id T) = Some syms) /\
     (~ In id touched -> for_id id T = [] /\ ve_signal_change v = false)) ->
  process_changed vecs cl e = Ok (vecs', e') ->
  exists T',
    run_ops parse_f64 lz_compress cap e (ops_of_trace vecs0 T') = Ok e' /\
    Forall (fun p => nth_error S (fst p) = Some (snd p)) T' /\
    Forall2 vinv' vecs' S /\ same_shape vecs0 vecs' /\ (forall p, In p (T ++ T') -> (fst p < length vecs0)%nat) /\
    (forall id v syms, nth_error vecs' id = Some v -> nth_error S id = Some syms ->
       ve_signal_change v = false /\
       (In id touched -> last_opt (for_id id (T ++ T')) = Some syms) /\
       (~ In id touched -> for_id id (T ++ T') = [])).
Proof.
  induction cl as [|cid cl IH]; intros vecs e vecs' e' T Hinv Hsh Htr Hcl Hvec H; cbn [process_changed] in H.
  - injection H as <- <-. exists []. rewrite app_nil_r. split; [reflexivity|]. split; [constructor|]. split; [exact Hinv|]. split; [exact Hsh|]. split; [exact Htr|].
    intros id v syms Hv HS. destruct (Hvec id v syms Hv HS) as (H1 & H2 & H3).
    assert (Hc : ve_signal_change v = false) by (destruct (ve_signal_change v); [destruct (H1 eq_refl)|reflexivity]).
    split; [exact Hc|]. split; [now apply H2|]. intros Hn. now apply H3.
  - destruct (nth_error vecs cid) as [v|] eqn:Ev; [|discriminate]. cbn [of_option bind] in H.
    destruct (forall2_nth vinv' _ _ _ _ Hinv Ev) as (syms & HS & [Hvi Hmask]).
    destruct (ve_signal_change v) eqn:Ed.
    + unfold raw in H. destruct (raw_value_change e (ve_ref v) (ve_data v) (ve_states v)) as [e1| |] eqn:E1; try discriminate. cbn [bind] in H.
      assert (Hcid : (cid < length vecs)%nat) by (apply nth_error_Some; congruence).
      assert (Hinv1 : Forall2 vinv' (list_update vecs cid (clear_changes v)) S).
      { replace S with (list_update S cid syms) by (now apply update_same_nth).
        apply forall2_update; [exact Hinv|]. split; [exact Hvi|cbn [clear_changes ve_bit_change ve_bits]; apply repeat_length]. }
      assert (Hsh1 : same_shape vecs0 (list_update vecs cid (clear_changes v))) by (apply (same_shape_update vecs0 vecs cid v _ Hsh Ev); reflexivity).
      destruct (IH (list_update vecs cid (clear_changes v)) e1 vecs' e' (T ++ [(cid, syms)]) Hinv1 Hsh1) as (T' & Hr & Hsn & Hi' & Hs' & Ht' & Hv').
      * intros p Hp. apply in_app_or in Hp as [Hp|[<-|[]]]; [now apply Htr|]. cbn [fst]. unfold same_shape in Hsh. apply (f_equal (@length _)) in Hsh. rewrite !map_length in Hsh. lia.
      * intros id Hid. apply Hcl. now right.
      * intros id vx symsx Hvx Hsx. destruct (Nat.eq_dec cid id) as [<-|Hne].
        -- rewrite nth_error_upd_eq in Hvx by exact Hcid. inversion Hvx; subst vx. rewrite HS in Hsx. inversion Hsx; subst symsx.
           cbn [clear_changes ve_signal_change]. split; [discriminate|]. split.
           ++ intros _ _. rewrite for_id_app. unfold for_id at 2. cbn [filter fst]. rewrite Nat.eqb_refl. cbn [map snd]. apply last_opt_end.
           ++ intros Hn. exfalso. apply Hn. apply Hcl. now left.
        -- rewrite nth_error_upd_neq in Hvx by exact Hne. destruct (Hvec id vx symsx Hvx Hsx) as (H1 & H2 & H3).
           assert (Ef : for_id id (T ++ [(cid, syms)]) = for_id id T).
           { rewrite for_id_app. unfold for_id at 2. cbn [filter fst]. destruct (Nat.eqb_spec cid id); [congruence|]. now rewrite app_nil_r. }
           rewrite Ef. split; [|split; assumption]. intros Hd. destruct (H1 Hd) as [Hc|Hc]; [congruence|exact Hc].
      * exact H.
      * exists ((cid, syms) :: T'). split; [|split; [|split; [exact Hi'|split; [exact Hs'|split]]]].
        -- cbn [ops_of_trace map fst snd WaveMem.run_ops WaveMem.run_op]. destruct (same_shape_nth vecs0 vecs cid v Hsh Ev) as (v0 & E0 & Hs0).
           unfold shape in Hs0. inversion Hs0 as [[Hb0 Hst0 Hr0 Hm0]]. rewrite E0, Hr0, Hst0. destruct Hvi as (Hd & _). unfold pk. cbn [WaveMem.run_op]. rewrite <- Hd, E1. cbn [bind]. exact Hr.
        -- constructor; [exact HS|exact Hsn].
        -- intros p Hp. apply Ht'. rewrite <- app_assoc. exact Hp.
        -- intros id vx symsx Hvx Hsx. destruct (Hv' id vx symsx Hvx Hsx) as (K1 & K2 & K3). rewrite <- app_assoc in K2, K3. cbn [app] in K2, K3. split; [exact K1|split; assumption].
    + apply (IH vecs e vecs' e' T Hinv Hsh Htr); [intros id Hid; apply Hcl; now right| |exact H].
      intros id vx symsx Hvx Hsx. destruct (Hvec id vx symsx Hvx Hsx) as (H1 & H2 & H3). split; [|split; assumption].
      intros Hd. destruct (H1 Hd) as [Hc|Hc]; [|exact Hc]. subst id. rewrite Ev in Hvx. inversion Hvx; subst vx. congruence.
Qed.

(* the per-bit records of one time step, in file order: (vector, GHW signal index, symbol) *)
Fixpoint run_updates (vb : vec_buffer) (e : encoder) (script : list (nat * nat * N)) : outcome (vec_buffer * encoder) :=
  match script with
  | [] => Ok (vb, e)
  | (vid, si, value) :: r =>
    do v <- of_option (nth_error (vb_vecs vb) vid);
    do '(vb', e') <- vec_update vb e vid si value (ve_ref v) (ve_states v);
    run_updates vb' e' r
  end.

(* the symbols after the records: record (vid, si, value) sets the symbol of element si of vector vid *)
Definition apply_update (S : list (list N)) (u : nat * nat * N) : list (list N) :=
  let '(vid, si, value) := u in
  match nth_error vecs0 vid, nth_error S vid with
  | Some v, Some syms => list_update S vid (list_update syms (ve_bits v - 1 - (ve_max_index v - si)) value)
  | _, _ => S
  end.

Definition value_ok (u : nat * nat * N) : Prop :=
  let '(vid, _, value) := u in
  match nth_error vecs0 vid with Some v => value < 2 ^ sbits (ve_states v) /\ value <= 8 | None => True end.

Lemma updates_step : forall script vb S T touched e vb' e',
  sinv vb S T touched -> Forall value_ok script -> run_updates vb e script = Ok (vb', e') ->
  exists T',
    run_ops parse_f64 lz_compress cap e (ops_of_trace vecs0 T') = Ok e' /\
    sinv vb' (fold_left apply_update script S) (T ++ T') (rev (map (fun u => fst (fst u)) script) ++ touched).
Proof.
  induction script as [|[[vid si] value] script IH]; intros vb S T touched e vb' e' Hs Hok H; cbn [run_updates] in H.
  - injection H as <- <-. exists []. rewrite app_nil_r. split; [reflexivity|exact Hs].
  - apply Forall_cons_iff in Hok as [Hu Hok]. destruct (nth_error (vb_vecs vb) vid) as [v|] eqn:Ev; [|discriminate]. cbn [of_option bind] in H.
    destruct (vec_update vb e vid si value (ve_ref v) (ve_states v)) as [[vb1 e1]| |] eqn:Eu; try discriminate. cbn [bind] in H.
    destruct (same_shape_nth vecs0 (vb_vecs vb) vid v (si_shape _ _ _ _ Hs) Ev) as (v0 & E0 & Hs0). unfold shape in Hs0. inversion Hs0 as [[Hb0 Hst0 Hr0 Hm0]].
    unfold value_ok in Hu. rewrite E0, Hst0 in Hu. destruct Hu as [Hv1 Hv2].
    destruct (update_step vb S T touched e vid si value vb1 e1 v Hs Ev Hv1 Hv2 Eu) as (syms & bit & emits & HS & Hbit & Hlt & Hrun & _ & Hs1).
    destruct (IH vb1 _ _ _ e1 vb' e' Hs1 Hok H) as (T' & Hr' & Hs').
    exists (map (fun s => (vid, s)) emits ++ T'). split.
    + unfold ops_of_trace in *. rewrite map_app. eapply run_ops_cat; [exact Hrun|exact Hr'].
    + cbn [fold_left map fst rev]. unfold apply_update at 2. rewrite E0, HS, Hb0, Hm0.
      assert (Eb : bit = (ve_max_index v - si)%nat).
      { unfold bit_of, usub in Hbit. destruct (si <=? ve_max_index v)%nat; [now inversion Hbit|discriminate]. }
      rewrite <- Eb. rewrite <- (app_assoc T) in Hs'. rewrite <- (app_assoc (rev _) [vid] touched). cbn [app]. exact Hs'.
Qed.

(* Property C11, the vector buffer over one time step: starting from a buffer in which no vector is marked as changed,
   the per-bit records of the step followed by finish_time_step hand the store a sequence of (vector, symbols) values
   such that an untouched vector hands over nothing and keeps its symbols, and the last value handed over for a touched
   vector is its final symbols - the symbols obtained by applying the records in order; afterwards no vector is marked *)
Theorem time_step_spec_shape vb S e script vb1 e1 vb2 e2 :
  same_shape vecs0 (vb_vecs vb) -> vbinv vb S -> vb_change_list vb = [] ->
  (forall id v, nth_error (vb_vecs vb) id = Some v -> ve_signal_change v = false) ->
  Forall value_ok script ->
  run_updates vb e script = Ok (vb1, e1) -> finish_time_step vb1 e1 = Ok (vb2, e2) ->
  let S2 := fold_left apply_update script S in
  let touched := map (fun u => fst (fst u)) script in
  exists T,
    run_ops parse_f64 lz_compress cap e (ops_of_trace vecs0 T) = Ok e2 /\
    vbinv vb2 S2 /\ vb_change_list vb2 = [] /\
    (forall id v, nth_error (vb_vecs vb2) id = Some v -> ve_signal_change v = false) /\
    (forall id syms, nth_error S2 id = Some syms -> In id touched -> last_opt (for_id id T) = Some syms) /\
    (forall id, ~ In id touched -> for_id id T = [] /\ nth_error S2 id = nth_error S id) /\
    same_shape vecs0 (vb_vecs vb2).
Proof.
  intros Hv0 Hinv Hcl Hclean Hok Hru Hfin. cbn zeta.
  assert (Hs0 : sinv vb S [] []).
  { constructor; [exact Hinv|exact Hv0|intros p []|rewrite Hcl; intros id []|].
    intros id v syms Hv HS. rewrite (Hclean id v Hv). split; [discriminate|]. split; [intros _ []|]. intros _. split; reflexivity. }
  destruct (updates_step script vb S [] [] e vb1 e1 Hs0 Hok Hru) as (T1 & Hr1 & Hs1). cbn [app] in Hs1. rewrite app_nil_r in Hs1.
  unfold finish_time_step in Hfin.
  destruct (process_changed (vb_vecs vb1) (vb_change_list vb1) e1) as [[vecs2 e2']| |] eqn:Ep; try discriminate. cbn [bind] in Hfin. injection Hfin as <- <-.
  destruct Hs1 as [Hi1 Hsh1 Htr1 Hcl1 Hvec1].
  destruct (process_step _ _ _ _ _ _ _ T1 Hi1 Hsh1 Htr1 Hcl1 Hvec1 Ep) as (T2 & Hr2 & _ & Hi2 & Hsh2 & Ht2 & Hv2).
  exists (T1 ++ T2). split.
  { unfold ops_of_trace in *. rewrite map_app. eapply run_ops_cat; [exact Hr1|exact Hr2]. }
  split; [exact Hi2|]. split; [reflexivity|]. cbn [vb_vecs]. split.
  { intros id v Hv. destruct (forall2_nth vinv' _ _ _ _ Hi2 Hv) as (syms & HS & _). exact (proj1 (Hv2 id v syms Hv HS)). }
  split; [|split; [|exact Hsh2]].
  - intros id syms HS Hin. assert (Hlt : (id < length vecs2)%nat).
    { rewrite (f2_length _ _ _ Hi2). apply nth_error_Some. congruence. }
    destruct (nth_error vecs2 id) as [v|] eqn:Ev; [|apply nth_error_None in Ev; lia].
    apply (proj1 (proj2 (Hv2 id v syms Ev HS))). now apply -> in_rev.
  - intros id Hn. split.
    + destruct (nth_error vecs2 id) as [v|] eqn:Ev.
      * destruct (forall2_nth vinv' _ _ _ _ Hi2 Ev) as (syms & HS & _). apply (proj2 (proj2 (Hv2 id v syms Ev HS))).
        intros Hi. apply Hn. now apply in_rev.
      * (* not a vector of the buffer: nothing carries its tag *)
        apply for_id_none. intros p Hp <-. apply nth_error_None in Ev. unfold same_shape in Hsh2. apply (f_equal (@length _)) in Hsh2. rewrite !map_length in Hsh2.
        specialize (Ht2 p Hp). lia.
    + clear -Hn. revert S. induction script as [|[[vid si] value] script IH]; intros S; [reflexivity|]. cbn [fold_left map fst] in *.
      rewrite IH by (intros Hi; apply Hn; now right). unfold apply_update. destruct (nth_error vecs0 vid); [|reflexivity]. destruct (nth_error S vid); [|reflexivity].
      apply nth_error_upd_neq. intros ->. apply Hn. now left.
Qed.


(* a step that starts from the vectors themselves *)
Theorem time_step_spec vb S e script vb1 e1 vb2 e2 :
  vecs0 = vb_vecs vb -> vbinv vb S -> vb_change_list vb = [] ->
  (forall id v, nth_error (vb_vecs vb) id = Some v -> ve_signal_change v = false) ->
  Forall value_ok script ->
  run_updates vb e script = Ok (vb1, e1) -> finish_time_step vb1 e1 = Ok (vb2, e2) ->
  let S2 := fold_left apply_update script S in
  let touched := map (fun u => fst (fst u)) script in
  exists T,
    run_ops parse_f64 lz_compress cap e (ops_of_trace vecs0 T) = Ok e2 /\
    vbinv vb2 S2 /\ vb_change_list vb2 = [] /\
    (forall id v, nth_error (vb_vecs vb2) id = Some v -> ve_signal_change v = false) /\
    (forall id syms, nth_error S2 id = Some syms -> In id touched -> last_opt (for_id id T) = Some syms) /\
    (forall id, ~ In id touched -> for_id id T = [] /\ nth_error S2 id = nth_error S id).
Proof.
  intros Hv0 Hinv Hcl Hclean Hok Hru Hfin.
  destruct (time_step_spec_shape vb S e script vb1 e1 vb2 e2 ltac:(rewrite Hv0; reflexivity) Hinv Hcl Hclean Hok Hru Hfin)
    as (T & H1 & H2 & H3 & H4 & H5 & H6 & _).
  exists T. repeat (split; [assumption|]). assumption.
Qed.

End Step.

(* non-vacuity: a 3-element std_logic vector (signal indices 5..7, reference 4) and a 2-element bit vector; in one time
   step element 6 of the first vector is written twice with different symbols (a delta glitch: the value before the
   second write is handed over first) and element 7 once; the second vector is not touched *)
Example time_step_example :
  let v0 := mk_ve 3 Nine 4 7 (pk Nine [0; 0; 0]) [false; false; false] false in
  let v1 := mk_ve 2 Two 9 11 (pk Two [1; 0]) [false; false] false in
  let vb := mk_vb [v0; v1] [] in
  let script := [(0%nat, 6%nat, 3); (0%nat, 6%nat, 2); (0%nat, 7%nat, 1)] in
  vbinv vb [[0; 0; 0]; [1; 0]] /\ Forall (value_ok [v0; v1]) script /\
  fold_left (apply_update [v0; v1]) script [[0; 0; 0]; [1; 0]] = [[0; 2; 1]; [1; 0]] /\
  exists e0 vb1 e1 vb2 e2,
    time_change (fun d => d) 100 (enc_new [EncBits 1; EncBits 1; EncBits 1; EncBits 1; EncBits 3; EncBits 1; EncBits 1; EncBits 1; EncBits 1; EncBits 2]) 5 = Ok e0 /\
    run_updates vb e0 script = Ok (vb1, e1) /\
    finish_time_step vb1 e1 = Ok (vb2, e2) /\ vb_change_list vb2 = [] /\
    map ve_data (vb_vecs vb2) = [pk Nine [0; 2; 1]; pk Two [1; 0]].
Proof.
  cbn zeta. split.
  { constructor; [|constructor; [|constructor]]; (split; [|reflexivity]); unfold vinv; cbn [ve_data ve_states ve_bits length];
      (split; [reflexivity|split; [reflexivity|split; repeat constructor; vm_compute; reflexivity || (intros; discriminate)]]). }
  split; [repeat constructor; vm_compute; intuition discriminate|]. split; [vm_compute; reflexivity|].
  do 5 eexists. vm_compute. repeat split; reflexivity.
Qed.
