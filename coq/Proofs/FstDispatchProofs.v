(* C10: FstWaveDatabase::load_signals (Model/FstHier.v fst_dispatch / fst_load_signals).  Whatever the order in which
   the dependency's callbacks for different signals are interleaved - within a time step, across value-change blocks -
   every requested signal is built from exactly its own callbacks, in their order, each under the index of the first
   entry of the time table that is not smaller than its time. *)
From Coq Require Import Lia Sorted.
From WV Require Import Model.Base Model.Bits Model.WaveMem Model.FstLoad Model.FstHier.
Open Scope N_scope.

(* the index the cursor reaches: the number of leading entries smaller than the time *)
Fixpoint first_ge (tt : list N) (time : N) : nat :=
  match tt with
  | [] => 0
  | t :: r => if t <? time then S (first_ge r time) else 0
  end.

Lemma first_ge_le_length tt time : (first_ge tt time <= length tt)%nat.
Proof. induction tt as [|t r IH]; cbn [first_ge length]; [lia|]. destruct (t <? time); lia. Qed.

Lemma before_first_ge tt time : forall i, (i < first_ge tt time)%nat -> exists t, nth_error tt i = Some t /\ t < time.
Proof.
  induction tt as [|t r IH]; intros i Hi; cbn [first_ge] in Hi; [lia|].
  destruct (t <? time) eqn:E; [|lia]. destruct i as [|i]; [exists t; split; [reflexivity|now apply N.ltb_lt]|].
  apply IH. lia.
Qed.

Lemma at_first_ge tt time : forall t, nth_error tt (first_ge tt time) = Some t -> time <= t.
Proof.
  induction tt as [|t0 r IH]; intros t H; cbn [first_ge] in H; [discriminate|].
  destruct (t0 <? time) eqn:E; [exact (IH _ H)|]. cbn in H. injection H as <-. now apply N.ltb_ge.
Qed.

Lemma first_ge_mono tt a b : a <= b -> (first_ge tt a <= first_ge tt b)%nat.
Proof.
  intros Hab. induction tt as [|t r IH]; cbn [first_ge]; [lia|].
  destruct (t <? a) eqn:Ea; [|lia]. apply N.ltb_lt in Ea.
  assert (Eb : t <? b = true) by (apply N.ltb_lt; lia). rewrite Eb. lia.
Qed.

(* in a sorted table that contains the time, that index is the first entry equal to the time *)
Lemma first_ge_sorted tt time :
  Sorted N.le tt -> In time tt -> nth_error tt (first_ge tt time) = Some time.
Proof.
  intros Hs. apply Sorted_StronglySorted in Hs; [|intros a b c; apply N.le_trans].
  induction Hs as [|t r Hr IH Hall]; intros Hin; [destruct Hin|].
  cbn [first_ge]. destruct (t <? time) eqn:E.
  - cbn [nth_error]. apply IH. destruct Hin as [->|Hin]; [apply N.ltb_lt in E; lia|exact Hin].
  - apply N.ltb_ge in E. destruct Hin as [->|Hin]; [reflexivity|].
    rewrite Forall_forall in Hall. specialize (Hall _ Hin). cbn. f_equal. lia.
Qed.

(* the cursor *)
Lemma cursor_reaches fuel tt time : forall pos i,
  (pos <= first_ge tt time)%nat -> time_cursor fuel tt pos time = Ok i -> i = first_ge tt time.
Proof.
  induction fuel as [|f IH]; intros pos i Hp H; cbn [time_cursor] in H; [discriminate|].
  destruct (nth_error tt pos) as [t|] eqn:Et; [|discriminate].
  destruct (t <? time) eqn:E.
  - apply (IH (S pos) i); [|exact H]. apply N.ltb_lt in E.
    destruct (Nat.eq_dec pos (first_ge tt time)) as [->|Hne]; [|lia].
    pose proof (at_first_ge tt time t Et). lia.
  - injection H as <-. apply N.ltb_ge in E.
    destruct (Nat.eq_dec pos (first_ge tt time)) as [->|Hne]; [reflexivity|].
    destruct (before_first_ge tt time pos ltac:(lia)) as (t' & Ht' & Hlt). rewrite Et in Ht'. injection Ht' as <-. lia.
Qed.

(* idx_to_pos *)
Lemma last_pos_absent ids h : ~ In h ids -> forall base acc, last_pos ids h base acc = acc.
Proof.
  induction ids as [|i r IH]; intros Hn base acc; [reflexivity|]. cbn [last_pos].
  destruct (Nat.eqb_spec i h) as [->|_]; [elim Hn; now left|]. apply IH. intros H. apply Hn. now right.
Qed.

Lemma last_pos_nodup ids : NoDup ids -> forall p h base acc,
  nth_error ids p = Some h -> last_pos ids h base acc = Some (base + p)%nat.
Proof.
  induction 1 as [|i r Hi Hnd IH]; intros p h base acc Hp; [destruct p; discriminate|].
  cbn [last_pos]. destruct p as [|p]; cbn [nth_error] in Hp.
  - injection Hp as ->. rewrite Nat.eqb_refl, Nat.add_0_r. apply last_pos_absent. exact Hi.
  - destruct (Nat.eqb_spec i h) as [->|_]; [elim Hi; eapply nth_error_In; exact Hp|].
    rewrite (IH p h (S base) acc Hp). f_equal. lia.
Qed.

Lemma last_pos_sound ids h : forall base acc q,
  last_pos ids h base acc = Some q -> acc = Some q \/ exists i, q = (base + i)%nat /\ nth_error ids i = Some h.
Proof.
  induction ids as [|i r IH]; intros base acc q H; cbn [last_pos] in H; [now left|].
  destruct (IH _ _ _ H) as [Ha|(j & -> & Hj)].
  - destruct (Nat.eqb_spec i h) as [->|_]; [|now left]. injection Ha as <-. right. exists 0%nat. split; [lia|reflexivity].
  - right. exists (S j). split; [lia|exact Hj].
Qed.

(* the changes of one signal: its callbacks in their order, each under the index of its time *)
Fixpoint changes_for (tt : list N) (h : nat) (cbs : list (N * nat * fst_value)) : list (N * fst_value) :=
  match cbs with
  | [] => []
  | (time, h', v) :: r =>
    if Nat.eqb h' h then (N.of_nat (first_ge tt time), v) :: changes_for tt h r else changes_for tt h r
  end.

Lemma nth_error_update_same {A} (l : list A) : forall p x, (p < length l)%nat -> nth_error (list_update l p x) p = Some x.
Proof.
  induction l as [|a r IH]; intros p x Hp; cbn [length] in Hp; [lia|].
  destruct p as [|p]; [reflexivity|]. cbn [list_update nth_error]. apply IH. lia.
Qed.

Lemma nth_error_update_other {A} (l : list A) : forall p q x, p <> q -> nth_error (list_update l p x) q = nth_error l q.
Proof.
  induction l as [|a r IH]; intros p q x Hne; [destruct p; reflexivity|].
  destruct p as [|p], q as [|q]; cbn [list_update nth_error]; try reflexivity; [lia|]. apply IH. lia.
Qed.

Lemma length_update {A} (l : list A) : forall p x, length (list_update l p x) = length l.
Proof. induction l as [|a r IH]; intros [|p] x; cbn [list_update length]; try reflexivity. now rewrite IH. Qed.

Definition cb_time (cb : N * nat * fst_value) : N := fst (fst cb).

Theorem fst_dispatch_spec debug tt ids : NoDup ids ->
  forall cbs pos ws ws',
  length ws = length ids ->
  StronglySorted N.le (map cb_time cbs) ->
  (match cbs with cb :: _ => (pos <= first_ge tt (cb_time cb))%nat | [] => True end) ->
  fst_dispatch debug tt pos ws ids cbs = Ok ws' ->
  length ws' = length ws /\
  forall p h w, nth_error ids p = Some h -> nth_error ws p = Some w ->
    exists w', nth_error ws' p = Some w' /\ sw_run w (changes_for tt h cbs) = Ok w'.
Proof.
  intros Hnd. induction cbs as [|[[time h0] v] r IH]; intros pos ws ws' Hlen Hs Hpos H; cbn [fst_dispatch] in H.
  - injection H as <-. split; [reflexivity|]. intros p h w _ Hw. exists w. split; [exact Hw|reflexivity].
  - destruct (time_cursor (S (length tt)) tt pos time) as [pos'| |] eqn:Ec; cbn [bind] in H; try discriminate.
    cbn [cb_time fst] in Hpos. pose proof (cursor_reaches _ _ _ _ _ Hpos Ec) as ->.
    destruct (debug && negb (nth (first_ge tt time) tt 0 =? time)); [discriminate|].
    destruct (last_pos ids h0 0 None) as [p0|] eqn:El; [|discriminate].
    destruct (nth_error ws p0) as [w0|] eqn:Ew0; [|discriminate].
    destruct (sw_add_change w0 (N.of_nat (first_ge tt time)) v) as [w0'| |] eqn:Ea; cbn [bind] in H; try discriminate.
    cbn [map] in Hs. apply StronglySorted_inv in Hs. destruct Hs as [Hs Hall].
    assert (Hp0 : nth_error ids p0 = Some h0).
    { destruct (last_pos_sound _ _ _ _ _ El) as [?|(i & -> & Hi)]; [discriminate|exact Hi]. }
    assert (Hnext : match r with cb :: _ => (first_ge tt time <= first_ge tt (cb_time cb))%nat | [] => True end).
    { destruct r as [|cb r']; [exact I|]. apply first_ge_mono. cbn [map] in Hall. apply Forall_inv in Hall. exact Hall. }
    destruct (IH _ _ _ ltac:(rewrite length_update; exact Hlen) Hs Hnext H) as [Hl' Hall'].
    rewrite length_update in Hl'. split; [exact Hl'|].
    intros p h w Hp Hw. cbn [changes_for].
    destruct (Nat.eqb_spec h0 h) as [->|Hne].
    + (* this signal's callback *)
      assert (p = p0) as ->.
      { pose proof (last_pos_nodup ids Hnd p h 0%nat None Hp) as E. rewrite El in E. injection E as ->. reflexivity. }
      rewrite Ew0 in Hw. injection Hw as <-.
      destruct (Hall' p0 h w0' Hp) as (w' & Hw' & Hrun).
      { apply nth_error_update_same. apply nth_error_Some. rewrite Ew0. discriminate. }
      exists w'. split; [exact Hw'|]. cbn [sw_run]. rewrite Ea. cbn [bind]. exact Hrun.
    + assert (Hpp : p0 <> p) by (intros ->; rewrite Hp0 in Hp; injection Hp as ->; now elim Hne).
      apply (Hall' p h w Hp). rewrite nth_error_update_other by exact Hpp. exact Hw.
Qed.

(* load_signals as a whole *)
Theorem fst_load_signals_spec debug tt ids tpes cbs sigs :
  NoDup ids -> length tpes = length ids -> StronglySorted N.le (map cb_time cbs) ->
  fst_load_signals debug tt ids tpes cbs = Ok sigs ->
  length sigs = length ids /\
  forall p h tpe, nth_error ids p = Some h -> nth_error tpes p = Some tpe ->
    exists sw, sw_run (sw_new tpe) (changes_for tt h cbs) = Ok sw /\ nth_error sigs p = Some (sw_finish sw).
Proof.
  intros Hnd Hlen Hs H. unfold fst_load_signals in H. destruct tt as [|t0 tt']; [discriminate|].
  destruct (fst_dispatch debug (t0 :: tt') 0 (map sw_new tpes) ids cbs) as [ws| |] eqn:Ed; cbn [bind] in H; try discriminate.
  injection H as <-.
  destruct (fst_dispatch_spec debug (t0 :: tt') ids Hnd cbs 0%nat (map sw_new tpes) ws
              ltac:(rewrite map_length; exact Hlen) Hs ltac:(destruct cbs; [exact I|lia]) Ed) as [Hl Hall].
  split; [rewrite map_length, Hl, map_length; exact Hlen|].
  intros p h tpe Hp Ht.
  destruct (Hall p h (sw_new tpe) Hp ltac:(rewrite nth_error_map, Ht; reflexivity)) as (w' & Hw' & Hrun).
  exists w'. split; [exact Hrun|]. rewrite nth_error_map, Hw'. reflexivity.
Qed.

(* non-vacuity: two signals, interleaved callbacks, a time listed twice in the table *)
Example fst_load_example :
  let tt := [0; 5; 5; 9] in
  let cbs := [(0, 1%nat, FvString [48]); (0, 0%nat, FvString [49; 48]); (5, 0%nat, FvString [120; 48]); (9, 1%nat, FvString [49])] in
  match fst_load_signals true tt [1%nat; 0%nat] [EncBits 1; EncBits 2] cbs with
  | Ok _ => changes_for tt 0%nat cbs = [(0, FvString [49; 48]); (1, FvString [120; 48])] /\
            changes_for tt 1%nat cbs = [(0, FvString [48]); (3, FvString [49])]
  | _ => False
  end.
Proof. vm_compute. split; reflexivity. Qed.
