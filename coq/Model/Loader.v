(* Model of SignalSource::load_signals (wellen/src/signals.rs) and of the simple Waveform's
   load / unload / get bookkeeping (wellen/src/simple.rs), parametric in the signal type and in the
   inner source (wavemem Reader or FstWaveDatabase). *)
From WV Require Import Model.Base.

(* ids.sort(); ids.dedup() *)
Fixpoint insert_sorted (x : nat) (l : list nat) : list nat :=
  match l with
  | [] => [x]
  | y :: r => if x <=? y then x :: l else y :: insert_sorted x r
  end.
Definition sort_ids (l : list nat) : list nat := fold_right insert_sorted [] l.
Fixpoint dedup_adjacent (l : list nat) : list nat :=
  match l with
  | [] => []
  | x :: r => match r with
              | y :: _ => if Nat.eqb x y then dedup_adjacent r else x :: dedup_adjacent r
              | [] => [x]
              end
  end.
Definition sort_dedup (l : list nat) : list nat := dedup_adjacent (sort_ids l).

Section Source.
Variable Sig : Type.
(* Hierarchy::get_slice_info: (msb, lsb, sliced_signal) *)
Variable slice_info : nat -> option (nat * nat * nat).
(* Hierarchy::get_signal_tpe(id).unwrap(): ids without a variable panic *)
Variable has_tpe : nat -> bool.
(* the SignalSourceImplementation: returns one signal per requested id *)
Variable inner_load : list nat -> outcome (list Sig).
(* signals::slice_signal *)
Variable slice : Sig -> nat -> nat -> outcome Sig.

(* SignalSource::load_signals *)
Definition load_signals (ids : list nat) : outcome (list (nat * Sig)) :=
  let orig_ids := sort_dedup ids in
  let ids' := map (fun id => match slice_info id with Some (_, _, p) => p | None => id end) orig_ids in
  if negb (forallb has_tpe ids') then Panic
  else
    do signals <- inner_load ids';
    if negb (Nat.eqb (length signals) (length ids')) then Panic          (* assert_eq! *)
    else
      outcome_map_pairs
        (fun p => let '(id, sg) := p in
                  match slice_info id with
                  | Some (msb, lsb, _) => do s <- slice sg msb lsb; Ok (id, s)
                  | None => Ok (id, sg)
                  end)
        (combine orig_ids signals).

(* simple::Waveform.signals as an association list without duplicate keys *)
Definition wave := list (nat * Sig).

Fixpoint wave_get (w : wave) (id : nat) : option Sig :=
  match w with
  | [] => None
  | (k, s) :: r => if Nat.eqb k id then Some s else wave_get r id
  end.
Fixpoint wave_remove (w : wave) (id : nat) : wave :=
  match w with
  | [] => []
  | (k, s) :: r => if Nat.eqb k id then wave_remove r id else (k, s) :: wave_remove r id
  end.
Definition wave_insert (w : wave) (id : nat) (s : Sig) : wave := (id, s) :: wave_remove w id.

(* Waveform::load_signals_internal (multi_threaded only selects par_iter in the wavemem reader) *)
Definition wave_load (w : wave) (ids : list nat) : outcome wave :=
  let filtered := filter (fun id => match wave_get w id with Some _ => false | None => true end) ids in
  do res <- load_signals filtered;
  Ok (fold_left (fun w p => wave_insert w (fst p) (snd p)) res w).

(* Waveform::unload_signals *)
Definition wave_unload (w : wave) (ids : list nat) : wave := fold_left wave_remove ids w.

Inductive wave_op := WLoad (ids : list nat) | WUnload (ids : list nat).

Fixpoint wave_run (w : wave) (ops : list wave_op) : outcome wave :=
  match ops with
  | [] => Ok w
  | WLoad ids :: r => do w' <- wave_load w ids; wave_run w' r
  | WUnload ids :: r => wave_run (wave_unload w ids) r
  end.

End Source.
