(* Proofs about Model/Py.v (property C18). *)
From WV Require Import Model.Base Model.Bits Model.WaveMem Model.Signals Model.Py Spec.OffsetSpec Proofs.SignalsProofs.
From Coq Require Import Lia Sorted ZifyBool ZifyNat ZifyN.
Ltac Zify.zify_post_hook ::= Z.div_mod_to_equations.
Open Scope N_scope.

(* ---------- TimeTable.__getitem__: Python index conventions ---------- *)

Theorem getitem_nonneg tt (i : nat) : time_table_getitem tt (Z.of_nat i) = nth_error tt i.
Proof.
  unfold time_table_getitem. destruct (Z.ltb_spec (Z.of_nat i) 0); [lia|].
  destruct (Z.ltb_spec (Z.of_nat i) 0); [lia|]. now rewrite Nat2Z.id.
Qed.

Theorem getitem_negative tt (k : nat) : (1 <= k <= length tt)%nat ->
  time_table_getitem tt (- Z.of_nat k) = nth_error tt (length tt - k).
Proof.
  intros H. unfold time_table_getitem. destruct (Z.ltb_spec (- Z.of_nat k) 0); [|lia].
  destruct (Z.ltb_spec (- Z.of_nat k + Z.of_nat (length tt)) 0); [lia|]. f_equal. lia.
Qed.

Theorem getitem_out_of_range tt (i : Z) :
  (i < - Z.of_nat (length tt) \/ Z.of_nat (length tt) <= i)%Z -> time_table_getitem tt i = None.
Proof.
  intros H. unfold time_table_getitem. destruct (Z.ltb_spec i 0).
  - destruct (Z.ltb_spec (i + Z.of_nat (length tt)) 0); [reflexivity|lia].
  - destruct (Z.ltb_spec i 0); [lia|]. apply nth_error_None. lia.
Qed.

(* ---------- value_at_time: the latest time step at or before t ---------- *)

(* number of table entries <= t: for an increasing table these are exactly the entries before the
   insertion point *)
Definition count_le (tt : list N) (t : N) : nat := length (filter (fun x => x <=? t) tt).

Lemma insertion_point_spec tt t : StronglySorted N.lt tt -> forall pos,
  match insertion_point tt t pos with
  | (i, true) => i = (pos + count_le tt t - 1)%nat /\ (1 <= count_le tt t)%nat /\
                 nth_error tt (count_le tt t - 1) = Some t
  | (i, false) => i = (pos + count_le tt t)%nat /\
                  (forall k x, nth_error tt k = Some x -> (k < count_le tt t)%nat -> x < t)
  end.
Proof.
  induction 1 as [|a r Hs IH Hf]; intros pos; cbn [insertion_point].
  - split; [cbn; lia|]. intros k x Hk. destruct k; discriminate.
  - unfold count_le. cbn [filter].
    assert (Hlater : forall x, In x r -> a < x) by (now apply Forall_forall).
    destruct (N.eqb_spec a t) as [->|Hne].
    + (* found: nothing after `t` is <= t *)
      assert (Hnone : filter (fun x => x <=? t) r = []).
      { clear -Hlater. induction r as [|x r IHr]; [reflexivity|]. cbn [filter].
        destruct (N.leb_spec x t) as [Hle|_].
        - specialize (Hlater x (or_introl eq_refl)). lia.
        - apply IHr. intros y Hy. apply Hlater. now right. }
      destruct (N.leb_spec t t); [|lia]. cbn [length]. rewrite Hnone. cbn [length].
      split; [lia|]. split; [lia|reflexivity].
    + destruct (N.ltb_spec t a) as [Hlt|Hge].
      * (* t < a: nothing is <= t *)
        assert (Hnone : filter (fun x => x <=? t) r = []).
        { clear -Hlater Hlt. induction r as [|x r IHr]; [reflexivity|]. cbn [filter].
          destruct (N.leb_spec x t) as [Hle|_].
          - specialize (Hlater x (or_introl eq_refl)). lia.
          - apply IHr. intros y Hy. apply Hlater. now right. }
        destruct (N.leb_spec a t); [lia|]. rewrite Hnone. cbn [length]. split; [lia|].
        intros k x _ Hk. lia.
      * destruct (N.leb_spec a t); [|lia]. cbn [length]. specialize (IH (S pos)).
        fold (count_le r t) in *.
        destruct (insertion_point r t (S pos)) as [i [|]].
        -- destruct IH as (Hi & Hc & Hn). split; [lia|]. split; [lia|].
           replace (S (count_le r t) - 1)%nat with (S (count_le r t - 1)) by lia. exact Hn.
        -- destruct IH as (Hi & Hall). split; [lia|]. intros k x Hk Hlt.
           destruct k; [cbn in Hk; inversion Hk; lia|]. apply (Hall k x Hk). lia.
Qed.

Lemma filter_len_le {A} (f : A -> bool) l : (length (filter f l) <= length l)%nat.
Proof. induction l as [|a r IH]; cbn [filter length]; [lia|]. destruct (f a); cbn [length]; lia. Qed.

(* value_at_time(t) is value_at_idx of the latest table index whose time is <= t, and None before
   the first time step *)
Theorem value_at_time_spec tt s t : StronglySorted N.lt tt -> (N.of_nat (length tt) < 4294967296) ->
  value_at_time tt s t =
  match count_le tt t with
  | O => Ok None
  | S i => value_at_idx s (N.of_nat i)
  end.
Proof.
  intros Hs Hlen. unfold value_at_time. pose proof (insertion_point_spec tt t Hs 0) as P.
  assert (Hc : (count_le tt t <= length tt)%nat) by (unfold count_le; apply filter_len_le).
  destruct (insertion_point tt t 0) as [i [|]].
  - destruct P as (Hi & Hc1 & _). destruct (count_le tt t) as [|k]; [lia|].
    replace i with k by lia. destruct k; unfold u32_wrap; rewrite N.mod_small by lia; reflexivity.
  - destruct P as (Hi & _). cbn in Hi. subst i. destruct (count_le tt t) as [|k]; [reflexivity|].
    unfold u32_wrap; rewrite N.mod_small by lia; reflexivity.
Qed.

Example value_at_time_example :
  count_le [0; 5; 10] 6 = 2%nat /\ count_le [3; 5] 2 = 0%nat /\ count_le [0; 5; 10] 99 = 3%nat.
Proof. repeat split; reflexivity. Qed.


(* ---------- Signal.all_changes(): one entry per stored change ---------- *)

(* the position the iterator reads for the change at `offset`: the binary search for the change's own time index
   lands in the group that contains `offset`, so element offset - start of that group is `offset` itself *)
Lemma change_at_spec tt s offset t : sorted (s_idx s) -> run_fits_u16 (s_idx s) ->
  nth_error (s_idx s) offset = Some t -> (N.to_nat t < length tt)%nat ->
  change_at tt s offset = do v <- get_value_at (s_data s) offset; Ok (Some (nth (N.to_nat t) tt 0, to_py v)).
Proof.
  intros Hs Hfit Hn Ht. unfold change_at. rewrite Hn.
  assert (Hoff : (offset < length (s_idx s))%nat) by (apply nth_error_Some; congruence).
  assert (Hat : at_ (s_idx s) offset = t) by (unfold at_; now apply nth_error_nth).
  assert (Hsome : ~ no_change_le (s_idx s) t).
  { intros H. specialize (H offset Hoff). rewrite Hat in H. lia. }
  destruct (get_offset_some (s_idx s) t Hs Hfit Hsome) as (st & e & tm & nx & Hg & Hspec). rewrite Hg. cbn [bind].
  destruct Hspec as [Hne Hrange Hle Hgroup Hfirst Hgreatest Hmax _ _].
  assert (Hin : (st <= offset < st + e)%nat).
  { split.
    - destruct (Nat.le_gt_cases st offset) as [H|H]; [exact H|]. specialize (Hfirst offset H). rewrite Hat in Hfirst. lia.
    - destruct (Nat.lt_ge_cases offset (st + e)) as [H|H]; [exact H|]. specialize (Hgreatest offset (conj H Hoff)). rewrite Hat in Hgreatest. lia. }
  cbn [do_start do_elements]. unfold usub. destruct (Nat.leb_spec st offset) as [_|Hc]; [|lia]. cbn [bind].
  assert (He : N.of_nat e < 65536) by (apply (Hfit st e); [exact Hgroup|exact Hrange]).
  unfold u16_wrap. rewrite N.mod_small by lia.
  unfold get_value_pos. cbn [do_elements do_start]. destruct (N.ltb_spec (N.of_nat (offset - st)) (N.of_nat e)) as [_|Hc]; [|lia].
  cbn [bind]. rewrite Nat2N.id. replace (st + (offset - st))%nat with offset by lia.
  destruct (get_value_at (s_data s) offset) as [v| |]; cbn [bind]; try reflexivity.
  rewrite (nth_error_nth' tt 0 Ht). reflexivity.
Qed.

(* Property C18, all_changes(): exactly the changes iter_changes reports, each with the time of its time-table index
   and its value converted to a Python object - in particular every change of a time step with several changes *)
Theorem all_changes_spec tt s : sorted (s_idx s) -> run_fits_u16 (s_idx s) ->
  Forall (fun t => (N.to_nat t < length tt)%nat) (s_idx s) ->
  all_changes tt s
  = do l <- observe_signal s; Ok (map (fun x : N * value_kind * list byte => (nth (N.to_nat (fst (fst x))) tt 0, to_py (snd (fst x), snd x))) l).
Proof.
  intros Hs Hfit Hall. unfold all_changes, observe_signal.
  assert (G : forall todo done, s_idx s = done ++ todo ->
            all_changes_from (S (length todo)) tt s (length done)
            = do l <- outcome_map (fun '(k, t) => do v <- get_value_at (s_data s) k; Ok (t, fst v, snd v))
                                  (combine (seq (length done) (length todo)) todo);
              Ok (map (fun x : N * value_kind * list byte => (nth (N.to_nat (fst (fst x))) tt 0, to_py (snd (fst x), snd x))) l)).
  { induction todo as [|t todo IH]; intros done E.
    - cbn [all_changes_from length seq combine outcome_map bind map].
      assert (Hn : nth_error (s_idx s) (length done) = None) by (apply nth_error_None; rewrite E, app_length; cbn; lia).
      unfold change_at. rewrite Hn. reflexivity.
    - assert (Hn : nth_error (s_idx s) (length done) = Some t).
      { rewrite E, nth_error_app2 by lia. now rewrite Nat.sub_diag. }
      assert (Ht : (N.to_nat t < length tt)%nat).
      { rewrite Forall_forall in Hall. apply Hall. rewrite E. apply in_or_app. right. now left. }
      cbn [length]. change (all_changes_from (S (S (length todo))) tt s (length done))
        with (do c <- change_at tt s (length done);
              match c with None => Ok [] | Some x => do r <- all_changes_from (S (length todo)) tt s (S (length done)); Ok (x :: r) end).
      rewrite (change_at_spec tt s (length done) t Hs Hfit Hn Ht).
      cbn [seq combine outcome_map].
      destruct (get_value_at (s_data s) (length done)) as [[k v]| |]; cbn [bind fst snd]; try reflexivity.
      specialize (IH (done ++ [t])). rewrite app_length in IH. cbn [length] in IH. rewrite Nat.add_1_r in IH.
      rewrite IH by (now rewrite <- app_assoc).
      destruct (outcome_map _ _) as [l| |]; cbn [bind map fst snd]; reflexivity. }
  exact (G (s_idx s) [] eq_refl).
Qed.

Lemma no_change_le_dec l i : no_change_le l i \/ ~ no_change_le l i.
Proof.
  destruct (forallb (fun x => i <? x) l) eqn:E.
  - left. intros q Hq. rewrite forallb_forall in E. specialize (E (at_ l q) (nth_In l 0 Hq)). lia.
  - right. intros H. assert (forallb (fun x => i <? x) l = true); [|congruence].
    apply forallb_forall. intros x Hx. apply (In_nth l x 0) in Hx as (q & Hq & <-). specialize (H q Hq). unfold at_ in H. lia.
Qed.

(* Property C18, value_at_idx(i): the value of the last change of the group carrying the greatest time index <= i
   (the value the signal holds at the end of that time step), None before the first change *)
Theorem value_at_idx_spec s i : sorted (s_idx s) -> run_fits_u16 (s_idx s) ->
  (no_change_le (s_idx s) i /\ value_at_idx s i = Ok None) \/
  (exists st e tm nx, group_spec (s_idx s) i st e tm nx /\
     value_at_idx s i = do v <- get_value_at (s_data s) (st + e - 1); Ok (Some (to_py v))).
Proof.
  intros Hs Hfit. unfold value_at_idx.
  destruct (get_offset (s_idx s) i) as [[d|]| |] eqn:Eg.
  - right.
    assert (Hsome : ~ no_change_le (s_idx s) i).
    { intros H. apply (get_offset_none (s_idx s) i Hs) in H. rewrite H in Eg. discriminate. }
    destruct (get_offset_some (s_idx s) i Hs Hfit Hsome) as (st & e & tm & nx & Hg & Hspec).
    rewrite Hg in Eg. inversion Eg; subst d. exists st, e, tm, nx. split; [exact Hspec|]. cbn [bind do_elements].
    destruct Hspec as [Hne Hrange _ Hgroup _ _ _ _ _].
    assert (He : N.of_nat e < 65536) by (apply (Hfit st e); [exact Hgroup|exact Hrange]).
    unfold nsub. destruct (N.leb_spec 1 (N.of_nat e)) as [_|Hc]; [|lia]. cbn [bind].
    unfold get_value_pos. cbn [do_elements do_start]. destruct (N.ltb_spec (N.of_nat e - 1) (N.of_nat e)) as [_|Hc]; [|lia].
    cbn [bind]. replace (st + N.to_nat (N.of_nat e - 1))%nat with (st + e - 1)%nat by lia. reflexivity.
  - left. split; [now apply (get_offset_none (s_idx s) i Hs)|reflexivity].
  - exfalso. destruct (no_change_le_dec (s_idx s) i) as [H|H].
    + apply (get_offset_none (s_idx s) i Hs) in H. rewrite H in Eg. discriminate.
    + destruct (get_offset_some (s_idx s) i Hs Hfit H) as (st & e & tm & nx & Hg & _). rewrite Hg in Eg. discriminate.
  - exfalso. destruct (no_change_le_dec (s_idx s) i) as [H|H].
    + apply (get_offset_none (s_idx s) i Hs) in H. rewrite H in Eg. discriminate.
    + destruct (get_offset_some (s_idx s) i Hs Hfit H) as (st & e & tm & nx & Hg & _). rewrite Hg in Eg. discriminate.
Qed.
