"""Translator: regenerates coq/Generated/Consts.v (tables and constants the theorems depend on) and
Generated/serde_schema.json (the shape of every derive(Serialize, Deserialize) site) from /repo's current
source on every run.  Regex level; its output is cross-checked by the exhaustive sweeps of the differential
(C01 sweeps every byte through bit_char_to_num, C09 every keyword, C17 validates real JSON against the schema)."""
import json
import os
import re

from . import core

SRC = "/repo/wellen/src"


def _read(name):
    return open(os.path.join(SRC, name)).read()


def _char_val(tok):
    tok = tok.strip()
    m = re.fullmatch(r"b'(\\?.)'", tok)
    if not m:
        raise ValueError(tok)
    c = m.group(1)
    if c.startswith("\\"):
        c = {"\\n": "\n", "\\t": "\t", "\\r": "\r", "\\\\": "\\", "\\'": "'"}[c]
    return ord(c)


def bit_char_table(wavemem):
    m = re.search(r"pub fn bit_char_to_num\(value: u8\) -> Option<u8> \{\s*match value \{(.*?)\n    \}", wavemem, re.S)
    if not m:
        raise core.InfraError("translator: bit_char_to_num not found")
    table = []
    for line in m.group(1).split("\n"):
        line = line.split("//")[0].strip()
        if not line or line.startswith("_"):
            continue
        mm = re.fullmatch(r"(.+?)\s*=>\s*Some\((.+?)\),?", line)
        if not mm:
            raise core.InfraError("translator: cannot read bit_char_to_num arm: " + line)
        chars = [_char_val(t) for t in mm.group(1).split("|")]
        expr = mm.group(2).strip()
        for c in chars:
            if expr == "value - b'0'":
                table.append((c, c - ord("0")))
            elif re.fullmatch(r"\d+", expr):
                table.append((c, int(expr)))
            else:
                raise core.InfraError("translator: unsupported expression " + expr)
    return table


def char_array(text, name):
    m = re.search(r"const %s: \[char; \d+\] = \[(.*?)\];" % name, text, re.S)
    if not m:
        raise core.InfraError("translator: %s not found" % name)
    return [ord(x) for x in re.findall(r"'(.)'", m.group(1))]


def const_int(text, pattern, what):
    m = re.search(pattern, text)
    if not m:
        raise core.InfraError("translator: %s not found" % what)
    expr = m.group(1).replace("_", "")
    val = 1
    for f in expr.split("*"):
        val *= int(f.strip())
    return val


def enum_variants(text, name):
    m = re.search(r"pub enum %s \{(.*?)\n\}" % name, text, re.S)
    if not m:
        raise core.InfraError("translator: enum %s not found" % name)
    body = re.sub(r"//[^\n]*", "", m.group(1))
    return [v.strip() for v in body.split(",") if v.strip()]


def keyword_table(text, fn_name, enum_name, variants):
    """the `b"keyword" => Ok(Enum::Variant)` arms of a conversion function, as (keyword bytes, discriminant)"""
    m = re.search(r"fn %s\(.*?\{\s*match \w+ \{(.*?)\n        _ =>" % fn_name, text, re.S)
    if not m:
        raise core.InfraError("translator: %s not found" % fn_name)
    out = []
    for kw, var in re.findall(r'b"([^"]+)" => Ok\(%s::(\w+)\)' % enum_name, m.group(1)):
        if var not in variants:
            raise core.InfraError("translator: %s::%s is not a variant" % (enum_name, var))
        out.append((kw.encode(), variants.index(var)))
    if not out:
        raise core.InfraError("translator: no arms in %s" % fn_name)
    return out


def byte_const(text, name):
    m = re.search(r'pub const %s: &\[u8; \d+\] = b"((?:[^"\\]|\\.)*)";' % name, text)
    if not m:
        raise core.InfraError("translator: %s not found" % name)
    raw = m.group(1)
    out, i = [], 0
    while i < len(raw):
        if raw[i] == "\\" and raw[i + 1] == "x":
            out.append(int(raw[i + 2:i + 4], 16)); i += 4
        elif raw[i] == "\\" and raw[i + 1] == "n":
            out.append(10); i += 2
        else:
            out.append(ord(raw[i])); i += 1
    return out


def dep_enum_discriminants(crate, enum_name):
    """explicit discriminants of a fieldless #[repr(u8)] enum of a dependency, read from the cargo registry source of the
    version pinned in /repo/Cargo.lock"""
    import glob
    lock = open(os.path.join(core.REPO, "Cargo.lock")).read()
    m = re.search(r'name = "%s"\nversion = "([^"]+)"' % re.escape(crate), lock)
    if not m:
        raise core.InfraError("translator: %s not in Cargo.lock" % crate)
    cands = glob.glob(os.path.expanduser("~/.cargo/registry/src/*/%s-%s/src/types.rs" % (crate, m.group(1))))
    if cands:
        text = open(cands[0]).read()
    else:
        # not unpacked yet (cargo unpacks at the first build): read the file out of the downloaded .crate archive
        import tarfile
        arch = glob.glob(os.path.expanduser("~/.cargo/registry/cache/*/%s-%s.crate" % (crate, m.group(1))))
        if not arch:
            raise core.InfraError("translator: source of %s %s not found in the cargo registry" % (crate, m.group(1)))
        with tarfile.open(arch[0], "r:gz") as tf:
            text = tf.extractfile("%s-%s/src/types.rs" % (crate, m.group(1))).read().decode("utf-8")
    m = re.search(r"pub enum %s \{(.*?)\n\}" % enum_name, text, re.S)
    if not m:
        raise core.InfraError("translator: enum %s not found in %s" % (enum_name, crate))
    out = {}
    for name, val in re.findall(r"^\s*(\w+)\s*=\s*(\d+),", re.sub(r"//[^\n]*", "", m.group(1)), re.M):
        out[name] = int(val)
    if not out:
        raise core.InfraError("translator: no discriminants in %s" % enum_name)
    return out


def match_table(text, fn_name, from_enum, from_disc, to_enum, to_variants):
    """the `From::A => To::B,` arms (also `From::A | From::B => To::C`) of a conversion function as (from discriminant, to
    discriminant) pairs; arms with any other right-hand side are left out"""
    m = re.search(r"fn %s\(.*?\n\}" % fn_name, text, re.S)
    if not m:
        raise core.InfraError("translator: %s not found" % fn_name)
    out = []
    for lhs, var in re.findall(r"((?:%s::\w+\s*\|?\s*)+)=>\s*%s::(\w+)\s*," % (from_enum, to_enum), m.group(0)):
        if var not in to_variants:
            raise core.InfraError("translator: %s::%s is not a variant" % (to_enum, var))
        for a in re.findall(r"%s::(\w+)" % from_enum, lhs):
            if a not in from_disc:
                raise core.InfraError("translator: %s::%s is not a variant of the dependency" % (from_enum, a))
            out.append((from_disc[a], to_variants.index(var)))
    if not out:
        raise core.InfraError("translator: no arms in %s" % fn_name)
    return sorted(out)


def render_consts():
    wavemem = _read("wavemem.rs")
    signals = _read("signals.rs")
    vcd = _read("vcd.rs")
    table = bit_char_table(wavemem)
    two = char_array(signals, "TWO_STATE_LOOKUP")
    four = char_array(signals, "FOUR_STATE_LOOKUP")
    nine = char_array(signals, "NINE_STATE_LOOKUP")
    m = re.search(r"type BlockTimeIdx = (u\d+);", wavemem)
    if not m:
        raise core.InfraError("translator: BlockTimeIdx not found")
    bt_max = 2 ** int(m.group(1)[1:]) - 1
    min_size = const_int(wavemem, r"const MIN_SIZE_TO_COMPRESS: usize = ([\d_ *]+);", "MIN_SIZE_TO_COMPRESS")
    len_div = const_int(wavemem, r"const SIGNAL_DECOMPRESSED_LEN_DIV: u32 = ([\d_ *]+);", "SIGNAL_DECOMPRESSED_LEN_DIV")
    m = re.search(r"const SKIP_COMPRESSION: bool = (true|false);", wavemem)
    if not m:
        raise core.InfraError("translator: SKIP_COMPRESSION not found")
    skip = m.group(1)
    min_chunk = const_int(vcd, r"const MIN_CHUNK_SIZE: usize = ([\d_ *]+);", "MIN_CHUNK_SIZE")
    m1 = re.search(r"const ID_CHAR_MIN: u8 = b'(.)';", vcd)
    m2 = re.search(r"const ID_CHAR_MAX: u8 = b'(.)';", vcd)
    if not (m1 and m2):
        raise core.InfraError("translator: ID_CHAR_MIN/MAX not found")

    def nl(l):
        return "[" + "; ".join(str(x) for x in l) + "]"
    pairs = "; ".join("(%d, %d)" % p for p in table)
    hier = _read("hierarchy.rs")
    ghwc = _read("ghw/common.rs")
    scope_tab = keyword_table(vcd, "convert_scope_tpe", "ScopeType", enum_variants(hier, "ScopeType"))
    var_tab = keyword_table(vcd, "convert_var_tpe", "VarType", enum_variants(hier, "VarType"))
    m = re.search(r"pub const STD_LOGIC_LUT: \[u8; 9\] = \[([\d, ]+)\];", ghwc)
    if not m:
        raise core.InfraError("translator: STD_LOGIC_LUT not found")
    lut = [int(x) for x in m.group(1).split(",")]
    marks = [(n, byte_const(ghwc, "GHW_%s_SECTION" % n)) for n in ("SNAPSHOT", "END_SNAPSHOT", "CYCLE", "END_CYCLE", "DIRECTORY", "END_DIRECTORY", "TAILER",
                                                                      "STRING", "TYPE", "WK_TYPE", "HIERARCHY", "END_OF_HEADER")]

    def first_chars(result):
        m = re.search(r"fn parse_first_token\(.*?\n\}", vcd, re.S)
        if not m:
            raise core.InfraError("translator: parse_first_token not found")
        arm = re.search(r"((?:\s*\|?\s*b'.'\s*)+)=> Ok\(FirstTokenResult::%s\)" % result, m.group(0))
        if not arm:
            raise core.InfraError("translator: arm %s of parse_first_token not found" % result)
        return [ord(c) for c in re.findall(r"b'(.)'", arm.group(1))]
    one_bit = first_chars("OneBitValue")
    multi_bit = first_chars("MultiBitValue")

    def kwt(tab):
        return "[ " + ";\n    ".join("(%s, %d)" % (nl(list(k)), c) for k, c in tab) + " ]"
    extra = "\n(* wellen/src/vcd.rs convert_scope_tpe / convert_var_tpe: keyword -> discriminant of ScopeType / VarType (hierarchy.rs) *)\n"
    extra += "Definition scope_kw_src : list (list N * N) :=\n  %s.\n" % kwt(scope_tab)
    extra += "Definition var_kw_src : list (list N * N) :=\n  %s.\n" % kwt(var_tab)
    extra += "\n(* wellen/src/vcd.rs parse_first_token: first characters of scalar / vector-real-string value changes *)\n"
    extra += "Definition one_bit_first_chars_src : list N := %s.\nDefinition multi_bit_first_chars_src : list N := %s.\n" % (nl(one_bit), nl(multi_bit))
    extra += "\n(* wellen/src/ghw/common.rs *)\nDefinition ghw_std_logic_lut : list N := %s.\n" % nl(lut)
    for n, b in marks:
        extra += "Definition ghw_%s_section : list N := %s.\n" % (n.lower(), nl(b))
    # wellen/src/fst.rs: conversions of the dependency's enums
    fst = _read("fst.rs")
    d_scope = dep_enum_discriminants("fst-reader", "FstScopeType")
    d_var = dep_enum_discriminants("fst-reader", "FstVarType")
    d_dir = dep_enum_discriminants("fst-reader", "FstVarDirection")
    d_vhdl = dep_enum_discriminants("fst-reader", "FstVhdlDataType")
    var_variants = enum_variants(hier, "VarType")

    def pairs_of(tab):
        return "[" + "; ".join("(%d, %d)" % p for p in tab) + "]"
    extra += "\n(* wellen/src/fst.rs convert_scope_tpe / convert_var_tpe / convert_var_direction / merge_vhdl_data_and_var_type:\n"
    extra += "   discriminant of the fst-reader enum (version of Cargo.lock) -> discriminant of the wellen enum *)\n"
    extra += "Definition fst_scope_tab : list (N * N) := %s.\n" % pairs_of(match_table(fst, "convert_scope_tpe", "FstScopeType", d_scope, "ScopeType", enum_variants(hier, "ScopeType")))
    extra += "Definition fst_var_tab : list (N * N) := %s.\n" % pairs_of(match_table(fst, "convert_var_tpe", "FstVarType", d_var, "VarType", var_variants))
    extra += "Definition fst_dir_tab : list (N * N) := %s.\n" % pairs_of(match_table(fst, "convert_var_direction", "FstVarDirection", d_dir, "VarDirection", enum_variants(hier, "VarDirection")))
    extra += "Definition fst_vhdl_merge_tab : list (N * N) := %s.\n" % pairs_of(match_table(fst, "merge_vhdl_data_and_var_type", "FstVhdlDataType", d_vhdl, "VarType", var_variants))
    def bytes_array(name, n):
        m = re.search(r"pub const %s: \[u8; %d\] = \[(.*?)\];" % (name, n), ghwc, re.S)
        if not m:
            raise core.InfraError("translator: %s not found" % name)
        vals = re.findall(r"b'(.)'", m.group(1))
        if len(vals) != n:
            raise core.InfraError("translator: %s has %d entries" % (name, len(vals)))
        return [ord(c) for c in vals]
    extra += "Definition ghw_std_logic_values : list N := %s.\nDefinition ghw_vhdl_bit_values : list N := %s.\n" % (
        nl(bytes_array("STD_LOGIC_VALUES", 9)), nl(bytes_array("VHDL_BIT_VALUES", 2)))
    extra += "\n(* wellen/src/hierarchy.rs: discriminants of ScopeType, VarType and VarDirection, by name *)\n"
    for en in ("ScopeType", "VarType", "VarDirection"):
        for k, var in enumerate(enum_variants(hier, en)):
            extra += "Definition %s_%s : N := %d.\n" % (en, var, k)
    m = re.search(r"let signal_tpe = match tpe \{(.*?)\};", fst, re.S)
    if not m:
        raise core.InfraError("translator: signal_tpe match of read_hierarchy not found")
    arms = re.findall(r"((?:\|?\s*FstVarType::\w+\s*)+)=>\s*SignalEncoding::(\w+)", m.group(1))
    by = {}
    for lhs, enc in arms:
        by.setdefault(enc, []).extend(d_var[a] for a in re.findall(r"FstVarType::(\w+)", lhs))
    if set(by) != {"String", "Real"} or "_ => SignalEncoding::bit_vec_of_len(length)" not in m.group(1):
        raise core.InfraError("translator: unexpected arms in the signal_tpe match of read_hierarchy")
    extra += "(* read_hierarchy: variable types stored as strings / as reals; every other type is a bit vector of the declared length *)\n"
    extra += "Definition fst_string_var_types : list N := %s.\nDefinition fst_real_var_types : list N := %s.\n" % (nl(sorted(by["String"])), nl(sorted(by["Real"])))
    return """(* GENERATED by /verif/vlib/translate.py from /repo's current source - do not edit.
   (this committed copy is the snapshot used when the translator degrades) *)
From Coq Require Import List NArith.
Import ListNotations.
Open Scope N_scope.

(* wellen/src/wavemem.rs: bit_char_to_num, as (character, number) pairs *)
Definition bit_char_table : list (N * N) :=
  [%s].

(* wellen/src/signals.rs: TWO/FOUR/NINE_STATE_LOOKUP *)
Definition two_state_lookup : list N := %s.
Definition four_state_lookup : list N := %s.
Definition nine_state_lookup : list N := %s.

(* wellen/src/wavemem.rs *)
Definition block_time_idx_max : N := %d.
Definition min_size_to_compress : N := %d.
Definition signal_decompressed_len_div : N := %d.
Definition skip_compression : bool := %s.

(* wellen/src/vcd.rs *)
Definition min_chunk_size : N := %d.
Definition id_char_min : N := %d.
Definition id_char_max : N := %d.
""" % (pairs, nl(two), nl(four), nl(nine), bt_max, min_size, len_div, skip, min_chunk, ord(m1.group(1)), ord(m2.group(1))) + extra


# ------------------------------------------------------------------ serde schema

PRIM = {"u8": "u8", "u16": "u16", "u32": "u32", "u64": "u64", "usize": "u64", "i8": "i8", "i16": "i16", "i32": "i32",
        "i64": "i64", "bool": "bool", "String": "str", "f64": "f64", "Real": "f64", "Time": "u64", "TimeTableIdx": "u32",
        "NonZeroU32": "nzu32", "NonZeroU16": "nzu16", "NonZeroI32": "nzi32", "NonZeroU64": "nzu64"}


def split_top(s, sep=","):
    out, depth, cur = [], 0, ""
    for ch in s:
        if ch in "<([{":
            depth += 1
        elif ch in ">)]}":
            depth -= 1
        if ch == sep and depth == 0:
            out.append(cur)
            cur = ""
        else:
            cur += ch
    if cur.strip():
        out.append(cur)
    return [x.strip() for x in out]


def parse_type(t):
    t = t.strip()
    if t in PRIM:
        return PRIM[t]
    m = re.fullmatch(r"Option<(.*)>", t)
    if m:
        return {"option": parse_type(m.group(1))}
    m = re.fullmatch(r"Vec<(.*)>", t)
    if m:
        return {"seq": parse_type(m.group(1))}
    m = re.fullmatch(r"HashMap<(.*)>", t)
    if m:
        k, v = split_top(m.group(1))
        return {"map": [parse_type(k), parse_type(v)]}
    m = re.fullmatch(r"\((.*)\)", t)
    if m:
        return {"tuple": [parse_type(x) for x in split_top(m.group(1))]}
    if re.fullmatch(r"[A-Za-z_][A-Za-z0-9_]*", t):
        return {"named": t}
    raise core.InfraError("translator: unsupported type " + t)


def strip_comments(src):
    return re.sub(r"//[^\n]*", "", src)


def serde_sites():
    schema = {}
    for fname in ("hierarchy.rs", "signals.rs", "wavemem.rs", "lib.rs"):
        src = strip_comments(_read(fname))
        for m in re.finditer(r'#\[cfg_attr\(feature = "serde1", derive\(serde::Serialize, serde::Deserialize\)\)\]', src):
            rest = src[m.end():]
            # skip further attributes / derives
            while True:
                r2 = rest.lstrip()
                if r2.startswith("#["):
                    end = r2.index("]") + 1
                    attr = r2[:end]
                    if "serde(" in attr and "cfg_attr" not in attr:
                        raise core.InfraError("translator: unsupported serde attribute " + attr)
                    rest = r2[end:]
                else:
                    rest = r2
                    break
            mm = re.match(r"(?:pub(?:\(crate\))?\s+)?(struct|enum)\s+([A-Za-z0-9_]+)", rest)
            if not mm:
                raise core.InfraError("translator: cannot read item after serde derive in " + fname)
            kind, name = mm.group(1), mm.group(2)
            after = rest[mm.end():].lstrip()
            if "#[serde(" in after[:after.index("}") + 1 if "}" in after else 0]:
                raise core.InfraError("translator: unsupported #[serde(..)] attribute in " + name)
            if kind == "struct":
                if after.startswith("("):
                    inner = after[1:after.index(")")]
                    fields = [re.sub(r"^pub(\(crate\))?\s+", "", x) for x in split_top(inner)]
                    if len(fields) == 1:
                        schema[name] = {"newtype": parse_type(fields[0])}
                    else:
                        schema[name] = {"tuple_struct": [parse_type(x) for x in fields]}
                else:
                    body = after[1:after.index("}")]
                    fields = []
                    for f in split_top(body):
                        f = re.sub(r"#\[[^\]]*\]", "", f).strip()
                        f = re.sub(r"^pub(\(crate\))?\s+", "", f)
                        if not f:
                            continue
                        fn, ft = f.split(":", 1)
                        fields.append([fn.strip(), parse_type(ft)])
                    schema[name] = {"struct": fields}
            else:
                # enum: find matching brace
                depth, i = 0, 0
                for i, ch in enumerate(after):
                    if ch == "{":
                        depth += 1
                    elif ch == "}":
                        depth -= 1
                        if depth == 0:
                            break
                body = after[1:i]
                variants = []
                for v in split_top(body):
                    v = re.sub(r"#\[[^\]]*\]", "", v).strip()
                    if not v:
                        continue
                    mv = re.match(r"([A-Za-z0-9_]+)\s*(.*)", v, re.S)
                    vn, rest_v = mv.group(1), mv.group(2).strip()
                    rest_v = re.sub(r"=\s*\d+$", "", rest_v).strip()
                    if not rest_v:
                        variants.append([vn, "unit"])
                    elif rest_v.startswith("("):
                        inner = split_top(rest_v[1:-1])
                        variants.append([vn, {"newtype": parse_type(inner[0])} if len(inner) == 1
                                         else {"tuple": [parse_type(x) for x in inner]}])
                    elif rest_v.startswith("{"):
                        fs = []
                        for f in split_top(rest_v[1:-1]):
                            if not f.strip():
                                continue
                            fn, ft = f.split(":", 1)
                            fs.append([fn.strip(), parse_type(ft)])
                        variants.append([vn, {"struct": fs}])
                    else:
                        raise core.InfraError("translator: cannot read variant " + v)
                schema[name] = {"enum": variants}
    return schema


SERDE_INT = {"u8": (0, 2**8-1, False), "u16": (0, 2**16-1, False), "u32": (0, 2**32-1, False), "u64": (0, 2**64-1, False),
       "i8": (-2**7, 2**7-1, False), "i16": (-2**15, 2**15-1, False), "i32": (-2**31, 2**31-1, False), "i64": (-2**63, 2**63-1, False),
       "nzu16": (1, 2**16-1, True), "nzu32": (1, 2**32-1, True), "nzu64": (1, 2**64-1, True), "nzi32": (-2**31, 2**31-1, True)}


def coq_str(s):
    return "(str [" + "; ".join(str(b) for b in s.encode("utf-8")) + "]%N)"


def coq_z(z):
    return "(%d)" % z if z < 0 else str(z)


def render_serde_schema_v(schema):
    """Generated/SerdeSchema.v: one closed `ty` per derive site (named types are references to earlier definitions)"""
    def deps(t, acc):
        if isinstance(t, str):
            return
        if isinstance(t, list):
            for x in t:
                deps(x, acc)
            return
        for k, v in t.items():
            if k == "named":
                acc.add(v)
            elif k in ("struct",):
                for _, ft in v:
                    deps(ft, acc)
            elif k == "enum":
                for _, p in v:
                    if p != "unit":
                        deps(p, acc)
            else:
                deps(v, acc)

    def ty(t):
        if isinstance(t, str):
            if t in SERDE_INT:
                lo, hi, nz = SERDE_INT[t]
                return "(TInt %s %s %s)" % (coq_z(lo), coq_z(hi), "true" if nz else "false")
            if t == "bool":
                return "TBool"
            if t == "str":
                return "TStr"
            raise ValueError("serde schema: no model for primitive " + t)
        if "named" in t:
            if t["named"] not in schema:
                raise ValueError("serde schema: type %s has no derive site" % t["named"])
            return "t_" + t["named"]
        if "option" in t:
            return "(TOption %s)" % ty(t["option"])
        if "seq" in t:
            return "(TSeq %s)" % ty(t["seq"])
        if "map" in t:
            return "(TMap %s %s)" % (ty(t["map"][0]), ty(t["map"][1]))
        if "tuple" in t:
            return tys(t["tuple"])
        if "struct" in t:
            return fields(t["struct"])
        if "newtype" in t:
            return ty(t["newtype"])
        raise ValueError("serde schema: no model for %r" % (t,))

    def tys(ts):
        out = "TNil"
        for x in reversed(ts):
            out = "(TCons %s %s)" % (ty(x), out)
        return "(TTuple %s)" % out

    def fields(fs):
        out = "FNil"
        for name, ft in reversed(fs):
            out = "(FCons %s %s\n    %s)" % (coq_str(name), ty(ft), out)
        return "(TStruct %s)" % out

    def definition(d):
        if "newtype" in d:
            return ty(d["newtype"])
        if "tuple_struct" in d:
            return tys(d["tuple_struct"])
        if "struct" in d:
            return fields(d["struct"])
        if "enum" in d:
            out = "VNil"
            for name, p in reversed(d["enum"]):
                if p == "unit":
                    out = "(VUnit %s\n    %s)" % (coq_str(name), out)
                else:
                    out = "(VPay %s %s\n    %s)" % (coq_str(name), ty(p), out)
            return "(TEnum %s)" % out
        raise ValueError("serde schema: no model for definition %r" % (d,))

    # topological order
    order, done = [], set()

    def visit(n, stack=()):
        if n in done:
            return
        if n in stack:
            raise ValueError("serde schema: recursive type " + n)
        acc = set()
        deps(schema[n], acc)
        for m in sorted(acc):
            if m in schema:
                visit(m, stack + (n,))
        done.add(n)
        order.append(n)
    for n in sorted(schema):
        visit(n)
    lines = ["(* GENERATED by /verif/vlib/translate.py from the #[cfg_attr(feature = \"serde1\", derive(serde::Serialize,",
             "   serde::Deserialize))] sites of /repo's current source; do not edit.  One shape per derive site; a newtype",
             "   struct has the shape of its field (serde writes it transparently). *)",
             "From WV Require Import Model.Base Model.Serde.",
             "Open Scope Z_scope.",
             "Definition str (l : list N) : list byte := l."]
    for n in order:
        lines.append("Definition t_%s : ty :=\n  %s." % (n, definition(schema[n])))
    lines.append("Definition serde_types : list (list byte * ty) :=\n  [" + ";\n   ".join("(%s, t_%s)" % (coq_str(n), n) for n in order) + "].")
    return "\n".join(lines) + "\n"


def write_if_changed(path, text):
    old = open(path).read() if os.path.exists(path) else None
    if old != text:
        with open(path, "w") as f:
            f.write(text)
        return True
    return False


def regenerate():
    info = {}
    gen_dir = os.path.join(core.COQ, "Generated")
    try:
        text = render_consts()
        info["consts_changed"] = write_if_changed(os.path.join(gen_dir, "Consts.v"), text)
    except core.InfraError as e:
        info["translator_degraded"] = str(e)
    try:
        schema = serde_sites()
        info["serde_sites"] = sorted(schema)
        write_if_changed(os.path.join(gen_dir, "serde_schema.json"), json.dumps(schema, indent=1, sort_keys=True) + "\n")
        info["serde_schema_changed"] = write_if_changed(os.path.join(gen_dir, "SerdeSchema.v"), render_serde_schema_v(schema))
    except (core.InfraError, ValueError, IndexError) as e:
        info["serde_translator_degraded"] = str(e)
    return info
