"""C11 - GHW files load faithfully (signal sections: per-bit vector assembly, delta cycles, integers, enums, reals, times)."""
import struct
from .. import core, gen, designs
from . import vcdfam

PID = "C11"
LEVEL = "proof"
RULE = ("abstract GHW value histories (std_ulogic and bit scalars and vectors of any width, u8 enums, 32-bit integers incl. "
        "negative, reals; one snapshot and any number of cycle sections with positive, zero (delta cycle) and backwards time "
        "deltas, directory and tailer sections, little and big endian headers) are serialised as GHW signal sections and read by "
        "ghw::signals::read_signals (hook, explicit decode information); oracle: the value of every variable after every cycle "
        "computed from the abstract history (first declared element leftmost, one entry per cycle that touches the variable, "
        "repetitions dropped, 32-bit two's complement, IEEE doubles, femtoseconds); the Gallina model of the section reader and "
        "of the VecBuffer is run on the same bytes. Truncated and corrupted sections: model vs implementation outcome class. "
        "Non-trivial: the history has a vector wider than 8 bits or a delta cycle; distinct histories. "
        "Complete GHW files: random designs (instances, packages, blocks, generate and generic scopes; std_[u]logic, bit, "
        "their vectors with to/downto ranges and offsets, user enumerations incl. ones that start like bit or std_ulogic, "
        "boolean, integers, reals; arrays of vectors / integers / reals / enumerations with ascending and descending "
        "ranges and records - both loaded as scopes, array elements labelled with their declared index in declaration "
        "order -; six port directions; identifiers sharing 31..56 leading characters so that the string "
        "table's prefix compression is exercised; little and big endian; delta cycles inside and across cycle sections) are "
        "written by vlib/filegen.py and loaded; the full listing (harness command wfull: scope kinds, variable types, "
        "directions, ranges, enum tables, type names, every change) must equal the listing computed from the design.")
ASSUMPTIONS = ["the decode information (signal types, vector ranges) produced by the unmodelled hierarchy section reader is an input"]
TRUSTED_BASE = ["Python GHW signal-section writer and oracle (c11.py)", "Python GHW file writer and expected listing (vlib/filegen.py, vlib/designs.py)"]

STD = "ux01zwlh-"


def leb(v):
    out = bytearray()
    while True:
        b = v & 0x7F
        v >>= 7
        if v:
            out.append(b | 0x80)
        else:
            out.append(b)
            return bytes(out)


def sleb(v):
    out = bytearray()
    while True:
        b = v & 0x7F
        v >>= 7
        if (v == 0 and not (b & 0x40)) or (v == -1 and (b & 0x40)):
            out.append(b)
            return bytes(out)
        out.append(b | 0x80)


class Var:
    def __init__(self, kind, width, ref):
        self.kind = kind      # 'nine', 'two', 'ninevec', 'twovec', 'u8', 'int', 'real'
        self.width = width
        self.ref = ref
        self.ids = []         # GHW signal ids (1-based), first = leftmost


def gen_vars(rng):
    vars_ = []
    nid = 1
    for r in range(rng.randint(1, 6)):
        kind = rng.choice(["nine", "two", "ninevec", "twovec", "ninevec", "twovec", "u8", "int", "real"])
        width = {"nine": 1, "two": 1, "u8": rng.choice([1, 2, 3, 8]), "int": 32, "real": 64}.get(kind)
        if kind.endswith("vec"):
            width = rng.choice([2, 3, 4, 7, 8, 9, 15, 16, 17, 31, 33, 64, 65])
        v = Var(kind, width, r)
        n = width if kind.endswith("vec") else 1
        v.ids = list(range(nid, nid + n))
        nid += n
        vars_.append(v)
    return vars_


def value_bytes(kind, v):
    if kind in ("nine", "ninevec"):
        return bytes([STD.index(v)])
    if kind in ("two", "twovec"):
        return bytes([int(v)])
    if kind == "u8":
        return bytes([v])
    if kind == "int":
        return sleb(v)
    return struct.pack("<d", v)


def rand_scalar(rng, kind):
    if kind in ("nine", "ninevec"):
        return rng.choice(STD) if rng.random() < 0.4 else rng.choice("01")
    if kind in ("two", "twovec"):
        return rng.choice("01")
    if kind == "u8":
        return None
    if kind == "int":
        return rng.choice([0, 1, -1, 5, -5, 2 ** 31 - 1, -2 ** 31, rng.randint(-10 ** 6, 10 ** 6)])
    return rng.choice([0.0, 1.5, -2.25, 1e300, 3.141592653589793])


def build(rng):
    vars_ = gen_vars(rng)
    big = rng.random() < 0.5
    order = ">" if big else "<"
    sig_of = {}
    for v in vars_:
        for k, i in enumerate(v.ids):
            sig_of[i] = (v, k)
    nsig = len(sig_of)
    state = {}
    for v in vars_:
        if v.kind.endswith("vec"):
            state[v.ref] = ["0"] * v.width
        elif v.kind in ("nine", "two"):
            state[v.ref] = "0"
        else:
            state[v.ref] = None
    table = []
    skipping = False
    obs = {v.ref: [] for v in vars_}

    def time_change(t):
        nonlocal skipping
        if not table or t > table[-1]:
            table.append(t)
            skipping = False
        elif t == table[-1]:
            skipping = False
        else:
            skipping = True

    def render(v):
        s = state[v.ref]
        if v.kind.endswith("vec"):
            txt = "".join(s)
        elif v.kind in ("nine", "two"):
            txt = s
        elif v.kind == "u8":
            txt = format(s, "0%db" % v.width)[-v.width:]
        elif v.kind == "int":
            txt = format(s & 0xFFFFFFFF, "032b")
        else:
            return ("R", "%016x" % struct.unpack("<Q", struct.pack("<d", s))[0])
        return (gen.min_kind(txt), txt)

    def record(touched):
        if skipping:
            return
        for v in vars_:
            if v.ref in touched:
                item = render(v)
                lst = obs[v.ref]
                if lst and (lst[-1][1], lst[-1][2]) == item:
                    continue
                lst.append((len(table) - 1, item[0], item[1]))

    def write(sigid, out):
        v, k = sig_of[sigid]
        if v.kind == "u8":
            val = rng.randrange(2 ** v.width)
        else:
            val = rand_scalar(rng, v.kind)
        out += value_bytes(v.kind, val)
        if v.kind.endswith("vec"):
            state[v.ref][k] = val
        else:
            state[v.ref] = val
        return v.ref

    data = bytearray()
    t = rng.choice([0, 0, 1000, 5])
    # snapshot
    data += b"SNP\x00" + b"\x00\x00\x00\x00" + struct.pack(order + "q", t)
    time_change(t)
    touched = set()
    for i in range(1, nsig + 1):
        touched.add(write(i, data))
    record(touched)
    data += b"ESN\x00"
    delta_used = False
    for _ in range(rng.randint(0, 4)):
        if rng.random() < 0.15:
            n = rng.randint(0, 3)
            data += b"DIR\x00" + b"\x00\x00\x00\x00" + struct.pack(order + "i", n) + b"\x00" * (8 * n) + b"EOD\x00"
        t = t + rng.choice([1, 5, 1000, 0]) if rng.random() < 0.9 else max(0, t - 3)
        data += b"CYC\x00" + struct.pack(order + "q", t)
        ncycles = rng.randint(1, 4)
        for c in range(ncycles):
            time_change(t)
            touched = set()
            pos = 0
            ids = sorted(rng.sample(range(1, nsig + 1), rng.randint(0, min(nsig, 6))))
            for i in ids:
                data += leb(i - pos)
                pos = i
                touched.add(write(i, data))
            data += leb(0)
            record(touched)
            if c == ncycles - 1:
                data += sleb(-1)
            else:
                dt = rng.choice([0, 0, 1, 7, 7, 2 ** 31 - 1, 2 ** 31, 2 ** 32 + 5, 3 * 10 ** 9, 10 ** 12])   # fs: gaps of 2.1 us and more
                if dt == 0:
                    delta_used = True
                data += sleb(dt)
                t += dt
        data += b"ECY\x00"
    data += b"TAI\x00" + b"\x00" * 8
    # decode information
    sigs = []
    vecs = []
    tcode = {"nine": 0, "ninevec": 1, "two": 2, "twovec": 3, "u8": 4, "int": 5, "real": 6}
    for v in vars_:
        if v.kind.endswith("vec"):
            vecs.append("%d:%d:%d:%d" % (v.ids[0], v.ids[-1], 1 if v.kind == "twovec" else 0, v.ref))
            for i in v.ids:
                sigs.append("%d:%d:%d" % (tcode[v.kind], v.ref, len(vecs) - 1))
        else:
            sigs.append("%d:%d:~" % (tcode[v.kind], v.ref))
    vars_arg = ",".join("r" if v.kind == "real" else "b%d" % v.width for v in vars_)
    line = "ghws %s %s %s %s %s" % ("b" if big else "l", vars_arg, ",".join(sigs), ",".join(vecs) or "-", bytes(data).hex())
    exp = gen.obs_string(table, obs)
    nontrivial = delta_used or any(v.kind.endswith("vec") and v.width > 8 for v in vars_)
    return line, exp, nontrivial, bytes(data)


# what `wfull` prints for findings/example-C11-GhwExample.ghw: the statement of example_ghw_loads in the harness's format
EXAMPLE_LISTING = 'ts=1e-15 tt=0,a 0:S:746f70:VhdlArchitecture:~:~:~ 1:V:64617461:b4:StdLogicVector:Implicit:3.0:0:~:7374645f6c6f6769635f766563746f72=0:B:01xz,a:B:1100,a:B:1101 1:V:636e74:b32:Integer:Output:~:1:~:696e7465676572=0:B:00000000000000000000000000000101,a:B:11111111111111111111111111111110'


def run(res, rng, tier, model_ok, replay=None):
    cases = []
    if replay and designs.replay_filecase(res, replay, "c11f"):
        return
    if replay:
        line = replay.get("case") or replay["broken_correspondence"]["case"]
        cases.append({"line": line})
    else:
        n = 600 if tier == "quick" else 12000
        for k in range(n):
            line, exp, nt, data = build(rng)
            cases.append({"line": line, "expect": exp, "key": hash(line) if nt else None, "klass": "well-formed"})
            if k % 6 == 0:
                # truncated / corrupted: outcome classes must agree between model and implementation
                parts = line.split(" ")
                cut = rng.randrange(len(data))
                bad = data[:cut] if rng.random() < 0.6 else data[:cut] + bytes([rng.randrange(256)]) + data[cut + 1:]
                cases.append({"line": " ".join(parts[:5] + [bad.hex() or "-"]), "klass": "damaged(model only)"})
    vcdfam.run_both(res, cases, "c11", model_ok)
    res.samples = [c["line"][:300] for c in cases[:2]]
    if not replay:
        # complete generated GHW files (string table with shared prefixes, type table, hierarchy, snapshot, cycles with
        # delta rounds), full listing vs design
        import glob, os

        def tie(paths):
            # the model of the whole GHW loader on the same files, and on corrupted headers of some of them
            designs.ghw_model_tie(res, paths, "c11m", model_ok)
            bad = designs.ghw_corrupt_headers(rng, paths[:(12 if tier == "quick" else 150)], os.path.dirname(paths[0]), 12)
            designs.ghw_model_tie(res, bad, "c11b", model_ok, what="corrupted-header", whole=False)
        designs.run_file_cases(res, designs.ghw_cases(rng, tier), "c11f", with_files=tie)
        # the file of the end-to-end example (Proofs/GhwExample.v): the bytes in the Coq file are the bytes of
        # findings/example-C11-GhwExample.ghw, and wellen loads them as the Coq example says the model does
        import re
        ex_file = os.path.join(core.VERIF, "findings", "example-C11-GhwExample.ghw")
        src = open(os.path.join(core.COQ, "Proofs", "GhwExample.v")).read()
        m = re.search(r"Definition example_ghw : list byte := \[(.*?)\]\.", src, re.S)
        coq_bytes = bytes(int(x) for x in m.group(1).split(";")) if m else b""
        got = core.run_cases(core.WV_DEBUG, ["wfull " + ex_file], "c11x")[0]
        res.evaluations += 1
        res.distribution["end-to-end-example"] = 1
        if coq_bytes != open(ex_file, "rb").read():
            res.mismatches.append(("Proofs/GhwExample.v example_ghw", "findings/example-C11-GhwExample.ghw", "the bytes differ"))
        elif got != EXAMPLE_LISTING:
            res.violations.append(("wfull " + ex_file, got[:2000], EXAMPLE_LISTING, "the file of the end-to-end example does not load as the example states"))
        else:
            res.nontrivial.add(("example",))
        corpus = sorted(f for f in glob.glob("/repo/wellen/inputs/**/*.ghw", recursive=True))
        designs.ghw_model_tie(res, corpus, "c11c", model_ok, what="corpus")


def check_known(entry):
    return False
