(* The VCD value path (wavemem Encoder) and the FST value path (fst SignalWriter) report the same changes for the
   same values (property C12, value paths of two of the three formats). *)
From Coq Require Import Lia.
From WV Require Import Model.Base Generated.Consts Model.Bits Model.Leb128 Model.WaveMem Model.FstLoad
  Spec.TimeSpec Spec.StoreSpec Proofs.BitsProofs Proofs.StoreProofs Proofs.EncoderProofs Proofs.FstProofs.
Open Scope N_scope.

Lemma check_states_no_b value l : check_states value = Some l -> ~ In 98 value.
Proof.
  unfold check_states. intros H Hin.
  assert (G : forall v u, In 98 v -> check_states_union v u = None).
  { induction v as [|c r IH]; intros u Hi; [destruct Hi|]. destruct Hi as [E|E]; cbn [check_states_union].
    - subst c. reflexivity.
    - destruct (bit_char_to_num c); [now apply IH|reflexivity]. }
  rewrite (G value 0 Hin) in H. discriminate.
Qed.

Lemma strip_0b (c0 c1 : N) (r : list byte) : c1 <> 98 ->
  (match c0 :: c1 :: r with 48 :: 98 :: r2 => Ok r2 | _ => Ok (c0 :: c1 :: r) end : outcome (list byte)) = Ok (c0 :: c1 :: r).
Proof.
  intros H. destruct c0 as [|q]; [reflexivity|].
  do 6 (try destruct q as [q|q|]); try reflexivity.
  all: destruct c1 as [|p]; [reflexivity|].
  all: do 7 (try destruct p as [p|p|]); try reflexivity.
  all: exfalso; apply H; reflexivity.
Qed.

(* a full-width value delivered as FST text and the same value written as `b<value>` in a VCD mean the same *)
Lemma fst_decodes_decodes bits g l s value : (1 <= bits)%nat -> length value = bits ->
  check_states value = Some l -> chars_to_nums value = Some s ->
  decodes bits (g, l, s) (g, RText (98 :: value)).
Proof.
  intros Hb Hlen Hcs Hcn. cbn [decodes fst snd]. split; [reflexivity|].
  destruct (check_states_min value l Hcs) as (nums & Hn & Hs & H8 & Hmin).
  rewrite Hcn in Hn. inversion Hn; subst nums.
  split; [|split; assumption]. exists value.
  split; [|split; assumption].
  unfold normalize, strip_prefix. cbn [is_b N.eqb Pos.eqb orb bind].
  assert (Hnorm : (if (length value <=? 2)%nat then Ok value
                   else match value with 48 :: 98 :: r2 => Ok r2 | _ => Ok value end) = Ok value).
  { destruct value as [|c0 [|c1 r]]; try reflexivity.
    destruct (length (c0 :: c1 :: r) <=? 2)%nat; [reflexivity|].
    apply strip_0b. intros ->. apply (check_states_no_b _ _ Hcs). right. now left. }
  rewrite Hnorm. cbn [bind]. destruct (Nat.eqb_spec bits 1) as [E1|E1].
  - rewrite E1 in Hlen. destruct value as [|c [|c2 r]]; try discriminate. reflexivity.
  - now rewrite Hlen, Nat.eqb_refl.
Qed.

Section Cross.
Variable parse_f64 : list byte -> option (list byte).
Variable lz_compress : list byte -> list byte.
Variable lz_decompress : list byte -> nat -> option (list byte).
Hypothesis lz_ok : forall d n, (length d <= n)%nat -> lz_decompress (lz_compress d) n = Some d.
Variable cap : N.
Hypothesis cap_pos : 1 <= cap.
Hypothesis cap_u16 : cap <= 65536.

(* the same list of (time index, value) changes, once recorded by the VCD encoder (as `b<value>` tokens, in any
   block segmentation) and once delivered to the FST signal writer, is reported identically *)
Theorem vcd_fst_same_report id bits tpes ops e blocks ttb (cs : list (N * list byte)) sw :
  (1 <= bits)%nat -> nth_error tpes id = Some (EncBits bits) -> Forall (op_ok id bits) ops ->
  N.of_nat (count_vcd id ops) * (10 + N.of_nat bits) < 4294967264 ->
  run_ops parse_f64 lz_compress cap (enc_new tpes) ops = Ok e ->
  enc_finish lz_compress e = Ok (blocks, ttb) -> N.of_nat (length ttb) < 4294967296 ->
  recorded id ops [] false = map (fun c : N * list byte => (fst c, RText (98 :: snd c))) cs ->
  Forall (fun c : N * list byte => length (snd c) = bits) cs ->
  sw_run (sw_new (EncBits bits)) (map (fun c : N * list byte => (fst c, FvString (snd c))) cs) = Ok sw ->
  exists sig, load_signal lz_decompress blocks id (EncBits bits) = Ok sig /\
              observe_signal sig = observe_signal (sw_finish sw).
Proof.
  intros Hb Htp Hops Hbud Hrun Hfin Hlen Hrec Hcs Hsw.
  destruct (storage_transparent parse_f64 lz_compress lz_decompress lz_ok cap cap_pos cap_u16 id bits Hb
              tpes ops e blocks ttb Htp Hops Hbud Hrun Hfin Hlen) as (R & sig & Hdec & Hload & Hobs).
  assert (Hok : Forall (fst_change_ok bits) (map (fun c : N * list byte => (fst c, FvString (snd c))) cs)).
  { rewrite Forall_forall in *. intros x Hx. apply in_map_iff in Hx as (c & <- & Hc). exists (snd c). split; [reflexivity|now apply Hcs]. }
  destruct (fst_writer_spec bits Hb _ sw Hok Hsw) as (A & HdecA & HobsA).
  exists sig. split; [exact Hload|]. rewrite Hobs, HobsA. f_equal. f_equal.
  apply (forall2_decodes_fun bits R A _ Hdec). rewrite Hrec.
  clear -HdecA Hcs Hb. revert A HdecA. induction cs as [|c cs IH]; intros A HA; cbn [map] in *.
  - inversion HA. constructor.
  - inversion HA as [|a x A' xs Ha HA']; subst. apply Forall_cons_iff in Hcs as [Hc Hcs].
    constructor; [|now apply IH].
    destruct a as [[g l] s]. destruct Ha as (Hg & value & Hv & Hcsv & Hcn). cbn [fst snd] in *.
    inversion Hv; subst value. subst g. now apply fst_decodes_decodes.
Qed.

(* what a recorded value means: the symbols of the declared width it stands for *)
Definition means (bits : nat) (v : rec_val) (syms : list N) : Prop :=
  match v with
  | RText t => exists chars, normalize bits t = Ok chars /\ length chars = bits /\ chars_to_nums chars = Some syms
  | RRaw data st => data = write_n_state_loop st syms 0 None /\ length syms = bits /\ small_syms st syms /\
                    Forall (fun x => x <= 8) syms
  end.

Lemma decodes_means bits a r syms : decodes bits a r -> means bits (snd r) syms -> snd a = syms.
Proof.
  destruct a as [[g l] s]. cbn [decodes snd]. intros (_ & Hv & _ & _) Hm. unfold means in Hm.
  destruct (snd r) as [t|data st].
  - destruct Hv as (c1 & Hn1 & _ & Hc1). destruct Hm as (c2 & Hn2 & _ & Hc2).
    rewrite Hn1 in Hn2. inversion Hn2; subst c2. rewrite Hc1 in Hc2. now inversion Hc2.
  - destruct Hv as (Hd1 & Hl1 & Hq1 & _). destruct Hm as (Hd2 & Hl2 & Hq2 & _).
    pose proof (pack_unpack st s Hq1) as P1. pose proof (pack_unpack st syms Hq2) as P2.
    rewrite <- Hd1, Hl1 in P1. rewrite <- Hd2, Hl2 in P2. rewrite P1 in P2. now inversion P2.
Qed.

(* two recorded values at the same time index that mean the same symbols have the same abstract entry *)
Lemma decodes_same bits a b ra rb syms : decodes bits a ra -> decodes bits b rb -> fst ra = fst rb ->
  means bits (snd ra) syms -> means bits (snd rb) syms -> a = b.
Proof.
  intros Ha Hb Ht Ma Mb. pose proof (decodes_means bits a ra syms Ha Ma) as Sa.
  pose proof (decodes_means bits b rb syms Hb Mb) as Sb.
  destruct a as [[ga la] sa], b as [[gb lb] sb]. cbn [snd] in Sa, Sb. subst sa sb.
  destruct Ha as (Hg1 & _ & Hs1 & Hm1). destruct Hb as (Hg2 & _ & Hs2 & Hm2). cbn [fst] in *.
  assert (states_num la = states_num lb) by (specialize (Hm1 lb Hs2); specialize (Hm2 la Hs1); lia).
  assert (la = lb) by (destruct la, lb; cbn in *; congruence). congruence.
Qed.

(* Property C12, value paths of VCD and GHW: two histories - one of VCD text changes, one of pre-packed raw changes as
   the GHW reader delivers them (or any mix) - whose recorded values mean the same symbols at the same time indices
   are reported identically, whatever the block segmentation and compressor of either store *)
Theorem same_meaning_same_report id bits tpes1 tpes2 ops1 ops2 e1 e2 b1 t1 b2 t2 :
  (1 <= bits)%nat ->
  nth_error tpes1 id = Some (EncBits bits) -> nth_error tpes2 id = Some (EncBits bits) ->
  Forall (op_ok id bits) ops1 -> Forall (op_ok id bits) ops2 ->
  N.of_nat (count_vcd id ops1) * (10 + N.of_nat bits) < 4294967264 ->
  N.of_nat (count_vcd id ops2) * (10 + N.of_nat bits) < 4294967264 ->
  run_ops parse_f64 lz_compress cap (enc_new tpes1) ops1 = Ok e1 ->
  run_ops parse_f64 lz_compress cap (enc_new tpes2) ops2 = Ok e2 ->
  enc_finish lz_compress e1 = Ok (b1, t1) -> N.of_nat (length t1) < 4294967296 ->
  enc_finish lz_compress e2 = Ok (b2, t2) -> N.of_nat (length t2) < 4294967296 ->
  Forall2 (fun ra rb => fst ra = fst rb /\ exists syms, means bits (snd ra) syms /\ means bits (snd rb) syms)
          (recorded id ops1 [] false) (recorded id ops2 [] false) ->
  exists s1 s2, load_signal lz_decompress b1 id (EncBits bits) = Ok s1 /\
                load_signal lz_decompress b2 id (EncBits bits) = Ok s2 /\
                observe_signal s1 = observe_signal s2.
Proof.
  intros Hb Htp1 Htp2 Ho1 Ho2 Hb1 Hb2 Hr1 Hr2 Hf1 Hl1 Hf2 Hl2 Hsame.
  destruct (storage_transparent parse_f64 lz_compress lz_decompress lz_ok cap cap_pos cap_u16 id bits Hb
              tpes1 ops1 e1 b1 t1 Htp1 Ho1 Hb1 Hr1 Hf1 Hl1) as (R1 & s1 & Hd1 & Hload1 & Hobs1).
  destruct (storage_transparent parse_f64 lz_compress lz_decompress lz_ok cap cap_pos cap_u16 id bits Hb
              tpes2 ops2 e2 b2 t2 Htp2 Ho2 Hb2 Hr2 Hf2 Hl2) as (R2 & s2 & Hd2 & Hload2 & Hobs2).
  exists s1, s2. split; [exact Hload1|]. split; [exact Hload2|]. rewrite Hobs1, Hobs2. f_equal. f_equal.
  clear Hobs1 Hobs2. revert R1 R2 Hd1 Hd2. induction Hsame as [|ra rb l1 l2 [Ht (syms & Ma & Mb)] _ IH]; intros R1 R2 Hd1 Hd2.
  - inversion Hd1; inversion Hd2; reflexivity.
  - inversion Hd1 as [|a ? R1' ? Ha Hd1']; subst. inversion Hd2 as [|b ? R2' ? Hb' Hd2']; subst.
    f_equal; [exact (decodes_same bits a b ra rb syms Ha Hb' Ht Ma Mb)|now apply IH].
Qed.

End Cross.

(* the premises are satisfiable: "b1x0" as text and the same three symbols pre-packed as 4-state data *)
Example same_meaning_example :
  means 3 (RText [98; 49; 120; 48]) [1; 2; 0] /\ means 3 (RRaw (write_n_state_loop Four [1; 2; 0] 0 None) Four) [1; 2; 0].
Proof.
  split.
  - exists [49; 120; 48]. repeat split; reflexivity.
  - repeat split; try reflexivity; repeat constructor; cbn; lia.
Qed.
