(* Proofs about Model/VcdHeader.v and the identifier-code arithmetic of Model/VcdBody.v
   (properties C09 and C01: "never attributed to another variable"). *)
From WV Require Import Model.Base Generated.Consts Model.Bits Model.VcdBody Model.VcdHeader.
From Coq Require Import Lia ZifyBool ZifyNat ZifyN.
Ltac Zify.zify_post_hook ::= Z.div_mod_to_equations.

(* ---------- VarIndex::new / msb / lsb ---------- *)

(* the packed index (lsb, width as NonZeroI32 with i32::MIN standing for 0) gives back the bounds *)
Theorem var_index_roundtrip (msb lsb : Z) :
  (-2147483648 < msb - lsb < 2147483648)%Z ->
  var_index_new msb lsb = Ok (msb, lsb).
Proof.
  intros H. unfold var_index_new, chk64, i64_min, i64_max.
  destruct (Z.ltb_spec (msb - lsb) (-9223372036854775808)); [lia|].
  destruct (Z.ltb_spec 9223372036854775807 (msb - lsb)); [lia|]. cbn [orb bind].
  assert (Hw : wrap_i32 (msb - lsb) = (msb - lsb)%Z).
  { unfold wrap_i32. destruct (Z.ltb_spec ((msb - lsb) mod 4294967296) 2147483648); lia. }
  rewrite Hw. destruct (Z.eqb_spec (msb - lsb) 0) as [E|E].
  - cbn. f_equal. f_equal. lia.
  - destruct (Z.eqb_spec (msb - lsb) (-2147483648)); [lia|]. f_equal. f_equal. lia.
Qed.

(* the one range the packing cannot represent: msb - lsb = i32::MIN reads back as msb = lsb *)
Example var_index_min_refuted : var_index_new (-2147483648) 0 = Ok (0, 0)%Z.
Proof. reflexivity. Qed.

(* ---------- id_to_int is injective ---------- *)

Open Scope N_scope.

Definition nchars : N := id_char_max - id_char_min + 1.

(* value of a digit list, most significant first, digits in 1..nchars (bijective numeration) *)
Fixpoint bval (l : list N) : N :=
  match l with [] => 0 | c :: r => c * nchars ^ N.of_nat (length r) + bval r end.

(* 1 + k + k^2 + ... + k^(n-1) *)
Fixpoint ones (n : nat) : N := match n with O => 0 | S m => nchars ^ N.of_nat m + ones m end.

Definition digits_ok (l : list N) : Prop := Forall (fun c => 1 <= c <= nchars) l.

Lemma nchars_val : nchars = 94. Proof. reflexivity. Qed.

Lemma bval_bounds l : digits_ok l -> ones (length l) <= bval l < ones (length l) + nchars ^ N.of_nat (length l).
Proof.
  induction 1 as [|c r Hc Hr IH]; cbn [bval ones length].
  - cbn. lia.
  - rewrite Nat2N.inj_succ, N.pow_succ_r'. rewrite nchars_val in *. nia.
Qed.

Lemma ones_step n : ones (S n) = ones n + nchars ^ N.of_nat n.
Proof. cbn [ones]. lia. Qed.

Lemma ones_mono n m : (n < m)%nat -> ones n + nchars ^ N.of_nat n <= ones m.
Proof.
  induction 1 as [|m Hle IH]; [rewrite ones_step; lia|].
  rewrite ones_step. assert (0 < nchars ^ N.of_nat m) by (apply N.neq_0_lt_0, N.pow_nonzero; discriminate). lia.
Qed.

Lemma bval_inj : forall l l', digits_ok l -> digits_ok l' -> bval l = bval l' -> l = l'.
Proof.
  assert (Hlen : forall l l', digits_ok l -> digits_ok l' -> bval l = bval l' -> length l = length l').
  { intros l l' H H' E. pose proof (bval_bounds l H). pose proof (bval_bounds l' H').
    destruct (Nat.lt_total (length l) (length l')) as [Hlt|[Heq|Hgt]]; [exfalso|assumption|exfalso].
    - pose proof (ones_mono _ _ Hlt). lia.
    - pose proof (ones_mono _ _ Hgt). lia. }
  induction l as [|c r IH]; intros l' H H' E.
  - pose proof (Hlen [] l' H H' E) as L. destruct l'; [reflexivity|discriminate].
  - pose proof (Hlen (c :: r) l' H H' E) as L. destruct l' as [|c' r']; [discriminate|].
    apply Forall_cons_iff in H as [Hc Hr]. apply Forall_cons_iff in H' as [Hc' Hr'].
    cbn [length] in L. injection L as L. cbn [bval] in E. rewrite L in E.
    pose proof (bval_bounds r Hr) as B. pose proof (bval_bounds r' Hr') as B'. rewrite L in B.
    set (p := nchars ^ N.of_nat (length r')) in *.
    assert (Hp : 0 < p) by (apply N.neq_0_lt_0, N.pow_nonzero; discriminate).
    assert (c = c') by nia. subst c'. f_equal. apply IH; try assumption. nia.
Qed.

(* id_to_int_go computes the bijective numeral of the digits it has consumed *)
Lemma go_spec : forall rl acc v, id_to_int_go rl acc = Some v ->
  exists ds, length ds = length rl /\ digits_ok ds /\
             v = acc * nchars ^ N.of_nat (length rl) + bval ds /\
             map (fun c => c + id_char_min - 1) ds = rl.
Proof.
  induction rl as [|i r IH]; intros acc v H; cbn [id_to_int_go] in H.
  - inversion H; subst. exists []. cbn. repeat split; try constructor. lia.
  - destruct ((i <? id_char_min) || (id_char_max <? i)) eqn:Er; [discriminate|].
    apply Bool.orb_false_elim in Er as [E1 E2]. apply N.ltb_ge in E1, E2.
    fold nchars in H.
    destruct (u64_max <? acc * nchars); [discriminate|].
    destruct (u64_max <? acc * nchars + (i - id_char_min + 1)); [discriminate|].
    destruct (IH _ _ H) as (ds & Hl & Hok & Hv & Hm).
    exists ((i - id_char_min + 1) :: ds). cbn [length map bval]. repeat split.
    + now rewrite Hl.
    + constructor; [|assumption]. unfold nchars. lia.
    + rewrite Hv, Hl, Nat2N.inj_succ, N.pow_succ_r'. lia.
    + f_equal; [lia|assumption].
Qed.

(* two identifier codes that translate to the same number are the same code:
   a value change is never attributed to another variable's signal (direct mapping) *)
Theorem id_to_int_injective id id' v : id_to_int id = Some v -> id_to_int id' = Some v -> id = id'.
Proof.
  unfold id_to_int. intros H H'.
  destruct id as [|a r]; [discriminate|]. destruct id' as [|a' r']; [discriminate|].
  destruct (id_to_int_go (rev (a :: r)) 0) as [x|] eqn:E; [|discriminate].
  destruct (id_to_int_go (rev (a' :: r')) 0) as [x'|] eqn:E'; [|discriminate].
  cbn [option_map] in H, H'. inversion H; inversion H'; subst.
  destruct (go_spec _ _ _ E) as (ds & Hl & Hok & Hv & Hm).
  destruct (go_spec _ _ _ E') as (ds' & Hl' & Hok' & Hv' & Hm').
  assert (Hx : 1 <= x).
  { rewrite Hv. destruct ds as [|d ds0]; [rewrite rev_length in Hl; discriminate|].
    apply Forall_cons_iff in Hok as [Hd _]. cbn [bval].
    assert (0 < nchars ^ N.of_nat (length ds0)) by (apply N.neq_0_lt_0, N.pow_nonzero; discriminate). nia. }
  assert (Hx' : 1 <= x').
  { rewrite Hv'. destruct ds' as [|d ds0]; [rewrite rev_length in Hl'; discriminate|].
    apply Forall_cons_iff in Hok' as [Hd _]. cbn [bval].
    assert (0 < nchars ^ N.of_nat (length ds0)) by (apply N.neq_0_lt_0, N.pow_nonzero; discriminate). nia. }
  assert (x = x') by lia. subst x'.
  assert (ds = ds') by (apply bval_inj; try assumption; lia). subst ds'.
  assert (R : rev (a :: r) = rev (a' :: r')) by congruence.
  apply (f_equal (@rev N)) in R. now rewrite !rev_involutive in R.
Qed.

Example id_to_int_examples :
  id_to_int [33] = Some 0 /\ id_to_int [35; 37] = Some 472 /\ id_to_int [] = None /\ id_to_int [32] = None.
Proof. repeat split; reflexivity. Qed.
