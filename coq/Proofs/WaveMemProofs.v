(* Proofs about Model/WaveMem.v: the per-signal meta-data word (property C04). *)
From WV Require Import Model.Base Generated.Consts Model.Bits Model.Leb128 Model.WaveMem.
From Coq Require Import Lia ZifyBool ZifyNat ZifyN.
Ltac Zify.zify_post_hook ::= Z.div_mod_to_equations.
Open Scope N_scope.

Lemma states_of_num_num st : states_of_num (states_num st) = Some st.
Proof. destruct st; reflexivity. Qed.

Lemma states_num_lt4 st : states_num st < 3.
Proof. destruct st; cbn; lia. Qed.

(* the meta-data word of an uncompressed signal block decodes to itself *)
Theorem metadata_roundtrip_uncompressed mx :
  meta_decode (meta_encode (mk_meta Uncompressed mx)) = Ok (mk_meta Uncompressed mx).
Proof.
  unfold meta_encode, meta_decode. cbn [em_comp em_max].
  pose proof (states_num_lt4 mx).
  replace (states_num mx mod 4) with (states_num mx) by lia.
  rewrite states_of_num_num. cbn [of_option bind].
  destruct (N.eqb_spec ((states_num mx / 4) mod 2) 1); [lia|reflexivity].
Qed.

(* SignalEncodingMetaData::compressed rounds the length up to a multiple of 32; that rounded word
   survives encode/decode, and it is never smaller than the real length (the buffer is big enough) *)
Theorem metadata_roundtrip_compressed mx n : n < 4294967264 ->
  meta_decode (meta_encode (meta_compressed mx n)) = Ok (meta_compressed mx n) /\
  match em_comp (meta_compressed mx n) with Compressed len => n <= len | Uncompressed => False end.
Proof.
  intros Hn. unfold meta_compressed, meta_encode, meta_decode, ndiv_ceil, u32_wrap, signal_decompressed_len_div.
  cbn [em_comp em_max]. pose proof (states_num_lt4 mx).
  replace (n mod 4294967296) with n by lia.
  set (k := (n + 32 - 1) / 32).
  assert (Hk : k * 32 < 4294967296) by (unfold k; lia).
  replace ((k * 32) mod 4294967296) with (k * 32) by lia.
  replace ((k * 32 + 32 - 1) / 32) with k by lia.
  replace ((k * 8 + 4 + states_num mx) mod 4) with (states_num mx) by lia.
  rewrite states_of_num_num. cbn [of_option bind].
  replace (((k * 8 + 4 + states_num mx) / 4) mod 2) with 1 by lia. cbn [N.eqb Pos.eqb].
  replace (((k * 8 + 4 + states_num mx) / 8) mod 4294967296) with k by lia.
  replace ((k * 32) mod 4294967296) with (k * 32) by lia.
  split; [reflexivity|]. unfold k. lia.
Qed.

Example metadata_example :
  meta_encode (meta_compressed Nine 12345) = 3094 /\
  meta_decode 3094 = Ok (mk_meta (Compressed 12352) Nine).
Proof. split; reflexivity. Qed.
