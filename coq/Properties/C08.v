(* Property C08: the hierarchy is a well-formed, fully navigable tree.
   Pinned: for every hierarchy built by a balanced sequence of HierarchyBuilder calls (add_scope with or without
   flatten, re-opening of same-named scopes, add_var, pop_scope; `balanced` = no $upscope below the top level)
   there are children lists kt (top level) and ks (one per scope) such that
   - items() / Scope::items() return exactly those lists (the iterators terminate and follow the links),
   - every variable and every scope occurs in exactly one list, exactly once,
   - the parent link of every item is the scope whose list holds it, and parents precede their children,
   - no two sibling scopes share a name,
   - within every list the variables appear in the order in which they were added, and so do the scopes.
   hierarchy_walk (Proofs/NavProofs.v): the pre-order walk from the top-level items through each scope's items
   terminates within the fuel of the model and visits every variable and every scope exactly once; full_name of
   every scope and variable is defined (the parent chain is strictly decreasing).
   NOT proved: that full_name is the '.'-join of the ancestors' names in the walk's sense, lookup_*, the
   signal-reference table.  Those are decided by the correspondence run against the rose-tree oracle (MANIFEST
   level_note). *)
From Coq Require Import Permutation.
From WV Require Import Model.Base Model.Bits Model.WaveMem Model.Hierarchy Proofs.HierProofs Proofs.NavProofs.

Check hierarchy_wellformed :
  forall ops b, balanced 0 ops -> hier_run hb_new ops = Ok b ->
  exists kt ks,
    top_items b = Ok kt /\
    (forall s, (s < length (hb_scopes b))%nat -> scope_items b s = Ok (nth s ks [])) /\
    Permutation (kt ++ concat ks) (all_ids b) /\ NoDup (kt ++ concat ks) /\
    (forall p x, pvalid ks p -> In x (kids kt ks p) -> parent_of b x = p) /\
    (forall i p, parent_of b (IScope i) = Some p -> (p < i)%nat) /\
    (forall p, pvalid ks p -> NoDup (scope_names b (kids kt ks p))) /\
    (forall p, pvalid ks p -> increasing (vars_of (kids kt ks p)) /\ increasing (scopes_of (kids kt ks p))) /\
    length ks = length (hb_scopes b).

(* the steps: what each builder call does to the children lists *)
Check add_var_inv :
  forall b kt ks nm tpe dir enc idx sig tn b', hinv b kt ks ->
  add_var b nm tpe dir enc idx sig tn = Ok b' ->
  let P := top_parent (hb_stack b) in
  let node := IVar (length (hb_vars b)) in
  hinv b' (fst (add_kid kt ks P node)) (snd (add_kid kt ks P node)) /\
  hb_scopes b' = hb_scopes b' /\ length (hb_scopes b') = length (hb_scopes b) /\
  length (hb_vars b') = S (length (hb_vars b)) /\
  (forall i, option_map sc_name (nth_error (hb_scopes b') i) = option_map sc_name (nth_error (hb_scopes b) i)) /\
  stack_scopes (hb_stack b') = stack_scopes (hb_stack b) /\ length (hb_stack b') = length (hb_stack b).

Check hierarchy_walk :
  forall ops b, balanced 0 ops -> hier_run hb_new ops = Ok b ->
  (exists w, full_walk b = Ok w /\ Permutation (map snd w) (all_ids b) /\ NoDup (map snd w)) /\
  (forall s, (s < length (hb_scopes b))%nat -> exists nm, scope_full_name (items_fuel b) b s = Ok nm) /\
  (forall v, (v < length (hb_vars b))%nat -> exists nm, var_full_name b v = Ok nm).

Print Assumptions hierarchy_wellformed.
Print Assumptions hierarchy_walk.
Print Assumptions add_var_inv.
Print Assumptions add_scope_inv.
Print Assumptions pop_scope_inv.
