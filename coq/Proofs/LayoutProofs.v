(* The VCD body parser against the text for ANY layout of the tokens (vcd.rs parse_body, property C01): the token
   groups of Proofs/TokenProofs.v - time stamp, scalar change, vector/real/string change with its identifier code,
   $comment ... $end, $dumpvars / $end / $dumpoff / $dumpon - separated by arbitrary non-empty runs of blank space
   (blanks, tabs, CR, LF in any mixture: several groups on a line, CRLF files, indentation, empty lines) are parsed into
   exactly the events they denote. *)
From WV Require Import Model.Base Generated.Consts Model.Bits Model.VcdBody Proofs.BodyProofs Proofs.HandoverProofs Proofs.TokenProofs.
From Coq Require Import Lia.
Open Scope N_scope.

Definition ws (w : list byte) : Prop := Forall (fun b => is_white_space b = true) w.
Definition sepd (w : list byte) : Prop := w <> [] /\ ws w.

Lemma skip_first debug stop : forall w s, ps_state s = ParsingFirstToken -> ps_first s = [] -> ws w ->
  run_bytes debug stop w s = Running (mk_ps (ps_pos s + N.of_nat (length w)) ParsingFirstToken [] (ps_id s) (ps_acc s)).
Proof.
  induction w as [|b w IH]; intros s Hst Hf Hw.
  - cbn [run_bytes length]. rewrite N.add_0_r. destruct s; cbn in *; subst; reflexivity.
  - apply Forall_cons_iff in Hw as [Hb Hw]. cbn [run_bytes]. rewrite Hst, Hb, Hf.
    rewrite IH by (try reflexivity; exact Hw). cbn [ps_pos ps_id ps_acc length]. f_equal. f_equal. lia.
Qed.

Lemma skip_id debug stop : forall w s, ps_state s = ParsingIdToken -> ps_id s = [] -> ws w ->
  run_bytes debug stop w s = Running (mk_ps (ps_pos s + N.of_nat (length w)) ParsingIdToken (ps_first s) [] (ps_acc s)).
Proof.
  induction w as [|b w IH]; intros s Hst Hf Hw.
  - cbn [run_bytes length]. rewrite N.add_0_r. destruct s; cbn in *; subst; reflexivity.
  - apply Forall_cons_iff in Hw as [Hb Hw]. cbn [run_bytes]. rewrite Hst, Hb, Hf.
    rewrite IH by (try reflexivity; exact Hw). cbn [ps_pos ps_first ps_acc length]. f_equal. f_equal. lia.
Qed.

Lemma skip_end debug stop : forall w s, ps_state s = LookingForEndToken -> ps_first s = [] -> ws w ->
  run_bytes debug stop w s = Running (mk_ps (ps_pos s + N.of_nat (length w)) LookingForEndToken [] (ps_id s) (ps_acc s)).
Proof.
  induction w as [|b w IH]; intros s Hst Hf Hw.
  - cbn [run_bytes length]. rewrite N.add_0_r. destruct s; cbn in *; subst; reflexivity.
  - apply Forall_cons_iff in Hw as [Hb Hw]. cbn [run_bytes]. rewrite Hst, Hb, Hf.
    rewrite IH by (try reflexivity; exact Hw). cbn [ps_pos ps_id ps_acc length]. f_equal. f_equal. lia.
Qed.

Lemma sepd_split w : sepd w -> exists b r, w = b :: r /\ is_white_space b = true /\ ws r.
Proof. intros [Hn Hw]. destruct w as [|b r]; [congruence|]. apply Forall_cons_iff in Hw as [Hb Hr]. eauto. Qed.

(* ------------------------------------------------------------------ items *)
Inductive item :=
| ITime (digits sep : list byte)
| IScalar (c : byte) (id sep : list byte)
| IVector (value sep1 id sep : list byte)
| IComment (words : list (list byte * list byte)) (sepe sep : list byte)    (* every word with the blank space in front of it *)
| IIgnored (kw sep : list byte).

Definition swords (words : list (list byte * list byte)) : list byte := concat (map (fun sw => fst sw ++ snd sw) words).

Definition itext (i : item) : list byte :=
  match i with
  | ITime d sep => (35 :: d) ++ sep
  | IScalar c id sep => (c :: id) ++ sep
  | IVector v sep1 id sep => v ++ sep1 ++ id ++ sep
  | IComment words sepe sep => kw_comment ++ swords words ++ sepe ++ kw_end ++ sep
  | IIgnored kw sep => kw ++ sep
  end.

Definition line_of (i : item) : line :=
  match i with
  | ITime d _ => LTime d
  | IScalar c id _ => LScalar c id
  | IVector v _ id _ => LVector v id
  | IComment words _ _ => LComment (map snd words)
  | IIgnored kw _ => LIgnored kw
  end.

Definition item_ok (i : item) : Prop :=
  line_ok (line_of i) /\
  match i with
  | ITime _ sep | IScalar _ _ sep | IIgnored _ sep => sepd sep
  | IVector _ sep1 _ sep => sepd sep1 /\ sepd sep
  | IComment words sepe sep => Forall (fun sw => sepd (fst sw)) words /\ sepd sepe /\ sepd sep
  end.

Lemma blank_step_b debug stop s b : is_white_space b = true -> pre_blank s ->
  run_bytes debug stop [b] s = Running (mk_ps (ps_pos s + 1) LookingForEndToken [] (ps_id s) (ps_acc s)).
Proof.
  intros Hb [[Hst Hf]|[Hst Hf]]; cbn [run_bytes]; rewrite Hst, Hb.
  - rewrite Hf. destruct debug; reflexivity.
  - destruct (ps_first s) as [|f0 fr]; [reflexivity|]. destruct Hf as [Hf|Hf]; [discriminate|]. now rewrite Hf.
Qed.

Lemma comment_swords debug stop : forall words s, pre_blank s -> Forall okw (map snd words) -> Forall (fun sw => sepd (fst sw)) words ->
  exists s', run_bytes debug stop (swords words) s = Running s' /\ pre_blank s' /\
             ps_pos s' = ps_pos s + N.of_nat (length (swords words)) /\ ps_id s' = ps_id s /\ ps_acc s' = ps_acc s.
Proof.
  induction words as [|[sp0 w] words IH]; intros s Hs Hws Hseps.
  - exists s. cbn [swords map concat run_bytes length]. repeat split; [exact Hs|lia].
  - cbn [map snd] in Hws. apply Forall_cons_iff in Hws as [(Hwn & Hww & Hwe) Hws]. apply Forall_cons_iff in Hseps as [Hsp Hseps].
    cbn [fst] in Hsp. destruct (sepd_split sp0 Hsp) as (b & r & -> & Hb & Hr).
    unfold swords. cbn [map concat fst snd]. fold (swords words).
    rewrite <- app_assoc. change ((b :: r) ++ w ++ swords words) with ([b] ++ (r ++ (w ++ swords words))).
    rewrite run_bytes_app, (blank_step_b debug stop s b Hb Hs), run_bytes_app.
    rewrite (skip_end debug stop r); [|reflexivity|reflexivity|exact Hr]. cbn [ps_pos ps_id ps_acc]. rewrite run_bytes_app.
    rewrite (feed_end debug stop w); [|reflexivity|exact Hww]. cbn [ps_pos ps_first ps_id ps_acc app].
    destruct (IH (mk_ps (ps_pos s + 1 + N.of_nat (length r) + N.of_nat (length w)) LookingForEndToken w (ps_id s) (ps_acc s))) as (s' & Hr' & Hp & Hpos & Hi & Ha).
    { right. split; [reflexivity|right; exact Hwe]. }
    { exact Hws. }
    { exact Hseps. }
    exists s'. split; [exact Hr'|]. split; [exact Hp|]. cbn [ps_pos ps_id ps_acc] in *. split; [|split; assumption].
    rewrite Hpos. repeat (rewrite ?app_length; cbn [length]). lia.
Qed.

Lemma end_step debug stop b s : is_white_space b = true -> ps_state s = LookingForEndToken -> ps_first s = kw_end ->
  run_bytes debug stop [b] s = Running (mk_ps (ps_pos s + 1) ParsingFirstToken [] (ps_id s) (ps_acc s)).
Proof. intros Hb Hst Hf. cbn [run_bytes]. rewrite Hst, Hb, Hf. reflexivity. Qed.

(* one item, from a clean state to a clean state *)
Lemma item_step debug stop i s : item_ok i -> clean s ->
  (is_time (line_of i) = true -> ps_pos s <= stop + 1) ->
  exists s', run_bytes debug stop (itext i) s = Running s' /\ clean s' /\
             ps_pos s' = ps_pos s + N.of_nat (length (itext i)) /\ ps_acc s' = rev (events_of (line_of i)) ++ ps_acc s.
Proof.
  intros [Hok Hseps] (Hst & Hf & Hid & Hpos) Hstop.
  destruct i as [d sep|c id sep|v sep1 id sep|words sepe sep|kw sep]; cbn [line_of line_ok itext events_of is_time] in *.
  - (* time *)
    specialize (Hstop eq_refl). destruct Hok as [Hd (v & Hv)]. rewrite Hv. destruct (sepd_split sep Hseps) as (b & r & -> & Hb & Hr).
    change ((35 :: d) ++ b :: r) with ((35 :: d) ++ [b] ++ r).
    rewrite run_bytes_app, (feed_first debug stop (35 :: d) s Hst (no_ws_cons 35 d eq_refl Hd)), Hf. cbn [app].
    cbn [run_bytes ps_state ps_pos ps_first ps_id ps_acc]. rewrite Hb.
    assert (Hpf : parse_first_token debug (35 :: d) = Ok (FtTime v)).
    { unfold parse_first_token. destruct d as [|d0 dr]; [cbn in Hv; discriminate|].
      cbn [length]. rewrite Bool.andb_false_r. change (35 =? 35) with true. cbn iota. now rewrite Hv. }
    rewrite Hpf. cbn [length] in *.
    destruct (N.ltb_spec (ps_pos s + N.of_nat (S (length d))) (N.of_nat (S (length d)) + 1)) as [Hc|_]; [lia|].
    destruct (N.ltb_spec stop (ps_pos s + N.of_nat (S (length d)) - N.of_nat (S (length d)) - 1)) as [Hc|_]; [lia|].
    rewrite (skip_first debug stop r); [|reflexivity|reflexivity|exact Hr].
    eexists. split; [reflexivity|]. unfold clean. cbn [ps_state ps_first ps_id ps_pos ps_acc rev app].
    repeat split; try reflexivity; try assumption; try (unfold byte in *; cbn [length] in *; repeat (progress (cbn [length]; rewrite ?app_length)); lia).
  - (* scalar *)
    destruct Hok as (Hc & Hidn & Hidw). destruct (one_bit_facts c Hc) as [Hcw Hc35]. destruct (sepd_split sep Hseps) as (b & r & -> & Hb & Hr).
    change ((c :: id) ++ b :: r) with ((c :: id) ++ [b] ++ r).
    rewrite run_bytes_app, (feed_first debug stop (c :: id) s Hst (no_ws_cons c id Hcw Hidw)), Hf. cbn [app].
    cbn [run_bytes ps_state ps_pos ps_first ps_id ps_acc]. rewrite Hb.
    assert (Hpf : parse_first_token debug (c :: id) = Ok FtOneBit).
    { unfold parse_first_token. destruct id as [|i0 ir]; [congruence|]. cbn [length]. rewrite Bool.andb_false_r. now rewrite Hc35, Hc. }
    rewrite Hpf. rewrite (skip_first debug stop r); [|reflexivity|reflexivity|exact Hr].
    eexists. split; [reflexivity|]. unfold clean. cbn [ps_state ps_first ps_id ps_pos ps_acc rev app length] in *.
    repeat split; try reflexivity; try assumption; try (unfold byte in *; cbn [length] in *; repeat (progress (cbn [length]; rewrite ?app_length)); lia).
  - (* vector, real, string *)
    destruct Hok as ((c & rest & -> & Hrest & Hc) & Hvw & Hidn & Hidw). destruct (multi_bit_facts c Hc) as (Hcw & Hc35 & Hc1).
    destruct Hseps as [Hs1 Hs2]. destruct (sepd_split sep1 Hs1) as (b1 & r1 & -> & Hb1 & Hr1). destruct (sepd_split sep Hs2) as (b & r & -> & Hb & Hr).
    change ((c :: rest) ++ (b1 :: r1) ++ id ++ b :: r) with ((c :: rest) ++ [b1] ++ r1 ++ id ++ [b] ++ r).
    rewrite run_bytes_app, (feed_first debug stop (c :: rest) s Hst Hvw), Hf. cbn [app].
    cbn [run_bytes ps_state ps_pos ps_first ps_id ps_acc]. rewrite Hb1.
    assert (Hpf : parse_first_token debug (c :: rest) = Ok FtMultiBit).
    { unfold parse_first_token. destruct rest as [|r0 rr]; [congruence|]. cbn [length]. rewrite Bool.andb_false_r. now rewrite Hc35, Hc1, Hc. }
    rewrite Hpf. rewrite run_bytes_app, (skip_id debug stop r1); [|reflexivity|exact Hid|exact Hr1]. cbn [ps_pos ps_first ps_acc].
    rewrite run_bytes_app. rewrite feed_id; [|reflexivity|exact Hidw]. cbn [ps_pos ps_first ps_id ps_acc app].
    cbn [run_bytes ps_state ps_pos ps_first ps_id ps_acc]. rewrite Hb.
    destruct id as [|i0 ir]; [congruence|].
    rewrite (skip_first debug stop r); [|reflexivity|reflexivity|exact Hr].
    eexists. split; [reflexivity|]. unfold clean. cbn [ps_state ps_first ps_id ps_pos ps_acc rev app].
    repeat split; try reflexivity; try assumption; try (unfold byte in *; cbn [length] in *; repeat (progress (cbn [length]; rewrite ?app_length)); lia).
  - (* comment *)
    destruct Hseps as (Hsw & Hse & Hs). destruct (sepd_split sepe Hse) as (be & re & -> & Hbe & Hre). destruct (sepd_split sep Hs) as (b & r & -> & Hb & Hr).
    rewrite run_bytes_app, (feed_first debug stop kw_comment s Hst ltac:(repeat constructor)), Hf. cbn [app].
    rewrite run_bytes_app.
    destruct (comment_swords debug stop words (mk_ps (ps_pos s + N.of_nat (length kw_comment)) ParsingFirstToken kw_comment (ps_id s) (ps_acc s)))
      as (s1 & Hr1 & Hp1 & Hpos1 & Hid1 & Hacc1); [left; split; reflexivity|exact Hok|exact Hsw|].
    rewrite Hr1. change (be :: re ++ kw_end ++ b :: r) with ([be] ++ re ++ kw_end ++ b :: r).
    rewrite run_bytes_app, (blank_step_b debug stop s1 be Hbe Hp1), run_bytes_app.
    rewrite (skip_end debug stop re); [|reflexivity|reflexivity|exact Hre]. cbn [ps_pos ps_id ps_acc]. rewrite run_bytes_app.
    rewrite (feed_end debug stop kw_end); [|reflexivity|repeat constructor].
    cbn [ps_pos ps_first ps_id ps_acc app]. change (b :: r) with ([b] ++ r). rewrite run_bytes_app.
    rewrite (end_step debug stop b); [|exact Hb|reflexivity|reflexivity]. cbn [ps_pos ps_first ps_id ps_acc].
    rewrite (skip_first debug stop r); [|reflexivity|reflexivity|exact Hr].
    eexists. split; [reflexivity|]. unfold clean. cbn [ps_state ps_first ps_id ps_pos ps_acc rev app] in *.
    rewrite Hpos1, Hid1, Hacc1. repeat split; try reflexivity; try assumption; try (unfold byte in *; cbn [length] in *; repeat (progress (cbn [length]; rewrite ?app_length)); lia).
  - (* ignored commands *)
    assert (Hkw : no_ws kw /\ kw <> [] /\ parse_first_token debug kw = Ok FtIgnored).
    { destruct Hok as [E|[E|[E|E]]]; subst kw; (split; [repeat constructor|split; [discriminate|destruct debug; reflexivity]]). }
    destruct Hkw as (Hw & Hn & Hp). destruct (sepd_split sep Hseps) as (b & r & -> & Hb & Hr).
    change (kw ++ b :: r) with (kw ++ [b] ++ r).
    rewrite run_bytes_app, (feed_first debug stop kw s Hst Hw), Hf. cbn [app].
    cbn [run_bytes ps_state ps_pos ps_first ps_id ps_acc]. rewrite Hb.
    destruct kw as [|k0 kr]; [congruence|]. rewrite Hp.
    rewrite (skip_first debug stop r); [|reflexivity|reflexivity|exact Hr].
    eexists. split; [reflexivity|]. unfold clean. cbn [ps_state ps_first ps_id ps_pos ps_acc rev app].
    repeat split; try reflexivity; try assumption; try (unfold byte in *; cbn [length] in *; repeat (progress (cbn [length]; rewrite ?app_length)); lia).
Qed.

Definition btext (items : list item) : list byte := concat (map itext items).
Definition ievents (items : list item) : list event := flat_map (fun i => events_of (line_of i)) items.

Lemma items_run debug stop : forall items s, Forall item_ok items -> clean s ->
  ps_pos s + N.of_nat (length (btext items)) <= stop + 1 ->
  exists s', run_bytes debug stop (btext items) s = Running s' /\ clean s' /\ ps_acc s' = rev (ievents items) ++ ps_acc s.
Proof.
  induction items as [|i items IH]; intros s Hok Hs Hstop.
  - exists s. cbn. repeat split; try apply Hs.
  - apply Forall_cons_iff in Hok as [Hi His]. unfold btext in *. cbn [map concat] in *. rewrite app_length in Hstop.
    destruct (item_step debug stop i s Hi Hs ltac:(intros _; lia)) as (s1 & Hr1 & Hc1 & Hp1 & Ha1).
    rewrite run_bytes_app, Hr1.
    destruct (IH s1 His Hc1 ltac:(rewrite Hp1; lia)) as (s' & Hr & Hc & Ha).
    exists s'. split; [exact Hr|]. split; [exact Hc|]. rewrite Ha, Ha1. unfold ievents. cbn [flat_map]. rewrite rev_app_distr, app_assoc. reflexivity.
Qed.

(* Property C01, the text level for any layout: whatever precedes the first line feed is skipped (the reader starts
   in the middle of the `$enddefinitions $end` line - finding D6 is exactly this), then blank space of any kind, then token
   groups each followed by blank space of any kind: exactly the events the groups denote, no error, no panic *)
Theorem parse_body_layout debug pre ws0 items stop :
  ~ In 10 pre -> ws ws0 -> Forall item_ok items ->
  N.of_nat (length (pre ++ [10] ++ ws0 ++ btext items)) <= stop + 1 ->
  parse_body debug (pre ++ [10] ++ ws0 ++ btext items) stop = (ievents items, PDone).
Proof.
  intros Hpre Hws Hok Hstop. unfold parse_body. rewrite parse_loop_run. fold init_state.
  rewrite !app_length in Hstop. cbn [length] in Hstop.
  rewrite app_assoc, run_bytes_app, (skip_phase debug stop pre init_state eq_refl Hpre). cbn [init_state ps_pos ps_first ps_id ps_acc].
  rewrite run_bytes_app, (skip_first debug stop ws0); [|reflexivity|reflexivity|exact Hws]. cbn [ps_pos ps_id ps_acc].
  destruct (items_run debug stop items (mk_ps (0 + N.of_nat (length pre) + 1 + N.of_nat (length ws0)) ParsingFirstToken [] [] []) Hok)
    as (s' & Hr & (Hst & Hf & _) & Ha).
  - unfold clean. cbn [ps_state ps_first ps_id ps_pos]. repeat split; lia.
  - cbn [ps_pos]. lia.
  - rewrite Hr. cbn [finish]. unfold eof_flush. rewrite Hst, Hf, Ha. cbn [ps_acc]. rewrite app_nil_r, rev_append_rev, app_nil_r, rev_involutive. reflexivity.
Qed.

(* several groups on one line, CRLF line ends, indentation, tabs, empty lines, text before the first line feed *)
Example parse_body_layout_example :
  let items := [ITime [48] [13; 10]; IScalar 49 [33] [32]; IVector [98; 49; 120] [9; 32] [34] [13; 10; 13; 10; 32; 32];
                ITime [53] [32]; IComment [([32], [49; 33]); ([10; 9], [35; 55])] [32; 32] [10]; IIgnored kw_dumpoff [10];
                IVector [114; 49; 46; 53] [32] [35] [10; 10]] in
  Forall item_ok items /\
  parse_body true ([49; 33; 32] ++ [10] ++ [32; 9] ++ btext items) 1000
  = ([EvTime 0; EvValue [49] [33]; EvValue [98; 49; 120] [34]; EvTime 5; EvValue [114; 49; 46; 53] [35]], PDone).
Proof.
  cbn zeta. split; [|vm_compute; reflexivity].
  assert (Hw : forall w, forallb (fun b => negb (is_white_space b)) w = true -> no_ws w).
  { intros w H. apply Forall_forall. intros b Hb. rewrite forallb_forall in H. specialize (H b Hb). now destruct (is_white_space b). }
  assert (Hs : forall w, w <> [] -> forallb is_white_space w = true -> sepd w).
  { intros w Hn H. split; [exact Hn|]. apply Forall_forall. intros b Hb. rewrite forallb_forall in H. now apply H. }
  repeat match goal with |- Forall item_ok (_ :: _) => apply Forall_cons | |- Forall item_ok [] => apply Forall_nil end;
    (split; [cbn [line_of line_ok]|cbn [fst snd]; repeat split; try (apply Hs; [discriminate|reflexivity]);
                                     repeat (apply Forall_cons; [cbn [fst]; apply Hs; [discriminate|reflexivity]|]); try apply Forall_nil]).
  - split; [now apply Hw|exists 0; reflexivity].
  - split; [reflexivity|split; [discriminate|now apply Hw]].
  - split; [exists 98, [49; 120]; split; [reflexivity|split; [discriminate|reflexivity]]|]. split; [now apply Hw|split; [discriminate|now apply Hw]].
  - split; [now apply Hw|exists 5; reflexivity].
  - cbn [map snd]. repeat apply Forall_cons; try apply Forall_nil; (split; [discriminate|split; [now apply Hw|reflexivity]]).
  - right. right. left. reflexivity.
  - split; [exists 114, [49; 46; 53]; split; [reflexivity|split; [discriminate|reflexivity]]|]. split; [now apply Hw|split; [discriminate|now apply Hw]].
Qed.
