(* Property C11: GHW files load faithfully.  Pinned: the store side of the GHW value path - a correctly packed
   vector handed to SignalEncoder::add_n_bit_change is re-packed into the least sufficient kind (check_min_state,
   compress_template) and appended as one stream entry; with storage_transparent (Properties/C04.v, raw value
   changes are part of its histories) the loaded signal reports exactly those symbols.
   Also pinned: the vector buffer - writing one per-bit record (VecBuffer::set_value) is writing one symbol of the
   vector (first declared element leftmost) and keeps the buffer correctly packed (ve_set_spec, ve_get_spec).
   vec_update_spec / finish_time_step_spec: one per-bit record, and the end of a time step, hand the store only raw changes
   that carry the packed form of the vector's symbols at that moment (the premise `op_ok` of storage_transparent for
   raw changes) and keep every vector of the buffer packed.
   read_signals_ops / read_signals_time_table (Proofs/GhwProofs.v): whatever the section bytes are, when read_signals
   succeeds its blocks and time table are what finishing an encoder yields after a history of time stamps, raw changes
   carrying the packed form of valid symbols, and doubles of 8 bytes (every value type: std_logic and bit scalars and vector
   elements, 8-bit enumerations, integers, reals; snapshot, cycle, directory and tailer sections); hence the time table is
   the strictly increasing list of accepted time stamps, and the storage theorems of C04 apply to each signal.
   NOT proved: that the sequence of dispatches reports each vector exactly once per time step with its final value (the
   schedule: is_second_change / full_signal_has_changed / change list), that the history is the one the section bytes
   encode in GHDL's sense, the hierarchy; those are decided by the correspondence run on signal sections and by the GHW
   file generator (MANIFEST level_note). *)
From WV Require Import Model.Base Model.Bits Model.WaveMem Model.Ghw Spec.TimeSpec Proofs.TimeTableProofs Proofs.BitsProofs Proofs.StoreProofs Proofs.RawProofs Proofs.VecProofs Proofs.GhwProofs.
From Coq Require Import Sorted.
Open Scope N_scope.

Check compress_template_spec :
  forall in_st out_st syms, small_syms in_st syms ->
  compress_template (write_n_state_loop in_st syms 0 None) in_st out_st (length syms)
  = Ok (write_n_state_loop out_st syms 0 None).

Check check_min_state_spec :
  forall st syms, small_syms st syms -> Forall (fun v => v <= 8) syms ->
  let m := check_min_state (write_n_state_loop st syms 0 None) st in
  small_syms m syms /\ states_num m <= states_num st /\
  (forall st', small_syms st' syms -> states_num m <= states_num st').

Check add_n_bit_change_entry :
  forall se t st syms bits se', se_tpe se = EncBits bits -> (1 <= bits)%nat ->
  length syms = bits -> small_syms st syms -> Forall (fun v => v <= 8) syms ->
  add_n_bit_change se t (write_n_state_loop st syms 0 None) st = Ok se' ->
  exists l,
    small_syms l syms /\ states_num l <= states_num st /\
    (forall l', small_syms l' syms -> states_num l <= states_num l') /\
    se_prev se <= t /\
    se_data se' = se_data se ++ enc_entry bits (t - se_prev se, l, write_n_state_loop l syms 0 None) /\
    (bits = 1%nat -> l = from_value (hd 0 syms)) /\
    se_tpe se' = se_tpe se /\ se_prev se' = t /\ se_max se' = join (se_max se) st.

(* VecBuffer::set_value / get_value on a vector whose buffer is the packed form of `syms`: bit 0 is the last declared
   element; the result is again the packed form (of the updated symbol list) *)
Check ve_set_spec :
  forall v syms bit value, vinv v syms -> (bit < ve_bits v)%nat -> value < 2 ^ sbits (ve_states v) ->
  ve_set_value v bit value = Ok (write_n_state_loop (ve_states v) (list_update syms (ve_bits v - 1 - bit) value) 0 None).
Check ve_get_spec :
  forall v syms bit, vinv v syms -> (bit < ve_bits v)%nat ->
  ve_get_value v bit = Ok (nth (ve_bits v - 1 - bit) syms 0).

(* one per-bit record through VecBuffer *)
Check vec_update_spec :
  forall parse_f64 lz_compress cap vb e vec_id signal_index value sref st vb' e' S v,
  vbinv vb S -> nth_error (vb_vecs vb) vec_id = Some v -> st = ve_states v ->
  value < 2 ^ sbits (ve_states v) -> value <= 8 ->
  vec_update vb e vec_id signal_index value sref st = Ok (vb', e') ->
  exists ops syms bit,
    nth_error S vec_id = Some syms /\ bit_of v signal_index = Ok bit /\ (bit < ve_bits v)%nat /\
    run_ops parse_f64 lz_compress cap e ops = Ok e' /\ Forall packed_raw ops /\ (length ops <= 2)%nat /\
    vbinv vb' (list_update S vec_id (list_update syms (ve_bits v - 1 - bit) value)).

(* the end of a time step *)
Check finish_time_step_spec :
  forall parse_f64 lz_compress cap vb e vb' e' S, vbinv vb S ->
  finish_time_step vb e = Ok (vb', e') ->
  exists ops, run_ops parse_f64 lz_compress cap e ops = Ok e' /\ Forall packed_raw ops /\ vbinv vb' S.

(* the signal sections as a whole *)
Check read_signals_ops :
  forall parse_f64 lz_compress cap big_endian tpes sigs vectors input blocks ttb,
  sigs_ok sigs (map (fun v : nat * nat * bool * nat => if snd (fst v) then Two else Nine) vectors) -> bytes_ok input ->
  read_signals lz_compress cap big_endian tpes sigs vectors input = Ok (Some (blocks, ttb)) ->
  exists ops e', run_ops parse_f64 lz_compress cap (enc_new tpes) ops = Ok e' /\ Forall ghw_op_ok ops /\
                 enc_finish lz_compress e' = Ok (blocks, ttb).

Check read_signals_time_table :
  forall (parse_f64 : list byte -> option (list byte)) lz_compress cap, 1 <= cap ->
  forall big_endian tpes sigs vectors input blocks ttb,
  sigs_ok sigs (map (fun v : nat * nat * bool * nat => if snd (fst v) then Two else Nine) vectors) -> bytes_ok input ->
  read_signals lz_compress cap big_endian tpes sigs vectors input = Ok (Some (blocks, ttb)) ->
  exists ops, Forall ghw_op_ok ops /\ ttb = accepted (times_of ops) /\ StronglySorted N.lt ttb.

Print Assumptions ve_set_spec.
Print Assumptions read_signals_ops.
Print Assumptions read_signals_time_table.
Print Assumptions vec_update_spec.
Print Assumptions finish_time_step_spec.
Print Assumptions ve_get_spec.
Print Assumptions compress_template_spec.
Print Assumptions check_min_state_spec.
Print Assumptions add_n_bit_change_entry.
