//! `detect <hexbytes>`: viewers::open_and_detect_file_format on a temp file, under a watchdog
//! (a walk that never ends is the observation HANG).  `detectc <hexbytes>`: viewers::read_header on a
//! Cursor - Ok/Err kind reveals the detected format; success after detection proves the rewind.
use crate::util::*;
use crate::vcd::tmp_file;
use wellen::*;

fn fmt_str(f: FileFormat) -> &'static str {
    match f {
        FileFormat::Vcd => "vcd",
        FileFormat::Fst => "fst",
        FileFormat::Ghw => "ghw",
        FileFormat::Unknown => "unknown",
    }
}

pub fn run(args: &[&str]) -> String {
    let bytes = bytes_of_hex(args[0]);
    // `detectx <hex> <ext>`: the file name carries the given extension (the answer must not depend on it)
    let path = tmp_file(&bytes, args.get(1).copied().unwrap_or("bin"));
    let p2 = path.clone();
    let (tx, rx) = std::sync::mpsc::channel();
    std::thread::spawn(move || {
        let r = guarded(|| fmt_str(viewers::open_and_detect_file_format(&p2)).to_string());
        let _ = tx.send(r);
    });
    let res = match rx.recv_timeout(std::time::Duration::from_millis(1500)) {
        Ok(r) => r,
        Err(_) => "HANG".to_string(),
    };
    if res != "HANG" {
        let _ = std::fs::remove_file(&path);
    }
    res
}

pub fn run_cursor(args: &[&str]) -> String {
    let bytes = bytes_of_hex(args[0]);
    let opts = LoadOptions::default();
    guarded(|| match viewers::read_header(std::io::Cursor::new(bytes), &opts) {
        Ok(h) => format!("ok:{}", fmt_str(h.file_format)),
        Err(WellenError::UnknownFileFormat) => "err:unknown".to_string(),
        Err(WellenError::FailedToLoad(f, _)) => format!("err:{}", fmt_str(f)),
        Err(WellenError::Io(_)) => "err:io".to_string(),
    })
}
