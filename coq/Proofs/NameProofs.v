(* Property C09, the name clause: how a `$var` reference is split into variable name, bit range and array scopes
   (vcd.rs parse_name / extract_suffix_index): a base name followed by any number of bracket groups and a final numeric
   group `[i]` or `[msb:lsb]` (negative bounds allowed), with or without separating spaces. *)
From Coq Require Import Lia ZArith.
From WV Require Import Model.Base Model.WaveMem Model.VcdBody Model.VcdHeader Proofs.HeaderProofs.
Open Scope N_scope.

(* value of a digit string given least significant digit first *)
Definition valr (rd : list byte) : Z := fold_right (fun d acc => (Z.of_N (d - 48) + 10 * acc)%Z) 0%Z rd.
Definition digits (ds : list byte) : Prop := Forall (fun c => is_digit c = true) ds.

Lemma digit_bounds c : is_digit c = true -> 48 <= c <= 57.
Proof. unfold is_digit. intros H. apply andb_prop in H as [H1 H2]. apply N.leb_le in H1, H2. lia. Qed.

Lemma pow10_pos k : (0 < 10 ^ Z.of_nat k)%Z.
Proof. apply Z.pow_pos_nonneg; lia. Qed.

Lemma pow10_S k : (10 ^ Z.of_nat (S k) = 10 * 10 ^ Z.of_nat k)%Z.
Proof. rewrite Nat2Z.inj_succ, Z.pow_succ_r by lia. reflexivity. Qed.

Lemma pow10_le k : (k <= 18)%nat -> (10 ^ Z.of_nat k <= 1000000000000000000)%Z.
Proof. intros H. change 1000000000000000000%Z with (10 ^ Z.of_nat 18)%Z. apply Z.pow_le_mono_r; lia. Qed.

Lemma chk64_ok z : (-9223372036854775808 <= z <= 9223372036854775807)%Z -> chk64 z = Ok z.
Proof. intros H. unfold chk64, i64_min, i64_max. destruct (Z.ltb_spec z (-9223372036854775808)); [lia|]. destruct (Z.ltb_spec 9223372036854775807 z); [lia|]. reflexivity. Qed.

Lemma valr_bounds rd : digits rd -> (0 <= valr rd < 10 ^ Z.of_nat (length rd))%Z.
Proof.
  induction rd as [|d rd IH]; intros H; [cbn; lia|]. apply Forall_cons_iff in H as [Hd H]. specialize (IH H).
  pose proof (digit_bounds d Hd). cbn [valr fold_right length]. fold (valr rd). rewrite pow10_S. lia.
Qed.

Lemma esi_digits_lsb value e : forall rd r num k, digits rd -> (0 <= num < 10 ^ Z.of_nat k)%Z -> (k + length rd <= 18)%nat ->
  esi value (rd ++ r) (EsiLsb e num (10 ^ Z.of_nat k))
  = esi value r (EsiLsb e (num + valr rd * 10 ^ Z.of_nat k) (10 ^ Z.of_nat (k + length rd))).
Proof.
  induction rd as [|d rd IH]; intros r num k Hd Hn Hk.
  - cbn [app length]. unfold valr. cbn [fold_right]. now rewrite Nat.add_0_r, Z.mul_0_l, Z.add_0_r.
  - apply Forall_cons_iff in Hd as [Hd Hds]. pose proof (digit_bounds d Hd) as Hb. cbn [app esi].
    destruct (N.eqb_spec d 32) as [->|_]; [lia|]. rewrite Hd. cbn [length] in Hk.
    pose proof (pow10_le (S k) ltac:(lia)) as Hp. rewrite pow10_S in Hp. pose proof (pow10_pos k).
    assert (HD : (0 <= Z.of_N (d - 48) <= 9)%Z) by lia.
    assert (HDP : (0 <= Z.of_N (d - 48) * 10 ^ Z.of_nat k <= 9 * 10 ^ Z.of_nat k)%Z) by nia.
    rewrite chk64_ok by lia. cbn [bind]. rewrite chk64_ok by lia. cbn [bind].
    replace (10 ^ Z.of_nat k * 10)%Z with (10 ^ Z.of_nat (S k))%Z by (rewrite pow10_S; lia).
    rewrite IH; [|exact Hds|rewrite pow10_S; lia|lia].
    cbn [valr fold_right length]. fold (valr rd). f_equal. f_equal; [rewrite pow10_S; lia|f_equal; lia].
Qed.

Lemma esi_digits_msb value e lsb : forall rd r num k, digits rd -> (0 <= num < 10 ^ Z.of_nat k)%Z -> (k + length rd <= 18)%nat ->
  esi value (rd ++ r) (EsiMsb e lsb num (10 ^ Z.of_nat k))
  = esi value r (EsiMsb e lsb (num + valr rd * 10 ^ Z.of_nat k) (10 ^ Z.of_nat (k + length rd))).
Proof.
  induction rd as [|d rd IH]; intros r num k Hd Hn Hk.
  - cbn [app length]. unfold valr. cbn [fold_right]. now rewrite Nat.add_0_r, Z.mul_0_l, Z.add_0_r.
  - apply Forall_cons_iff in Hd as [Hd Hds]. pose proof (digit_bounds d Hd) as Hb. cbn [app esi].
    destruct (N.eqb_spec d 32) as [->|_]; [lia|]. rewrite Hd. cbn [length] in Hk.
    pose proof (pow10_le (S k) ltac:(lia)) as Hp. rewrite pow10_S in Hp. pose proof (pow10_pos k).
    assert (HD : (0 <= Z.of_N (d - 48) <= 9)%Z) by lia.
    assert (HDP : (0 <= Z.of_N (d - 48) * 10 ^ Z.of_nat k <= 9 * 10 ^ Z.of_nat k)%Z) by nia.
    rewrite chk64_ok by lia. cbn [bind]. rewrite chk64_ok by lia. cbn [bind].
    replace (10 ^ Z.of_nat k * 10)%Z with (10 ^ Z.of_nat (S k))%Z by (rewrite pow10_S; lia).
    rewrite IH; [|exact Hds|rewrite pow10_S; lia|lia].
    cbn [valr fold_right length]. fold (valr rd). f_equal. f_equal; [rewrite pow10_S; lia|f_equal; lia].
Qed.

Lemma esi_spaces value st : forall n r, esi value (repeat 32 n ++ r) st = esi value r st.
Proof. induction n as [|n IH]; intros r; [reflexivity|]. cbn [repeat app esi]. change (32 =? 32) with true. cbn iota. apply IH. Qed.

(* a decimal number read from the back: digits (least significant first) then an optional minus sign *)
Definition rnum (neg : bool) (rd : list byte) : list byte := rd ++ (if neg then [45] else []).
Definition zval (neg : bool) (rd : list byte) : Z := if neg then (- valr rd)%Z else valr rd.

Lemma zval_bounds neg rd : digits rd -> (length rd <= 18)%nat -> (-1000000000000000000 < zval neg rd < 1000000000000000000)%Z.
Proof. intros H Hl. pose proof (valr_bounds rd H). pose proof (pow10_le (length rd) Hl). unfold zval. destruct neg; lia. Qed.

Lemma esi_num_lsb value e neg rd r : digits rd -> (length rd <= 18)%nat ->
  exists f, esi value (rnum neg rd ++ r) (EsiLsb e 0 1) = esi value r (EsiLsb e (zval neg rd) f).
Proof.
  intros Hd Hl. unfold rnum. rewrite <- app_assoc. change 1%Z with (10 ^ Z.of_nat 0)%Z.
  rewrite (esi_digits_lsb value e rd _ 0%Z 0 Hd) by (cbn; lia). cbn [Nat.add]. change (10 ^ Z.of_nat 0)%Z with 1%Z. rewrite Z.add_0_l, Z.mul_1_r.
  destruct neg; cbn [app zval]; [|eauto].
  cbn [esi]. change (45 =? 32) with false. cbn iota. change (is_digit 45) with false. cbn iota. change (45 =? 45) with true. cbn iota.
  pose proof (valr_bounds rd Hd). pose proof (pow10_le (length rd) Hl). rewrite chk64_ok by lia. cbn [bind]. eauto.
Qed.

Lemma esi_num_msb value e lsb neg rd r : digits rd -> (length rd <= 18)%nat ->
  exists f, esi value (rnum neg rd ++ r) (EsiMsb e lsb 0 1) = esi value r (EsiMsb e lsb (zval neg rd) f).
Proof.
  intros Hd Hl. unfold rnum. rewrite <- app_assoc. change 1%Z with (10 ^ Z.of_nat 0)%Z.
  rewrite (esi_digits_msb value e lsb rd _ 0%Z 0 Hd) by (cbn; lia). cbn [Nat.add]. change (10 ^ Z.of_nat 0)%Z with 1%Z. rewrite Z.add_0_l, Z.mul_1_r.
  destruct neg; cbn [app zval]; [|eauto].
  cbn [esi]. change (45 =? 32) with false. cbn iota. change (is_digit 45) with false. cbn iota. change (45 =? 45) with true. cbn iota.
  pose proof (valr_bounds rd Hd). pose proof (pow10_le (length rd) Hl). rewrite chk64_ok by lia. cbn [bind]. eauto.
Qed.

(* the bit index at the end of a reference, read from the back: `]` lsb [`:` msb] `[`, then the name *)
Lemma esi_range value t nl rdl nm rdm s c rp :
  digits rdl -> (length rdl <= 18)%nat -> digits rdm -> (length rdm <= 18)%nat -> c <> 32 ->
  (-2147483648 < zval nm rdm - zval nl rdl < 2147483648)%Z ->
  esi value (repeat 32 t ++ 93 :: rnum nl rdl ++ 58 :: rnum nm rdm ++ 91 :: repeat 32 s ++ c :: rp) EsiClose
  = Ok (firstn (S (length rp)) value, Some (zval nm rdm, zval nl rdl)).
Proof.
  intros Hdl Hll Hdm Hlm Hc Hw. rewrite esi_spaces. cbn [esi]. change (93 =? 32) with false. cbn iota. change (93 =? 93) with true. cbn iota.
  destruct (esi_num_lsb value (length (rnum nl rdl ++ 58 :: rnum nm rdm ++ 91 :: repeat 32 s ++ c :: rp)) nl rdl
              (58 :: rnum nm rdm ++ 91 :: repeat 32 s ++ c :: rp) Hdl Hll) as (f & ->).
  cbn [esi]. change (58 =? 32) with false. cbn iota. change (is_digit 58) with false. cbn iota. change (58 =? 45) with false. cbn iota.
  change (58 =? 58) with true. cbn iota.
  destruct (esi_num_msb value (length (rnum nl rdl ++ 58 :: rnum nm rdm ++ 91 :: repeat 32 s ++ c :: rp)) (zval nl rdl) nm rdm
              (91 :: repeat 32 s ++ c :: rp) Hdm Hlm) as (f' & ->).
  cbn [esi]. change (91 =? 32) with false. cbn iota. change (is_digit 91) with false. cbn iota. change (91 =? 45) with false. cbn iota.
  change (91 =? 91) with true. cbn iota. rewrite (var_index_roundtrip _ _ Hw). cbn [bind]. rewrite esi_spaces. cbn [esi].
  destruct (N.eqb_spec c 32) as [E|_]; [congruence|]. reflexivity.
Qed.

Lemma esi_single value t n rd s c rp :
  digits rd -> (length rd <= 18)%nat -> c <> 32 ->
  esi value (repeat 32 t ++ 93 :: rnum n rd ++ 91 :: repeat 32 s ++ c :: rp) EsiClose
  = Ok (firstn (S (length rp)) value, Some (zval n rd, zval n rd)).
Proof.
  intros Hd Hl Hc. rewrite esi_spaces. cbn [esi]. change (93 =? 32) with false. cbn iota. change (93 =? 93) with true. cbn iota.
  destruct (esi_num_lsb value (length (rnum n rd ++ 91 :: repeat 32 s ++ c :: rp)) n rd (91 :: repeat 32 s ++ c :: rp) Hd Hl) as (f & ->).
  cbn [esi]. change (91 =? 32) with false. cbn iota. change (is_digit 91) with false. cbn iota. change (91 =? 45) with false. cbn iota.
  change (91 =? 58) with false. cbn iota. change (91 =? 91) with true. cbn iota.
  rewrite (var_index_roundtrip (zval n rd) (zval n rd)) by lia. cbn [bind]. rewrite esi_spaces. cbn [esi].
  destruct (N.eqb_spec c 32) as [E|_]; [congruence|]. reflexivity.
Qed.

(* no bit index: the reference does not end in `]` *)
Lemma esi_none value t c rp : c <> 32 -> c <> 93 ->
  esi value (repeat 32 t ++ c :: rp) EsiClose = Ok (firstn (S (length rp)) value, None).
Proof.
  intros Hc Hb. rewrite esi_spaces. cbn [esi]. destruct (N.eqb_spec c 32); [congruence|]. destruct (N.eqb_spec c 93); [congruence|]. reflexivity.
Qed.

(* ---------------------------------------------------------------- forward view *)
Definition numtext (neg : bool) (rd : list byte) : list byte := (if neg then [45] else []) ++ rev rd.

Lemma rev_numtext neg rd : rev (numtext neg rd) = rnum neg rd.
Proof. unfold numtext, rnum. rewrite rev_app_distr, rev_involutive. destruct neg; reflexivity. Qed.

Lemma rev_repeat_sp n : rev (repeat 32 n) = repeat 32 n.
Proof.
  induction n as [|n IH]; [reflexivity|]. cbn [repeat rev]. rewrite IH. clear IH.
  induction n as [|n IH]; [reflexivity|]. cbn [repeat app]. now rewrite IH.
Qed.

Theorem suffix_index_range P0 c s nm rdm nl rdl t :
  digits rdl -> (length rdl <= 18)%nat -> digits rdm -> (length rdm <= 18)%nat -> c <> 32 ->
  (-2147483648 < zval nm rdm - zval nl rdl < 2147483648)%Z ->
  extract_suffix_index (P0 ++ [c] ++ repeat 32 s ++ [91] ++ numtext nm rdm ++ [58] ++ numtext nl rdl ++ [93] ++ repeat 32 t)
  = Ok (P0 ++ [c], Some (zval nm rdm, zval nl rdl)).
Proof.
  intros Hdl Hll Hdm Hlm Hc Hw. unfold extract_suffix_index. rewrite rev_append_rev, app_nil_r.
  set (value := P0 ++ [c] ++ repeat 32 s ++ [91] ++ numtext nm rdm ++ [58] ++ numtext nl rdl ++ [93] ++ repeat 32 t).
  assert (E : @rev byte value = repeat 32 t ++ 93 :: rnum nl rdl ++ 58 :: rnum nm rdm ++ 91 :: repeat 32 s ++ c :: rev P0).
  { unfold value. repeat rewrite rev_app_distr. rewrite !rev_numtext, !rev_repeat_sp. cbn [rev app]. repeat rewrite <- app_assoc. reflexivity. }
  rewrite E, (esi_range value t nl rdl nm rdm s c (rev P0) Hdl Hll Hdm Hlm Hc Hw). f_equal. f_equal.
  rewrite rev_length. unfold value. rewrite app_assoc. replace (S (length P0)) with (length (P0 ++ [c]) + 0)%nat by (rewrite app_length; cbn; lia).
  rewrite firstn_app_2. cbn [firstn]. now rewrite app_nil_r.
Qed.

Theorem suffix_index_single P0 c s n rd t :
  digits rd -> (length rd <= 18)%nat -> c <> 32 ->
  extract_suffix_index (P0 ++ [c] ++ repeat 32 s ++ [91] ++ numtext n rd ++ [93] ++ repeat 32 t)
  = Ok (P0 ++ [c], Some (zval n rd, zval n rd)).
Proof.
  intros Hd Hl Hc. unfold extract_suffix_index. rewrite rev_append_rev, app_nil_r.
  set (value := P0 ++ [c] ++ repeat 32 s ++ [91] ++ numtext n rd ++ [93] ++ repeat 32 t).
  assert (E : @rev byte value = repeat 32 t ++ 93 :: rnum n rd ++ 91 :: repeat 32 s ++ c :: rev P0).
  { unfold value. repeat rewrite rev_app_distr. rewrite !rev_numtext, !rev_repeat_sp. cbn [rev app]. repeat rewrite <- app_assoc. reflexivity. }
  rewrite E, (esi_single value t n rd s c (rev P0) Hd Hl Hc). f_equal. f_equal.
  rewrite rev_length. unfold value. rewrite app_assoc. replace (S (length P0)) with (length (P0 ++ [c]) + 0)%nat by (rewrite app_length; cbn; lia).
  rewrite firstn_app_2. cbn [firstn]. now rewrite app_nil_r.
Qed.

Theorem suffix_index_none P0 c : c <> 32 -> c <> 93 -> extract_suffix_index (P0 ++ [c]) = Ok (P0 ++ [c], None).
Proof.
  intros Hc Hb. unfold extract_suffix_index. rewrite rev_append_rev, app_nil_r, rev_app_distr. cbn [rev app].
  pose proof (esi_none (P0 ++ [c]) 0 c (rev P0) Hc Hb) as E. cbn [repeat app] in E. unfold byte in *. rewrite E. f_equal. f_equal. rewrite rev_length.
  replace (S (length P0)) with (length (P0 ++ [c]) + 0)%nat by (rewrite app_length; cbn; lia). rewrite <- (app_nil_r (P0 ++ [c])) at 2.
  rewrite firstn_app_2. cbn [firstn]. now rewrite app_nil_r.
Qed.

(* ---------------------------------------------------------------- array groups *)
Lemma trim_right_rev_cons c r : trim_right_rev (c :: r) = if c =? 32 then trim_right_rev r else c :: r.
Proof.
  destruct c as [|p]; [reflexivity|].
  do 6 (destruct p as [p|p|]; try reflexivity).
Qed.

Lemma trim_right_spaces l c s : c <> 32 -> trim_right ((l ++ [c]) ++ repeat 32 s) = l ++ [c].
Proof.
  intros Hc. unfold trim_right. rewrite !rev_append_rev, !app_nil_r, !rev_app_distr, rev_repeat_sp. cbn [rev app].
  induction s as [|s IH].
  - cbn [repeat app]. rewrite trim_right_rev_cons. destruct (N.eqb_spec c 32); [congruence|]. cbn [rev]. now rewrite rev_involutive.
  - cbn [repeat app]. rewrite trim_right_rev_cons. change (32 =? 32) with true. cbn iota. exact IH.
Qed.

Lemma find_last_go_app a : forall b pos best, find_last_go (a ++ b) pos best = find_last_go b (pos + length a) (find_last_go a pos best).
Proof.
  induction a as [|x a IH]; intros b pos best; cbn [app find_last_go length]; [now rewrite Nat.add_0_r|].
  rewrite IH. f_equal. lia.
Qed.

Lemma find_last_go_none b : ~ In 91 b -> forall pos best, find_last_go b pos best = best.
Proof.
  induction b as [|x b IH]; intros H pos best; [reflexivity|]. cbn [find_last_go].
  destruct (N.eqb_spec x 91) as [->|_]; [exfalso; apply H; now left|]. apply IH. intros Hin. apply H. now right.
Qed.

Lemma peel_step f nm ind : peel_indices (S f) nm ind =
  match last_opt nm with
  | Some c => if c =? 93 then
                match find_last_go nm 0 None with
                | None => Err
                | Some start => peel_indices f (trim_right (firstn start nm)) (ind ++ [skipn start nm])
                end
              else Ok (nm, ind)
  | None => Ok (nm, ind)
  end.
Proof.
  cbn [peel_indices]. destruct (last_opt nm) as [c|]; [|reflexivity].
  destruct c as [|p]; [reflexivity|].
  do 7 (destruct p as [p|p|]; try reflexivity).
Qed.

Lemma last_opt_snoc {A} (l : list A) x : last_opt (l ++ [x]) = Some x.
Proof. induction l as [|a l IH]; [reflexivity|]. cbn [app last_opt]. destruct (l ++ [x]) eqn:E; [destruct l; discriminate|]. exact IH. Qed.

Definition G (g : list byte) : list byte := [91] ++ g ++ [93].
Fixpoint segs (gs : list (nat * list byte)) : list byte :=
  match gs with [] => [] | (s, g) :: r => repeat 32 s ++ G g ++ segs r end.

Lemma segs_app a b : segs (a ++ b) = segs a ++ segs b.
Proof. induction a as [|[s g] a IH]; [reflexivity|]. cbn [app segs]. rewrite IH. now rewrite !app_assoc. Qed.

Lemma segs_len gs : (length gs <= length (segs gs))%nat.
Proof. induction gs as [|[s g] gs IH]; [cbn; lia|]. cbn [segs length]. unfold G. rewrite !app_length. cbn [length]. lia. Qed.

(* base ++ groups ends in a character that is not a blank *)
Lemma ends_nonspace b0 c gs : c <> 32 -> exists Y c', (b0 ++ [c]) ++ segs gs = Y ++ [c'] /\ c' <> 32.
Proof.
  intros Hc. destruct gs as [|x gs'] using rev_ind.
  - exists b0, c. cbn [segs]. now rewrite app_nil_r.
  - destruct x as [s g]. rewrite segs_app. cbn [segs G]. rewrite app_nil_r.
    exists ((b0 ++ [c]) ++ segs gs' ++ repeat 32 s ++ [91] ++ g), 93. split; [now repeat rewrite <- app_assoc|discriminate].
Qed.

Lemma peel_groups b0 c : c <> 32 -> c <> 93 -> forall gs fuel acc,
  Forall (fun sg : nat * list byte => ~ In 91 (snd sg)) gs -> (length gs < fuel)%nat ->
  peel_indices fuel ((b0 ++ [c]) ++ segs gs) acc = Ok (b0 ++ [c], acc ++ rev (map (fun sg => G (snd sg)) gs)).
Proof.
  intros Hc Hb. induction gs as [|[s g] gs IH] using rev_ind; intros fuel acc Hg Hf.
  - destruct fuel as [|f]; [lia|]. cbn [segs map rev]. rewrite !app_nil_r, peel_step, last_opt_snoc.
    destruct (N.eqb_spec c 93); [congruence|]. reflexivity.
  - destruct fuel as [|f]; [cbn in Hf; lia|]. rewrite app_length in Hf. cbn [length] in Hf.
    apply Forall_app in Hg as [Hg Hlast]. apply Forall_cons_iff in Hlast as [Hno _]. cbn [snd] in Hno.
    rewrite segs_app. cbn [segs]. rewrite app_nil_r.
    set (A := (b0 ++ [c]) ++ segs gs ++ repeat 32 s).
    assert (Enm : (b0 ++ [c]) ++ segs gs ++ repeat 32 s ++ G g = A ++ G g) by (unfold A; now repeat rewrite <- app_assoc).
    assert (Hlast' : last_opt (A ++ G g) = Some 93).
    { unfold G. replace (A ++ [91] ++ g ++ [93]) with ((A ++ [91] ++ g) ++ [93]) by (now repeat rewrite <- app_assoc). apply last_opt_snoc. }
    assert (Hfind : find_last_go (A ++ G g) 0 None = Some (length A)).
    { unfold G. rewrite find_last_go_app. cbn [app find_last_go Nat.add]. change (91 =? 91) with true. cbn iota.
      apply find_last_go_none. intros Hin. apply in_app_or in Hin. destruct Hin as [Hin|Hin]; [now apply Hno|].
      cbn [In] in Hin. destruct Hin as [Hin|Hin]; [discriminate|exact Hin]. }
    rewrite Enm, peel_step. unfold byte in *. rewrite Hlast', Hfind. change (93 =? 93) with true. cbn iota.
    rewrite firstn_app, firstn_all, Nat.sub_diag. cbn [firstn]. rewrite app_nil_r.
    rewrite skipn_app, skipn_all, Nat.sub_diag. cbn [skipn app].
    destruct (ends_nonspace b0 c gs Hc) as (Y & c' & EY & Hc').
    unfold A. rewrite app_assoc, EY, (trim_right_spaces Y c' s Hc'), <- EY.
    rewrite IH by (try assumption; lia). f_equal. f_equal. rewrite map_app, rev_app_distr. cbn [map rev app snd].
    rewrite <- app_assoc. reflexivity.
Qed.

(* ---------------------------------------------------------------- parse_name *)
(* what parse_name makes of the name part (base name and array groups) once the bit index is taken off *)
Definition name_result (b0 : list byte) (c : byte) (gs : list (nat * list byte)) (idx : option (Z * Z))
  : list byte * option (Z * Z) * list (list byte) :=
  match rev gs with
  | [] => (b0 ++ [c], idx, [])
  | (_, g) :: before => (G g, idx, (b0 ++ [c]) :: map (fun sg => G (snd sg)) (rev before))
  end.

Lemma name_part b0 c gs idx : c <> 32 -> c <> 93 -> Forall (fun sg : nat * list byte => ~ In 91 (snd sg)) gs ->
  (do '(nm2, indices) <- peel_indices (S (length ((b0 ++ [c]) ++ segs gs))) ((b0 ++ [c]) ++ segs gs) [];
   match rev_append indices [] with
   | [] => Ok (nm2, idx, [])
   | first_pushed_last :: _ =>
     match indices with
     | [] => Ok (nm2, idx, [])
     | final_name :: others => Ok (final_name, idx, nm2 :: rev_append others [])
     end
   end) = Ok (name_result b0 c gs idx).
Proof.
  intros Hc Hb Hg. rewrite (peel_groups b0 c Hc Hb gs _ [] Hg).
  2:{ rewrite app_length. pose proof (segs_len gs). unfold byte in *. lia. }
  cbn [bind app]. unfold name_result. rewrite <- map_rev. destruct (rev gs) as [|[s g] before] eqn:E.
  - reflexivity.
  - cbn [map snd rev_append]. rewrite !rev_append_rev, app_nil_r, map_rev.
    destruct (rev (map (fun sg : nat * list byte => G (snd sg)) before) ++ [G g]) eqn:E2; [destruct (rev (map (fun sg : nat * list byte => G (snd sg)) before)); discriminate|].
    reflexivity.
Qed.

Lemma first_char_not_bracket b0 c rest : ~ In 91 (b0 ++ [c]) ->
  exists x tl, (b0 ++ [c]) ++ rest = x :: tl /\ (x =? 91) = false.
Proof.
  intros H. destruct b0 as [|x b0]; cbn [app] in *.
  - exists c. eexists. split; [reflexivity|]. apply N.eqb_neq. intros ->. apply H. now left.
  - exists x. eexists. split; [reflexivity|]. apply N.eqb_neq. intros ->. apply H. now left.
Qed.

(* a reference `base {[group]} [msb:lsb]`, blanks allowed between the parts: the bit range is the last group, the variable
   is named after the last array group, the base name and the other groups become array scopes *)
Theorem parse_name_range b0 c gs s nm rdm nl rdl t :
  c <> 32 -> c <> 93 -> ~ In 91 (b0 ++ [c]) -> Forall (fun sg : nat * list byte => ~ In 91 (snd sg)) gs ->
  digits rdl -> (length rdl <= 18)%nat -> digits rdm -> (length rdm <= 18)%nat ->
  (-2147483648 < zval nm rdm - zval nl rdl < 2147483648)%Z ->
  parse_name (((b0 ++ [c]) ++ segs gs) ++ repeat 32 s ++ [91] ++ numtext nm rdm ++ [58] ++ numtext nl rdl ++ [93] ++ repeat 32 t)
  = Ok (name_result b0 c gs (Some (zval nm rdm, zval nl rdl))).
Proof.
  intros Hc Hb Hno Hg Hdl Hll Hdm Hlm Hw.
  destruct (ends_nonspace b0 c gs Hc) as (Y & c' & EY & Hc').
  unfold parse_name. set (R := repeat 32 s ++ [91] ++ numtext nm rdm ++ [58] ++ numtext nl rdl ++ [93] ++ repeat 32 t).
  destruct (first_char_not_bracket b0 c (segs gs ++ R) Hno) as (x & tl & E & Hx). unfold byte in *.
  rewrite <- (app_assoc (b0 ++ [c]) (segs gs) R), E, Hx, <- E, (app_assoc (b0 ++ [c]) (segs gs) R), EY, <- (app_assoc Y [c'] R). unfold R.
  pose proof (suffix_index_range Y c' s nm rdm nl rdl t Hdl Hll Hdm Hlm Hc' Hw) as Hs. unfold byte in Hs. rewrite Hs. cbn [bind]. rewrite <- EY.
  apply name_part; assumption.
Qed.

Theorem parse_name_single b0 c gs s n rd t :
  c <> 32 -> c <> 93 -> ~ In 91 (b0 ++ [c]) -> Forall (fun sg : nat * list byte => ~ In 91 (snd sg)) gs ->
  digits rd -> (length rd <= 18)%nat ->
  parse_name (((b0 ++ [c]) ++ segs gs) ++ repeat 32 s ++ [91] ++ numtext n rd ++ [93] ++ repeat 32 t)
  = Ok (name_result b0 c gs (Some (zval n rd, zval n rd))).
Proof.
  intros Hc Hb Hno Hg Hd Hl.
  destruct (ends_nonspace b0 c gs Hc) as (Y & c' & EY & Hc').
  unfold parse_name. set (R := repeat 32 s ++ [91] ++ numtext n rd ++ [93] ++ repeat 32 t).
  destruct (first_char_not_bracket b0 c (segs gs ++ R) Hno) as (x & tl & E & Hx). unfold byte in *.
  rewrite <- (app_assoc (b0 ++ [c]) (segs gs) R), E, Hx, <- E, (app_assoc (b0 ++ [c]) (segs gs) R), EY, <- (app_assoc Y [c'] R). unfold R.
  pose proof (suffix_index_single Y c' s n rd t Hd Hl Hc') as Hs. unfold byte in Hs. rewrite Hs. cbn [bind]. rewrite <- EY.
  apply name_part; assumption.
Qed.

(* a plain name *)
Theorem parse_name_plain b0 c : c <> 32 -> c <> 93 -> ~ In 91 (b0 ++ [c]) -> parse_name (b0 ++ [c]) = Ok (b0 ++ [c], None, []).
Proof.
  intros Hc Hb Hno. unfold parse_name.
  destruct (first_char_not_bracket b0 c [] Hno) as (x & tl & E & Hx). rewrite app_nil_r in E.
  rewrite E, Hx, <- E, (suffix_index_none b0 c Hc Hb). cbn [bind].
  pose proof (name_part b0 c [] None Hc Hb ltac:(constructor)) as H. cbn [segs] in H. rewrite app_nil_r in H. exact H.
Qed.

(* `mem [3] [7:0]`, `mem[3][7:0]`, `cube [1][2] [-1:-4]`, `x[5]`, `clk` *)
Example parse_name_examples :
  parse_name [109; 101; 109; 32; 91; 51; 93; 32; 91; 55; 58; 48; 93] = Ok ([91; 51; 93], Some (7, 0)%Z, [[109; 101; 109]]) /\
  parse_name [109; 101; 109; 91; 51; 93; 91; 55; 58; 48; 93] = Ok ([91; 51; 93], Some (7, 0)%Z, [[109; 101; 109]]) /\
  parse_name [99; 32; 91; 49; 93; 91; 50; 93; 32; 91; 45; 49; 58; 45; 52; 93]
  = Ok ([91; 50; 93], Some (-1, -4)%Z, [[99]; [91; 49; 93]]) /\
  parse_name [120; 91; 53; 93] = Ok ([120], Some (5, 5)%Z, []) /\
  parse_name [99; 108; 107] = Ok ([99; 108; 107], None, []) /\
  name_result [109; 101] 109 [(1%nat, [51])] (Some (7, 0)%Z) = ([91; 51; 93], Some (7, 0)%Z, [[109; 101; 109]]).
Proof. vm_compute. repeat split; reflexivity. Qed.
