(* The GHW alias bookkeeping (ghw/hierarchy.rs GhwSignalTracker::register_bit_vec / find_or_add_alias): a variable
   made of a sub-range [mn..mx] of the GHW signals of a larger vector [pmin..pmax] is registered as the slice
   [msb:lsb] = [pmax - mn : pmax - mx] of the parent, which selects exactly the elements mn..mx of the parent's value
   (first declared element leftmost); every distinct sub-range of a vector gets its own signal reference, a repeated
   one gets the reference of its first registration (property C13, the alias arithmetic in front of the slicer). *)
From Coq Require Import Lia.
From WV Require Import Model.Base Model.GhwAlias.
Open Scope nat_scope.

(* ------------------------------------------------------------------ the slice bounds select the sub-range *)

(* the slicer (Proofs/SliceSignalProofs.v sub_of) takes firstn (msb-lsb+1) (skipn (bits-1-msb) syms) *)
Theorem alias_bounds_select {A} (syms : list A) pmin pmax mn mx :
  pmin <= mn -> mn <= mx -> mx <= pmax -> length syms = pmax - pmin + 1 ->
  let bits := pmax - pmin + 1 in let msb := pmax - mn in let lsb := pmax - mx in
  lsb <= msb /\ msb < bits /\
  firstn (msb - lsb + 1) (skipn (bits - 1 - msb) syms) = firstn (mx - mn + 1) (skipn (mn - pmin) syms).
Proof.
  intros H1 H2 H3 Hl. cbn zeta. split; [lia|]. split; [lia|].
  replace (pmax - mn - (pmax - mx) + 1) with (mx - mn + 1) by lia.
  replace (pmax - pmin + 1 - 1 - (pmax - mn)) with (mn - pmin) by lia. reflexivity.
Qed.

(* ------------------------------------------------------------------ the alias table *)

Definition alias_ok (t : tracker) : Prop :=
  (forall id a, nth_error (tr_aliases t) id = Some a ->
     ai_ref a < tr_count t /\ (forall nx, ai_next a = Some nx -> id < nx /\ nx < length (tr_aliases t))) /\
  (forall vid v f, nth_error (tr_vectors t) vid = Some v -> vi_alias v = Some f -> f < length (tr_aliases t)).

(* two entries of the alias table never share a reference *)
Definition refs_distinct (t : tracker) : Prop :=
  forall i j a c, nth_error (tr_aliases t) i = Some a -> nth_error (tr_aliases t) j = Some c -> ai_ref a = ai_ref c -> i = j.

(* what stays true of the entries that exist already: bounds, reference and parent never change *)
Definition extends (t t' : tracker) : Prop :=
  tr_count t <= tr_count t' /\ length (tr_aliases t) <= length (tr_aliases t') /\
  forall id a, nth_error (tr_aliases t) id = Some a ->
    exists a', nth_error (tr_aliases t') id = Some a' /\
               ai_msb a' = ai_msb a /\ ai_lsb a' = ai_lsb a /\ ai_ref a' = ai_ref a /\ ai_sliced a' = ai_sliced a.

Lemma extends_refl t : extends t t.
Proof. split; [lia|]. split; [lia|]. intros id a H. exists a. split; [exact H|]. repeat split. Qed.

Lemma nth_error_update_eq {A} (l : list A) : forall i x, i < length l -> nth_error (list_update l i x) i = Some x.
Proof. induction l as [|y l IH]; intros [|i] x H; cbn in *; try lia; auto. apply IH. lia. Qed.

Lemma nth_error_update_ne {A} (l : list A) : forall i j x, i <> j -> nth_error (list_update l i x) j = nth_error l j.
Proof. induction l as [|y l IH]; intros [|i] [|j] x H; cbn; auto; try lia. Qed.

Lemma list_update_len {A} (l : list A) : forall i x, length (list_update l i x) = length l.
Proof. induction l as [|y l IH]; intros [|i] x; cbn; auto. Qed.

(* the walk over a vector's alias chain: it ends within its fuel, returns the reference of the entry with the wanted
   bounds, which it found or appended with a fresh reference *)
Lemma alias_walk_spec : forall fuel t id msb lsb sliced,
  alias_ok t -> id < length (tr_aliases t) -> length (tr_aliases t) - id <= fuel ->
  exists t' r,
    alias_walk fuel t id msb lsb sliced = Ok (t', r) /\ alias_ok t' /\ extends t t' /\
    (exists k a, nth_error (tr_aliases t') k = Some a /\ ai_msb a = msb /\ ai_lsb a = lsb /\ ai_ref a = r) /\
    ((t' = t /\ r < tr_count t) \/
     (r = tr_count t /\ tr_count t' = S r /\ tr_vectors t' = tr_vectors t /\ tr_signals t' = tr_signals t /\
      length (tr_aliases t') = S (length (tr_aliases t)) /\
      exists a, nth_error (tr_aliases t') (length (tr_aliases t)) = Some a /\ ai_ref a = r)).
Proof.
  induction fuel as [|f IH]; intros t id msb lsb sliced Hok Hid Hf; [lia|]. cbn [alias_walk].
  destruct (nth_error (tr_aliases t) id) as [a|] eqn:Ea; [|apply nth_error_None in Ea; lia]. cbn [of_option bind].
  destruct Hok as [Hal Hvec]. destruct (Hal id a Ea) as [Hr Hnx].
  destruct (Nat.eqb (ai_msb a) msb && Nat.eqb (ai_lsb a) lsb) eqn:Em.
  - apply andb_prop in Em as [E1 E2]. apply Nat.eqb_eq in E1, E2.
    exists t, (ai_ref a). split; [reflexivity|]. split; [split; assumption|]. split; [apply extends_refl|].
    split; [exists id, a; repeat split; assumption|left; split; [reflexivity|exact Hr]].
  - destruct (ai_next a) as [nx|] eqn:En.
    + destruct (Hnx nx eq_refl) as [Hlt Hlen].
      apply (IH t nx msb lsb sliced (conj Hal Hvec) Hlen). lia.
    + set (r := tr_count t). set (new_id := length (tr_aliases t)).
      eexists. exists r. split; [reflexivity|].
      set (a1 := mk_ai (ai_msb a) (ai_lsb a) (ai_ref a) (ai_sliced a) (Some new_id)).
      assert (Hget : forall k x, nth_error (list_update (tr_aliases t) id a1 ++ [mk_ai msb lsb r sliced None]) k = Some x ->
                (k = id /\ x = a1) \/ (k = new_id /\ x = mk_ai msb lsb r sliced None) \/
                (k <> id /\ k < new_id /\ nth_error (tr_aliases t) k = Some x)).
      { intros k x Hk. destruct (Nat.lt_ge_cases k new_id) as [Hlt|Hge].
        - rewrite nth_error_app1 in Hk by (rewrite list_update_len; exact Hlt).
          destruct (Nat.eq_dec k id) as [->|Hne].
          + rewrite nth_error_update_eq in Hk by exact Hid. left. split; [reflexivity|now inversion Hk].
          + rewrite nth_error_update_ne in Hk by (intros E; apply Hne; now symmetry). right. right. auto.
        - rewrite nth_error_app2 in Hk by (rewrite list_update_len; exact Hge). rewrite list_update_len in Hk.
          fold new_id in Hk. destruct (k - new_id) as [|q] eqn:Eq; [|destruct q; discriminate].
          cbn in Hk. right. left. split; [lia|now inversion Hk]. }
      split.
      { (* alias_ok *)
        split; cbn [tr_aliases tr_count tr_vectors].
        - intros k x Hk. rewrite app_length, list_update_len. cbn [length]. fold new_id.
          destruct (Hget k x Hk) as [[-> ->]|[[-> ->]|(Hne & Hlt & Hk')]].
          + cbn [ai_ref ai_next a1]. split; [fold r; lia|]. intros nx E. inversion E; subst. unfold new_id. lia.
          + cbn [ai_ref ai_next]. split; [lia|discriminate].
          + destruct (Hal k x Hk') as [Hr' Hn']. split; [fold r; lia|]. intros nx E. destruct (Hn' nx E). unfold new_id in *. lia.
        - intros vid v f0 Hv Hf0. rewrite app_length, list_update_len. cbn [length]. specialize (Hvec vid v f0 Hv Hf0). lia. }
      split.
      { (* extends *)
        split; [cbn [tr_count]; fold r; lia|]. split; [cbn [tr_aliases]; rewrite app_length, list_update_len; lia|].
        intros k x Hk. cbn [tr_aliases].
        assert (Hkl : k < new_id) by (apply nth_error_Some; unfold new_id; congruence).
        rewrite nth_error_app1 by (rewrite list_update_len; exact Hkl).
        destruct (Nat.eq_dec k id) as [->|Hne].
        - rewrite nth_error_update_eq by exact Hid. rewrite Ea in Hk. inversion Hk; subst x. exists a1. repeat split; reflexivity.
        - rewrite nth_error_update_ne by (intros E; apply Hne; now symmetry). exists x. repeat split; assumption. }
      split.
      { exists new_id, (mk_ai msb lsb r sliced None). cbn [tr_aliases]. split; [|repeat split; reflexivity].
        rewrite nth_error_app2 by (rewrite list_update_len; unfold new_id; lia).
        rewrite list_update_len. fold new_id. now rewrite Nat.sub_diag. }
      right. split; [reflexivity|]. split; [reflexivity|]. split; [reflexivity|]. split; [reflexivity|]. cbn [tr_aliases]. split.
      { rewrite app_length, list_update_len. cbn [length]. lia. }
      exists (mk_ai msb lsb r sliced None). split; [|reflexivity].
      rewrite nth_error_app2 by (rewrite list_update_len; lia). rewrite list_update_len. now rewrite Nat.sub_diag.
Qed.

(* registering a proper sub-range [mn..mx] of an existing vector *)
Theorem register_subrange_spec t mn mx two vid v :
  alias_ok t -> find_vec t mn mx = Ok (Some vid) -> nth_error (tr_vectors t) vid = Some v ->
  vi_min v <= mn -> mn <= mx -> mx <= vi_max v -> ~ (mx = vi_max v /\ mn = vi_min v) ->
  exists t' r,
    register_bit_vec t mn mx two = Ok (t', r) /\ alias_ok t' /\ extends t t' /\
    (exists k a, nth_error (tr_aliases t') k = Some a /\
                 ai_msb a = vi_max v - mn /\ ai_lsb a = vi_max v - mx /\ ai_ref a = r) /\
    ((t' = t /\ r < tr_count t) \/
     (r = tr_count t /\ tr_count t' = S r /\ length (tr_aliases t') = S (length (tr_aliases t)) /\
      exists a, nth_error (tr_aliases t') (length (tr_aliases t)) = Some a /\ ai_ref a = r)).
Proof.
  intros Hok Hfv Hv H1 H2 H3 Hne. unfold register_bit_vec.
  destruct (Nat.ltb_spec mx mn) as [Hc|_]; [lia|]. rewrite Hfv. cbn [bind]. rewrite Hv. cbn [of_option bind].
  destruct (Nat.eqb mx (vi_max v) && Nat.eqb mn (vi_min v)) eqn:Eq.
  { apply andb_prop in Eq as [E1 E2]. apply Nat.eqb_eq in E1, E2. exfalso. apply Hne. split; assumption. }
  destruct (Nat.leb_spec (vi_min v) mn) as [_|Hc]; [|lia]. destruct (Nat.leb_spec mx (vi_max v)) as [_|Hc]; [|lia].
  cbn [andb]. unfold find_or_add_alias. rewrite Hv. cbn [of_option bind].
  destruct Hok as [Hal Hvec].
  destruct (vi_alias v) as [first|] eqn:Ef.
  - pose proof (Hvec vid v first Hv Ef) as Hfl.
    destruct (alias_walk_spec (S (length (tr_aliases t))) t first (vi_max v - mn) (vi_max v - mx) (vi_ref v)
                (conj Hal Hvec) Hfl ltac:(lia)) as (t' & r & Hw & Hok' & Hext & Hex & Hcase).
    exists t', r. split; [exact Hw|]. split; [exact Hok'|]. split; [exact Hext|]. split; [exact Hex|].
    destruct Hcase as [[-> Hr]|(Hr & Hc & _ & _ & Hl & Hlast)]; [left; auto|right; auto].
  - set (r := tr_count t). set (new_id := length (tr_aliases t)).
    eexists. exists r. split; [reflexivity|]. split.
    { split; cbn [tr_aliases tr_count tr_vectors].
      - intros k x Hk. rewrite app_length. cbn [length]. fold new_id.
        destruct (Nat.lt_ge_cases k new_id) as [Hlt|Hge].
        + rewrite nth_error_app1 in Hk by exact Hlt. destruct (Hal k x Hk) as [Hr' Hn']. split; [fold r; lia|].
          intros nx E. destruct (Hn' nx E). unfold new_id in *. lia.
        + rewrite nth_error_app2 in Hk by exact Hge. fold new_id in Hk.
          destruct (k - new_id) as [|q]; [|destruct q; discriminate]. cbn in Hk. inversion Hk; subst x. cbn [ai_ref ai_next].
          split; [lia|discriminate].
      - intros vid' v' f0 Hv' Hf0. rewrite app_length. cbn [length]. fold new_id.
        destruct (Nat.eq_dec vid' vid) as [->|Hnv].
        + rewrite nth_error_update_eq in Hv' by (apply nth_error_Some; congruence). inversion Hv'; subst v'. cbn [vi_alias] in Hf0.
          inversion Hf0; subst. lia.
        + rewrite nth_error_update_ne in Hv' by (intros E; apply Hnv; now symmetry). specialize (Hvec vid' v' f0 Hv' Hf0). lia. }
    split.
    { split; [cbn [tr_count]; fold r; lia|]. split; [cbn [tr_aliases]; rewrite app_length; lia|].
      intros k x Hk. cbn [tr_aliases]. rewrite nth_error_app1 by (apply nth_error_Some; congruence).
      exists x. repeat split; assumption. }
    split.
    { exists new_id, (mk_ai (vi_max v - mn) (vi_max v - mx) r (vi_ref v) None). cbn [tr_aliases]. split; [|repeat split; reflexivity].
      rewrite nth_error_app2 by (unfold new_id; lia). fold new_id. now rewrite Nat.sub_diag. }
    right. split; [reflexivity|]. split; [reflexivity|]. cbn [tr_aliases]. split; [rewrite app_length; cbn [length]; lia|].
    exists (mk_ai (vi_max v - mn) (vi_max v - mx) r (vi_ref v) None). split; [|reflexivity].
    rewrite nth_error_app2 by lia. now rewrite Nat.sub_diag.
Qed.

(* hence: the references of the alias table stay pairwise distinct - two different sub-ranges never share a signal *)
Lemma refs_distinct_step t t' r : alias_ok t -> refs_distinct t -> extends t t' ->
  ((t' = t /\ r < tr_count t) \/
   (r = tr_count t /\ tr_count t' = S r /\ length (tr_aliases t') = S (length (tr_aliases t)) /\
    exists a, nth_error (tr_aliases t') (length (tr_aliases t)) = Some a /\ ai_ref a = r)) ->
  refs_distinct t'.
Proof.
  intros [Hal _] Hd (_ & _ & Hext) [[-> _]|(Hr & _ & Hlen & (an & Han & Hran))]; [exact Hd|].
  assert (Hold : forall k x, k < length (tr_aliases t) -> nth_error (tr_aliases t') k = Some x ->
                 exists a, nth_error (tr_aliases t) k = Some a /\ ai_ref x = ai_ref a /\ ai_ref a < tr_count t).
  { intros k x Hk Hx. destruct (nth_error (tr_aliases t) k) as [a|] eqn:Ea; [|apply nth_error_None in Ea; lia].
    destruct (Hext k a Ea) as (a' & Ha' & _ & _ & Hrf & _). rewrite Hx in Ha'. inversion Ha'; subst a'.
    exists a. split; [reflexivity|]. split; [exact Hrf|apply (Hal k a Ea)]. }
  intros i j a c Hi Hj Href.
  assert (Hil : i < S (length (tr_aliases t))) by (rewrite <- Hlen; apply nth_error_Some; congruence).
  assert (Hjl : j < S (length (tr_aliases t))) by (rewrite <- Hlen; apply nth_error_Some; congruence).
  destruct (Nat.eq_dec i (length (tr_aliases t))) as [Ei|Ei]; destruct (Nat.eq_dec j (length (tr_aliases t))) as [Ej|Ej].
  - congruence.
  - exfalso. subst i. rewrite Han in Hi. inversion Hi; subst a.
    destruct (Hold j c ltac:(lia) Hj) as (c0 & _ & E & Hlt). lia.
  - exfalso. subst j. rewrite Han in Hj. inversion Hj; subst c.
    destruct (Hold i a ltac:(lia) Hi) as (a0 & _ & E & Hlt). lia.
  - destruct (Hold i a ltac:(lia) Hi) as (a0 & Ha0 & E1 & _). destruct (Hold j c ltac:(lia) Hj) as (c0 & Hc0 & E2 & _).
    apply (Hd i j a0 c0 Ha0 Hc0). congruence.
Qed.

Example alias_example :
  (* a vector over GHW signals 0..7, then the sub-ranges 0..3 (slice [7:4]), 0..1 (slice [7:6]) and 0..3 again *)
  (do '(t, refs) <- register_all (tr_new 8) [(0, 7, false); (0, 3, false); (0, 1, false); (0, 3, false)];
   Ok (refs, map (fun a => (ai_msb a, ai_lsb a, ai_ref a)) (tr_aliases t)))
  = Ok ([0; 1; 2; 1], [(7, 4, 1); (7, 6, 2)]).
Proof. vm_compute. reflexivity. Qed.
