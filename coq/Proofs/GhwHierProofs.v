(* C11: the hierarchy side of the GHW loader (Model/GhwHier.v, wellen/src/ghw/hierarchy.rs).
   array_labels: the elements of an array signal are visited in declaration order - from the left to the right bound -
   and the k-th one is labelled with its declared index: left - k for a descending range, left + k for an ascending one
   (the repair of finding D20; before it both directions were labelled ascending).  record_fields: the fields of a record
   in declaration order under their names.  enum_bits_spec: an enumeration of n literals is n's smallest sufficient
   number of bits wide and its k-th literal has the k as its code. *)
From Coq Require Import Lia.
From WV Require Import Model.Base Generated.Consts Model.Bits Model.WaveMem Model.Hierarchy Model.FstHier Model.Ghw
  Model.GhwAlias Model.Serde Model.GhwHier.
Open Scope N_scope.

(* the declared indices in declaration order *)
Definition declared_ids (rg : irange) : list Z :=
  match rg with
  | IR true l r => map (fun k => (l - Z.of_nat k)%Z) (seq 0 (Z.to_nat (l - r + 1)))
  | IR false l r => map (fun k => (l + Z.of_nat k)%Z) (seq 0 (Z.to_nat (r - l + 1)))
  end.

(* handing the names to the handler one after the other *)
Fixpoint feed (h : elem_handler) (names : list name) (g : gstate) (inp : list byte) : outcome (gstate * list byte) :=
  match names with
  | [] => Ok (g, inp)
  | n :: r => do '(g', inp') <- h g n inp; feed h r g' inp'
  end.

Lemma array_loop_feed h : forall (n : nat) fuel2 s e downto k g inp,
  (e - s - k = Z.of_nat n)%Z -> (0 <= k)%Z -> (n < fuel2)%nat ->
  array_loop h fuel2 s e downto k g inp
  = feed h (map (fun j => index_name (if downto then (e - 1 - k - Z.of_nat j)%Z else (s + k + Z.of_nat j)%Z)) (seq 0 n)) g inp.
Proof.
  induction n as [|n IH]; intros fuel2 s e downto k g inp Hn Hk Hf; (destruct fuel2 as [|f2]; [lia|]); cbn [array_loop].
  - replace (e - s <=? k)%Z with true by (symmetry; apply Z.leb_le; lia). reflexivity.
  - replace (e - s <=? k)%Z with false by (symmetry; apply Z.leb_gt; lia).
    cbn [seq map feed]. rewrite Z.sub_0_r, Z.add_0_r.
    destruct (h g (index_name (if downto then (e - 1 - k)%Z else (s + k)%Z)) inp) as [[g' r]| |]; cbn [bind]; [|reflexivity..].
    rewrite (IH f2 s e downto (k + 1)%Z g' r) by lia.
    f_equal. rewrite <- seq_shift, map_map. apply map_ext. intros j. destruct downto; f_equal; lia.
Qed.

(* the k-th element of an array signal is labelled with its declared index *)
Theorem array_labels h downto l r g inp fuel2 :
  let rg := IR downto l r in
  let '(s, e) := ir_start_end rg in
  (Z.to_nat (e - s) < fuel2)%nat -> (0 <= e - s)%Z ->
  array_loop h fuel2 s e downto 0%Z g inp = feed h (map index_name (declared_ids rg)) g inp.
Proof.
  cbn zeta. destruct downto; cbn [ir_start_end declared_ids]; intros Hf Hn.
  - rewrite (array_loop_feed h (Z.to_nat (l + 1 - r)) fuel2 r (l + 1)%Z true 0%Z g inp) by lia.
    replace (l - r + 1)%Z with (l + 1 - r)%Z by lia. rewrite map_map. f_equal. apply map_ext. intros j. f_equal. lia.
  - rewrite (array_loop_feed h (Z.to_nat (r + 1 - l)) fuel2 l (r + 1)%Z false 0%Z g inp) by lia.
    replace (r - l + 1)%Z with (r + 1 - l)%Z by lia. rewrite map_map. f_equal. apply map_ext. intros j. f_equal. lia.
Qed.

Example declared_ids_example :
  declared_ids (IR true 3 0) = [3; 2; 1; 0]%Z /\ declared_ids (IR false 1 3) = [1; 2; 3]%Z /\
  map index_name (declared_ids (IR true 1 (-1))) = [[91; 49; 93]; [91; 48; 93]; [91; 45; 49; 93]].
Proof. repeat split; reflexivity. Qed.

(* the fields of a record signal: in declaration order, under their names *)
Fixpoint feed_fields (h : gstate -> name -> N -> list byte -> outcome (gstate * list byte)) (fs : list (name * N))
                     (g : gstate) (inp : list byte) : outcome (gstate * list byte) :=
  match fs with
  | [] => Ok (g, inp)
  | (n, t) :: r => do '(g', inp') <- h g n t inp; feed_fields h r g' inp'
  end.

Theorem record_fields h strings : forall fs names g inp,
  Forall2 (fun f n => nthN strings (fst f) = Some n) fs names ->
  record_loop h strings fs g inp = feed_fields h (combine names (map snd fs)) g inp.
Proof.
  induction fs as [|[fn ft] fr IH]; intros names g inp H; inversion H as [|f0 n0 fr0 nr0 H1 Hr]; subst; cbn [record_loop]; [reflexivity|].
  cbn [fst] in H1. rewrite H1. cbn [of_option bind map snd combine feed_fields].
  destruct (h g n0 ft inp) as [[g' r]| |]; cbn [bind]; [|reflexivity..]. exact (IH nr0 g' r Hr).
Qed.

(* enumerations: width and codes *)
Lemma enum_bits_spec n : (1 <= n)%nat ->
  exists b, enum_bits n = Ok b /\ N.of_nat n <= 2 ^ b /\ (b = 0 \/ 2 ^ (b - 1) < N.of_nat n).
Proof.
  intros Hn. destruct n as [|k]; [lia|]. cbn [enum_bits]. eexists. split; [reflexivity|].
  rewrite Nat2N.inj_succ. generalize (N.of_nat k). intros m.
  destruct (N.eq_dec m 0) as [->|E].
  - cbn. split; [lia|]. left. reflexivity.
  - pose proof (N.size_gt m) as H1.
    split; [lia|]. right. rewrite N.size_log2 by exact E. rewrite N.sub_1_r, N.pred_succ.
    pose proof (N.log2_spec m ltac:(lia)). lia.
Qed.

Lemma enum_lits_codes strings bits : forall lits ii ls,
  enum_lits strings bits ii lits = Ok ls ->
  map fst ls = map (fun k => bin_str bits (ii + N.of_nat k)) (seq 0 (length lits)) /\
  Forall2 (fun l s => nthN strings l = Some s) lits (map snd ls).
Proof.
  induction lits as [|l r IH]; intros ii ls H; cbn [enum_lits] in H.
  - injection H as <-. split; [reflexivity|constructor].
  - destruct (nthN strings l) as [s|] eqn:Es; [|discriminate]. cbn [of_option bind] in H.
    destruct (enum_lits strings bits (ii + 1) r) as [rest| |] eqn:Er; try discriminate. cbn [bind] in H. injection H as <-.
    destruct (IH _ _ Er) as [H1 H2]. cbn [map fst snd length seq]. split.
    + rewrite N.add_0_r. f_equal. rewrite H1, <- seq_shift, map_map. apply map_ext. intros k. f_equal. lia.
    + constructor; assumption.
Qed.

(* ------------------------------------------------------------------ what a signal of a leaf type becomes *)
(* kind, encoding and bit range that the type decides *)
Definition leaf_shape (ty : vtype) (tn : name) : option (N * sig_enc * option (Z * Z)) :=
  match ty with
  | TNineBit _ | TBit _ => Some (bit_var_type tn, EncBits 1, None)
  | TI32 _ _ => Some (VarType_Integer, EncBits 32, None)
  | TF64 _ => Some (VarType_Real, EncReal, None)
  | TNineVec _ (IR _ l r) | TBitVec _ (IR _ l r) =>
      Some (vec_var_type tn, bits_enc (Z.to_N (Z.abs (ir_len (match ty with TNineVec _ rg | TBitVec _ rg => rg | _ => IR false 0 0 end))) mod 4294967296),
            Some (l, r))
  | _ => None
  end.

(* a signal of a scalar or vector type (not an enumeration, not empty) becomes exactly one variable: its name, the kind the
   type name decides, the direction of the declaration, the width and - for a vector - the declared range *)
Theorem ghw_leaf_var debug f strings types max_id dir g nm tid inp ty tn vt enc idx g' r :
  get_type_and_name debug strings types tid = Ok (ty, tn) ->
  leaf_shape ty tn = Some (vt, enc, idx) ->
  (match ty with TNineVec _ rg | TBitVec _ rg => Z.to_N (Z.abs (ir_len rg)) mod 4294967296 <> 0 /\
                                                  (match rg with IR _ l rr => (-2147483648 < l - rr < 2147483648)%Z end)
            | _ => True end) ->
  add_var debug (S f) strings types max_id dir g nm tid inp = Ok (g', r) ->
  exists ref, g_calls g' = g_calls g ++ [FcVar nm vt dir enc idx ref None (Some tn)].
Proof.
  intros Hty Hshape Hvec H. cbn [add_var] in H. rewrite Hty in H. cbn [bind] in H.
  destruct ty as [n|n rg|n|n rg|n b|n rg|n rg|n|n fs|n lits eid|n el rg]; cbn [leaf_shape] in Hshape; try discriminate.
  - (* TNineBit *) injection Hshape as <- <- <-.
    destruct (read_signal_id max_id inp) as [[idx0 r0]| |]; cbn [bind] in H; try discriminate.
    destruct (register_bit_vec (g_tracker g) idx0 idx0 false) as [[t ref]| |]; cbn [bind] in H; try discriminate.
    injection H as <- <-. exists ref. reflexivity.
  - (* TNineVec *) destruct rg as [d l rr]. injection Hshape as <- <- <-. destruct Hvec as [Hnz Hw].
    cbn [ir_len] in H, Hnz |- *.
    match type of H with context [if ?c then _ else _] => destruct c eqn:E0 end; [apply N.eqb_eq in E0; contradiction|].
    match type of H with context [read_sig_ids ?a ?b ?c ?d ?e] => destruct (read_sig_ids a b c d e) as [[ids r0]| |] end; cbn [bind] in H; try discriminate.
    destruct (debug && negb (contiguous ids)); [discriminate|].
    destruct (hd_error ids) as [mn|]; cbn [of_option bind] in H; [|discriminate].
    destruct (hd_error (rev ids)) as [mx|]; cbn [of_option bind] in H; [|discriminate].
    destruct (register_bit_vec (g_tracker g) mn mx false) as [[t ref]| |]; cbn [bind] in H; try discriminate.
    assert (Hi : Model.VcdHeader.var_index_new l rr = Ok (l, rr)).
    { unfold Model.VcdHeader.var_index_new, Model.VcdHeader.chk64, Model.VcdHeader.i64_min, Model.VcdHeader.i64_max.
      replace ((l - rr <? -9223372036854775808) || (9223372036854775807 <? l - rr))%Z with false
        by (symmetry; apply orb_false_iff; split; apply Z.ltb_ge; lia).
      cbn [bind]. unfold Model.VcdHeader.wrap_i32.
      destruct (Z.eq_dec (l - rr) 0) as [E|E].
      - rewrite E. cbn. replace l with rr by lia. reflexivity.
      - assert (Hm : ((l - rr) mod 4294967296 = if (l - rr <? 0)%Z then l - rr + 4294967296 else l - rr)%Z).
        { destruct (Z.ltb_spec (l - rr) 0).
          - symmetry. apply (Z.mod_unique_pos _ _ (-1)); lia.
          - apply Z.mod_small. lia. }
        rewrite Hm. destruct (Z.ltb_spec (l - rr) 0).
        + replace (l - rr + 4294967296 <? 2147483648)%Z with false by (symmetry; apply Z.ltb_ge; lia).
          replace (l - rr + 4294967296 - 4294967296)%Z with (l - rr)%Z by lia.
          replace (l - rr =? 0)%Z with false by (symmetry; apply Z.eqb_neq; exact E).
          replace (l - rr =? -2147483648)%Z with false by (symmetry; apply Z.eqb_neq; lia).
          f_equal. f_equal. lia.
        + replace (l - rr <? 2147483648)%Z with true by (symmetry; apply Z.ltb_lt; lia).
          replace (l - rr =? 0)%Z with false by (symmetry; apply Z.eqb_neq; exact E).
          replace (l - rr =? -2147483648)%Z with false by (symmetry; apply Z.eqb_neq; lia).
          f_equal. f_equal. lia. }
    rewrite Hi in H. cbn [bind] in H. injection H as <- <-. exists ref. reflexivity.
  - (* TBit *) injection Hshape as <- <- <-.
    destruct (read_signal_id max_id inp) as [[idx0 r0]| |]; cbn [bind] in H; try discriminate.
    destruct (register_bit_vec (g_tracker g) idx0 idx0 true) as [[t ref]| |]; cbn [bind] in H; try discriminate.
    injection H as <- <-. exists ref. reflexivity.
  - (* TBitVec *) destruct rg as [d l rr]. injection Hshape as <- <- <-. destruct Hvec as [Hnz Hw].
    cbn [ir_len] in H, Hnz |- *.
    match type of H with context [if ?c then _ else _] => destruct c eqn:E0 end; [apply N.eqb_eq in E0; contradiction|].
    match type of H with context [read_sig_ids ?a ?b ?c ?d ?e] => destruct (read_sig_ids a b c d e) as [[ids r0]| |] end; cbn [bind] in H; try discriminate.
    destruct (debug && negb (contiguous ids)); [discriminate|].
    destruct (hd_error ids) as [mn|]; cbn [of_option bind] in H; [|discriminate].
    destruct (hd_error (rev ids)) as [mx|]; cbn [of_option bind] in H; [|discriminate].
    destruct (register_bit_vec (g_tracker g) mn mx true) as [[t ref]| |]; cbn [bind] in H; try discriminate.
    assert (Hi : Model.VcdHeader.var_index_new l rr = Ok (l, rr)).
    { unfold Model.VcdHeader.var_index_new, Model.VcdHeader.chk64, Model.VcdHeader.i64_min, Model.VcdHeader.i64_max.
      replace ((l - rr <? -9223372036854775808) || (9223372036854775807 <? l - rr))%Z with false
        by (symmetry; apply orb_false_iff; split; apply Z.ltb_ge; lia).
      cbn [bind]. unfold Model.VcdHeader.wrap_i32.
      destruct (Z.eq_dec (l - rr) 0) as [E|E].
      - rewrite E. cbn. replace l with rr by lia. reflexivity.
      - assert (Hm : ((l - rr) mod 4294967296 = if (l - rr <? 0)%Z then l - rr + 4294967296 else l - rr)%Z).
        { destruct (Z.ltb_spec (l - rr) 0).
          - symmetry. apply (Z.mod_unique_pos _ _ (-1)); lia.
          - apply Z.mod_small. lia. }
        rewrite Hm. destruct (Z.ltb_spec (l - rr) 0).
        + replace (l - rr + 4294967296 <? 2147483648)%Z with false by (symmetry; apply Z.ltb_ge; lia).
          replace (l - rr + 4294967296 - 4294967296)%Z with (l - rr)%Z by lia.
          replace (l - rr =? 0)%Z with false by (symmetry; apply Z.eqb_neq; exact E).
          replace (l - rr =? -2147483648)%Z with false by (symmetry; apply Z.eqb_neq; lia).
          f_equal. f_equal. lia.
        + replace (l - rr <? 2147483648)%Z with true by (symmetry; apply Z.ltb_lt; lia).
          replace (l - rr =? 0)%Z with false by (symmetry; apply Z.eqb_neq; exact E).
          replace (l - rr =? -2147483648)%Z with false by (symmetry; apply Z.eqb_neq; lia).
          f_equal. f_equal. lia. }
    rewrite Hi in H. cbn [bind] in H. injection H as <- <-. exists ref. reflexivity.
  - (* TI32 *) injection Hshape as <- <- <-.
    destruct (read_signal_id max_id inp) as [[idx0 r0]| |]; cbn [bind] in H; try discriminate.
    destruct (register_scalar (g_tracker g) idx0 5) as [[t ref]| |]; cbn [bind] in H; try discriminate.
    injection H as <- <-. exists ref. reflexivity.
  - (* TF64 *) injection Hshape as <- <- <-.
    destruct (read_signal_id max_id inp) as [[idx0 r0]| |]; cbn [bind] in H; try discriminate.
    destruct (register_scalar (g_tracker g) idx0 6) as [[t ref]| |]; cbn [bind] in H; try discriminate.
    injection H as <- <-. exists ref. reflexivity.
Qed.
