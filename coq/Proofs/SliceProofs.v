(* Proofs about Model/Slice.v (property C13): slicing the packed form of a symbol list yields the
   packed form of the corresponding sub-list, for every state kind, every parent width and every
   sub-range. *)
From WV Require Import Model.Base Generated.Consts Model.Bits Model.WaveMem Model.Slice Proofs.BitsProofs.
From Coq Require Import Lia ZifyBool ZifyNat ZifyN.
Ltac Zify.zify_post_hook ::= Z.div_mod_to_equations.
Open Scope N_scope.
Arguments N.add : simpl never. Arguments N.mul : simpl never. Arguments N.pow : simpl never.
Arguments N.div : simpl never. Arguments N.modulo : simpl never.

(* ---------- a digit of the value of a chunk ---------- *)

Lemma nth_rev_seq (cnt k : nat) : (k < cnt)%nat -> nth k (rev (seq 0 cnt)) 0%nat = (cnt - 1 - k)%nat.
Proof.
  intros H. rewrite rev_nth by (rewrite seq_length; lia). rewrite seq_length, seq_nth by lia. lia.
Qed.

Lemma gdigit_val st (l : list N) (r : nat) : small_syms st l -> (r < length l)%nat ->
  digit st (val (sbits st) 0 l) r = nth (length l - 1 - r) l 0.
Proof.
  intros Hs Hr.
  pose proof (gdigits_val (sbits st) (per_byte st) (per_byte_pos st) (per_byte_sbits st) l 0 Hs) as D.
  rewrite N.mul_0_l, N.add_0_l in D.
  assert (E : nth (length l - 1 - r) (gdigits (sbits st) (length l) (val (sbits st) 0 l)) 0
              = nth (length l - 1 - r) l 0) by now rewrite D.
  rewrite <- E. unfold gdigits.
  rewrite (nth_indep _ 0 (gdigit (sbits st) (val (sbits st) 0 l) 0)) by (rewrite map_length, rev_length, seq_length; lia).
  rewrite map_nth. rewrite nth_rev_seq by lia.
  replace (length l - 1 - (length l - 1 - r))%nat with r by lia. reflexivity.
Qed.

(* ---------- indexing into a concatenation of equally sized chunks ---------- *)

Lemma nth_concat_chunks pb (cs : list (list N)) : (0 < pb)%nat -> chunks_ok pb cs ->
  forall j, (j < length cs * pb)%nat -> nth j (concat cs) 0 = nth (j mod pb) (nth (j / pb) cs []) 0.
Proof.
  intros Hpb. induction 1 as [|c cs Hc Hcs IH]; intros j Hj; [cbn in Hj; lia|].
  cbn [concat]. destruct (Nat.ltb_spec j pb) as [Hlt|Hge].
  - rewrite app_nth1 by lia. rewrite Nat.div_small, Nat.mod_small by lia. reflexivity.
  - rewrite app_nth2 by lia. rewrite Hc.
    rewrite IH by (cbn [length] in Hj; nia).
    assert (E1 : (j / pb = S ((j - pb) / pb))%nat).
    { replace j with ((j - pb) + 1 * pb)%nat at 1 by lia. rewrite Nat.div_add by lia. lia. }
    assert (E2 : (j mod pb = (j - pb) mod pb)%nat).
    { replace j with ((j - pb) + 1 * pb)%nat at 1 by lia. now rewrite Nat.mod_add by lia. }
    rewrite E1, E2. reflexivity.
Qed.

Lemma length_concat_chunks pb (cs : list (list N)) : chunks_ok pb cs -> length (concat cs) = (length cs * pb)%nat.
Proof. induction 1 as [|c cs Hc _ IH]; [reflexivity|]. cbn [concat length]. rewrite app_length, Hc, IH. lia. Qed.

Lemma nth_error_map' {A B} (f : A -> B) l k : nth_error (map f l) k = option_map f (nth_error l k).
Proof. revert k; induction l as [|a r IH]; intros [|k]; cbn; auto. Qed.

(* ---------- the symbol at bit i of a packed value ---------- *)

(* bit 0 is the right-most character; the value is right aligned in `data` *)
Theorem packed_symbol st syms (i : nat) : small_syms st syms -> (i < length syms)%nat ->
  let data := write_n_state_loop st syms 0 None in
  let max_bits := (length data * per_byte st)%nat in
  exists b, nth_error data ((max_bits - S i) / per_byte st) = Some b /\
            digit st b (i mod per_byte st) = nth (length syms - 1 - i) syms 0.
Proof.
  intros Hs Hi. cbn zeta. rewrite wns_is_loop.
  pose proof (per_byte_pos st) as Hpb. pose proof (per_byte_sbits st) as Hsb.
  set (pb := per_byte st) in *.
  destruct (decompose (sbits st) pb Hpb Hsb syms) as (h & cs & E & Hh & Hcs). subst syms.
  apply Forall_app in Hs as [Hsh Hsc].
  pose proof (forall_small_concat (sbits st) cs Hsc) as Hsc'.
  rewrite (wns_decomposed (sbits st) pb Hpb Hsb h cs Hh Hcs).
  pose proof (length_concat_chunks pb cs Hcs) as Lc.
  rewrite app_length, Lc in *.
  set (n := length cs) in *.
  destruct (Nat.ltb_spec i (n * pb)) as [Hin|Hout].
  - (* the bit lies in one of the full chunks: chunk q from the right *)
    set (q := (i / pb)%nat). assert (Hq : (q < n)%nat) by (apply Nat.div_lt_upper_bound; lia).
    assert (Hr : (i mod pb < pb)%nat) by (apply Nat.mod_upper_bound; lia).
    assert (Hidiv : (i = q * pb + i mod pb)%nat) by (unfold q; rewrite (Nat.div_mod i pb) at 1 by lia; lia).
    set (ck := nth (n - 1 - q) cs []).
    assert (Hck_in : In ck cs) by (apply nth_In; lia).
    assert (Hck_len : length ck = pb) by (unfold chunks_ok in Hcs; rewrite Forall_forall in Hcs; now apply Hcs).
    assert (Hck_small : small_syms st ck) by (rewrite Forall_forall in Hsc'; now apply Hsc').
    exists (val (sbits st) 0 ck). split.
    + destruct h as [|s h'].
      * rewrite map_length. fold n.
        replace ((n * pb - S i) / pb)%nat with (n - 1 - q)%nat.
        2:{ apply Nat.div_unique with (r := (pb - 1 - i mod pb)%nat); [lia|]. nia. }
        rewrite nth_error_map'. unfold ck. rewrite (nth_error_nth' cs []) by lia. reflexivity.
      * cbn [length]. rewrite map_length. fold n.
        replace ((S n * pb - S i) / pb)%nat with (S (n - 1 - q)).
        2:{ apply Nat.div_unique with (r := (pb - 1 - i mod pb)%nat); [lia|]. nia. }
        cbn [nth_error]. rewrite nth_error_map'. unfold ck. rewrite (nth_error_nth' cs []) by lia. reflexivity.
    + rewrite gdigit_val by (try assumption; lia). rewrite Hck_len.
      rewrite app_nth2 by lia.
      replace (length h + n * pb - 1 - i - length h)%nat with (n * pb - 1 - i)%nat by lia.
      rewrite (nth_concat_chunks pb cs Hpb Hcs) by lia.
      replace ((n * pb - 1 - i) / pb)%nat with (n - 1 - q)%nat.
      2:{ apply Nat.div_unique with (r := (pb - 1 - i mod pb)%nat); [lia|]. nia. }
      replace ((n * pb - 1 - i) mod pb)%nat with (pb - 1 - i mod pb)%nat.
      2:{ apply Nat.mod_unique with (q := (n - 1 - q)%nat); [lia|]. nia. }
      reflexivity.
  - (* the bit lies in the partial first byte *)
    destruct h as [|s h']; [cbn [length] in Hi; lia|].
    exists (val (sbits st) 0 (s :: h')). split.
    + cbn [length]. rewrite map_length. fold n.
      replace ((S n * pb - S i) / pb)%nat with 0%nat; [reflexivity|].
      symmetry. apply Nat.div_small. cbn [length] in *. nia.
    + assert (Hm : (i mod pb = i - n * pb)%nat).
      { symmetry. apply Nat.mod_unique with (q := n); [cbn [length] in *; lia|lia]. }
      rewrite Hm. rewrite gdigit_val by (try assumption; cbn [length] in *; lia).
      rewrite app_nth1 by (cbn [length] in *; lia). f_equal. cbn [length] in *. lia.
Qed.

(* ---------- slice_loop re-packs the selected symbols ---------- *)

(* the symbols of bits lsb+n-1 down to lsb, most significant first *)
Definition bits_list (syms : list N) (lsb n : nat) : list N :=
  map (fun k => nth (length syms - 1 - (lsb + k)) syms 0) (rev (seq 0 n)).

Lemma bits_list_S syms lsb n :
  bits_list syms lsb (S n) = nth (length syms - 1 - (lsb + n)) syms 0 :: bits_list syms lsb n.
Proof. unfold bits_list. rewrite seq_S, rev_app_distr. reflexivity. Qed.

Lemma bits_list_length syms lsb n : length (bits_list syms lsb n) = n.
Proof. unfold bits_list. now rewrite map_length, rev_length, seq_length. Qed.

Lemma packed_capacity st syms :
  (length syms <= length (write_n_state_loop st syms 0 None) * per_byte st)%nat.
Proof.
  rewrite packed_length. unfold div_ceil. pose proof (per_byte_pos st).
  pose proof (Nat.div_mod (length syms + per_byte st - 1) (per_byte st) ltac:(lia)).
  pose proof (Nat.mod_upper_bound (length syms + per_byte st - 1) (per_byte st) ltac:(lia)). nia.
Qed.

Lemma slice_loop_spec st syms lsb : small_syms st syms ->
  forall n work, (lsb + n <= length syms)%nat ->
  slice_loop st (write_n_state_loop st syms 0 None) lsb
             (length (write_n_state_loop st syms 0 None) * per_byte st) n work
  = Ok (write_n_state_loop st (bits_list syms lsb n) work None).
Proof.
  intros Hs. induction n as [|n IH]; intros work Hn; [reflexivity|].
  cbn [slice_loop]. rewrite bits_list_S. cbn [write_n_state_loop].
  destruct (packed_symbol st syms (lsb + n) Hs ltac:(lia)) as (b & Hb & Hd). cbn zeta in Hb.
  set (data := write_n_state_loop st syms 0 None) in *.
  set (mb := (length data * per_byte st)%nat) in *.
  assert (Hmb : (S (lsb + n) <= mb)%nat).
  { pose proof (packed_capacity st syms). unfold mb, data. lia. }
  unfold usub. destruct (Nat.leb_spec (S (lsb + n)) mb) as [_|H]; [|lia]. cbn [bind].
  rewrite Hb. cbn [of_option bind]. rewrite Hd.
  rewrite bits_list_length.
  rewrite (push_cond (sbits st) (per_byte st) (per_byte_pos st) (per_byte_sbits st) n).
  destruct (Nat.eqb (n mod per_byte st) 0).
  - rewrite IH by lia. reflexivity.
  - apply IH. lia.
Qed.

Lemma nth_map_lt {A B} (f : A -> B) l k d d' : (k < length l)%nat -> nth k (map f l) d = f (nth k l d').
Proof. revert k; induction l as [|a r IH]; intros [|k] H; cbn in *; try lia; auto. apply IH. lia. Qed.

Lemma nth_firstn_lt {A} (l : list A) n k d : (k < n)%nat -> nth k (firstn n l) d = nth k l d.
Proof. revert l k; induction n as [|n IH]; intros [|a r] [|k] H; cbn; try lia; auto. apply IH. lia. Qed.

Lemma nth_skipn_add {A} (l : list A) n k d : nth k (skipn n l) d = nth (n + k) l d.
Proof. revert l; induction n as [|n IH]; intros [|a r]; cbn; auto. destruct k; reflexivity. Qed.

(* the selected symbols are the characters at positions W-1-msb .. W-1-lsb, counted from the left *)
Lemma bits_list_sub syms lsb n : (lsb + n <= length syms)%nat ->
  bits_list syms lsb n = firstn n (skipn (length syms - lsb - n) syms).
Proof.
  intros H. apply nth_ext with (d := 0) (d' := 0).
  - rewrite bits_list_length, firstn_length, skipn_length. lia.
  - intros k Hk. rewrite bits_list_length in Hk. unfold bits_list.
    rewrite (nth_map_lt _ _ k 0 0%nat) by (rewrite rev_length, seq_length; lia).
    rewrite nth_rev_seq by lia.
    rewrite nth_firstn_lt by lia. rewrite nth_skipn_add. f_equal. lia.
Qed.

(* slicing the packed form of a value gives the packed form of the sub-range [msb:lsb] *)
Theorem slice_n_states_spec debug st syms msb lsb : small_syms st syms ->
  (lsb <= msb < length syms)%nat -> (msb - lsb + 1 < length syms)%nat ->
  slice_n_states debug st (write_n_state_loop st syms 0 None) msb lsb (length syms)
  = Ok (write_n_state_loop st (firstn (msb - lsb + 1) (skipn (length syms - 1 - msb) syms)) 0 None).
Proof.
  intros Hs Hr Hp. unfold slice_n_states, usub.
  destruct (Nat.leb_spec lsb msb) as [_|H]; [|lia]. cbn [bind].
  pose proof (packed_capacity st syms) as Hmax.
  destruct (Nat.leb_spec (length syms) (S (msb - lsb))) as [Hbad|_]; [lia|].
  destruct (Nat.ltb_spec (length (write_n_state_loop st syms 0 None) * per_byte st) (length syms)) as [Hbad|_]; [lia|].
  cbn [orb andb]. rewrite Bool.andb_false_r.
  rewrite (slice_loop_spec st syms lsb Hs (S (msb - lsb)) 0) by lia.
  rewrite bits_list_sub by lia. f_equal. f_equal.
  replace (msb - lsb + 1)%nat with (S (msb - lsb)) by lia. f_equal. f_equal. lia.
Qed.

Lemma in_firstn {A} (l : list A) n x : In x (firstn n l) -> In x l.
Proof. revert l; induction n as [|n IH]; intros [|a r] H; cbn in *; try tauto. destruct H; auto. Qed.
Lemma in_skipn {A} (l : list A) n x : In x (skipn n l) -> In x l.
Proof. revert l; induction n as [|n IH]; intros [|a r] H; cbn in *; try tauto. auto. Qed.

(* ... hence the sliced value renders as exactly the corresponding characters of the parent *)
Corollary slice_renders_substring debug st syms msb lsb : small_syms st syms ->
  (lsb <= msb < length syms)%nat -> (msb - lsb + 1 < length syms)%nat ->
  exists packed,
    slice_n_states debug st (write_n_state_loop st syms 0 None) msb lsb (length syms) = Ok packed /\
    n_state_symbols st packed (msb - lsb + 1)
    = Ok (firstn (msb - lsb + 1) (skipn (length syms - 1 - msb) syms)).
Proof.
  intros Hs Hr Hp. eexists. split; [now apply slice_n_states_spec|].
  set (sub := firstn (msb - lsb + 1) (skipn (length syms - 1 - msb) syms)).
  assert (Hl : length sub = (msb - lsb + 1)%nat).
  { unfold sub. rewrite firstn_length, skipn_length. lia. }
  rewrite <- Hl. apply pack_unpack. unfold sub, small_syms in *.
  apply Forall_forall. intros x Hx. rewrite Forall_forall in Hs. apply Hs.
  apply in_firstn in Hx. now apply in_skipn in Hx.
Qed.

Lemma app_inj_pre {A} (l1 l2 r1 r2 : list A) : l1 ++ r1 = l2 ++ r2 -> (length l1 = length l2)%nat -> l1 = l2 /\ r1 = r2.
Proof.
  revert l2. induction l1 as [|a l1 IH]; intros [|b l2] H Hl; cbn in *; try lia; [auto|].
  inversion H; subst. destruct (IH l2 H2 ltac:(lia)) as [-> ->]. auto.
Qed.

(* ---------- slicing depends only on the symbols the data renders to ---------- *)

(* two byte strings whose used digits agree: all digits of every byte but the first, and the lowest `r` digits of
   the first byte (the bits above them may hold meta data) *)
Definition digits_agree (st : states) (r : nat) (data data' : list byte) : Prop :=
  (length data = length data')%nat /\ forall j b b', nth_error data j = Some b -> nth_error data' j = Some b' ->
    forall pos, (pos < per_byte st)%nat -> (j = 0%nat -> (pos < r)%nat) -> digit st b pos = digit st b' pos.

Lemma slice_loop_ext st data data' lsb r : digits_agree st r data data' -> (1 <= r <= per_byte st)%nat ->
  forall n work, (lsb + n <= (length data - 1) * per_byte st + r)%nat ->
  slice_loop st data lsb (length data * per_byte st) n work
  = slice_loop st data' lsb (length data * per_byte st) n work.
Proof.
  intros [Hlen Hag] Hr. pose proof (per_byte_pos st) as Hpb. set (pb := per_byte st) in *.
  induction n as [|n IH]; intros work Hn; [reflexivity|].
  cbn [slice_loop]. fold pb. unfold usub.
  destruct (Nat.leb_spec (S (lsb + n)) (length data * pb)) as [Hle|Hgt]; [|reflexivity]. cbn [bind].
  set (j := ((length data * pb - S (lsb + n)) / pb)%nat).
  assert (Hj : (j < length data)%nat) by (apply Nat.div_lt_upper_bound; nia).
  destruct (nth_error data j) as [b|] eqn:Eb; [|apply nth_error_None in Eb; lia].
  destruct (nth_error data' j) as [b'|] eqn:Eb'; [|apply nth_error_None in Eb'; lia].
  cbn [of_option bind].
  assert (Hd : digit st b ((lsb + n) mod pb) = digit st b' ((lsb + n) mod pb)).
  { apply (Hag j b b' Eb Eb'); [apply Nat.mod_upper_bound; lia|].
    intros Hj0.
    (* byte 0: the bit lies in the last (length data - 1) * pb .. range *)
    assert (Hlow : ((length data - 1) * pb <= lsb + n)%nat).
    { unfold j in Hj0. apply Nat.div_small_iff in Hj0; [|lia]. nia. }
    assert (Hm : ((lsb + n) mod pb = lsb + n - (length data - 1) * pb)%nat).
    { symmetry. apply Nat.mod_unique with (q := (length data - 1)%nat); lia. }
    rewrite Hm. lia. }
  rewrite Hd. destruct (Nat.eqb (n mod pb) 0).
  - rewrite IH by lia. reflexivity.
  - apply IH. lia.
Qed.

Lemma digits_eq_pointwise st cnt b b' : digits st cnt b = digits st cnt b' ->
  forall pos, (pos < cnt)%nat -> digit st b pos = digit st b' pos.
Proof.
  unfold digits. intros H pos Hp.
  assert (Hin : In pos (rev (seq 0 cnt))) by (apply in_rev; rewrite rev_involutive; apply in_seq; lia).
  revert H Hin. generalize (rev (seq 0 cnt)). induction l as [|x l IH]; cbn [map]; intros H Hin; [destruct Hin|].
  inversion H. destruct Hin as [->|Hin]; auto.
Qed.

Lemma digits_length st cnt b : length (digits st cnt b) = cnt.
Proof. unfold digits. now rewrite map_length, rev_length, seq_length. Qed.

Lemma flat_digits_agree st : forall rest rest',
  flat_map (digits st (per_byte st)) rest = flat_map (digits st (per_byte st)) rest' ->
  (length rest = length rest')%nat /\ forall j b b', nth_error rest j = Some b -> nth_error rest' j = Some b' ->
    forall pos, (pos < per_byte st)%nat -> digit st b pos = digit st b' pos.
Proof.
  pose proof (per_byte_pos st) as Hpb.
  induction rest as [|a r IH]; intros [|a' r'] H; cbn [flat_map] in H.
  - split; [reflexivity|]. intros [|j]; discriminate.
  - exfalso. pose proof (digits_length st (per_byte st) a') as Hl. destruct (digits st (per_byte st) a'); [cbn in Hl; lia|discriminate].
  - exfalso. pose proof (digits_length st (per_byte st) a) as Hl. destruct (digits st (per_byte st) a); [cbn in Hl; lia|discriminate].
  - apply app_inj_pre in H; [|now rewrite !digits_length]. destruct H as [H1 H2].
    destruct (IH r' H2) as [Hl Hag]. split; [cbn [length]; lia|].
    intros [|j] b b' Hb Hb'; cbn [nth_error] in *.
    + inversion Hb; inversion Hb'; subst. now apply digits_eq_pointwise.
    + eapply Hag; eassumption.
Qed.

Definition used_in_first (st : states) (bits : nat) : nat :=
  if Nat.eqb (bits mod per_byte st) 0 then per_byte st else (bits mod per_byte st)%nat.

Lemma nss_agree st data data' bits syms : (1 <= bits)%nat ->
  n_state_symbols st data bits = Ok syms -> n_state_symbols st data' bits = Ok syms ->
  digits_agree st (used_in_first st bits) data data'.
Proof.
  intros Hb H H'. unfold n_state_symbols in *. destruct (Nat.eqb_spec bits 0) as [|_]; [lia|].
  unfold used_in_first. destruct (bits mod per_byte st)%nat as [|k] eqn:Em; cbn [Nat.eqb].
  - inversion H; inversion H'; subst syms.
    destruct (flat_digits_agree st data data' (eq_sym H2)) as [Hl Hag]. split; [exact Hl|].
    intros j b b' Hj Hj' pos Hp _. eapply Hag; eassumption.
  - destruct data as [|d0 rest]; [discriminate|]. destruct data' as [|d0' rest']; [discriminate|].
    inversion H; inversion H'; subst syms. symmetry in H2.
    apply app_inj_pre in H2; [|now rewrite !digits_length]. destruct H2 as [H1 H2].
    destruct (flat_digits_agree st rest rest' H2) as [Hl Hag]. split; [cbn [length]; lia|].
    intros [|j] b b' Hj Hj' pos Hp Hr; cbn [nth_error] in *.
    + inversion Hj; inversion Hj'; subst. apply (digits_eq_pointwise st (S k)); [exact H1|]. now apply Hr.
    + eapply Hag; eassumption.
Qed.

Lemma used_in_first_range st bits : (1 <= bits)%nat ->
  (1 <= used_in_first st bits <= per_byte st)%nat /\
  ((div_ceil bits (per_byte st) - 1) * per_byte st + used_in_first st bits = bits)%nat.
Proof.
  intros Hb. unfold used_in_first, div_ceil.
  destruct st; cbn [per_byte];
    match goal with |- context [Nat.eqb ?a 0] => destruct (Nat.eqb_spec a 0) end; lia.
Qed.

(* slicing any byte string that renders to `syms` (whatever its unused high bits hold) gives the packed form of
   the sub-range [msb:lsb] *)
Theorem slice_n_states_sem debug st data syms msb lsb : small_syms st syms ->
  length data = div_ceil (length syms) (per_byte st) ->
  n_state_symbols st data (length syms) = Ok syms ->
  (lsb <= msb < length syms)%nat -> (msb - lsb + 1 < length syms)%nat ->
  slice_n_states debug st data msb lsb (length syms)
  = Ok (write_n_state_loop st (firstn (msb - lsb + 1) (skipn (length syms - 1 - msb) syms)) 0 None).
Proof.
  intros Hs Hlen Hn Hr Hp.
  rewrite <- (slice_n_states_spec debug st syms msb lsb Hs Hr Hp).
  pose proof (packed_length st syms) as Hpl.
  pose proof (pack_unpack st syms Hs) as Hpu.
  assert (Hb : (1 <= length syms)%nat) by lia.
  pose proof (nss_agree st data _ (length syms) syms Hb Hn Hpu) as Hag.
  destruct (used_in_first_range st (length syms) Hb) as [Hur Hsum].
  unfold slice_n_states. destruct (usub msb lsb) as [d| |] eqn:Ed; try reflexivity. cbn [bind].
  rewrite Hpl, Hlen.
  destruct (debug && _); [reflexivity|].
  rewrite <- Hlen. rewrite (slice_loop_ext st data _ lsb _ Hag Hur).
  - now rewrite Hlen, <- Hpl.
  - unfold usub in Ed. destruct (lsb <=? msb)%nat; [|discriminate]. inversion Ed; subst d. rewrite Hlen. lia.
Qed.

Example slice_example :
  slice_n_states true Nine (write_n_state_loop Nine [5; 5; 5] 0 None) 1 1 3 = Ok [5] /\
  slice_n_states true Two (write_n_state_loop Two [0;0;0;1;0;0;1] 0 None) 3 3 7 = Ok [1].
Proof. split; reflexivity. Qed.
