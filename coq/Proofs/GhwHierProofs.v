(* C11: the hierarchy side of the GHW loader (Model/GhwHier.v, wellen/src/ghw/hierarchy.rs).
   array_labels: the elements of an array signal are visited in declaration order - from the left to the right bound -
   and the k-th one is labelled with its declared index: left - k for a descending range, left + k for an ascending one
   (the repair of finding D20; before it both directions were labelled ascending).  record_fields: the fields of a record
   in declaration order under their names.  enum_bits_spec: an enumeration of n literals is n's smallest sufficient
   number of bits wide and its k-th literal has the k as its code. *)
From Coq Require Import Lia.
From WV Require Import Model.Base Generated.Consts Model.Bits Model.WaveMem Model.Hierarchy Model.FstHier Model.Ghw
  Model.GhwAlias Model.Serde Model.GhwHier.
Open Scope N_scope.

(* the declared indices in declaration order *)
Definition declared_ids (rg : irange) : list Z :=
  match rg with
  | IR true l r => map (fun k => (l - Z.of_nat k)%Z) (seq 0 (Z.to_nat (l - r + 1)))
  | IR false l r => map (fun k => (l + Z.of_nat k)%Z) (seq 0 (Z.to_nat (r - l + 1)))
  end.

(* handing the names to the handler one after the other *)
Fixpoint feed (h : elem_handler) (names : list name) (g : gstate) (inp : list byte) : outcome (gstate * list byte) :=
  match names with
  | [] => Ok (g, inp)
  | n :: r => do '(g', inp') <- h g n inp; feed h r g' inp'
  end.

Lemma array_loop_feed h : forall (n : nat) fuel2 s e downto k g inp,
  (e - s - k = Z.of_nat n)%Z -> (0 <= k)%Z -> (n < fuel2)%nat ->
  array_loop h fuel2 s e downto k g inp
  = feed h (map (fun j => index_name (if downto then (e - 1 - k - Z.of_nat j)%Z else (s + k + Z.of_nat j)%Z)) (seq 0 n)) g inp.
Proof.
  induction n as [|n IH]; intros fuel2 s e downto k g inp Hn Hk Hf; (destruct fuel2 as [|f2]; [lia|]); cbn [array_loop].
  - replace (e - s <=? k)%Z with true by (symmetry; apply Z.leb_le; lia). reflexivity.
  - replace (e - s <=? k)%Z with false by (symmetry; apply Z.leb_gt; lia).
    cbn [seq map feed]. rewrite Z.sub_0_r, Z.add_0_r.
    destruct (h g (index_name (if downto then (e - 1 - k)%Z else (s + k)%Z)) inp) as [[g' r]| |]; cbn [bind]; [|reflexivity..].
    rewrite (IH f2 s e downto (k + 1)%Z g' r) by lia.
    f_equal. rewrite <- seq_shift, map_map. apply map_ext. intros j. destruct downto; f_equal; lia.
Qed.

(* the k-th element of an array signal is labelled with its declared index *)
Theorem array_labels h downto l r g inp fuel2 :
  let rg := IR downto l r in
  let '(s, e) := ir_start_end rg in
  (Z.to_nat (e - s) < fuel2)%nat -> (0 <= e - s)%Z ->
  array_loop h fuel2 s e downto 0%Z g inp = feed h (map index_name (declared_ids rg)) g inp.
Proof.
  cbn zeta. destruct downto; cbn [ir_start_end declared_ids]; intros Hf Hn.
  - rewrite (array_loop_feed h (Z.to_nat (l + 1 - r)) fuel2 r (l + 1)%Z true 0%Z g inp) by lia.
    replace (l - r + 1)%Z with (l + 1 - r)%Z by lia. rewrite map_map. f_equal. apply map_ext. intros j. f_equal. lia.
  - rewrite (array_loop_feed h (Z.to_nat (r + 1 - l)) fuel2 l (r + 1)%Z false 0%Z g inp) by lia.
    replace (r - l + 1)%Z with (r + 1 - l)%Z by lia. rewrite map_map. f_equal. apply map_ext. intros j. f_equal. lia.
Qed.

Example declared_ids_example :
  declared_ids (IR true 3 0) = [3; 2; 1; 0]%Z /\ declared_ids (IR false 1 3) = [1; 2; 3]%Z /\
  map index_name (declared_ids (IR true 1 (-1))) = [[91; 49; 93]; [91; 48; 93]; [91; 45; 49; 93]].
Proof. repeat split; reflexivity. Qed.

(* the fields of a record signal: in declaration order, under their names *)
Fixpoint feed_fields (h : gstate -> name -> N -> list byte -> outcome (gstate * list byte)) (fs : list (name * N))
                     (g : gstate) (inp : list byte) : outcome (gstate * list byte) :=
  match fs with
  | [] => Ok (g, inp)
  | (n, t) :: r => do '(g', inp') <- h g n t inp; feed_fields h r g' inp'
  end.

Theorem record_fields h strings : forall fs names g inp,
  Forall2 (fun f n => nthN strings (fst f) = Some n) fs names ->
  record_loop h strings fs g inp = feed_fields h (combine names (map snd fs)) g inp.
Proof.
  induction fs as [|[fn ft] fr IH]; intros names g inp H; inversion H as [|f0 n0 fr0 nr0 H1 Hr]; subst; cbn [record_loop]; [reflexivity|].
  cbn [fst] in H1. rewrite H1. cbn [of_option bind map snd combine feed_fields].
  destruct (h g n0 ft inp) as [[g' r]| |]; cbn [bind]; [|reflexivity..]. exact (IH nr0 g' r Hr).
Qed.

(* enumerations: width and codes *)
Lemma enum_bits_spec n : (1 <= n)%nat ->
  exists b, enum_bits n = Ok b /\ N.of_nat n <= 2 ^ b /\ (b = 0 \/ 2 ^ (b - 1) < N.of_nat n).
Proof.
  intros Hn. destruct n as [|k]; [lia|]. cbn [enum_bits]. eexists. split; [reflexivity|].
  rewrite Nat2N.inj_succ. generalize (N.of_nat k). intros m.
  destruct (N.eq_dec m 0) as [->|E].
  - cbn. split; [lia|]. left. reflexivity.
  - pose proof (N.size_gt m) as H1.
    split; [lia|]. right. rewrite N.size_log2 by exact E. rewrite N.sub_1_r, N.pred_succ.
    pose proof (N.log2_spec m ltac:(lia)). lia.
Qed.

Lemma enum_lits_codes strings bits : forall lits ii ls,
  enum_lits strings bits ii lits = Ok ls ->
  map fst ls = map (fun k => bin_str bits (ii + N.of_nat k)) (seq 0 (length lits)) /\
  Forall2 (fun l s => nthN strings l = Some s) lits (map snd ls).
Proof.
  induction lits as [|l r IH]; intros ii ls H; cbn [enum_lits] in H.
  - injection H as <-. split; [reflexivity|constructor].
  - destruct (nthN strings l) as [s|] eqn:Es; [|discriminate]. cbn [of_option bind] in H.
    destruct (enum_lits strings bits (ii + 1) r) as [rest| |] eqn:Er; try discriminate. cbn [bind] in H. injection H as <-.
    destruct (IH _ _ Er) as [H1 H2]. cbn [map fst snd length seq]. split.
    + rewrite N.add_0_r. f_equal. rewrite H1, <- seq_shift, map_map. apply map_ext. intros k. f_equal. lia.
    + constructor; assumption.
Qed.
