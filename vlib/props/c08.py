"""C08 - the hierarchy is a well-formed, fully navigable tree."""
import itertools
from .. import core, gen
from . import vcdfam

PID = "C08"
LEVEL = "proof"
RULE = ("HierarchyBuilder call sequences (open scope with/without flatten, add variable, pop) are driven through the real builder "
        "(hook) and the extracted Gallina model of its pointer structure; oracle: a rose-tree specification (open = enter the first "
        "same-named child scope of the nearest non-flattened ancestor, else flatten-marker, else new scope) evaluated in Python: "
        "pre-order walk, full names, vars()/scopes() partition, iter_vars/iter_scopes counts, sibling-scope uniqueness, lookups "
        "return the first declared match, signal refs resolve. Exhaustive: every op list of length <= 6 over {open a, open b, "
        "open '' with flatten, var x, var y, pop}; random lists up to length 200 with re-opening inside re-opened scopes. "
        "Non-trivial: the list re-opens a scope or uses a flattened scope, and has >= 1 variable; distinct op lists.")
ASSUMPTIONS = ["VCD/FST/GHW front ends are covered by C09/C10/C11; here the builder API is driven directly"]
TRUSTED_BASE = ["Python rose-tree specification c08.Spec"]


def hx(s):
    return s.encode().hex() if s else "-"


class Spec:
    def __init__(self):
        self.root = {"kind": "R", "children": [], "name": None, "full": None}
        self.stack = [self.root]        # entries: node or "flat"
        self.nscopes = 0
        self.nvars = 0
        self.panic = False
        self.handles = {}
        self.reopened = False
        self.flat_used = False

    def parent(self):
        for e in reversed(self.stack):
            if e != "flat":
                return e
        self.panic = True
        return None

    def open(self, name, flatten, tpe=0, comp=None):
        p = self.parent()
        if p is None:
            return
        for c in p["children"]:
            if c["kind"] == "S" and c["name"] == name:
                self.stack.append(c)
                self.reopened = True
                return
        if flatten:
            self.stack.append("flat")
            self.flat_used = True
            return
        full = name if p["kind"] == "R" else p["full"] + "." + name
        n = {"kind": "S", "name": name, "full": full, "children": [], "idx": self.nscopes, "tpe": tpe,
             "comp": comp if comp else None}
        self.nscopes += 1
        p["children"].append(n)
        self.stack.append(n)

    def var(self, name, tpe, direction, enc, index, sig):
        p = self.parent()
        if p is None:
            return
        full = name if p["kind"] == "R" else p["full"] + "." + name
        n = {"kind": "V", "name": name, "full": full, "idx": self.nvars, "tpe": tpe, "dir": direction,
             "enc": enc, "index": index, "sig": sig}
        self.nvars += 1
        p["children"].append(n)
        self.handles[sig] = n

    def pop(self):
        if not self.stack:
            self.panic = True
            return
        self.stack.pop()

    def walk(self):
        out = []

        def go(node, d):
            for c in node["children"]:
                if c["kind"] == "S":
                    out.append("%dS%d:%s:%s:%d:%s" % (d, c["idx"], hx(c["name"]), hx(c["full"]), c["tpe"],
                                                      hx(c["comp"]) if c["comp"] else "~"))
                    go(c, d + 1)
                else:
                    out.append("%dV%d:%s:%s:%d:%d:%s:%s:%d" % (d, c["idx"], hx(c["name"]), hx(c["full"]), c["tpe"],
                                                                c["dir"], c["enc"], c["index"], c["sig"]))
        go(self.root, 0)
        return out

    def obs(self, queries):
        w = self.walk()
        scopes = []

        def collect(node):
            for c in node["children"]:
                if c["kind"] == "S":
                    scopes.append(c)
                    collect(c)
        collect(self.root)
        scopes.sort(key=lambda s: s["idx"])

        def refs(node):
            return ".".join(str(c["idx"]) for c in node["children"] if c["kind"] == "V") + "/" + \
                   ".".join(str(c["idx"]) for c in node["children"] if c["kind"] == "S")
        parts = [refs(self.root)] + [refs(s) for s in scopes]
        nsig = (max(self.handles) + 1) if self.handles else 0
        tpes = [self.handles[i]["enc"] if i in self.handles else "-" for i in range(nsig)]
        first = hx(scopes[0]["name"]) if scopes else "~"
        lk = []
        for q in queries:
            if q.startswith("s/"):
                path = [bytes.fromhex(x).decode() if x != "_" else "" for x in q[2:].split("/")] if q[2:] else []
                node = self.lookup_scope(path)
                lk.append(str(node["idx"]) if node else "~")
            else:
                pth, nm, idx = q[2:].split("=")
                path = [bytes.fromhex(x).decode() if x != "_" else "" for x in pth.split("/")] if pth else []
                nm = bytes.fromhex(nm).decode() if nm != "-" else ""
                node = self.root if not path else self.lookup_scope(path)
                r = None
                if node:
                    for c in node["children"]:
                        if c["kind"] == "V" and c["name"] == nm and (idx in ("*", "~") or c["index"] == idx):
                            r = c
                            break
                lk.append(str(r["idx"]) if r else "~")
        return "walk=%s nv=%d ns=%d part=%s nsig=%d tpes=%s first=%s lk=%s" % (
            "|".join(w) or "-", self.nvars, self.nscopes, ";".join(parts), nsig, ",".join(tpes) or "-", first,
            ",".join(lk) or "-")

    def lookup_scope(self, path):
        if not path:
            return None
        node = self.root
        for nm in path:
            nxt = None
            for c in node["children"]:
                if c["kind"] == "S" and c["name"] == nm:
                    nxt = c
                    break
            if nxt is None:
                return None
            node = nxt
        return node


def op_str(op):
    if op[0] == "S":
        return "S:%d:%s:%s:%d" % (1 if op[2] else 0, hx(op[1]), hx(op[4]) if op[4] is not None else "~", op[3])
    if op[0] == "V":
        return "V:%s:%d:%d:%s:%s:%d" % (hx(op[1]), op[2], op[3], op[4], op[5], op[6])
    return "P"


def apply(ops):
    sp = Spec()
    for op in ops:
        if op[0] == "S":
            sp.open(op[1], op[2], op[3], op[4])
        elif op[0] == "V":
            sp.var(op[1], op[2], op[3], op[4], op[5], op[6])
        else:
            sp.pop()
        if sp.panic:
            break
    return sp


def px(s):
    return s.encode().hex() if s else "_"


def make_queries(rng, sp, ops):
    qs = set()
    names = ["a", "b", "", "x", "y", "top", "zz"]

    def paths(node, prefix):
        for c in node["children"]:
            if c["kind"] == "S":
                p = prefix + [c["name"]]
                qs.add("s/" + "/".join(px(x) for x in p))
                paths(c, p)
            else:
                qs.add("v/%s=%s=%s" % ("/".join(px(x) for x in prefix), hx(c["name"]), rng.choice(["*", c["index"], "~", "3/1"])))
    paths(sp.root, [])
    for _ in range(3):
        p = [rng.choice(names) for _ in range(rng.randint(1, 3))]
        qs.add("s/" + "/".join(px(x) for x in p))
        qs.add("v/%s=%s=*" % ("/".join(px(x) for x in p[:-1]), hx(p[-1])))
    return sorted(qs)[:40]


def mk_var(rng, name, sig):
    enc = rng.choice(["b1", "b8", "r", "s", "b33"])
    index = rng.choice(["~", "~", "7/0", "0/0", "3/1", "-1/-4", "0/7"])
    return ("V", name, rng.randrange(35), rng.randrange(7), enc, index, sig)


def run(res, rng, tier, model_ok, replay=None):
    cases = []
    if replay:
        line = replay.get("case") or replay["broken_correspondence"]["case"]
        cases.append({"line": line})
    else:
        alphabet = [("S", "a", False, 0, None), ("S", "b", False, 3, None), ("S", "", True, 0, None),
                    ("V", "x", 15, 0, "b1", "~", 0), ("V", "y", 4, 2, "b8", "7/0", 1), ("P",)]
        maxlen = 6 if tier == "quick" else 7
        for n in range(1, maxlen + 1):
            for ops in itertools.product(alphabet, repeat=n):
                # give variables distinct-ish signal refs
                ops2 = []
                k = 0
                for op in ops:
                    if op[0] == "V":
                        ops2.append(op[:6] + (k % 3,))
                        k += 1
                    else:
                        ops2.append(op)
                sp = apply(ops2)
                line = "hier %s -" % ";".join(op_str(o) for o in ops2)
                c = {"line": line, "klass": "exhaustive-len%d" % n}
                if not sp.panic:
                    c["expect"] = sp.obs([])
                    if (sp.reopened or sp.flat_used) and sp.nvars > 0:
                        c["key"] = line
                else:
                    c["klass"] = "exhaustive-unbalanced"
                cases.append(c)
        res.exhaustive = True
        nrand = 400 if tier == "quick" else 5000
        names = ["a", "b", "c", "", "top", "u0"]
        for _ in range(nrand):
            ops = []
            depth = 0
            sig = 0
            for _ in range(rng.randint(1, 200 if rng.random() < 0.2 else 30)):
                r = rng.random()
                if r < 0.35:
                    nm = rng.choice(names)
                    ops.append(("S", nm, rng.random() < 0.4 and nm == "" or rng.random() < 0.05, rng.randrange(24),
                                rng.choice([None, None, "comp", ""])))
                    depth += 1
                elif r < 0.7:
                    ops.append(mk_var(rng, rng.choice(["x", "y", "z", "a", ""]), rng.choice([sig, sig, rng.randint(0, sig + 3)])))
                    sig += 1
                elif depth > 0:
                    ops.append(("P",))
                    depth -= 1
            sp = apply(ops)
            qs = make_queries(rng, sp, ops)
            line = "hier %s %s" % (";".join(op_str(o) for o in ops) or "-", ";".join(qs) or "-")
            c = {"line": line, "expect": sp.obs(qs), "klass": "random",
                 "key": line if (sp.reopened or sp.flat_used) and sp.nvars > 0 else None}
            cases.append(c)
    vcdfam.run_both(res, cases, "c08", model_ok)
    res.samples = [c["line"][:300] for c in cases[-2:]] + [cases[100]["line"][:200]] if len(cases) > 100 else [c["line"][:300] for c in cases[:2]]


def check_known(entry):
    return False
