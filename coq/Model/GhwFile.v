(* A whole GHW file in the model: the header (Model/GhwHier.v) yields the hierarchy and the decode information, the
   signal sections that follow the end-of-header mark (Model/Ghw.v read_signals) are read with it.
   No proofs live in Model/ files. *)
From WV Require Import Model.Base Generated.Consts Model.Bits Model.WaveMem Model.Hierarchy Model.FstHier Model.Ghw
  Model.GhwAlias Model.GhwHier.
Open Scope N_scope.


(* into_decode_info: the registered signals, the unregistered slots dropped *)
Fixpoint decode_signals (slots : list sig_slot) : outcome (list ghw_sig) :=
  match slots with
  | [] => Ok []
  | None :: r => decode_signals r
  | Some (tp, ref, vec) :: r =>
    do t <- of_option (ghw_tpe_of (N.of_nat tp));
    do rest <- decode_signals r;
    Ok (mk_gs t ref vec :: rest)
  end.

(* VecBuffer::from_vec_info takes the 1-based ids *)
Definition decode_vectors (vs : list vec_info) : list (nat * nat * bool * nat) :=
  map (fun v => (S (vi_min v), S (vi_max v), vi_two v, vi_ref v)) vs.

(* the encoding of every signal reference: that of the first variable declared with it *)
Fixpoint enc_of_ref (calls : list fcall) (ref : nat) : sig_enc :=
  match calls with
  | [] => EncBits 1
  | FcVar _ _ _ enc _ r _ _ :: rest => if Nat.eqb r ref then enc else enc_of_ref rest ref
  | _ :: rest => enc_of_ref rest ref
  end.

(* try_read_directory: the last 12 bytes of a finished file (`TAI\0`, four zero bytes, the offset of the directory) lead to the
   directory, which must be well formed (it is read although its content is not used); a file without tailer has none *)
Fixpoint dir_entries (be : bool) (n : N) (fuel : nat) (inp : list byte) : outcome (list byte) :=
  match fuel with
  | O => Err
  | S f =>
    if n =? 0 then Ok inp
    else
      do '(e, r) <- take 8 inp;
      do _ <- u32_of be (skipn 4 e);
      dir_entries be (n - 1) f r
  end.

Definition try_read_directory (be : bool) (file : list byte) : outcome unit :=
  if (length file <? 12)%nat then Ok tt
  else
    let tailer := skipn (length file - 12) file in
    if negb (list_eqb (firstn 4 tailer) ghw_tailer_section) then Ok tt
    else
      do off <- u32_of be (skipn 8 tailer);
      let at_dir := if off <? N.of_nat (length file) then skipn (N.to_nat off) file else [] in
      do '(mark, r) <- take 4 at_dir;
      if negb (list_eqb mark ghw_directory_section) then Err
      else
        do '(h, r2) <- take 8 r;
        do n <- u32_of be (skipn 4 h);
        do r3 <- dir_entries be n (S (length r2)) r2;
        do '(e, _) <- take 4 r3;
        if list_eqb e ghw_end_directory_section then Ok tt else Err.

(* read_header_internal: the 16 byte header, the directory (if the file has a tailer), then the sections up to EOH *)
Definition ghw_read_header_file (debug : bool) (inp : list byte) : outcome (bool * ghw_header_result) :=
  do '(be0, _) <- read_ghw_header inp;
  do _ <- try_read_directory be0 inp;
  ghw_read_header debug inp.

Section WithExternals.
Variable lz_compress : list byte -> list byte.
Variable cap : N.

Definition ghw_read_file (debug : bool) (inp : list byte)
  : outcome (ghw_header_result * list sig_enc * option (list block * list N)) :=
  do '(be, res) <- ghw_read_header_file debug inp;
  let t := ghr_tracker res in
  do sigs <- decode_signals (tr_signals t);
  let tpes := map (enc_of_ref (ghr_calls res)) (seq 0 (tr_count t)) in
  do body <- read_signals lz_compress cap be tpes sigs (decode_vectors (tr_vectors t)) (ghr_rest res);
  Ok (res, tpes, body).
End WithExternals.
