"""C15 - a truncated VCD loads as a prefix of the complete one."""
from .. import core, gen
from . import vcdfam

PID = "C15"
LEVEL = "proof"
RULE = ("every truncation offset of the body of generated VCD files (cuts inside timestamps, values, identifier codes, "
        "reals, strings, $comment blocks, directly after $enddefinitions $end, at line ends) is loaded single-threaded by "
        "path, through a reader and multi-threaded. Oracle: never PANIC/HANG; ERR, or a waveform whose time table without "
        "its last entry is a prefix of the complete table and whose changes before that last time equal the complete "
        "file's; when the cut is at a line boundary the result is exactly the meaning of the lines present. "
        "Cuts that leave an incomplete last line may panic on this tree (known finding D9): for those only PANIC is "
        "tolerated, every other outcome is still checked. Non-trivial: the cut removes at least one complete line and "
        "keeps at least one; distinct = distinct (file, offset). A cut directly after the text of a line (only its newline missing) "
        "counts as a line boundary: the pending token is flushed at end of input.")
ASSUMPTIONS = ["complete files follow the line discipline of C03 (one change per line) so that 'the lines present' is well defined"]
TRUSTED_BASE = ["Python oracle gen.expected_obs applied to the steps whose lines are present", "prefix predicate c15.prefix_ok"]


def parse_obs(obs):
    parts = obs.split(" ")
    tt = [] if parts[0] == "tt=-" else [int(x, 16) for x in parts[0][3:].split(",")]
    sigs = {}
    for p in parts[1:]:
        if p.startswith("bl="):
            continue
        name, body = p.split("=", 1)
        sigs[name] = [] if body == "-" else [tuple(e.split(":", 2)) for e in body.split(",")]
    return tt, sigs


def prefix_ok(full_obs, cut_obs):
    if cut_obs == "ERR":
        return None
    if not cut_obs.startswith("tt="):
        return "implementation " + cut_obs
    ftt, fs = parse_obs(full_obs)
    ctt, cs = parse_obs(cut_obs)
    keep = max(len(ctt) - 1, 0)
    if ctt[:keep] != ftt[:keep]:
        return "time table without its last entry is not a prefix of the complete table"
    for name, lst in cs.items():
        before = [e for e in lst if int(e[0], 16) < keep]
        fbefore = [e for e in fs.get(name, []) if int(e[0], 16) < keep]
        if before != fbefore:
            return "changes of %s before the last time differ from the complete file" % name
    return None


def line_history(rng, prefix=False):
    from . import c03
    if prefix:
        # several variables, the vectors first: they get the one-character codes, scalars (and reals/strings) get
        # two-character codes that start with a vector's code, so that a cut inside a scalar's code names a vector
        sigs, steps, imp = gen.gen_history(rng, nsigs=rng.randint(4, 6), max_steps=8, time_profile="mixed", widths=[1, 1, 1, 2, 8, 9, 16], kinds="bbbbrs")
        order = sorted(range(len(sigs)), key=lambda i: 0 if (sigs[i].tpe == "b" and sigs[i].width > 1) else 1)
        pos = {old: new for new, old in enumerate(order)}
        sigs = [sigs[i] for i in order]
        steps = [(t, [(pos[si], v) for si, v in ch]) for t, ch in steps]
        return sigs, steps, imp, False
    if rng.random() < 0.5:
        sigs, steps, imp = c03.ld_history(rng, 8)
        return sigs, steps, imp, True
    sigs, steps, imp = gen.gen_history(rng, max_steps=8, time_profile="mixed")
    return sigs, steps, imp, False


def build_lines(rng, sigs, idents, steps, imp):
    """one token group per line; returns list of (line bytes, step index, change index or None)"""
    lines = []
    for k, (t, changes) in enumerate(steps):
        if not (k == 0 and imp):
            lines.append((("#%d\n" % t).encode(), k, None))
        for ci, (si, v) in enumerate(changes):
            lines.append(((gen.change_text(rng, sigs[si], idents[si], v) + "\n").encode("latin1"), k, ci))
        if rng.random() < 0.1:
            lines.append((rng.choice([b"$comment a b c $end\n", b"$comment $end\n", b"$comment 1! #7 $end\n",
                                      b"$comment 1st 0xff x86 zone #12x $end\n"]), k, None))
    return lines


def restricted_steps(steps, imp, lines, nlines):
    """the history formed by the first nlines lines"""
    present = {}
    seen_steps = set()
    for (_, k, ci) in lines[:nlines]:
        seen_steps.add(k)
        if ci is not None:
            present.setdefault(k, []).append(ci)
    out = []
    for k, (t, changes) in enumerate(steps):
        if k not in seen_steps:
            break
        out.append((t, [changes[ci] for ci in present.get(k, [])]))
    return out


def run(res, rng, tier, model_ok, replay=None):
    cases = []
    if replay:
        line = replay.get("case") or replay["broken_correspondence"]["case"]
        cases.append({"line": line})
    else:
        nfiles = 25 if tier == "quick" else 400
        for f in range(nfiles):
            regime = rng.choice(["dense", "dense", "hashed", "prefix"]) if f >= 4 else ["dense", "prefix", "hashed", "prefix"][f]
            sigs, steps, imp, ld = line_history(rng, prefix=(regime == "prefix"))
            if imp and not steps[0][1]:
                steps, imp = steps[1:], False
            if not steps:
                continue
            idents, kind, idx, nuniq = gen.assign_ids(rng, len(sigs), regime)
            hdr = gen.header_text(rng, sigs, idents)
            lines = build_lines(rng, sigs, idents, steps, imp)
            body = b"\n" + b"".join(l for l, _, _ in lines)
            sarg = gen.sigs_arg(sigs, kind, idx, nuniq, idents)
            table, out = gen.expected_obs(sigs, steps, imp)
            full = gen.obs_string(table, out, idx)
            # offsets of line ends, and of the ends of the text of each line (newline still missing)
            ends = {1: 0}
            text_ends = {}
            pos = 1
            for n, (l, _, _) in enumerate(lines):
                text_ends[pos + len(l.rstrip(b"\r\n"))] = n + 1
                pos += len(l)
                ends[pos] = n + 1
            for cut in range(0, len(body) + 1):
                part = body[:cut]
                tail = part.rsplit(b"\n", 1)[-1] if b"\n" in part else part
                incomplete = len(tail.strip(b" \t\r")) > 0 and cut > 0
                complete_text = cut in text_ends and cut not in ends
                if complete_text:
                    incomplete = False        # the whole text of the line is present, only the newline is missing
                if cut == 0:
                    incomplete = False
                mode = rng.choice(["st", "rd", "mt:3:7", "st"])
                if cut <= 1:
                    mode = rng.choice(["st", "rd", "mt:3:7", "mt:2:1", "hf:1"])
                if mode.startswith("mt") and cut > 1:
                    from . import c03
                    ok, nchunks = c03.chunks_ok(part, 3, 7)
                    size = -(-len(part) // max(nchunks, 1)) if part else 1
                    if (not ld) or incomplete or complete_text or cut < 12 or not ok or (imp and nchunks > 1 and not c03.implicit_ok(part, size)):
                        mode = "st"
                c = {"line": "vcd %s %s %s %s" % (mode, sarg, hdr.hex(), gen.hexs(part)),
                     "klass": ("incomplete-line-" if incomplete else "line-boundary-") + mode.split(":")[0]}
                if (cut in ends or complete_text) and not incomplete:
                    nl = text_ends[cut] if complete_text else ends[cut]
                    st = restricted_steps(steps, imp, lines, nl)
                    imp2 = imp and len(st) > 0
                    t2, o2 = gen.expected_obs(sigs, st, imp2) if st else ([], {i: [] for i in range(len(sigs))})
                    c["expect"] = gen.obs_string(t2, o2, idx)
                    if 0 < nl < len(lines):
                        c["key"] = (f, cut)
                else:
                    # a cut inside a `$comment ... $end` line is not a cut inside a change: the finding class D9 does not apply
                    in_comment = tail.lstrip(b" \t").startswith(b"$comment")
                    # a cut inside an identifier code can leave the complete code of ANOTHER declared variable: then the
                    # last line is a complete change of that variable, not a damaged one, and D9 does not apply
                    toks = tail.split()
                    names_other = False
                    tpe_of = {ident: sg for ident, sg in zip(idents, sigs)}
                    if len(toks) == 1 and toks[0][:1] in b"01xXzZhHuUwWlL-" and toks[0][1:] in tpe_of:
                        sg = tpe_of[toks[0][1:]]
                        # 0/1/x/z are extended to any width; another state character on a wider vector is a value the
                        # loader rejects with a panic in complete files too
                        names_other = sg.tpe == "b" and (sg.width == 1 or toks[0][:1] in b"01xXzZ")
                    if len(toks) == 2 and len(toks[0]) > 1 and toks[1] in tpe_of:
                        sg = tpe_of[toks[1]]
                        k = toks[0][:1].lower()
                        valid = all(ch in b"01xXzZhHuUwWlL-" for ch in toks[0][1:])      # a value the variable can take
                        names_other = (k == b"b" and sg.tpe == "b" and valid and (len(toks[0]) - 1 == sg.width or
                                                                        (len(toks[0]) - 1 < sg.width and toks[0][1:2] in b"01xXzZ"))) or \
                                      (k == b"r" and sg.tpe == "r") or (k == b"s" and sg.tpe == "s")
                    # (a value of one kind that lands on a variable of another kind - `r1.5` on a bit vector - panics on
                    # this tree as it does in a complete file: that stays within the finding class D9)
                    if names_other:
                        in_comment = True          # same treatment: PANIC is not tolerated

                    def pred(obs, full=full, incomplete=incomplete, in_comment=in_comment):
                        o = vcdfam.strip_bl(obs)
                        if o == "PANIC" and incomplete and not in_comment:
                            return None            # known finding D9 (class CutInsideChange)
                        return prefix_ok(full, o)
                    c["pred"] = pred
                    c["key"] = (f, cut)
                cases.append(c)
    vcdfam.run_both(res, cases, "c15", model_ok)
    res.samples = [c["line"][:300] for c in cases[:2]] + [cases[-1]["line"][:300]]


def check_known(entry):
    line = entry["case"]
    io = core.run_cases(core.WV_DEBUG, [line], "c15k")[0]
    return io == "PANIC"
