(* Property C10: FST files load faithfully.  Pinned: the value path - fst::SignalWriter::{add_change, finish} and
   expand_entries (the on-the-fly widening), for bit-vector signals of width >= 1 (fst_writer_spec) and for real and
   string signals (fst_writer_rs_spec).  The FST container (blocks,
   compression, hierarchy bytes, time chain) is decoded by the dependency fst-reader and is not modelled; the
   hierarchy and whole-file behaviour are decided by the file-level generators (MANIFEST level_note). *)
From WV Require Import Model.Base Model.Bits Model.WaveMem Model.FstLoad Proofs.BitsProofs Proofs.StoreProofs
  Proofs.EncoderProofs Proofs.FstProofs Proofs.RealStringEnc Proofs.FstRealString.
Open Scope N_scope.

(* the signal built from the changes the FST reader delivers reports exactly those changes (time index, least kind,
   characters; equal neighbours once), in whatever order 2-, 4- and 9-state values first appear *)
Check fst_writer_spec :
  forall bits, (1 <= bits)%nat -> forall changes sw,
  Forall (fst_change_ok bits) changes ->
  sw_run (sw_new (EncBits bits)) changes = Ok sw ->
  exists A, Forall2 fst_decodes A changes /\ observe_signal (sw_finish sw) = outcome_map render_of (dedup A).

(* widening re-encodes every stored entry into a stored form of the same value *)
Check expand_one_stored :
  forall from to bits l syms w, (1 <= bits)%nat -> states_num from < states_num to ->
  states_num l <= states_num from -> stored from bits l syms w -> stored to bits l syms (expand_one from to bits w).
Check expand_entries_spec :
  forall from to bits (ws : list (list byte)), (1 <= bits)%nat -> states_num from < states_num to ->
  Forall (fun w => length w = bpe_of from bits) ws ->
  expand_entries from to (concat ws) bits = Ok (concat (map (expand_one from to bits) ws)).

(* get_value_at on any stored form (exact or widened) *)
Check stored_render :
  forall mx bits l syms w pre post (k : nat), (1 <= bits)%nat -> states_num l <= states_num mx ->
  stored mx bits l syms w -> length pre = (k * bpe_of mx bits)%nat ->
  get_value_at (SigBits mx bits (snd (get_len_and_meta mx bits)) (bpe_of mx bits) (pre ++ w ++ post)) k
  = do s <- lookup_all (lookup_table l) syms; Ok (kind_of_states l, s).

(* real and string signals: every delivered change is reported with its time index and bytes, a change repeating the
   value before it once *)
Check fst_writer_rs_spec :
  forall str changes sw, Forall (fst_rs_ok str) changes ->
  sw_run (sw_new (rs_tpe str)) changes = Ok sw ->
  observe_signal (sw_finish sw)
  = Ok (map (fun a : N * list byte => (fst a, if str then KString else KReal, snd a))
            (gdedup (map (fun c : N * fst_value => (fst c, fv_payload (snd c))) changes))).

Print Assumptions fst_writer_spec.
Print Assumptions fst_writer_rs_spec.
Print Assumptions expand_one_stored.
Print Assumptions expand_entries_spec.
Print Assumptions stored_render.
