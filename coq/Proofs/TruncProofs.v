(* Property C15, the line-boundary clause: a VCD body written one token group per line and cut at the end of a line
   loads - single-threaded - as exactly the lines present, and that is a prefix of what the complete body loads as. *)
From Coq Require Import Lia.
From WV Require Import Model.Base Generated.Consts Model.Bits Model.Leb128 Model.WaveMem Model.VcdBody
  Spec.TimeSpec Spec.StoreSpec Proofs.BitsProofs Proofs.StoreProofs Proofs.TimeTableProofs Proofs.EncoderProofs
  Proofs.CanonProofs Proofs.BodyProofs Proofs.VcdStreamProofs Proofs.PrefixProofs Proofs.TokenProofs Proofs.TilingProofs
  Proofs.MtProofs.
Open Scope N_scope.

Lemma body_app A B : body (A ++ B) = body A ++ bytes_of B.
Proof. unfold body, bytes_of. now rewrite map_app, concat_app. Qed.

Section Trunc.
Variable parse_f64 : list byte -> option (list byte).
Variable lz_compress : list byte -> list byte.
Variable lz_decompress : list byte -> nat -> option (list byte).
Hypothesis lz_ok : forall d n, (length d <= n)%nat -> lz_decompress (lz_compress d) n = Some d.
Variable cap : N.
Hypothesis cap_pos : 1 <= cap.
Hypothesis cap_u16 : cap <= 65536.

Lemma st_lines debug tpes lookup ls blocks ttb : Forall line_ok ls ->
  read_values_st parse_f64 lz_compress cap debug tpes lookup (body ls) = Ok (blocks, ttb) ->
  exists ve ops e,
    feed_events parse_f64 lz_compress cap lookup (mk_ve (enc_new tpes) true false) (evs ls) = Ok ve /\
    ops_of lookup true false (evs ls) = Some ops /\
    run_ops parse_f64 lz_compress cap (enc_new tpes) ops = Ok e /\
    enc_finish lz_compress e = Ok (blocks, ttb).
Proof.
  intros Hok H. unfold read_values_st in H.
  destruct (read_single_stream _ _ _ _ _ _ _ _ _) as [e| |] eqn:Er; try discriminate. cbn [bind] in H.
  unfold read_single_stream in Er. rewrite body_render, (parse_body_lines debug ls _ Hok) in Er.
  2:{ rewrite <- body_render. unfold body. cbn [length]. lia. }
  cbn [fst snd] in Er. fold (evs ls) in Er.
  destruct (feed_events parse_f64 lz_compress cap lookup (mk_ve (enc_new tpes) true false) (evs ls)) as [ve| |] eqn:Ef; try discriminate.
  cbn [bind] in Er. inversion Er; subst e.
  destruct (feed_events_ops parse_f64 lz_compress cap lookup _ _ _ _ _ Ef) as (ops & Ho & Hro).
  exists ve, ops, (ve_enc ve). repeat split; assumption.
Qed.

Theorem truncated_at_line_end debug tpes lookup (A B : list line) id bits b1 t1 b2 t2 :
  Forall line_ok (A ++ B) -> (1 <= bits)%nat -> nth_error tpes id = Some (EncBits bits) ->
  read_values_st parse_f64 lz_compress cap debug tpes lookup (body A) = Ok (b1, t1) ->
  read_values_st parse_f64 lz_compress cap debug tpes lookup (body A ++ bytes_of B) = Ok (b2, t2) ->
  N.of_nat (length t2) < 4294967296 ->
  (forall ops, ops_of lookup true false (evs (A ++ B)) = Some ops ->
               N.of_nat (count_vcd id ops) * (10 + N.of_nat bits) < 4294967264) ->
  is_prefix t1 t2 /\
  exists ops1 R s1 s2 l2,
    (* exactly the lines present *)
    ops_of lookup true false (evs A) = Some ops1 /\ t1 = accepted (times_of ops1) /\
    Forall2 (decodes bits) R (recorded id ops1 [] false) /\
    load_signal lz_decompress b1 id (EncBits bits) = Ok s1 /\ observe_signal s1 = outcome_map render_of (dedup R) /\
    (* a prefix of the complete load *)
    load_signal lz_decompress b2 id (EncBits bits) = Ok s2 /\ observe_signal s2 = Ok l2 /\
    exists l1, observe_signal s1 = Ok l1 /\ is_prefix l1 l2.
Proof.
  intros Hok Hb Htp H1 H2 Hl2 Hbud. rewrite <- body_app in H2.
  pose proof (Forall_app line_ok A B) as [Hsplit _]. destruct (Hsplit Hok) as [HokA HokB]. clear Hsplit.
  destruct (st_lines debug tpes lookup A b1 t1 HokA H1) as (ve1 & ops1 & e1 & Hf1 & Ho1 & Hr1 & Hfin1).
  destruct (st_lines debug tpes lookup (A ++ B) b2 t2 Hok H2) as (ve2 & ops2 & e2 & Hf2 & Ho2 & Hr2 & Hfin2).
  rewrite evs_app in Ho2. destruct (ops_of_app lookup _ _ _ _ _ Ho2) as (ops1' & more & Ho1' & ->).
  rewrite Ho1 in Ho1'. inversion Ho1'; subst ops1'.
  rewrite <- evs_app in Ho2. specialize (Hbud _ Ho2).
  pose proof (ops_of_ok lookup id bits _ _ _ _ Ho2) as Hopok.
  destruct (prefix_history_prefix_report parse_f64 lz_compress lz_decompress lz_ok cap cap_pos cap_u16 id bits tpes ops1 more _ _ b1 t1 b2 t2
              Hb Htp Hopok Hbud Hr1 Hr2 Hfin1 Hfin2 Hl2) as (Hpt & s1 & s2 & l1 & l2 & Hs1 & Hob1 & Hs2 & Hob2 & Hpl).
  split; [exact Hpt|].
  assert (Hl1 : N.of_nat (length t1) < 4294967296).
  { destruct Hpt as (r & ->). rewrite app_length in Hl2. lia. }
  assert (Hbud1 : N.of_nat (count_vcd id ops1) * (10 + N.of_nat bits) < 4294967264).
  { rewrite count_vcd_app in Hbud. lia. }
  apply Forall_app in Hopok as [Hopok1 _].
  destruct (storage_transparent parse_f64 lz_compress lz_decompress lz_ok cap cap_pos cap_u16 id bits Hb tpes ops1 e1 b1 t1
              Htp Hopok1 Hbud1 Hr1 Hfin1 Hl1) as (R & sig & HR & Hsig & Hobs).
  rewrite Hs1 in Hsig. inversion Hsig; subst sig.
  destruct (time_table_spec parse_f64 lz_compress cap cap_pos tpes ops1 e1 Hr1) as (bb1 & Ht1). rewrite Hfin1 in Ht1. inversion Ht1; subst.
  exists ops1, R, s1, s2, l2. repeat split; try assumption.
  exists l1. split; assumption.
Qed.

End Trunc.
