(* Property C03: multi-threaded VCD loading equals single-threaded loading.
   Pinned so far: the storage half - whatever the per-thread encoders recorded is reported, in chunk order,
   with shifted time indices (appended_transparent), and the byte machine composes over concatenation
   (run_bytes_app: a chunk's parse continues exactly where the previous bytes left the state).
   NOT proved: that the chunk hand-over (skip to the first line feed, ignore values before the first time stamp,
   stop at the first time stamp that starts beyond the chunk) makes the concatenated per-thread recordings equal
   to the sequential recording; that part is decided by the correspondence run and the oracle (and has the known
   findings D8/D15/D16). *)
From WV Require Import Model.Base Model.Bits Model.WaveMem Model.VcdBody Spec.TimeSpec Spec.StoreSpec
  Proofs.TimeTableProofs Proofs.StoreProofs Proofs.EncoderProofs Proofs.BodyProofs.
Open Scope N_scope.

Check appended_transparent :
  forall (parse_f64 : list byte -> option (list byte)) (lz_compress : list byte -> list byte)
         (lz_decompress : list byte -> nat -> option (list byte)),
  (forall d n, (length d <= n)%nat -> lz_decompress (lz_compress d) n = Some d) ->
  forall cap, 1 <= cap -> cap <= 65536 -> forall id bits, (1 <= bits)%nat ->
  forall tpes (opss : list (list enc_op)) (encs : list encoder) first others e blocks ttb,
  nth_error tpes id = Some (EncBits bits) ->
  Forall2 (fun ops en => run_ops parse_f64 lz_compress cap (enc_new tpes) ops = Ok en) opss encs ->
  Forall (fun ops => Forall (op_ok id bits) ops /\ N.of_nat (count_vcd id ops) * (10 + N.of_nat bits) < 4294967264) opss ->
  encs = first :: others ->
  append_all lz_compress first others = Ok e ->
  enc_finish lz_compress e = Ok (blocks, ttb) -> N.of_nat (length ttb) < 4294967296 ->
  exists Rs sig,
    Forall2 (fun R ops => Forall2 (decodes bits) R (recorded id ops [] false)) Rs opss /\
    load_signal lz_decompress blocks id (EncBits bits) = Ok sig /\
    observe_signal sig
    = outcome_map render_of
        (dedup (cat_shift (combine Rs (map (fun ops => N.of_nat (length (accepted (times_of ops)))) opss)) 0)).

Check run_bytes_app :
  forall debug stop_pos a b s,
  run_bytes debug stop_pos (a ++ b) s
  = match run_bytes debug stop_pos a s with
    | Finished r => Finished r
    | Running s' => run_bytes debug stop_pos b s'
    end.

Print Assumptions appended_transparent.
Print Assumptions run_bytes_app.
