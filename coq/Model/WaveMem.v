(* Model of wellen/src/wavemem.rs: SignalEncoder, Encoder (time table, blocks, append),
   SignalEncodingMetaData, Block::get_offset_and_length, Reader::{collect_signal_meta_data,
   load_signal}, load_fixed_len_signal, load_reals, load_signal_strings.
   lz4_flex and f64 parsing are Section variables (assumptions A-lz4, A-f64-parse). *)
From WV Require Import Model.Base Generated.Consts Model.Bits Model.Leb128.
Open Scope N_scope.

Inductive sig_enc := EncString | EncReal | EncBits (bits : nat).   (* SignalEncoding *)

(* ------------------------------------------------------------------ SignalEncoder *)

Record signal_encoder := mk_se {
  se_data : list byte;
  se_tpe : sig_enc;
  se_prev : N;            (* prev_time_idx : u16 *)
  se_max : states
}.

Definition se_new (tpe : sig_enc) : signal_encoder := mk_se [] tpe 0 Two.

(* u16 subtraction: panics on underflow (debug) *)
Definition nsub (a b : N) : outcome N := if b <=? a then Ok (a - b) else Panic.

Definition is_b (c : byte) : bool := (c =? 98) || (c =? 66).

(* strips `b`/`B` and the pymtl3 `0b` prefix *)
Definition strip_prefix (value : list byte) : outcome (list byte) :=
  match value with
  | [] => Panic                                   (* value[0] *)
  | c :: r =>
    let vb := if is_b c then r else value in
    if (length vb <=? 2)%nat then Ok vb
    else match vb with
         | 48 :: 98 :: r2 => Ok r2
         | _ => Ok vb
         end
  end.

Section WithExternals.
(* A-f64-parse: std's `str::parse::<f64>` on the text after `r`, as the 8 little endian bytes *)
Variable parse_f64 : list byte -> option (list byte).
(* A-lz4: lz4_flex::compress / decompress(input, min_uncompressed_size) *)
Variable lz_compress : list byte -> list byte.
Variable lz_decompress : list byte -> nat -> option (list byte).
(* block capacity: BlockTimeIdx::MAX *)
Variable cap : N.

(* SignalEncoder::add_vcd_change *)
Definition add_vcd_change (se : signal_encoder) (time_index : N) (value : list byte) : outcome signal_encoder :=
  do delta <- nsub time_index (se_prev se);
  match se_tpe se with
  | EncBits len =>
    do value_bits <- strip_prefix value;
    if Nat.eqb len 1 then
      match value_bits with
      | [] => Panic                                          (* value_bits[0] *)
      | c :: _ =>
        match bit_char_to_num c with
        | None => Panic
        | Some bv =>
          Ok (mk_se (se_data se ++ leb_write (delta * 16 + bv)) (se_tpe se) time_index
                    (join (se_max se) (from_value bv)))
        end
      end
    else
      match check_states value_bits with
      | None => Panic
      | Some st =>
        do data_to_write <-
           (if Nat.eqb (length value_bits) len then Ok value_bits
            else do e <- expand_special_vector_cases value_bits len;
                 match e with None => Panic | Some x => Ok x end);
        do packed <- write_n_state st data_to_write None;
        Ok (mk_se (se_data se ++ leb_write (delta * 4 + states_num st) ++ packed) (se_tpe se)
                  time_index (join (se_max se) st))
      end
  | EncString =>
    match value with
    | [] => Panic
    | c :: r =>
      if (c =? 115) || (c =? 83) then
        Ok (mk_se (se_data se ++ leb_write delta ++ leb_write (N.of_nat (length r)) ++ r)
                  (se_tpe se) time_index (se_max se))
      else Panic
    end
  | EncReal =>
    match value with
    | [] => Panic
    | c :: r =>
      if (c =? 114) || (c =? 82) then
        match parse_f64 r with
        | None => Panic
        | Some le => Ok (mk_se (se_data se ++ leb_write delta ++ le) (se_tpe se) time_index (se_max se))
        end
      else Panic
    end
  end.

(* SignalEncoder::add_n_bit_change (GHW path): `value` is already packed with `st` *)
Definition add_n_bit_change (se : signal_encoder) (time_index : N) (value : list byte) (st : states)
  : outcome signal_encoder :=
  do delta <- nsub time_index (se_prev se);
  let mx := join (se_max se) st in
  match se_tpe se with
  | EncBits bits =>
    if Nat.eqb bits 1 then
      match value with
      | [v0] => if 15 <? v0 then Panic                          (* debug_assert!(value[0] <= 0xf) *)
                else Ok (mk_se (se_data se ++ leb_write (delta * 16 + v0)) (se_tpe se) time_index mx)
      | _ => Panic                                              (* debug_assert_eq!(value.len(), 1) *)
      end
    else
      let required := div_ceil bits (per_byte st) in
      do drop <- usub (length value) required;
      let value := skipn drop value in
      let min_states := check_min_state value st in
      do packed <- (if states_eqb min_states st then Ok value
                    else compress_template value st min_states bits);
      (* debug build: "make sure the leading bits are 0" *)
      let in_first := (N.of_nat bits * sbits min_states) mod 8 in
      match packed with
      | [] => Panic                                             (* self.data[data_start_index] *)
      | b0 :: _ =>
        if (0 <? in_first) && (2 ^ in_first <=? b0) then Panic
        else Ok (mk_se (se_data se ++ leb_write (delta * 4 + states_num min_states) ++ packed)
                       (se_tpe se) time_index mx)
      end
  | _ => Panic
  end.

(* SignalEncoder::add_real_change; value given as its 8 little endian bytes *)
Definition add_real_change (se : signal_encoder) (time_index : N) (le : list byte) : outcome signal_encoder :=
  do delta <- nsub time_index (se_prev se);
  Ok (mk_se (se_data se ++ leb_write delta ++ le) (se_tpe se) time_index (se_max se)).

(* SignalEncodingMetaData *)
Inductive compression := Compressed (uncompressed_len : N) | Uncompressed.
Record enc_meta := mk_meta { em_comp : compression; em_max : states }.

Definition ndiv_ceil (a b : N) : N := (a + b - 1) / b.

Definition meta_compressed (mx : states) (uncompressed_len : N) : enc_meta :=
  mk_meta (Compressed (ndiv_ceil (u32_wrap uncompressed_len) signal_decompressed_len_div
                       * signal_decompressed_len_div)) mx.

Definition meta_encode (m : enc_meta) : N :=
  match em_comp m with
  | Compressed len => (ndiv_ceil (u32_wrap len) signal_decompressed_len_div) * 8 + 4 + states_num (em_max m)
  | Uncompressed => states_num (em_max m)
  end.

Definition meta_decode (data : N) : outcome enc_meta :=
  do mx <- of_option (states_of_num (data mod 4));
  if (data / 4) mod 2 =? 1 then
    Ok (mk_meta (Compressed (u32_wrap (((data / 8) mod 4294967296) * signal_decompressed_len_div))) mx)
  else Ok (mk_meta Uncompressed mx).

(* SignalEncoder::finish *)
Definition se_finish (se : signal_encoder) : signal_encoder * option (list byte * enc_meta) :=
  let se' := mk_se [] (se_tpe se) 0 (se_max se) in
  match se_data se with
  | [] => (se', None)
  | data =>
    if (N.of_nat (length data) <? min_size_to_compress) || skip_compression
    then (se', Some (data, mk_meta Uncompressed (se_max se)))
    else
      let compressed := lz_compress data in
      if (length data <=? length compressed + 1)%nat
      then (se', Some (data, mk_meta Uncompressed (se_max se)))
      else (se', Some (compressed, meta_compressed (se_max se) (N.of_nat (length data))))
  end.

(* ------------------------------------------------------------------ Encoder *)

Record block := mk_block {
  b_start : N;
  b_tt : list N;
  b_offsets : list (option nat);
  b_data : list byte
}.

(* The time table under construction is kept newest-first (`e_ttr`) together with its length
   (`e_len`, a ghost field: Vec::len is O(1)); the public table is `rev e_ttr`. *)
Record encoder := mk_enc {
  e_ttr : list N;
  e_len : N;
  e_signals : list signal_encoder;
  e_new : bool;           (* has_new_data *)
  e_skip : bool;          (* skipping_time_step *)
  e_blocks : list block
}.

Definition enc_new (tpes : list sig_enc) : encoder :=
  mk_enc [] 0 (map se_new tpes) false false [].

Fixpoint finish_signals (sigs : list signal_encoder) (data : list byte)
  : list signal_encoder * list (option nat) * list byte :=
  match sigs with
  | [] => ([], [], data)
  | se :: r =>
    let '(se', fin) := se_finish se in
    match fin with
    | Some (sd, meta) =>
      let data' := data ++ leb_write (meta_encode meta) ++ sd in
      let '(r', offs, dfin) := finish_signals r data' in
      (se' :: r', Some (length data) :: offs, dfin)
    | None =>
      let '(r', offs, dfin) := finish_signals r data in
      (se' :: r', None :: offs, dfin)
    end
  end.

Fixpoint last_opt {A} (l : list A) : option A :=
  match l with
  | [] => None
  | [x] => Some x
  | _ :: r => last_opt r
  end.

(* Encoder::finish_block *)
Definition finish_block (e : encoder) : outcome encoder :=
  if negb (e_new e) then Ok e
  else
    let '(sigs, offsets, data) := finish_signals (e_signals e) [] in
    do start_time <- of_option (last_opt (e_ttr e));              (* time_table.first().unwrap() *)
    do end_time <- of_option (hd_error (e_ttr e));                (* time_table.last().unwrap() *)
    Ok (mk_enc [end_time] 1 sigs false (e_skip e)
               (e_blocks e ++ [mk_block start_time (rev_append (e_ttr e) []) offsets data])).

(* Encoder::time_change *)
Definition time_change (e : encoder) (time : N) : outcome encoder :=
  let continue_ (e : encoder) :=
    do e1 <- (if cap <=? e_len e
              then do e0 <- finish_block e;                        (* followed by time_table.clear() *)
                   Ok (mk_enc [] 0 (e_signals e0) (e_new e0) (e_skip e0) (e_blocks e0))
              else Ok e);
    Ok (mk_enc (time :: e_ttr e1) (e_len e1 + 1) (e_signals e1) true false (e_blocks e1)) in
  match hd_error (e_ttr e) with
  | Some prev =>
    match N.compare prev time with
    | Eq => Ok (mk_enc (e_ttr e) (e_len e) (e_signals e) (e_new e) false (e_blocks e))
    | Gt => Ok (mk_enc (e_ttr e) (e_len e) (e_signals e) (e_new e) true (e_blocks e))
    | Lt => continue_ e
    end
  | None => continue_ e
  end.

Definition with_signal (e : encoder) (id : nat) (f : signal_encoder -> N -> outcome signal_encoder)
  : outcome encoder :=
  match e_ttr e with
  | [] => Panic                                  (* assert!(!self.time_table.is_empty()) *)
  | _ =>
    if e_skip e then Ok e
    else
      let time_idx := u16_wrap (e_len e - 1) in
      do se <- of_option (nth_error (e_signals e) id);
      do se' <- f se time_idx;
      Ok (mk_enc (e_ttr e) (e_len e) (list_update (e_signals e) id se') true (e_skip e) (e_blocks e))
  end.

(* Encoder::vcd_value_change / raw_value_change / real_change *)
Definition vcd_value_change (e : encoder) (id : nat) (value : list byte) : outcome encoder :=
  with_signal e id (fun se t => add_vcd_change se t value).
Definition raw_value_change (e : encoder) (id : nat) (value : list byte) (st : states) : outcome encoder :=
  with_signal e id (fun se t => add_n_bit_change se t value st).
Definition real_change (e : encoder) (id : nat) (le : list byte) : outcome encoder :=
  with_signal e id (fun se t => add_real_change se t le).

(* Encoder::append *)
Definition append (e other : encoder) : outcome encoder :=
  do e1 <- finish_block e;
  do o1 <- finish_block other;
  match e_blocks o1 with
  | [] => Ok e1
  | first :: _ =>
    do last_block <- of_option (last_opt (e_blocks e1));             (* self.blocks.last().unwrap() *)
    do us_end <- of_option (last_opt (b_tt last_block));             (* end_time() *)
    if us_end <=? b_start first
    then Ok (mk_enc (e_ttr e1) (e_len e1) (e_signals e1) (e_new e1) (e_skip e1) (e_blocks e1 ++ e_blocks o1))
    else Panic                                                       (* assert! chronological *)
  end.

(* encoders.reduce(append): the per-thread encoders are appended in chunk order *)
Fixpoint append_all (acc : encoder) (l : list encoder) : outcome encoder :=
  match l with
  | [] => Ok acc
  | o :: r => do a <- append acc o; append_all a r
  end.

(* Encoder::finish: (blocks, combined time table) *)
Definition enc_finish (e : encoder) : outcome (list block * list N) :=
  do e1 <- finish_block e;
  Ok (e_blocks e1, flat_map b_tt (e_blocks e1)).

(* operation sequences on one encoder (the histories properties C02/C04 quantify over) *)
Inductive enc_op :=
| OpTime (t : N)
| OpVcd (id : nat) (value : list byte)
| OpRaw (id : nat) (value : list byte) (st : states)
| OpReal (id : nat) (le : list byte).

Definition run_op (e : encoder) (op : enc_op) : outcome encoder :=
  match op with
  | OpTime t => time_change e t
  | OpVcd id v => vcd_value_change e id v
  | OpRaw id v st => raw_value_change e id v st
  | OpReal id le => real_change e id le
  end.

Fixpoint run_ops (e : encoder) (ops : list enc_op) : outcome encoder :=
  match ops with
  | [] => Ok e
  | op :: r => do e' <- run_op e op; run_ops e' r
  end.

(* ------------------------------------------------------------------ Reader *)

(* Block::get_offset_and_length *)
Fixpoint first_some (l : list (option nat)) : option nat :=
  match l with [] => None | Some x :: _ => Some x | None :: r => first_some r end.

Definition get_offset_and_length (b : block) (id : nat) : outcome (option (nat * nat)) :=
  match nth_error (b_offsets b) id with
  | None => Panic                                                    (* self.offsets[id.index()] *)
  | Some None => Ok None
  | Some (Some offset) =>
    let next_offset := match first_some (skipn (S id) (b_offsets b)) with
                       | Some x => x | None => length (b_data b) end in
    do len <- usub next_offset offset;
    Ok (Some (offset, len))
  end.

(* Reader::collect_signal_meta_data: (time_idx_offset, data, meta) per block holding the signal *)
Fixpoint collect_meta (blocks : list block) (id : nat) (time_idx_offset : N)
  : outcome (list (N * list byte * enc_meta)) :=
  match blocks with
  | [] => Ok []
  | b :: r =>
    do ol <- get_offset_and_length b id;
    do rest <- collect_meta r id (u32_wrap (time_idx_offset + N.of_nat (length (b_tt b))));
    match ol with
    | None => Ok rest
    | Some (start, len) =>
      let raw := firstn len (skipn start (b_data b)) in
      match leb_read raw with
      | None => Panic                                                (* unwrap *)
      | Some (meta_raw, data_block) =>
        do meta <- meta_decode meta_raw;
        Ok ((time_idx_offset, data_block, meta) :: rest)
      end
    end
  end.

Definition max_states_of (l : list (N * list byte * enc_meta)) : states :=
  match l with
  | [] => Nine
  | (_, _, m) :: r => fold_left (fun a x => join a (em_max (snd x))) r (em_max m)
  end.

(* loader state: time_indices, data bytes / strings *)
Record load_acc := mk_acc { la_idx : list N; la_bytes : list byte; la_strings : list (list byte) }.

(* load_fixed_len_signal: one iteration per leb128 header that can be read; fuel = input length *)
Fixpoint load_fixed (fuel : nat) (data : list byte) (last_time_idx : N) (bits : nat)
         (signal_states : states) (acc : load_acc) : outcome load_acc :=
  match fuel with
  | O => Ok acc
  | S f =>
    match leb_read data with
    | None => Ok acc                                           (* while let Ok(..) ends *)
    | Some (value, data1) =>
      let raw := u32_wrap value in
      let '(len, has_meta) := get_len_and_meta signal_states bits in
      let bytes_per_entry := get_bytes_per_entry len has_meta in
      do '(entry, delta, data2) <-
        (if Nat.eqb bits 1 then
           let v := raw mod 16 in
           Ok ([N.lor v (states_num (from_value v) * 64)], raw / 16, data1)
         else
           do local <- of_option (states_of_num (raw mod 4));
           let num_bytes := div_ceil bits (per_byte local) in
           if (length data1 <? num_bytes)%nat then Panic           (* read_exact().unwrap() *)
           else
             let buf := firstn num_bytes data1 in
             let data2 := skipn num_bytes data1 in
             let '(local_len, local_has_meta) := get_len_and_meta local bits in
             let meta_data := states_num local * 64 in
             do entry <-
               (if Nat.eqb local_len len && Bool.eqb local_has_meta has_meta then
                  if has_meta then Ok (meta_data :: buf)
                  else match buf with
                       | b0 :: br => Ok (N.lor meta_data b0 :: br)
                       | [] => Panic
                       end
                else
                  do pad <- (if has_meta then usub len local_len
                             else do x <- usub len local_len; usub x 1);
                  Ok (meta_data :: zeros pad ++ buf));
             Ok (entry, raw / 4, data2));
      let last' := last_time_idx + delta in
      let '(changed, out) := check_if_changed_and_truncate bytes_per_entry (la_bytes acc ++ entry) in
      let acc' := if changed then mk_acc (la_idx acc ++ [last']) out (la_strings acc)
                  else mk_acc (la_idx acc) out (la_strings acc) in
      load_fixed f data2 last' bits signal_states acc'
    end
  end.

(* load_reals *)
Fixpoint load_reals (fuel : nat) (data : list byte) (last_time_idx : N) (acc : load_acc) : outcome load_acc :=
  match fuel with
  | O => Ok acc
  | S f =>
    match leb_read data with
    | None => Ok acc
    | Some (value, data1) =>
      let last' := last_time_idx + u32_wrap value in
      if (length data1 <? 8)%nat then Panic
      else
        let buf := firstn 8 data1 in
        let out := la_bytes acc in
        let changed := if Nat.eqb (length out) 0 then true
                       else negb (list_eqb (skipn (length out - 8) out) buf) in
        let acc' := if changed then mk_acc (la_idx acc ++ [last']) (out ++ buf) (la_strings acc) else acc in
        load_reals f (skipn 8 data1) last' acc'
    end
  end.

(* load_signal_strings (String::from_utf8_lossy is the identity on valid UTF-8: A-utf8) *)
Fixpoint load_strings (fuel : nat) (data : list byte) (last_time_idx : N) (acc : load_acc) : outcome load_acc :=
  match fuel with
  | O => Ok acc
  | S f =>
    match leb_read data with
    | None => Ok acc
    | Some (value, data1) =>
      let last' := last_time_idx + u32_wrap value in
      match leb_read data1 with
      | None => Panic
      | Some (len, data2) =>
        let len := N.to_nat len in
        if (length data2 <? len)%nat then Panic
        else
          let s := firstn len data2 in
          let changed := match last_opt (la_strings acc) with
                         | Some prev => negb (list_eqb prev s)
                         | None => true
                         end in
          let acc' := if changed then mk_acc (la_idx acc ++ [last']) (la_bytes acc) (la_strings acc ++ [s]) else acc in
          load_strings f (skipn len data2) last' acc'
      end
    end
  end.

(* the loaded signal: Signal { time_indices, data } *)
Inductive signal_data :=
| SigBits (max_states : states) (bits : nat) (meta_byte : bool) (width : nat) (bytes : list byte)
| SigReal (bytes : list byte)
| SigStrings (strings : list (list byte)).
Record signal := mk_signal { s_idx : list N; s_data : signal_data }.

(* the per-block loop of Reader::load_signal *)
Fixpoint load_go (tpe : sig_enc) (max_states : states) (l : list (N * list byte * enc_meta)) (acc : load_acc)
  : outcome load_acc :=
  match l with
  | [] => Ok acc
  | (off, data_block, meta) :: r =>
    do data <- (match em_comp meta with
                | Compressed ulen => of_option (lz_decompress data_block (N.to_nat ulen))
                | Uncompressed => Ok data_block
                end);
    do acc' <- (match tpe with
                | EncString => load_strings (S (length data)) data off acc
                | EncBits bits => load_fixed (S (length data)) data off bits max_states acc
                | EncReal => load_reals (S (length data)) data off acc
                end);
    load_go tpe max_states r acc'
  end.

(* Reader::load_signal *)
Definition load_signal (blocks : list block) (id : nat) (tpe : sig_enc) : outcome signal :=
  do metas <- collect_meta blocks id 0;
  let max_states := max_states_of metas in
  do acc <- load_go tpe max_states metas (mk_acc [] [] []);
  match tpe with
  | EncString => Ok (mk_signal (la_idx acc) (SigStrings (la_strings acc)))
  | EncBits bits =>
    let '(bytes, meta_byte) := get_len_and_meta max_states bits in
    Ok (mk_signal (la_idx acc)
                  (SigBits max_states bits meta_byte (get_bytes_per_entry bytes meta_byte) (la_bytes acc)))
  | EncReal => Ok (mk_signal (la_idx acc) (SigReal (la_bytes acc)))
  end.

End WithExternals.

(* ------------------------------------------------------------------ SignalChangeData::get_value_at *)

Inductive value_kind := KBinary | KFour | KNine | KReal | KString.
Definition kind_of_states (s : states) : value_kind :=
  match s with Two => KBinary | Four => KFour | Nine => KNine end.

(* (kind, rendering): bit string characters for bit vectors, the 8 raw bytes for reals,
   the string bytes for strings *)
Definition get_value_at (d : signal_data) (offset : nat) : outcome (value_kind * list byte) :=
  match d with
  | SigStrings strings => do s <- of_option (nth_error strings offset); Ok (KString, s)
  | SigReal bytes =>
    let start := (offset * 8)%nat in
    if (length bytes <? start + 8)%nat then Panic else Ok (KReal, firstn 8 (skipn start bytes))
  | SigBits max_states bits meta_byte width bytes =>
    let start := (offset * width)%nat in
    if (length bytes <? start + width)%nat then Panic
    else
      let raw_data := firstn width (skipn start bytes) in
      do data <- (if meta_byte then match raw_data with [] => Panic | _ :: r => Ok r end else Ok raw_data);
      match max_states with
      | Two => do s <- n_state_to_bit_string Two data bits; Ok (KBinary, s)
      | _ =>
        do r0 <- of_option (hd_error raw_data);
        do st <- of_option (states_of_num ((r0 / 64) mod 4));
        let num_out_bytes := div_ceil bits (per_byte st) in
        do drop <- usub (length data) num_out_bytes;
        do s <- n_state_to_bit_string st (skipn drop data) bits;
        Ok (kind_of_states st, s)
      end
  end.

Fixpoint outcome_map {A B} (f : A -> outcome B) (l : list A) : outcome (list B) :=
  match l with
  | [] => Ok []
  | x :: r => do y <- f x; do ys <- outcome_map f r; Ok (y :: ys)
  end.

Fixpoint outcome_map_concat {A B} (f : A -> outcome (list B)) (l : list A) : outcome (list B) :=
  match l with
  | [] => Ok []
  | x :: r => do y <- f x; do ys <- outcome_map_concat f r; Ok (y ++ ys)
  end.

(* what iter_changes reports: (time index, kind, rendering) per change *)
Definition observe_signal (s : signal) : outcome (list (N * value_kind * list byte)) :=
  outcome_map (fun '(k, t) => do v <- get_value_at (s_data s) k; Ok (t, fst v, snd v))
              (combine (seq 0 (length (s_idx s))) (s_idx s)).
