"""C06 - loaded signals are in canonical form."""
from .. import core, gen
from . import vcdfam, c04

PID = "C06"
LEVEL = "proof"
RULE = ("histories with redundant writes (same value in the same step, the next step, after a kind change, across appended "
        "segments) for every order of 2/4/9-state kinds are loaded from VCD text, through the Encoder hook (vcd, raw and real "
        "paths) and through fst::SignalWriter (hook); every observation is passed through the canonical-form monitor: no two "
        "consecutive changes with equal rendering, every bit-vector value has exactly the declared width and the smallest "
        "sufficient kind, reals report Real and strings String; plus equality with the meaning of the history. "
        "Non-trivial: the history contains at least one redundant write or at least two different kinds for one signal.")
ASSUMPTIONS = ["the GHW alias arithmetic that chooses the sub-range of a sliced signal is covered by C13; FST/GHW containers by C10/C11"]
TRUSTED_BASE = ["Python monitor c06.canonical", "Python oracle gen.expected_obs"]


def canonical(widths):
    """widths: {signal index: ('b', w) | ('r',) | ('s',)} -> predicate on an observation string"""
    def pred(obs):
        if obs in ("PANIC", "ERR", "CRASH-OR-HANG"):
            return "implementation " + obs
        for p in obs.split(" "):
            if not p.startswith("s") or "=" not in p:
                continue
            name, body = p.split("=", 1)
            si = int(name[1:])
            if body == "-" or si not in widths:
                continue
            prev = None
            for e in body.split(","):
                idx, kind, val = e.split(":", 2)
                if prev is not None and prev == val:
                    return "signal %d: two consecutive changes carry the same value %s" % (si, val[:40])
                prev = val
                w = widths[si]
                if w[0] == "b":
                    if kind not in "249":
                        return "signal %d: kind %s for a bit vector" % (si, kind)
                    if len(val) != w[1]:
                        return "signal %d: value of width %d, declared %d" % (si, len(val), w[1])
                    if kind != gen.min_kind(val):
                        return "signal %d: value %s reported as kind %s" % (si, val[:40], kind)
                elif w[0] == "r" and kind != "R":
                    return "signal %d: real variable reports kind %s" % (si, kind)
                elif w[0] == "s" and kind != "S":
                    return "signal %d: string variable reports kind %s" % (si, kind)
        return None
    return pred


def slice_canonical(width):
    """predicate on the observation of the `slice` harness command (`p=<parent> s=<slice>`): the sliced signal is canonical"""
    def pred(obs):
        if obs in ("PANIC", "ERR", "CRASH-OR-HANG"):
            return "implementation " + obs
        body = obs.split(" s=", 1)[1] if " s=" in obs else ""
        prev = None
        for e in ([] if body in ("", "-") else body.split(",")):
            idx, kind, val = e.split(":", 2)
            if prev is not None and prev == val:
                return "sliced signal: two consecutive changes carry the same value %s" % val[:40]
            prev = val
            if len(val) != width:
                return "sliced signal: value of width %d, slice width %d" % (len(val), width)
            if kind != gen.min_kind(val):
                return "sliced signal: value %s reported as kind %s" % (val[:40], kind)
        return None
    return pred


def redundant_history(rng):
    nsig = rng.randint(1, 3)
    sigs = []
    for _ in range(nsig):
        k = rng.choice("bbbrs")
        sigs.append(gen.Sig("b", rng.choice(gen.WIDTHS[:14])) if k == "b" else gen.Sig(k))
    steps = []
    last = {}
    t = 0
    for _ in range(rng.randint(2, 12)):
        ch = []
        for _ in range(rng.randint(1, 4)):
            si = rng.randrange(nsig)
            if si in last and rng.random() < 0.5:
                v = last[si]
            else:
                v = gen.rand_value(rng, sigs[si], rng.choice([[2], [4], [9], [2, 4, 9]]))
            last[si] = v
            ch.append((si, v))
        steps.append((t, ch))
        t += rng.choice([0, 1, 1, 4])
    return sigs, steps


def has_redundancy(sigs, steps):
    last = {}
    kinds = {}
    red = False
    for _, ch in steps:
        for si, v in ch:
            if last.get(si) == v:
                red = True
            last[si] = v
            if sigs[si].tpe == "b":
                kinds.setdefault(si, set()).add(gen.min_kind(v))
    return red or any(len(k) > 1 for k in kinds.values())


def fstw_cases(rng, n):
    out = []
    for _ in range(n):
        k = rng.choice("bbbbrs")
        sig = gen.Sig("b", rng.choice(gen.WIDTHS[:16])) if k == "b" else gen.Sig(k)
        changes = []
        idx = 0
        last = None
        for _ in range(rng.randint(1, 10)):
            v = last if (last is not None and rng.random() < 0.3) else gen.rand_value(rng, sig, rng.choice([[2], [4], [9], [2, 4, 9]]))
            last = v
            changes.append((idx, v))
            idx += rng.choice([0, 1, 2])
        steps = [(i, [(0, v)]) for i, v in changes]
        # meaning: dedup with index = the given index
        exp = []
        prev = None
        for i, v in changes:
            if sig.tpe == "b":
                item = (gen.min_kind(v), v)
                txt = (v if rng.random() < 0.7 else gen.upper_some(rng, v)).encode().hex()
            elif sig.tpe == "r":
                item = ("R", "%016x" % gen.real_bits(v))
                txt = "%016x" % gen.real_bits(v)
            else:
                item = ("S", gen.hexs(v.encode()))
                txt = gen.hexs(v.encode())
            if prev != item:
                exp.append("%x:%s:%s" % (i, item[0], item[1]))
            prev = item
            changes[changes.index((i, v))] = (i, v, txt)
        line = "fstw %s %s" % (sig.tstr(), ",".join("%x:%s" % (c[0], c[2]) for c in changes))
        w = {0: ("b", sig.width) if sig.tpe == "b" else (sig.tpe,)}
        out.append({"line": line, "expect": "s0=" + (",".join(exp) or "-"), "pred": canonical(w),
                    "key": hash(line) if has_redundancy([sig], steps) else None, "klass": "fst-signal-writer"})
    return out


def run(res, rng, tier, model_ok, replay=None):
    cases = []
    if replay:
        line = replay.get("case") or replay["broken_correspondence"]["case"]
        cases.append({"line": line})
    else:
        n = 500 if tier == "quick" else 10000
        for i in range(n):
            sigs, steps = redundant_history(rng)
            table, out = gen.expected_obs(sigs, steps, False)
            widths = {k: (("b", s.width) if s.tpe == "b" else (s.tpe,)) for k, s in enumerate(sigs)}
            key = hash(str(steps)) if has_redundancy(sigs, steps) else None
            r = rng.random()
            if r < 0.3:
                line, _ = c04.enc_split_case(rng, sigs, steps)
                exp = gen.obs_string(table, out)
                kl = "enc-split"
            elif r < 0.5:
                line = c04.raw_case(rng, sigs, steps)
                exp = gen.obs_string(table, out)
                kl = "enc-raw"
            else:
                mode = rng.choice(["st", "rd", "mt:2:0"])
                idents, kind, idx, nuniq = gen.assign_ids(rng, len(sigs))
                hdr = gen.header_text(rng, sigs, idents)
                body = gen.body_text(rng, sigs, idents, steps, False, "mixed", line_discipline=True)
                exp = gen.obs_string(table, out, idx)
                widths = {idx[k]: w for k, w in widths.items()}
                line = "vcd %s %s %s %s" % (mode, gen.sigs_arg(sigs, kind, idx, nuniq, idents), hdr.hex(), body.hex())
                kl = "vcd-" + mode.split(":")[0]
            cases.append({"line": line, "expect": exp, "pred": canonical(widths), "key": key, "klass": kl})
        cases += fstw_cases(rng, 500 if tier == "quick" else 10000)
        # signals derived by slicing: parents that mix kinds, so that a value's x/z/9-state characters often lie outside
        # the slice (the slice has to be re-minimised whatever the kind of the parent value)
        from . import c13
        for _ in range(400 if tier == "quick" else 6000):
            width = rng.choice([3, 4, 5, 8, 9, 12, 16, 17, 33])
            msb = rng.randrange(width)
            lsb = rng.randint(0, msb)
            if msb - lsb + 1 >= width:
                continue
            ch = c13.mk_changes(rng, width, rng.choice([[2, 4, 9], [4, 9], [2, 4], [2, 9]]), rng.randint(3, 8))
            line = "slice %d %d %d %s" % (width, msb, lsb, ",".join("%x:%s" % c for c in ch))
            cases.append({"line": line, "expect": c13.expected_slice(width, msb, lsb, ch), "pred": slice_canonical(msb - lsb + 1),
                          "key": ("slice", line), "klass": "sliced"})
        # string values that are not valid UTF-8 (each non-ASCII byte followed by an ASCII one, so that the lossy
        # conversion is one U+FFFD per byte); the model does not cover from_utf8_lossy: implementation + oracle only
        lat = []
        for _ in range(60 if tier == "quick" else 1000):
            vals = []
            for _ in range(rng.randint(1, 3)):
                bs = b""
                for _ in range(rng.randint(1, 4)):
                    bs += bytes([rng.randint(0x80, 0xFF)]) + rng.choice([b"a", b"t", b"_", b"0"])
                vals.append(rng.choice([b"", b"x"]) + bs)
            seq = [rng.choice(vals) for _ in range(rng.randint(2, 8))]
            body = b"\n#0\n"
            exp = []
            t = 0
            prev = None
            for k, v in enumerate(seq):
                if rng.random() < 0.5:
                    t += 1
                    body += b"#%d\n" % t
                body += b"s" + v + b" !\n"
                lossy = v.decode("utf-8", errors="replace").encode("utf-8")
                if lossy != prev:
                    exp.append("%x:S:%s" % (t, lossy.hex()))
                prev = lossy
            hdr = b"$scope module t $end\n$var string 1 ! s $end\n$upscope $end\n$enddefinitions $end"
            lat.append({"line": "vcd %s D;s;- %s %s" % (rng.choice(["st", "rd"]), hdr.hex(), body.hex()),
                        "expect": "tt=%s s0=%s" % (",".join("%x" % i for i in range(t + 1)), ",".join(exp)),
                        "pred": canonical({0: ("s",)}), "key": hash(body), "klass": "latin1-strings(impl-only)"})
        vcdfam.run_both(res, lat, "c06l", False)
    vcdfam.run_both(res, cases, "c06", model_ok)
    if not replay:
        # the corpus files of all three formats through the public API: every variable - sub-range variables of GHW files
        # included - reports values of exactly its declared width, in the smallest sufficient kind, real / string as declared,
        # and never the same value twice in a row (harness command canonfile)
        import glob
        import os
        files = sorted(f for f in glob.glob("/repo/wellen/inputs/**/*", recursive=True)
                       if f.rsplit(".", 1)[-1] in ("vcd", "fst", "ghw") and os.path.isfile(f)
                       and 0 < os.path.getsize(f) < (300000 if tier == "quick" else 5000000)
                       and "with_errors" not in f and "sigmoid_tb" not in f and "ghdl_issue_538" not in f)
        outs = core.run_cases(core.WV_DEBUG, ["canonfile " + f for f in files], "c06f", timeout=1200)
        for f, o in zip(files, outs):
            res.evaluations += 1
            ext = f.rsplit(".", 1)[-1]
            res.distribution["corpus-" + ext] = res.distribution.get("corpus-" + ext, 0) + 1
            if o.startswith("ok "):
                res.nontrivial.add(f)
            elif o != "ERR":
                res.violations.append(("canonfile " + f, o[:1500], "ok <n> variables", "a corpus file loads with signals that are not in canonical form"))
    res.samples = [c["line"][:300] for c in cases[:2]] + [cases[-1]["line"][:300]]


def check_known(entry):
    return False
