"""Generators of abstract waveforms and their serialisations (DESIGN.md section 5).
All randomness comes from the `rng` argument (one PRNG seeded by VERIF_SEED)."""
import struct

WIDTHS = [1, 2, 3, 4, 5, 7, 8, 9, 15, 16, 17, 31, 32, 33, 63, 64, 65, 127, 128, 129, 255, 256]
ALPHA = {2: "01", 4: "01xz", 9: "01xzhuwl-"}
REALS = ["0", "1", "1.5", "-2.25", "3.14159", "1e3", "2.5e-3", "-0.0", "123456789.125", "6.02e23",
         "1e-300", "0.1", "0.2", "0.30000000000000004", "9007199254740993", "4.9e-324", "1.7976931348623157e308"]
STR_CHARS = "abcdefghijklmnopqrstuvwxyzABCXYZ0123456789_-+./:!#$%&()[]{}<>=?@^~|"


def hexs(b):
    return b.hex() if b else "-"


def id_code(n):
    """inverse of id_to_int: the identifier code with value n"""
    n += 1
    out = []
    while n > 0:
        n -= 1
        out.append(33 + n % 94)
        n //= 94
    return bytes(out)


def id_to_int(code):
    r = 0
    for c in reversed(code):
        r = r * 94 + (c - 33) + 1
    return r - 1


class Sig:
    def __init__(self, tpe, width=1):
        self.tpe = tpe          # 'b', 'r', 's'
        self.width = width

    def tstr(self):
        return "b%d" % self.width if self.tpe == "b" else self.tpe


def rand_bits(rng, width, states):
    alpha = ALPHA[states]
    mode = rng.random()
    if mode < 0.15:
        return rng.choice(alpha) * width
    if mode < 0.3:
        # long run of one leading character then random tail
        k = rng.randint(0, width)
        return rng.choice(alpha[:4]) * k + "".join(rng.choice(alpha) for _ in range(width - k))
    return "".join(rng.choice(alpha) for _ in range(width))


def rand_value(rng, sig, profile):
    if sig.tpe == "b":
        states = rng.choice(profile)
        return rand_bits(rng, sig.width, states)
    if sig.tpe == "r":
        return rng.choice(REALS)
    n = rng.choice([1, 1, 2, 3, 5, 8, 20, 40]) if rng.random() < 0.9 else rng.randint(1, 200)
    return "".join(rng.choice(STR_CHARS) for _ in range(n))


def real_bits(text):
    return struct.unpack("<Q", struct.pack("<d", float(text)))[0]


def min_kind(v):
    if all(c in "01" for c in v):
        return "2"
    if all(c in "01xz" for c in v):
        return "4"
    return "9"


def expected_obs(sigs, steps, implicit_first):
    """The meaning of an abstract history (properties C01, C02, C04, C06).
    steps: list of (time, [(sig_index, value)]); if implicit_first the first step has no
    timestamp in the file (values before the first timestamp => time 0).
    Returns (time_table, {sig_index: [(idx, kind, rendering)]})."""
    table = []
    skipping = False
    out = {i: [] for i in range(len(sigs))}
    for k, (t, changes) in enumerate(steps):
        if k == 0 and implicit_first:
            if changes:
                table.append(0)
            else:
                continue
        else:
            if not table or t > table[-1]:
                table.append(t)
                skipping = False
            elif t == table[-1]:
                skipping = False
            else:
                skipping = True
        if skipping:
            continue
        for (si, v) in changes:
            sig = sigs[si]
            if sig.tpe == "b":
                item = (min_kind(v), v)
            elif sig.tpe == "r":
                item = ("R", "%016x" % real_bits(v))
            else:
                item = ("S", hexs(v.encode()))
            lst = out[si]
            if lst and (lst[-1][1], lst[-1][2]) == item:
                continue
            lst.append((len(table) - 1, item[0], item[1]))
    return table, out


def obs_string(table, out, indices=None):
    """same grammar as the harness"""
    parts = ["tt=" + (",".join("%x" % t for t in table) if table else "-")]
    for si in sorted(out):
        idx = si if indices is None else indices[si]
        lst = out[si]
        parts.append("s%d=%s" % (idx, ",".join("%x:%s:%s" % e for e in lst) if lst else "-"))
    return " ".join(parts)


# ------------------------------------------------------------------ histories

def gen_history(rng, nsigs=None, max_steps=12, widths=None, time_profile="mixed", kinds="brs"):
    nsigs = nsigs or rng.randint(1, 5)
    sigs = []
    profiles = []
    for _ in range(nsigs):
        k = rng.choice(kinds)
        if k == "b":
            w = rng.choice(widths or WIDTHS) if rng.random() < 0.8 else rng.randint(1, 70)
            sigs.append(Sig("b", w))
        else:
            sigs.append(Sig(k))
        # order in which state kinds can appear
        profiles.append(rng.choice([[2], [2, 4], [4], [2, 4, 9], [9], [2, 9], [4, 9], [2, 2, 2, 4], [2, 2, 2, 9]]))
    steps = []
    t = rng.choice([0, 0, 0, 1, 5, 100, 2 ** 40])
    nsteps = rng.randint(1, max_steps)
    implicit_first = rng.random() < 0.25
    last_vals = {}
    for k in range(nsteps):
        changes = []
        for _ in range(rng.choice([0, 1, 1, 2, 3, 4, 6])):
            si = rng.randrange(nsigs)
            if si in last_vals and rng.random() < 0.2:
                v = last_vals[si]          # redundant write
            else:
                v = rand_value(rng, sigs[si], profiles[si])
            last_vals[si] = v
            changes.append((si, v))
        steps.append((t, changes))
        r = rng.random()
        if time_profile == "increasing" or r < 0.75:
            t += rng.choice([1, 1, 2, 5, 10, 1000])
        elif r < 0.87:
            pass                            # repeated timestamp
        else:
            t = max(0, t - rng.choice([1, 2, 7]))   # backwards
    if implicit_first and steps:
        steps[0] = (0, steps[0][1])
    return sigs, steps, implicit_first


def gap_history(rng, gap, nsteps_after=3):
    """signals that stay quiet for `gap` time steps inside one block and then change; signal 4 toggles every
    1000 steps (enough data to be compressed), signal 5 changes once in the middle of the gap (little data at a
    non-zero time index)"""
    sigs = [Sig("b", 1), Sig("b", rng.choice([2, 8, 33])), Sig("r"), Sig("s"), Sig("b", 1), Sig("b", 4)]
    steps = [(0, [(0, "1"), (1, rand_bits(rng, sigs[1].width, 2)), (2, "1.5"), (3, "a"), (4, "0"), (5, "0000")])]
    for k in range(1, gap):
        ch = [(4, "01"[(k // 1000) % 2])] if k % 1000 == 0 else []
        if k == gap // 2:
            ch.append((5, "1x0z"))
        steps.append((k, ch))
    for j in range(nsteps_after):
        k = gap + j
        steps.append((k, [(0, "01xz"[j % 4]), (1, rand_bits(rng, sigs[1].width, rng.choice([2, 4, 9]))),
                          (2, "%d.25" % j), (3, "b%d" % j), (5, format(j % 16, "04b"))]))
    return sigs, steps


# ------------------------------------------------------------------ VCD text

def upper_some(rng, s):
    return "".join(c.upper() if rng.random() < 0.3 else c for c in s)


def shorten(rng, v):
    """legal shortened forms of a full-width vector value"""
    if len(v) <= 1 or rng.random() < 0.4:
        return v
    c = v[0]
    if c not in "0xz":
        return v
    k = 0
    while k < len(v) and v[k] == c:
        k += 1
    # remaining must still be extended by its own first character to `c`
    if c == "0":
        # may drop j zeros as long as the rest starts with 0 or 1
        maxdrop = k if (k < len(v) and v[k] == "1") else k - 1
    else:
        maxdrop = k - 1
    maxdrop = min(maxdrop, len(v) - 1)
    if maxdrop <= 0:
        return v
    return v[rng.randint(1, maxdrop):]


def change_text(rng, sig, ident, v, plain=False):
    ids = ident.decode("latin1")
    if sig.tpe == "b":
        if plain:
            return ("%s%s" % (v, ids)) if sig.width == 1 else "b%s %s" % (v, ids)
        txt = upper_some(rng, shorten(rng, v))
        if len(txt) == 1 and rng.random() < (0.9 if sig.width == 1 else 0.1):
            return txt + ids
        prefix = rng.choice(["b", "b", "B"])
        if rng.random() < 0.1:
            txt = "0b" + txt
        return "%s%s%s%s" % (prefix, txt, rng.choice([" ", " ", "  ", "\t"]), ids)
    if sig.tpe == "r":
        return "%s%s %s" % (rng.choice("rrR") if not plain else "r", v, ids)
    return "%s%s %s" % (rng.choice("ssS") if not plain else "s", v, ids)


def body_text(rng, sigs, idents, steps, implicit_first, ws="mixed", line_discipline=False):
    """Serialises a history. The text starts directly after `$enddefinitions $end`."""
    nl = "\r\n" if ws == "crlf" or (ws == "mixed" and rng.random() < 0.2) else "\n"
    out = [nl]
    fancy = ws == "mixed"
    for k, (t, changes) in enumerate(steps):
        if not (k == 0 and implicit_first):
            indent = "" if (line_discipline or not fancy or rng.random() < 0.8) else rng.choice([" ", "  ", "\t"])
            out.append("%s#%d%s" % (indent, t, nl))
        wrap = fancy and rng.random() < 0.2
        if wrap:
            out.append("$dumpvars" + nl)
        line = []
        for (si, v) in changes:
            txt = change_text(rng, sigs[si], idents[si], v, plain=(ws == "plain"))
            if fancy and not line_discipline and rng.random() < 0.15:
                line.append(txt)            # several changes per line
                continue
            line.append(txt)
            indent = "" if not fancy or rng.random() < 0.8 else rng.choice([" ", "\t  "])
            out.append(indent + " ".join(line) + nl)
            line = []
        if line:
            out.append(" ".join(line) + nl)
        if wrap:
            out.append("$end" + nl)
        if fancy and rng.random() < 0.1:
            # comment bodies of every shape: text that looks like changes, nothing at all, `$end` on its own line
            out.append(rng.choice(["$comment some text #5 1! $end", "$comment $end", "$comment" + nl + "$end",
                                   "$comment" + nl + "  b1 ! " + nl + "$end", "$comment\t$end"]) + nl)
        if fancy and rng.random() < 0.05:
            out.append(rng.choice(["$dumpoff", "$dumpon"]) + nl + "$end" + nl)
        if fancy and rng.random() < 0.1:
            out.append(nl)
    return "".join(out).encode("latin1")


VAR_KW = {"b": ["wire", "reg", "logic", "integer", "tri", "parameter", "bit"], "r": ["real", "realtime"], "s": ["string"]}


def header_text(rng, sigs, idents, plain=False):
    lines = []
    if not plain and rng.random() < 0.5:
        lines.append("$date today $end")
    if not plain and rng.random() < 0.5:
        lines.append("$version gen $end")
    lines.append("$timescale 1ns $end")
    lines.append("$scope module top $end")
    for i, (s, ident) in enumerate(zip(sigs, idents)):
        kw = VAR_KW[s.tpe][0] if plain else rng.choice(VAR_KW[s.tpe])
        w = s.width if s.tpe == "b" else (64 if s.tpe == "r" else 1)
        lines.append("$var %s %d %s v%d $end" % (kw, w, ident.decode("latin1"), i))
    lines.append("$upscope $end")
    if not plain and rng.random() < 0.3:
        # aliases: further variables with the identifier code of an existing one (same kind and width)
        lines.append("$scope module alias $end")
        for _ in range(rng.randint(1, 3)):
            i = rng.randrange(len(sigs))
            s = sigs[i]
            w = s.width if s.tpe == "b" else (64 if s.tpe == "r" else 1)
            lines.append("$var %s %d %s a%d $end" % (VAR_KW[s.tpe][0], w, idents[i].decode("latin1"), i))
        lines.append("$upscope $end")
    lines.append("$enddefinitions $end")
    return "\n".join(lines).encode("latin1")


def assign_ids(rng, n, regime=None):
    """returns (idents, kind 'D'|'M', signal index per variable, number of unique signals)"""
    regime = regime or rng.choice(["dense", "dense", "gaps", "hashed"])
    if regime == "dense":
        vals = list(range(n))
        return [id_code(v) for v in vals], "D", vals, n
    if regime == "prefix":
        # two-character codes whose first character is the code of another declared variable: a cut inside such a
        # code leaves the name of a different variable (C15)
        h = max(1, n // 2)
        singles = list(range(h))
        codes = {id_code(v) for v in singles}
        cands = [v for v in range(94, 94 * 6) if id_code(v)[:1] in codes]
        vals = singles + sorted(rng.sample(cands, n - h))
        return [id_code(v) for v in vals], "D", vals, vals[-1] + 1
    if regime == "gaps":
        vals = sorted(rng.sample(range(0, 40 * n + 5), n))
        return [id_code(v) for v in vals], "D", vals, vals[-1] + 1
    # hashed: the very first identifier is far too large for the dense strategy
    idents = []
    base = 94 ** 4 + rng.randint(0, 1000)
    seen = set()
    for i in range(n):
        while True:
            v = base + rng.randint(0, 10 ** 9) if i else base * 3
            if v not in seen:
                seen.add(v)
                break
        idents.append(id_code(v))
    idx = list(range(1, n + 1))
    return idents, "M", idx, n + 1


def sigs_arg(sigs, kind, idx, nuniq, idents):
    tpes = ["-"] * nuniq
    for s, i in zip(sigs, idx):
        tpes[i] = s.tstr()
    ids = ",".join("%s:%d" % (ident.hex(), i) for ident, i in zip(idents, idx)) or "-"
    return "%s;%s;%s" % (kind, ",".join(tpes), ids if kind == "M" else "-")


def vcd_case(rng, mode, sigs, steps, implicit_first, ws="mixed", line_discipline=False, regime=None, pad=(0, 0),
             strip_end=False):
    """returns (case line, expected observation string, meta); strip_end: the file ends directly after its
    last token (no trailing blank space)"""
    idents, kind, idx, nuniq = assign_ids(rng, len(sigs), regime)
    hdr = header_text(rng, sigs, idents, plain=(ws == "plain"))
    body = body_text(rng, sigs, idents, steps, implicit_first, ws, line_discipline)
    if pad != (0, 0):
        body = body[:1] + b"\n" * pad[0] + body[1:] + b"\n" * pad[1]
    if strip_end and len(body.strip()) > 0:
        body = body.rstrip(b" \t\r\n")
    table, out = expected_obs(sigs, steps, implicit_first)
    exp = obs_string(table, out, idx)
    line = "vcd %s %s %s %s" % (mode, sigs_arg(sigs, kind, idx, nuniq, idents), hexs(hdr), hexs(body))
    return line, exp, {"hdr": hdr, "body": body, "kind": kind}


# ------------------------------------------------------------------ Encoder op lists

def enc_case(rng, sigs, steps, implicit_first=False, split_prob=0.0, mt=False):
    """History driven directly through wavemem::Encoder (hook). Values are written in VCD syntax
    through vcd_value_change."""
    ops = []
    for k, (t, changes) in enumerate(steps):
        if split_prob and k > 0 and rng.random() < split_prob:
            ops.append("A")
        ops.append("t%x" % t)
        for (si, v) in changes:
            sig = sigs[si]
            if sig.tpe == "b":
                txt = v if sig.width == 1 and rng.random() < 0.5 else "b" + v
            elif sig.tpe == "r":
                txt = "r" + v
            else:
                txt = "s" + v
            ops.append("v%d:%s" % (si, hexs(txt.encode("latin1"))))
    line = "enc %s %s%s" % (",".join(s.tstr() for s in sigs), ";".join(ops) or "-", " mt" if mt else "")
    return line
