//! `body <hexbytes> <stop_pos>`: events of the body parser (hook `verif_parse_body`).
//! `vcd <mode> <sigs> <hdrhex> <bodyhex>`: loads header+body through a public entry point and
//! prints time table and every signal that has a variable.
//! modes: `st` path/single-thread, `mt:<threads>:<min_chunk>` path/multi-thread inside a pool of
//! the given size with the MIN_CHUNK_SIZE override (0 = production constant), `rd` read_from_reader
//! over a Cursor, `rb` read_from_reader over BufReader<File>, `hc` viewers::read_header (Cursor) +
//! read_body, `hf:<0|1>` viewers::read_header_from_file + read_body with multi_thread 0/1,
//! `hp` like `hc` with a progress counter.
use crate::obs::*;
use crate::util::*;
use std::io::Write;
use std::sync::atomic::{AtomicU64, AtomicUsize, Ordering};
use wellen::verif::{verif_parse_body, verif_set_min_chunk_size, VerifBodyEvent};
use wellen::*;

static FILE_COUNTER: AtomicUsize = AtomicUsize::new(0);

pub fn tmp_file(bytes: &[u8], ext: &str) -> std::path::PathBuf {
    let dir = std::path::PathBuf::from("/verif/.cache/run/tmp");
    std::fs::create_dir_all(&dir).unwrap();
    let n = FILE_COUNTER.fetch_add(1, Ordering::SeqCst);
    let path = dir.join(format!("{}-{}.{}", std::process::id(), n, ext));
    let mut f = std::fs::File::create(&path).unwrap();
    f.write_all(bytes).unwrap();
    path
}

pub fn run_body(args: &[&str]) -> String {
    let input = bytes_of_hex(args[0]);
    let stop_pos = args[1].parse::<usize>().unwrap();
    let (events, res) = verif_parse_body(&input, stop_pos, true);
    let evs: Vec<String> = events
        .iter()
        .map(|e| match e {
            VerifBodyEvent::Time(t) => format!("T{:x}", t),
            VerifBodyEvent::Value(v, id) => format!("V{}:{}", hex_of_bytes(v), hex_of_bytes(id)),
        })
        .collect();
    format!(
        "{}|{}",
        if evs.is_empty() { "-".to_string() } else { evs.join(",") },
        if res.is_ok() { "OK" } else { "ERR" }
    )
}

pub fn waveform_obs(wave: &mut simple::Waveform) -> String {
    let n = wave.hierarchy().num_unique_signals();
    let ids: Vec<SignalRef> = (0..n)
        .map(|i| SignalRef::from_index(i).unwrap())
        .filter(|r| wave.hierarchy().get_signal_tpe(*r).is_some())
        .collect();
    // load the way a viewer does: one request holding the signal of every variable, in declaration order, so
    // that a signal with several variables (aliases) is requested several times
    let req: Vec<SignalRef> = wave.hierarchy().iter_vars().map(|v| v.signal_ref()).collect();
    wave.load_signals(&req);
    wave.load_signals(&ids);
    let mut out = format!("tt={}", time_table_obs(wave.time_table()));
    for id in ids {
        out.push_str(&format!(" s{}={}", id.index(), signal_obs(wave.get_signal(id).unwrap())));
    }
    out
}

pub fn body_result_obs(h: &Hierarchy, mut source: SignalSource, tt: &[Time]) -> String {
    let n = h.num_unique_signals();
    let ids: Vec<SignalRef> = (0..n)
        .map(|i| SignalRef::from_index(i).unwrap())
        .filter(|r| h.get_signal_tpe(*r).is_some())
        .collect();
    // requested the way a viewer does: the signal of every variable (aliases repeat a signal), then every signal
    let mut req: Vec<SignalRef> = h.iter_vars().map(|v| v.signal_ref()).collect();
    req.extend_from_slice(&ids);
    let loaded = source.load_signals(&req, h, false);
    let mut out = format!("tt={}", time_table_obs(tt));
    for (id, sig) in loaded.iter() {
        out.push_str(&format!(" s{}={}", id.index(), signal_obs(sig)));
    }
    out
}

/// Loads `file` through the entry point selected by `mode`.
pub fn load_mode(mode: &str, file: &[u8], ext: &str, opts_flatten: bool) -> String {
    let parts: Vec<&str> = mode.split(':').collect();
    let mut opts = LoadOptions::default();
    opts.remove_scopes_with_empty_name = opts_flatten;
    match parts[0] {
        "st" | "mt" => {
            let path = tmp_file(file, ext);
            let res = if parts[0] == "st" {
                opts.multi_thread = false;
                guarded(|| match simple::read_with_options(&path, &opts) {
                    Ok(mut w) => waveform_obs(&mut w),
                    Err(_) => "ERR".to_string(),
                })
            } else {
                opts.multi_thread = true;
                let threads = parts[1].parse::<usize>().unwrap();
                let min_chunk = parts[2].parse::<usize>().unwrap();
                let pool = rayon::ThreadPoolBuilder::new().num_threads(threads).build().unwrap();
                verif_set_min_chunk_size(min_chunk);
                let r = guarded(|| {
                    pool.install(|| match simple::read_with_options(&path, &opts) {
                        Ok(mut w) => waveform_obs(&mut w),
                        Err(_) => "ERR".to_string(),
                    })
                });
                verif_set_min_chunk_size(0);
                r
            };
            let _ = std::fs::remove_file(&path);
            res
        }
        "rd" => guarded(|| match simple::read_from_reader(std::io::Cursor::new(file.to_vec())) {
            Ok(mut w) => waveform_obs(&mut w),
            Err(_) => "ERR".to_string(),
        }),
        "rb" => {
            let path = tmp_file(file, ext);
            let res = guarded(|| {
                let f = std::io::BufReader::new(std::fs::File::open(&path).unwrap());
                match simple::read_from_reader(f) {
                    Ok(mut w) => waveform_obs(&mut w),
                    Err(_) => "ERR".to_string(),
                }
            });
            let _ = std::fs::remove_file(&path);
            res
        }
        "hc" | "hp" => guarded(|| {
            let progress = if parts[0] == "hp" {
                Some(std::sync::Arc::new(AtomicU64::new(0)))
            } else {
                None
            };
            match viewers::read_header(std::io::Cursor::new(file.to_vec()), &opts) {
                Err(_) => "ERR".to_string(),
                Ok(header) => {
                    let body_len = header.body_len;
                    match viewers::read_body(header.body, &header.hierarchy, progress) {
                        Err(_) => "ERR".to_string(),
                        Ok(body) => format!(
                            "{} bl={:x}",
                            body_result_obs(&header.hierarchy, body.source, &body.time_table),
                            body_len
                        ),
                    }
                }
            }
        }),
        "rbc" => {
            // read_from_reader over a BufReader with a tiny capacity: refills everywhere
            let cap = parts[1].parse::<usize>().unwrap();
            let path = tmp_file(file, ext);
            let res = guarded(|| {
                let f = std::io::BufReader::with_capacity(cap, std::fs::File::open(&path).unwrap());
                match simple::read_from_reader(f) {
                    Ok(mut w) => waveform_obs(&mut w),
                    Err(_) => "ERR".to_string(),
                }
            });
            let _ = std::fs::remove_file(&path);
            res
        }
        "hbc" => {
            // two-phase API over a small-capacity BufReader<File>, with (1) or without (0) progress counter
            let cap = parts[1].parse::<usize>().unwrap();
            let progress = if parts[2] == "1" { Some(std::sync::Arc::new(AtomicU64::new(0))) } else { None };
            let path = tmp_file(file, ext);
            let res = guarded(|| {
                let f = std::io::BufReader::with_capacity(cap, std::fs::File::open(&path).unwrap());
                match viewers::read_header(f, &opts) {
                    Err(_) => "ERR".to_string(),
                    Ok(header) => {
                        let body_len = header.body_len;
                        match viewers::read_body(header.body, &header.hierarchy, progress) {
                            Err(_) => "ERR".to_string(),
                            Ok(body) => format!(
                                "{} bl={:x}",
                                body_result_obs(&header.hierarchy, body.source, &body.time_table),
                                body_len
                            ),
                        }
                    }
                }
            });
            let _ = std::fs::remove_file(&path);
            res
        }
        "hf" => {
            opts.multi_thread = parts[1] == "1";
            let path = tmp_file(file, ext);
            let res = guarded(|| match viewers::read_header_from_file(&path, &opts) {
                Err(_) => "ERR".to_string(),
                Ok(header) => {
                    let body_len = header.body_len;
                    match viewers::read_body(header.body, &header.hierarchy, None) {
                        Err(_) => "ERR".to_string(),
                        Ok(body) => format!(
                            "{} bl={:x}",
                            body_result_obs(&header.hierarchy, body.source, &body.time_table),
                            body_len
                        ),
                    }
                }
            });
            let _ = std::fs::remove_file(&path);
            res
        }
        _ => "BADMODE".to_string(),
    }
}

pub fn run_vcd(args: &[&str]) -> String {
    // `<mode>@<ext>`: the temporary file (path based entry points) gets this extension instead of `vcd`
    let (mode, ext) = args[0].split_once('@').unwrap_or((args[0], "vcd"));
    let mut file = bytes_of_hex(args[2]);
    file.extend_from_slice(&bytes_of_hex(args[3]));
    load_mode(mode, &file, ext, false)
}


/// `file <mode> <path> [full]`: loads any waveform file through the entry point `mode` and prints a digest
/// of the complete observation (hierarchy with attributes, time table, every signal); `full` prints it all.
pub fn run_file(args: &[&str]) -> String {
    use std::hash::{Hash, Hasher};
    // a mode ending in `+f` loads with remove_scopes_with_empty_name = true
    let flatten = args[0].ends_with("+f");
    let mode = args[0].trim_end_matches("+f");
    let bytes = std::fs::read(args[1]).unwrap();
    let ext = args[1].rsplit('.').next().unwrap_or("bin");
    let full = args.get(2).map(|s| *s == "full").unwrap_or(false);
    let obs = load_mode_full(mode, &bytes, ext, flatten);
    if full || !obs.starts_with("H=") {
        return obs;
    }
    let mut h = std::collections::hash_map::DefaultHasher::new();
    obs.split(" bl=").next().unwrap().hash(&mut h);
    let bl = obs.split(" bl=").nth(1).map(|s| format!(" bl={}", s)).unwrap_or_default();
    format!("digest={:016x} len={}{}", h.finish(), obs.split(" bl=").next().unwrap().len(), bl)
}

fn two_phase<R: std::io::BufRead + std::io::Seek + Sync + Send + 'static>(
    header: viewers::HeaderResult<R>,
    progress: Option<viewers::ProgressCount>,
) -> String {
        let body_len = header.body_len;
        let hobs = crate::hier::hierarchy_obs(&header.hierarchy, true).replace(' ', ";");
        let meta = format!(
            "date={} version={} ts={:?} fmt={:?}",
            hex_of_bytes(header.hierarchy.date().as_bytes()),
            hex_of_bytes(header.hierarchy.version().as_bytes()),
            header.hierarchy.timescale(),
            header.hierarchy.file_format()
        )
        .replace(' ', "_");
        match viewers::read_body(header.body, &header.hierarchy, progress) {
            Err(_) => "ERR".to_string(),
            Ok(body) => format!(
                "H={} M={} {} bl={:x}",
                hobs,
                meta,
                body_result_obs(&header.hierarchy, body.source, &body.time_table),
                body_len
            ),
        }
    }

/// like `load_mode` but the observation also contains the hierarchy
pub fn load_mode_full(mode: &str, file: &[u8], ext: &str, flatten: bool) -> String {
    let parts: Vec<&str> = mode.split(':').collect();
    let mut opts = LoadOptions::default();
    opts.remove_scopes_with_empty_name = flatten;
    let wave_full = |w: &mut simple::Waveform| -> String {
        let h = crate::hier::hierarchy_obs(w.hierarchy(), true);
        let meta = format!(
            "date={} version={} ts={:?} fmt={:?}",
            hex_of_bytes(w.hierarchy().date().as_bytes()),
            hex_of_bytes(w.hierarchy().version().as_bytes()),
            w.hierarchy().timescale(),
            w.hierarchy().file_format()
        )
        .replace(' ', "_");
        format!("H={} M={} {}", h.replace(' ', ";"), meta, waveform_obs(w))
    };
    let path = tmp_file(file, ext);
    let res = guarded(|| match parts[0] {
        "st" | "mt" => {
            opts.multi_thread = parts[0] == "mt";
            match simple::read_with_options(&path, &opts) {
                Ok(mut w) => wave_full(&mut w),
                Err(_) => "ERR".to_string(),
            }
        }
        "rd" => match simple::read_from_reader(std::io::Cursor::new(file.to_vec())) {
            Ok(mut w) => wave_full(&mut w),
            Err(_) => "ERR".to_string(),
        },
        "rbc" => {
            let cap = parts[1].parse::<usize>().unwrap();
            let f = std::io::BufReader::with_capacity(cap, std::fs::File::open(&path).unwrap());
            match simple::read_from_reader(f) {
                Ok(mut w) => wave_full(&mut w),
                Err(_) => "ERR".to_string(),
            }
        }
        "hc" => {
            let progress = if parts.get(1) == Some(&"1") { Some(std::sync::Arc::new(AtomicU64::new(0))) } else { None };
            match viewers::read_header(std::io::Cursor::new(file.to_vec()), &opts) {
                Err(_) => "ERR".to_string(),
                Ok(header) => two_phase(header, progress),
            }
        }
        "hbc" => {
            let cap = parts[1].parse::<usize>().unwrap();
            let progress = if parts[2] == "1" { Some(std::sync::Arc::new(AtomicU64::new(0))) } else { None };
            let f = std::io::BufReader::with_capacity(cap, std::fs::File::open(&path).unwrap());
            match viewers::read_header(f, &opts) {
                Err(_) => "ERR".to_string(),
                Ok(header) => two_phase(header, progress),
            }
        }
        "hf" => {
            opts.multi_thread = parts[1] == "1";
            let progress = if parts.get(2) == Some(&"1") { Some(std::sync::Arc::new(AtomicU64::new(0))) } else { None };
            match viewers::read_header_from_file(&path, &opts) {
                Err(_) => "ERR".to_string(),
                Ok(header) => two_phase(header, progress),
            }
        }
        _ => "BADMODE".to_string(),
    });
    let _ = std::fs::remove_file(&path);
    res
}
