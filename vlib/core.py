"""Shared machinery of every property check (DESIGN.md section 2).

A check = (1) regenerate translated constants, (2) build the Coq development and collect
`Print Assumptions` of the pinned theorems, (3) build the implementation harness from /repo's
working tree with hooks on and the OCaml model runner from the extraction, (4) run both on the
same cases, (5) evaluate the property oracle on the implementation's observations,
(6) verdict, (7) evidence.
"""
import fcntl
import hashlib
import json
import os
import random
import re
import subprocess
import sys
import time

VERIF = os.path.dirname(os.path.dirname(os.path.abspath(__file__)))
REPO = "/repo"
COQ = os.path.join(VERIF, "coq")
CACHE = os.path.join(VERIF, ".cache")
TARGET = os.path.join(CACHE, "target")
RUN = os.path.join(CACHE, "run")
WV_DEBUG = os.path.join(TARGET, "debug", "wv")
WV_RELEASE = os.path.join(TARGET, "release", "wv")
MODEL_RUN = os.path.join(COQ, "extract", "model_run")
MODEL_RUN_RELEASE = os.path.join(COQ, "extract", "model_run_release")
EVIDENCE = os.path.join(VERIF, "evidence")
KNOWN = os.path.join(VERIF, "known_findings.jsonl")

FORBIDDEN = re.compile(
    r"\b(Admitted|admit|Axiom|Parameter|Parameters|Conjecture|Hypothesis|Variable|Variables|"
    r"Unset Guard|bypass_check|type-in-type|impredicative-set|Admit Obligations)\b")

ENV = dict(os.environ)
ENV.update({"CARGO_NET_OFFLINE": "true", "CARGO_TARGET_DIR": TARGET,
            "RUSTFLAGS": "--cfg wellen_verif", "OCAMLRUNPARAM": "l=8G"})


class InfraError(Exception):
    pass


def sh(cmd, cwd=None, timeout=1200, env=None, check=False, stdin=None):
    p = subprocess.run(cmd, cwd=cwd, timeout=timeout, env=env or ENV, shell=isinstance(cmd, str),
                       stdout=subprocess.PIPE, stderr=subprocess.STDOUT, input=stdin)
    out = p.stdout.decode("utf-8", "replace")
    if check and p.returncode != 0:
        raise InfraError("command failed (%d): %s\n%s" % (p.returncode, cmd, out[-4000:]))
    return p.returncode, out


class Lock:
    def __enter__(self):
        os.makedirs(CACHE, exist_ok=True)
        self.f = open(os.path.join(CACHE, "lock"), "w")
        fcntl.flock(self.f, fcntl.LOCK_EX)
        return self

    def __exit__(self, *a):
        fcntl.flock(self.f, fcntl.LOCK_UN)
        self.f.close()


# ------------------------------------------------------------------ Coq side

def coq_sources():
    out = []
    for root, _, files in os.walk(COQ):
        if "/extract/gen" in root:
            continue
        for f in files:
            if f.endswith(".v"):
                out.append(os.path.join(root, f))
    return sorted(out)


def strip_comments(text):
    out = []
    depth = 0
    i = 0
    while i < len(text):
        if text.startswith("(*", i):
            depth += 1
            i += 2
        elif text.startswith("*)", i) and depth > 0:
            depth -= 1
            i += 2
        else:
            if depth == 0:
                out.append(text[i])
            i += 1
    return "".join(out)


def forbidden_scan():
    """Admitted/admit/Axiom/Parameter/... anywhere in the development (outside comments).
    `Variable`/`Hypothesis` are allowed only inside a Section."""
    bad = []
    for path in coq_sources():
        text = strip_comments(open(path).read())
        depth = 0
        for ln, line in enumerate(text.split("\n"), 1):
            if re.match(r"\s*Section\b", line):
                depth += 1
            if re.match(r"\s*End\b", line) and depth > 0:
                depth -= 1
            for m in FORBIDDEN.finditer(line):
                w = m.group(1)
                if w in ("Variable", "Variables", "Hypothesis") and depth > 0:
                    continue
                bad.append("%s:%d: %s" % (os.path.relpath(path, VERIF), ln, w))
    return bad


def coq_build():
    """Full .vo build (never -vos).  Returns (ok, log)."""
    rc, out = sh("coq_makefile -f _CoqProject -o Makefile > /dev/null && "
                 "timeout 1500 make -j16 2>&1 | grep -v 'abstract-large-number\\|applications of Init.Nat\\|^Warning: To avoid stack'",
                 cwd=COQ, timeout=1600)
    ok = os.path.exists(os.path.join(COQ, "Makefile")) and "Error" not in out and "***" not in out
    return ok, out


def property_file(pid):
    return os.path.join(COQ, "Properties", pid + ".v")


def coq_check_property(pid):
    """Re-compiles Properties/<pid>.v and parses the pinned statements and their assumptions."""
    path = property_file(pid)
    info = {"pinned": [], "assumptions": {}, "closed": 0, "ok": False, "log": ""}
    if not os.path.exists(path):
        info["log"] = "no property file (no theorem pinned for this property yet)"
        info["ok"] = True
        return info
    text = strip_comments(open(path).read())
    pinned = re.findall(r"^\s*Check\s+@?([A-Za-z0-9_']+)\s*:", text, re.M)
    printed = re.findall(r"^\s*Print Assumptions\s+([A-Za-z0-9_']+)\s*\.", text, re.M)
    info["pinned"] = pinned
    missing = [p for p in pinned if p not in printed]
    rc, out = sh(["coqc", "-Q", ".", "WV", "-w",
                  "-deprecated-syntactic-definition,-deprecated-hint-without-locality,-notation-overridden",
                  os.path.relpath(path, COQ)], cwd=COQ, timeout=600)
    info["log"] = out[-3000:]
    if rc != 0 or missing:
        if missing:
            info["log"] += "\nno Print Assumptions for: " + ", ".join(missing)
        return info
    # the output of the i-th Print Assumptions follows the Check outputs; parse sequentially
    blocks = re.split(r"(Closed under the global context|Axioms:)", out)
    results = []
    i = 1
    while i < len(blocks):
        if blocks[i].startswith("Closed"):
            results.append([])
        else:
            body = blocks[i + 1]
            names = re.findall(r"^([A-Za-z0-9_.']+)\s*:", body, re.M)
            results.append(names)
        i += 2
    if len(results) != len(printed):
        info["log"] += "\ncould not match Print Assumptions output (%d vs %d)" % (len(results), len(printed))
        return info
    for name, ax in zip(printed, results):
        info["assumptions"][name] = ax
    info["closed"] = sum(1 for ax in results if not ax)
    info["ok"] = True
    return info


def count_obligations(pid):
    """Pinned theorems + every Lemma/Theorem/Example/Corollary in the Proofs files that the
    property file requires (its dependency cone inside this development)."""
    path = property_file(pid)
    text = open(path).read()
    mods = re.findall(r"Proofs\.([A-Za-z0-9_]+)", text)
    n = 0
    seen = set()
    todo = list(mods)
    while todo:
        m = todo.pop()
        if m in seen:
            continue
        seen.add(m)
        p = os.path.join(COQ, "Proofs", m + ".v")
        if not os.path.exists(p):
            continue
        t = strip_comments(open(p).read())
        n += len(re.findall(r"^\s*(Lemma|Theorem|Example|Corollary|Fact|Remark)\b", t, re.M))
        todo.extend(re.findall(r"Proofs\.([A-Za-z0-9_]+)", t))
    return n, sorted(seen)


# ------------------------------------------------------------------ builds

def build_model_runner():
    rc, out = sh("./extract/build.sh", cwd=COQ, timeout=900)
    if rc != 0 or not os.path.exists(MODEL_RUN):
        raise InfraError("model runner build failed:\n" + out[-3000:])


def build_harness(release=False):
    cmd = "cargo build --offline" + (" --release" if release else "")
    rc, out = sh(cmd, cwd=os.path.join(VERIF, "harness"), timeout=1500)
    if rc != 0:
        raise InfraError("harness build failed (does /repo compile with --cfg wellen_verif?):\n" + out[-4000:])


def repo_state():
    rc, head = sh("git -C /repo rev-parse HEAD")
    rc, diff = sh("git -C /repo diff HEAD -- . ':!target' | sha256sum")
    return head.strip(), diff.split()[0]


# ------------------------------------------------------------------ running cases

# address-space ceiling of one harness / model process: a changed loader that loops while allocating must end as
# CRASH-OR-HANG, not exhaust the machine (seen with a seeded change that ignores end-of-file)
MEM_KIB = 6 * 1024 * 1024
TRANSLATOR_INFO = {}


def run_cases(binary, cases, tag, timeout=900, shards=16, _depth=0):
    """cases: list of case lines.  Returns list of observation strings (same order)."""
    os.makedirs(RUN, exist_ok=True)
    n = len(cases)
    if n == 0:
        return []
    shards = max(1, min(shards, (n + 49) // 50))
    procs = []
    open_cases = {}
    per = (n + shards - 1) // shards
    for s in range(shards):
        part = cases[s * per:(s + 1) * per]
        if not part:
            continue
        path = os.path.join(RUN, "%s.%d.cases" % (tag, s))
        with open(path, "w") as f:
            f.write("\n".join(part) + "\n")
        p = subprocess.Popen("ulimit -s unlimited 2>/dev/null || ulimit -s 1000000 2>/dev/null; ulimit -v %d 2>/dev/null; exec %s %s" % (MEM_KIB, binary, path),
                             shell=True, stdout=subprocess.PIPE, stderr=subprocess.DEVNULL, env=ENV)
        procs.append((p, len(part), path))
        open_cases[id(p)] = part
    out = []
    for p, cnt, path in procs:
        try:
            data, _ = p.communicate(timeout=timeout)
        except subprocess.TimeoutExpired:
            p.kill()
            data, _ = p.communicate()
        lines = data.decode("utf-8", "replace").split("\n")
        got = {}
        for ln in lines:
            if not ln:
                continue
            k, _, v = ln.partition(" ")
            if k.isdigit():
                got[int(k)] = v
        part_out = [got.get(i, "CRASH-OR-HANG") for i in range(1, cnt + 1)]
        os.unlink(path)
        # a process that died (abort, stack overflow, kill after the time limit) takes the rest of its shard with it: the
        # case it died on keeps CRASH-OR-HANG, the cases behind it are run again in a fresh process
        missing = [i for i in range(cnt) if (i + 1) not in got]
        if missing and missing[0] + 1 < cnt and _depth < 12:
            first = missing[0]
            part_cases = open_cases[id(p)]
            redo = run_cases(binary, part_cases[first + 1:], tag + "r", timeout=timeout, shards=1, _depth=_depth + 1)
            part_out[first + 1:] = redo
        out += part_out
    return out


# ------------------------------------------------------------------ known findings

def load_known(pid):
    out = []
    if os.path.exists(KNOWN):
        for line in open(KNOWN):
            line = line.strip()
            if not line or line.startswith("#"):
                continue
            e = json.loads(line)
            if e.get("property") == pid:
                out.append(e)
    return out


# ------------------------------------------------------------------ the check driver

class Result:
    def __init__(self):
        self.violations = []      # (case, impl_obs, expected, why)
        self.mismatches = []      # (case, impl_obs, model_obs)
        self.evaluations = 0
        self.nontrivial = set()
        self.samples = []
        self.distribution = {}
        self.exhaustive = False
        self.notes = []


def write_replay(pid, name, payload):
    d = os.path.join(CACHE, "replay")
    os.makedirs(d, exist_ok=True)
    path = os.path.join(d, "%s-%s.json" % (pid, name))
    with open(path, "w") as f:
        json.dump(payload, f, indent=1)
    return path


def main_check(prop, argv):
    """prop: module object with the attributes documented in vlib/props/README."""
    import argparse
    ap = argparse.ArgumentParser()
    ap.add_argument("--tier", default=os.environ.get("VERIF_TIER", "quick"))
    ap.add_argument("--seed", type=int, default=int(os.environ.get("VERIF_SEED", "1")))
    ap.add_argument("--replay", default=None)
    args = ap.parse_args(argv)
    tier = "thorough" if args.tier == "thorough" else "quick"
    pid = prop.PID
    t0 = time.time()
    evidence = {"property_id": pid, "tier": tier, "seed": args.seed, "level": prop.LEVEL,
                "coverage": {}, "assumptions": list(getattr(prop, "ASSUMPTIONS", [])),
                "wall_s": 0.0, "violations": 0}
    os.makedirs(EVIDENCE, exist_ok=True)
    ev_path = os.path.join(EVIDENCE, pid + ".json")
    exit_code = 0
    try:
        with Lock():
            # 1. translated constants
            try:
                from . import translate
                tr = translate.regenerate()
            except InfraError as e:
                tr = {"degraded": str(e)}
            global TRANSLATOR_INFO
            TRANSLATOR_INFO = tr
            # 2. proofs
            coq_ok, coq_log = coq_build()
            bad = forbidden_scan()
            pinfo = coq_check_property(pid) if coq_ok else {"ok": False, "pinned": [], "assumptions": {}, "closed": 0, "log": coq_log[-3000:]}
            # 3. implementation + model runner
            build_harness(release=False)
            if tier == "thorough" or getattr(prop, "NEEDS_RELEASE", False):
                build_harness(release=True)
            try:
                build_model_runner()
                model_ok = True
            except InfraError as e:
                model_ok = False
                model_err = str(e)
            extra = getattr(prop, "prepare", None)
            if extra:
                extra(tier)
        rng = random.Random(args.seed)
        res = Result()
        # 4/5. correspondence + oracle
        if args.replay:
            payload = json.load(open(args.replay))
            prop.run(res, rng, tier, model_ok, replay=payload)
        else:
            prop.run(res, rng, tier, model_ok)
        # known findings
        known = load_known(pid)
        known_lines = []
        for e in known:
            if e.get("status") != "open":
                continue
            still = prop.check_known(e)
            if still:
                known_lines.append("KNOWN-FINDING: property=%s %s" % (pid, e["what"]))
            else:
                res.notes.append("known finding %s no longer reproduces" % e.get("id"))
        for ln in known_lines:
            print(ln)
        # 6. verdict
        allowed_axioms = set(getattr(prop, "ALLOWED_AXIOMS", []))
        theorem_problems = []
        if not coq_ok:
            theorem_problems.append("Coq build failed: " + coq_log[-1500:])
        elif not pinfo["ok"]:
            theorem_problems.append("Properties/%s.v does not check: %s" % (pid, pinfo["log"][-1500:]))
        else:
            for name, ax in pinfo["assumptions"].items():
                extra_ax = [a for a in ax if a not in allowed_axioms]
                if extra_ax:
                    theorem_problems.append("theorem %s depends on axioms %s" % (name, extra_ax))
        if bad:
            theorem_problems.append("forbidden vernacular: " + "; ".join(bad[:10]))
        if not model_ok:
            theorem_problems.append("model extraction failed: " + model_err[-1500:])
        if res.violations:
            v = res.violations[0]
            path = write_replay(pid, "violation", {
                "property": pid, "kind": "property-violated-on-implementation",
                "case": v[0], "implementation": v[1], "expected": v[2], "why": v[3],
                "more": [[str(y)[:3000] for y in x] for x in res.violations[1:10]],
                "rerun": "cd /verif && ./check %s --replay <this file>" % pid})
            print("VIOLATION property=%s replay=%s" % (pid, path))
            exit_code = 1
        elif res.mismatches or theorem_problems:
            m = res.mismatches[0] if res.mismatches else None
            path = write_replay(pid, "unproved", {
                "property": pid, "kind": "no-failing-input-found",
                "broken_theorems_or_build": theorem_problems,
                "broken_correspondence": None if m is None else
                    {"case": m[0], "implementation": m[1], "model": m[2]},
                "more": [[str(y)[:3000] for y in x] for x in res.mismatches[1:10]],
                "note": "the property oracle found no input on which the implementation violates the "
                        "property; the model/theorem tie named here no longer checks",
                "rerun": "cd /verif && ./check %s --replay <this file>" % pid})
            print("VIOLATION property=%s replay=%s no-failing-input-found" % (pid, path))
            exit_code = 1
        # 7. evidence
        nob, mods = count_obligations(pid) if os.path.exists(property_file(pid)) else (0, [])
        obligations = nob + len(pinfo["pinned"])
        discharged = obligations if (coq_ok and pinfo["ok"]) else 0
        head, diffsha = repo_state()
        cov = {
            "obligations": max(obligations, 1),
            "discharged": discharged,
            "checker_cmd": "cd /verif/coq && coq_makefile -f _CoqProject -o Makefile && make -j16 && coqc -Q . WV Properties/%s.v" % pid,
            "trusted_base": list(getattr(prop, "TRUSTED_BASE", [])) + [
                "Coq 8.16.1 kernel + vm_compute (no native_compute)",
                "Print Assumptions: " + json.dumps(pinfo["assumptions"], sort_keys=True),
                "extraction: ExtrOcamlBasic only; OCaml driver /verif/coq/extract/{conv,driver}.ml",
                "Rust harness /verif/harness (wv) built from /repo working tree with --cfg wellen_verif",
            ],
            "pinned_theorems": pinfo["pinned"],
            "proof_modules": mods,
            "programs": max(res.evaluations, 1),
            "disagreements_checked": len(res.mismatches) + len(res.violations),
            "evaluations": res.evaluations,
            "distinct_nontrivial": len(res.nontrivial),
            "rule": prop.RULE,
            "samples": res.samples[:8],
            "exhaustive": res.exhaustive,
            "distribution": res.distribution,
            "mismatches_model_vs_impl": len(res.mismatches),
            "known_findings_reconfirmed": known_lines,
            "translator": tr,
            "repo_head": head, "repo_diff_sha256": diffsha,
            "notes": res.notes,
        }
        evidence["coverage"] = cov
        evidence["violations"] = len(res.violations) + (1 if (exit_code == 1 and not res.violations) else 0)
    except InfraError as e:
        sys.stderr.write("INFRASTRUCTURE ERROR: %s\n" % e)
        evidence["coverage"] = {"explanation": "infrastructure error: %s" % str(e)[:500],
                                "evaluations": 0, "distinct_nontrivial": 0, "obligations": 1, "discharged": 0,
                                "checker_cmd": "n/a", "trusted_base": []}
        exit_code = 2
    evidence["wall_s"] = round(time.time() - t0, 2)
    with open(ev_path, "w") as f:
        json.dump(evidence, f, indent=1)
    print("%s %s tier=%s seed=%d evaluations=%d nontrivial=%d wall=%.1fs exit=%d" % (
        "check", pid, tier, args.seed, evidence["coverage"].get("evaluations", 0),
        evidence["coverage"].get("distinct_nontrivial", 0), evidence["wall_s"], exit_code))
    return exit_code
