//! `wv`: implementation side of the correspondence check.  Reads one case per line,
//! runs the real wellen code (built from /repo's working tree with `--cfg wellen_verif`)
//! and prints one canonical observation per line, in the same grammar as the model runner.
use std::io::BufRead;
use std::panic::{catch_unwind, AssertUnwindSafe};

mod util;
mod obs;
mod offsets;
mod enc;
mod vcd;
mod fstw;
mod hier;
mod detect;
mod slice;
mod loadseq;
mod serde_rt;
mod fstraw;
mod ghws;

fn dispatch(cmd: &str, args: &[&str]) -> String {
    match cmd {
        "offsets" => offsets::run(args),
        "enc" => enc::run(args),
        "body" => vcd::run_body(args),
        "fstw" => fstw::run(args),
        "hier" => hier::run(args),
        "vhdr" => hier::run_vhdr(args),
        "detect" => detect::run(args),
        "detectx" => detect::run(args),
        "slice" => slice::run(args),
        "loadseq" => loadseq::run(args),
        "loadseqf" => loadseq::run_file(args),
        "loadseqm" => loadseq::run_mt(args),
        "loadsrc" => loadseq::run_source(args),
        "nsig" => loadseq::run_nsig(args),
        "wobs" => loadseq::run_wobs(args),
        "wfull" => loadseq::run_wfull(args),
        "ghws" => ghws::run(args),
        "ghwreg" => ghws::run_reg(args),
        "serde" => serde_rt::run_path(args),
        "serdev" => serde_rt::run_vcd(args),
        "serdej" => serde_rt::run_json(args),
        "serdede" => serde_rt::run_de(args),
        "fsthier" => fstraw::run_hier(args),
        "fstsig" => fstraw::run_sig(args),
        "ghwhier" => fstraw::run_ghw_hier(args),
        "ghwfile" => fstraw::run_ghw_file(args),
        "ghwslices" => slice::run_ghw(args),
        "ghwaliases" => slice::run_aliases(args),
        "canonfile" => slice::run_canonfile(args),
        "detectc" => detect::run_cursor(args),
        "vcd" => vcd::run_vcd(args),
        "file" => vcd::run_file(args),
        _ => "UNSUPPORTED".to_string(),
    }
}

fn main() {
    // panics are an observation (PANIC), not noise on stderr
    if std::env::var("WV_VERBOSE").is_err() {
        std::panic::set_hook(Box::new(|_| {}));
    }
    let path = std::env::args().nth(1);
    let input: Box<dyn BufRead> = match path {
        Some(p) => Box::new(std::io::BufReader::new(std::fs::File::open(p).unwrap())),
        None => Box::new(std::io::BufReader::new(std::io::stdin())),
    };
    for (ii, line) in input.lines().enumerate() {
        let line = line.unwrap();
        if line.is_empty() || line.starts_with('#') {
            continue;
        }
        let mut parts = line.split(' ');
        let cmd = parts.next().unwrap();
        let args: Vec<&str> = parts.collect();
        let res = catch_unwind(AssertUnwindSafe(|| dispatch(cmd, &args)))
            .unwrap_or_else(|_| "PANIC".to_string());
        // wellen itself prints warnings to stdout from worker threads: never hold the lock
        println!("{} {}", ii + 1, res);
    }
}
