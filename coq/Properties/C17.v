(* Property C17: serialised hierarchies and signals survive a round trip.
   Pinned: for the shape of every type with a serde derive in the current source (Generated/SerdeSchema.v, written by
   the translator on every run - 26 sites today, among them Hierarchy and Signal with everything they contain), the
   document serde_json writes for a value is read back as that value (derive_sites_roundtrip), and serialising the
   value read back reproduces the document (derive_sites_reserialise).  The general theorem de_ser holds for every
   shape built from integers (ranges, NonZero), bool, String, Option, Vec, HashMap with integer keys, tuples,
   structs and enums (unit, newtype, struct and tuple variants), under the two side conditions that are both needed
   (nested_option_refuted, duplicate_variant_refuted): no Option directly inside an Option, distinct variant names;
   the translated sites meet them (serde_types_ok, by computation on the translation).
   "Behaves identically under every public accessor" follows because the objects are plain data: every accessor is a
   function of the fields, all fields are part of the shape (the translator refuses any #[serde(..)] attribute, so no
   field is skipped or renamed), and equal field values give equal results; the behaviour itself is compared on the
   implementation by the correspondence run.
   MODELLED, not verified: what serde's derive macros generate and serde_json's encoding of the data model
   (Model/Serde.v); the run ties them to the code: the implementation's JSON of real objects must be read and
   re-written identically by the model, and corrupted documents must be accepted or rejected alike. *)
From WV Require Import Model.Base Model.Serde Generated.SerdeSchema Proofs.SerdeProofs Proofs.SerdeSites.
Open Scope Z_scope.

Check de_ser : forall t, ty_okb t = true -> forall v j, ser t v = Some j -> de t j = Some v.

Check derive_sites_roundtrip :
  forall name t, In (name, t) serde_types -> forall v j, ser t v = Some j -> de t j = Some v.

Check derive_sites_reserialise :
  forall name t, In (name, t) serde_types -> forall v j, ser t v = Some j -> reserialises t j = Some j.

Check serde_types_ok : forallb (fun p : list byte * ty => ty_okb (snd p)) serde_types = true.

Check serde_types_inhabited :
  forallb (fun p : list byte * ty =>
    match ser (snd p) (inhabitant (snd p)) with
    | Some j => match de (snd p) j with Some _ => true | None => false end
    | None => false
    end) serde_types = true.

Check roots_present :
  existsb (fun p : list byte * ty => bytes_eqb (fst p) (str [72; 105; 101; 114; 97; 114; 99; 104; 121]%N)) serde_types = true /\
  existsb (fun p : list byte * ty => bytes_eqb (fst p) (str [83; 105; 103; 110; 97; 108]%N)) serde_types = true.

Check read_show_N : forall n, read_N (show_N n) = Some n.

Check nested_option_refuted : exists t v j, ser t v = Some j /\ de t j <> Some v.
Check duplicate_variant_refuted : exists t v j, ser t v = Some j /\ de t j <> Some v.

(* the vocabulary *)
Check (eq_refl : reserialises = fun t j => match de t j with Some v => ser t v | None => None end).
Check (eq_refl : nullable = fun t => match t with TOption _ => true | _ => false end).
Check (eq_refl : int_ok = fun lo hi nz z => (lo <=? z) && (z <=? hi) && negb (nz && (z =? 0))).

Print Assumptions de_ser.
Print Assumptions derive_sites_roundtrip.
Print Assumptions derive_sites_reserialise.
Print Assumptions serde_types_ok.
Print Assumptions serde_types_inhabited.
Print Assumptions roots_present.
Print Assumptions read_show_N.
Print Assumptions nested_option_refuted.
Print Assumptions duplicate_variant_refuted.
