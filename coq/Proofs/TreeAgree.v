(* C12: one and the same list of declarations delivered as a VCD header and as an FST hierarchy makes the two front ends
   call the hierarchy builder identically - same scopes (name, kind), same variables (name, array scopes, kind, encoding and
   width, bit range, signal), same nesting and order; only the component (an FST notion) and the direction (FST only) differ. *)
From Coq Require Import Lia.
From WV Require Import Model.Base Generated.Consts Model.Bits Model.WaveMem Model.Hierarchy Model.VcdBody Model.VcdHeader
  Model.FstHier Proofs.CmdProofs Proofs.FstHierProofs Proofs.EraseProofs.
Open Scope N_scope.

(* a declaration as both formats can express it *)
Inductive cdecl :=
| CScope (kind : N) (nm : name)                            (* kind: discriminant of wellen's ScopeType *)
| CUp
| CVar (vkind : N) (width : N) (sig : nat) (ref : list byte).   (* vkind: discriminant of VarType; ref: `name {[i]} [msb:lsb]` *)

Definition vcd_enc (raw len : N) : sig_enc :=
  if raw =? 17 then EncString else if mem_byte raw real_types then EncReal
  else EncBits (if len =? 0 then 1%nat else N.to_nat len).

(* the VCD command that declares it: any keyword of the kind, any size text denoting the width, any identifier code
   denoting the signal *)
Definition vcd_renders (c : cdecl) (d : CmdProofs.decl) : Prop :=
  match c, d with
  | CScope k nm, CmdProofs.DScope kw nm' => nm' = nm /\ lookup_bytes kw scope_kw = Some k
  | CUp, CmdProofs.DUp => True
  | CVar vk w sig ref, CmdProofs.DVar tpe size id r0 rest =>
      r0 :: rest = ref /\ lookup_bytes tpe var_kw = Some vk /\ parse_uint size u32_max = Some w /\ sref_direct id = sig
  | _, _ => False
  end.

(* the FST entries that declare it: any type code converted to the kind (and stored the same way), no attributes *)
Definition fst_renders (c : cdecl) (f : FstHierProofs.fdecl) : Prop :=
  match c, f with
  | CScope k nm, FstHierProofs.DScope t nm' comp stems => nm' = nm /\ stems = [] /\ n_get fst_scope_tab t = Some k
  | CUp, FstHierProofs.DUp => True
  | CVar vk w sig ref, FstHierProofs.DVar t dir nm len h attrs =>
      nm = ref /\ len = w /\ h = sig /\ attrs = [] /\ n_get fst_var_tab t = Some vk /\ var_enc t w = vcd_enc vk w
  | _, _ => False
  end.

(* equal builder calls up to component and direction *)
Definition same_op (a b : hier_op) : Prop :=
  match a, b with
  | HScope n _ t d f, HScope n' _ t' d' f' => n = n' /\ t = t' /\ d = d' /\ f = f'
  | HVar n t _ e i s tn, HVar n' t' _ e' i' s' tn' => n = n' /\ t = t' /\ e = e' /\ i = i' /\ s = s' /\ tn = tn'
  | HPop, HPop => True
  | _, _ => False
  end.

Lemma same_op_scopes (scopes : list name) c :
  Forall2 same_op (map (fun s => HScope s None 23 None false) scopes)
                  (concat (map hier_op_of (map (fun s => FcScope s c vhdl_array_code None None) scopes))).
Proof. induction scopes as [|s r IH]; cbn; constructor; [repeat split|exact IH]. Qed.

Lemma same_op_pops {A} (scopes : list A) :
  Forall2 same_op (map (fun _ => HPop) scopes) (concat (map hier_op_of (map (fun _ => FcPop) scopes))).
Proof. induction scopes as [|s r IH]; cbn; constructor; [exact I|exact IH]. Qed.

Lemma concat_map_app {A B} (f : A -> list B) (l1 l2 : list A) :
  concat (map f (l1 ++ l2)) = concat (map f l1) ++ concat (map f l2).
Proof. rewrite map_app, concat_app. reflexivity. Qed.

Lemma one_decl c d f st st' calls :
  vcd_renders c d -> fst_renders c f -> decl_calls st f = Some (st', calls) ->
  st' = st /\
  Forall2 same_op (decl_ops d (match d with CmdProofs.DVar _ _ id _ _ => sref_direct id | _ => 0%nat end))
                  (concat (map hier_op_of calls)).
Proof.
  intros Hv Hf H.
  destruct c as [k nm| |vk w sig ref]; destruct d as [kw nm1| |tpe size id r0 rest]; cbn [vcd_renders] in Hv; try contradiction;
    destruct f as [pid pnm|enm eh em| | | |t nm2 comp stems|t dir nm2 len h attrs]; cbn [fst_renders] in Hf; try contradiction.
  - destruct Hv as [-> Hk]. destruct Hf as (-> & -> & Ht). cbn [decl_calls mapM_opt] in H. rewrite Ht in H.
    injection H as <- <-. split; [reflexivity|]. cbn [decl_ops]. rewrite Hk. cbn. constructor; [repeat split|constructor].
  - cbn [decl_calls] in H. injection H as <- <-. split; [reflexivity|]. cbn. constructor; [exact I|constructor].
  - destruct Hv as (Href & Hk & Hw & Hs). destruct Hf as (-> & -> & -> & -> & Ht & He).
    cbn [decl_calls mapM_opt] in H. rewrite Ht in H.
    destruct (parse_name ref) as [[[vn idx] scopes]| |] eqn:Ep; try discriminate.
    destruct (n_get fst_dir_tab dir) as [dd|]; [|discriminate]. injection H as <- <-. split; [reflexivity|].
    cbn [decl_ops]. rewrite Href, Ep, Hk, Hw. fold (vcd_enc vk w). rewrite <- He.
    rewrite !concat_map_app. apply Forall2_app; [apply same_op_scopes|]. apply Forall2_app; [|apply same_op_pops].
    cbn. constructor; [|constructor]. repeat split. exact Hs.
Qed.

Theorem vcd_fst_same_calls : forall cs ds fs st st' calls,
  Forall2 vcd_renders cs ds -> Forall2 fst_renders cs fs ->
  design_calls st fs = Some (st', calls) ->
  Forall2 same_op (direct_ops ds) (concat (map hier_op_of calls)).
Proof.
  induction cs as [|c cs IH]; intros ds fs st st' calls Hv Hf H.
  - inversion Hv; subst. inversion Hf; subst. cbn in H. injection H as <- <-. constructor.
  - inversion Hv as [|c0 d cs0 ds' Hv1 Hvr]; subst. inversion Hf as [|c0 f cs0 fs' Hf1 Hfr]; subst.
    cbn [design_calls] in H. destruct (decl_calls st f) as [[st1 c1]|] eqn:Ed; [|discriminate].
    destruct (design_calls st1 fs') as [[st2 c2]|] eqn:Er; [|discriminate]. injection H as <- <-.
    destruct (one_decl c d f st st1 c1 Hv1 Hf1 Ed) as [-> Hone].
    unfold direct_ops. cbn [flat_map]. fold (direct_ops ds'). rewrite concat_map_app.
    apply Forall2_app; [exact Hone|]. exact (IH ds' fs' st st2 c2 Hvr Hfr Er).
Qed.

Lemma same_op_erase ops1 : forall ops2, Forall2 same_op ops1 ops2 -> map erase_op ops1 = map erase_op ops2.
Proof.
  induction ops1 as [|a r IH]; intros ops2 H; inversion H as [|a0 b r0 r2 Hab Hr]; subst; [reflexivity|].
  cbn [map]. rewrite (IH _ Hr). f_equal.
  destruct a as [n c t d f|n t dir e i s tn|], b as [n' c' t' d' f'|n' t' dir' e' i' s' tn'|]; cbn [same_op] in Hab; try contradiction.
  - destruct Hab as (-> & -> & -> & ->). reflexivity.
  - destruct Hab as (-> & -> & -> & -> & -> & ->). reflexivity.
  - reflexivity.
Qed.

(* the hierarchies the two files are loaded into are equal up to component and direction: the same scopes and variables
   (names, kinds, encodings and widths, bit ranges, signals), linked into the same tree in the same order *)
Theorem vcd_fst_same_tree : forall cs ds fs st st' calls b_vcd b_fst,
  Forall2 vcd_renders cs ds -> Forall2 fst_renders cs fs ->
  design_calls st fs = Some (st', calls) ->
  hier_run hb_new (direct_ops ds) = Ok b_vcd ->
  hier_run hb_new (concat (map hier_op_of calls)) = Ok b_fst ->
  erase_b b_vcd = erase_b b_fst.
Proof.
  intros cs ds fs st st' calls b1 b2 Hv Hf Hd H1 H2.
  exact (erased_calls_same_tree _ _ b1 b2 (same_op_erase _ _ (vcd_fst_same_calls cs ds fs st st' calls Hv Hf Hd)) H1 H2).
Qed.

(* the storage classes of the two front ends agree for every FST type code except RealParameter (code 4), which wellen
   converts to the kind Parameter but stores as a real *)
Lemma enc_classes_sweep :
  forallb (fun k : nat =>
    let t := N.of_nat k in
    match n_get fst_var_tab t with
    | Some raw =>
        (t =? 4) ||
        (Bool.eqb (existsb (N.eqb t) fst_string_var_types) (raw =? 17) &&
         Bool.eqb (existsb (N.eqb t) fst_real_var_types) (mem_byte raw real_types))
    | None => true
    end) (seq 0 256) = true.
Proof. vm_compute. reflexivity. Qed.

Lemma enc_classes_agree t raw w : t < 256 -> t <> 4 -> n_get fst_var_tab t = Some raw -> var_enc t w = vcd_enc raw w.
Proof.
  intros Ht H4 Hr. pose proof enc_classes_sweep as S. rewrite forallb_forall in S.
  specialize (S (N.to_nat t) ltac:(apply in_seq; lia)). cbn zeta in S. rewrite N2Nat.id, Hr in S.
  apply orb_true_iff in S. destruct S as [S|S]; [apply N.eqb_eq in S; contradiction|].
  apply andb_true_iff in S. destruct S as [S1 S2]. apply Bool.eqb_prop in S1. apply Bool.eqb_prop in S2.
  unfold var_enc, vcd_enc. rewrite S1, S2.
  destruct (raw =? 17) eqn:E17; [reflexivity|]. reflexivity.
Qed.

(* non-vacuity: `$scope module top` / `$var wire 8 ! mem[3] [7:0]` / `$upscope` and the FST entries Scope(Module, top),
   Var(Wire = 5, Input, "mem[3] [7:0]", 8, handle 0), UpScope *)
Example same_calls_example :
  let cs := [CScope 0 [116; 111; 112]; CVar 15 8 0%nat [109; 101; 109; 91; 51; 93; 32; 91; 55; 58; 48; 93]; CUp] in
  let ds := [CmdProofs.DScope [109; 111; 100; 117; 108; 101] [116; 111; 112];
             CmdProofs.DVar [119; 105; 114; 101] [56] [33] 109 [101; 109; 91; 51; 93; 32; 91; 55; 58; 48; 93];
             CmdProofs.DUp] in
  let fs := [FstHierProofs.DScope 0 [116; 111; 112] [] [];
             FstHierProofs.DVar 16 1 [109; 101; 109; 91; 51; 93; 32; 91; 55; 58; 48; 93] 8 0%nat [];
             FstHierProofs.DUp] in
  Forall2 vcd_renders cs ds /\ Forall2 fst_renders cs fs /\
  exists st' calls, design_calls fs_init fs = Some (st', calls) /\
    direct_ops ds = [HScope [116; 111; 112] None 0 None false; HScope [109; 101; 109] None 23 None false;
                     HVar [91; 51; 93] 15 0 (EncBits 8) (Some (7%Z, 0%Z)) 0%nat None; HPop; HPop].
Proof.
  cbn zeta. split; [|split].
  - repeat constructor.
  - repeat constructor.
  - eexists. eexists. split; [vm_compute; reflexivity|vm_compute; reflexivity].
Qed.
