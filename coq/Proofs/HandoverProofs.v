(* The chunk hand-over of multi-threaded VCD loading (vcd.rs read_values / parse_body), parser level
   (property C03): a parser thread that starts in the middle of the body skips to the next line start; if the
   sequential parser is between tokens there, the thread reproduces exactly the events of the sequential parser
   from that point on, up to where its stop rule fires - no token is split, altered or invented at a seam. *)
From WV Require Import Model.Base Generated.Consts Model.Bits Model.VcdBody Proofs.BodyProofs.
From Coq Require Import Lia ZifyBool ZifyNat ZifyN.
Open Scope N_scope.

(* the thread's machine state sc and the sequential machine state ss agree on everything but the position
   (offset d) and the events emitted before the thread started (A) *)
Definition related (d : N) (A : list event) (sc ss : pstate) : Prop :=
  ps_state sc = ps_state ss /\ ps_first sc = ps_first ss /\ ps_id sc = ps_id ss /\
  ps_pos ss = ps_pos sc + d /\ ps_acc ss = ps_acc sc ++ A.

(* the position check of the time-stamp rule (`pos - first.len() - 1`) cannot underflow in the thread *)
Definition no_underflow (s : pstate) : Prop :=
  (ps_state s = ParsingFirstToken -> N.of_nat (length (ps_first s)) + 1 <= ps_pos s) /\
  (ps_state s = SkippingNewLine -> ps_first s = []).

Definition events_of (debug : bool) (r : run_result) : list event := fst (finish debug r).

Lemma rev_append_app (a A : list event) : rev_append (a ++ A) [] = rev A ++ rev_append a [].
Proof. rewrite !rev_append_rev, !app_nil_r. apply rev_app_distr. Qed.

Lemma eof_flush_related debug d A sc ss : related d A sc ss ->
  fst (eof_flush debug ss) = rev A ++ fst (eof_flush debug sc) /\ snd (eof_flush debug ss) = snd (eof_flush debug sc).
Proof.
  intros (Hst & Hf & Hi & _ & Ha). unfold eof_flush. rewrite <- Hst, <- Hf, <- Hi, Ha.
  destruct (ps_state sc); cbn [fst snd]; try (split; [apply rev_append_app|reflexivity]).
  - destruct (ps_first sc) as [|c rest]; cbn [fst snd]; [split; [apply rev_append_app|reflexivity]|].
    destruct (parse_first_token debug (c :: rest)) as [[v| | | |]| |]; cbn [fst snd];
      try (split; [apply rev_append_app|reflexivity]);
      (split; [apply (rev_append_app (_ :: ps_acc sc) A)|reflexivity]).
  - split; [apply (rev_append_app (_ :: ps_acc sc) A)|reflexivity].
Qed.

(* the simulation: as long as the thread's stop rule does not fire, both machines move in lock step; when it
   fires (or at the end of the input) the thread has emitted a prefix of what the sequential parser emits *)
Theorem chunk_simulates debug stop_c stop_s d A : forall bytes sc ss,
  related d A sc ss -> no_underflow sc ->
  ps_pos ss + N.of_nat (length bytes) <= stop_s + 1 ->
  exists more, events_of debug (run_bytes debug stop_s bytes ss)
               = rev A ++ events_of debug (run_bytes debug stop_c bytes sc) ++ more.
Proof.
  induction bytes as [|b r IH]; intros sc ss Hrel Hnu Hstop.
  - cbn [run_bytes]. unfold events_of. cbn [finish]. exists []. rewrite app_nil_r. apply (eof_flush_related debug d A sc ss Hrel).
  - pose proof Hrel as (Hst & Hf & Hi & Hp & Ha).
    cbn [length] in Hstop. rewrite Nat2N.inj_succ in Hstop.
    (* a common step: both machines take the same transition *)
    assert (Hnext : forall st f i (e : list event),
              (st = ParsingFirstToken -> N.of_nat (length f) + 1 <= ps_pos sc + 1) ->
              (st = SkippingNewLine -> f = []) ->
              exists more, events_of debug (run_bytes debug stop_s r (mk_ps (ps_pos ss + 1) st f i (e ++ ps_acc ss)))
                           = rev A ++ events_of debug (run_bytes debug stop_c r (mk_ps (ps_pos sc + 1) st f i (e ++ ps_acc sc))) ++ more).
    { intros st f i e Hu Hsk. apply IH.
      - unfold related. cbn [ps_state ps_first ps_id ps_pos ps_acc].
        split; [reflexivity|split; [reflexivity|split; [reflexivity|split; [lia|]]]]. rewrite Ha. now rewrite app_assoc.
      - unfold no_underflow. cbn [ps_state ps_first ps_pos]. split; [exact Hu|exact Hsk].
      - cbn [ps_pos]. lia. }
    (* the sequential machine stops on an error exactly when the thread does *)
    assert (Hfin : forall pr, exists more, events_of debug (Finished (rev_append (ps_acc ss) [], pr))
                                        = rev A ++ events_of debug (Finished (rev_append (ps_acc sc) [], pr)) ++ more).
    { intros pr. exists []. unfold events_of. cbn [finish fst]. rewrite app_nil_r, Ha. apply rev_append_app. }
    cbn [run_bytes]. rewrite <- Hst, <- Hf, <- Hi.
    destruct (ps_state sc) eqn:Est.
    + destruct Hnu as [_ Hsk0]. specialize (Hsk0 Est). rewrite Hsk0.
      apply (Hnext _ _ _ []); [destruct (b =? 10); intros E; [cbn [length]; lia|discriminate]|reflexivity].
    + destruct (is_white_space b).
      * destruct (ps_first sc) as [|c rest] eqn:Efirst.
        -- apply (Hnext _ _ _ []); [intros _; cbn [length]; lia|discriminate].
        -- destruct Hnu as [Hnu _]. specialize (Hnu Est). rewrite Efirst in Hnu.
           destruct (parse_first_token debug (c :: rest)) as [[v| | | |]| |]; try apply Hfin.
           ++ (* a time stamp *)
              replace (ps_pos ss <? N.of_nat (length (c :: rest)) + 1) with false by (symmetry; apply N.ltb_ge; lia).
              replace (ps_pos sc <? N.of_nat (length (c :: rest)) + 1) with false by (symmetry; apply N.ltb_ge; lia).
              replace (stop_s <? ps_pos ss - N.of_nat (length (c :: rest)) - 1) with false by (symmetry; apply N.ltb_ge; lia).
              destruct (stop_c <? ps_pos sc - N.of_nat (length (c :: rest)) - 1).
              ** (* the thread hands over here; the sequential parser goes on *)
                 pose proof (run_bytes_mono debug stop_s r (mk_ps (ps_pos ss + 1) ParsingFirstToken [] (ps_id sc) (EvTime v :: ps_acc ss))) as M.
                 unfold events_of. cbn [finish fst].
                 destruct (run_bytes debug stop_s r _) as [s'|[evs pr]].
                 --- destruct M as [m E]. cbn [ps_acc] in E.
                     assert (P : forall x, exists more, rev_append (x ++ ps_acc s') [] = rev A ++ rev_append (ps_acc sc) [] ++ more).
                     { intros x. rewrite E, Ha. rewrite !rev_append_rev, !app_nil_r.
                       exists (EvTime v :: rev m ++ rev x). rewrite !rev_app_distr. cbn [rev]. rewrite !rev_app_distr, <- !app_assoc. reflexivity. }
                     cbn [finish]. unfold eof_flush.
                     destruct (ps_state s'); cbn [fst]; try (apply (P [])); try (apply (P [_])).
                     destruct (ps_first s') as [|c2 rest2]; [apply (P [])|].
                     destruct (parse_first_token debug (c2 :: rest2)) as [[v2| | | |]| |]; cbn [fst]; try (apply (P [])); try (apply (P [_])).
                 --- destruct M as [m E]. cbn [ps_acc] in E. cbn [finish fst]. rewrite E, Ha.
                     exists (EvTime v :: m). cbn [rev]. rewrite rev_append_rev, app_nil_r, rev_app_distr, <- !app_assoc. reflexivity.
              ** apply (Hnext ParsingFirstToken [] (ps_id sc) [EvTime v]); [intros _; cbn [length]; lia|discriminate].
           ++ apply (Hnext ParsingFirstToken [] (ps_id sc) [EvValue [c] rest]); [intros _; cbn [length]; lia|discriminate].
           ++ apply (Hnext ParsingIdToken _ _ []); discriminate.
           ++ apply (Hnext LookingForEndToken _ _ []); discriminate.
           ++ apply (Hnext ParsingFirstToken [] (ps_id sc) []); [intros _; cbn [length]; lia|discriminate].
      * apply (Hnext _ _ _ []); [intros _; destruct Hnu as [Hnu _]; specialize (Hnu Est); rewrite app_length; cbn [length]; lia|discriminate].
    + destruct (is_white_space b); [|apply (Hnext _ _ _ []); discriminate].
      destruct (ps_id sc); [apply (Hnext _ _ _ []); discriminate|].
      apply (Hnext ParsingFirstToken [] [] [EvValue (ps_first sc) (_ :: _)]); [intros _; cbn [length]; lia|discriminate].
    + destruct (is_white_space b); [|apply (Hnext _ _ _ []); discriminate].
      destruct (ps_first sc); [apply (Hnext _ _ _ []); discriminate|].
      apply (Hnext _ [] _ []); [destruct (bytes_eqb _ kw_end); intros E; [cbn [length]; lia|discriminate]|reflexivity].
Qed.

(* ------------------------------------------------------------------ the thread's skip phase and the seam *)

Lemma run_bytes_pos debug stop : forall bytes s s', run_bytes debug stop bytes s = Running s' ->
  ps_pos s' = ps_pos s + N.of_nat (length bytes).
Proof.
  induction bytes as [|b r IH]; intros s s' H; cbn [run_bytes] in H.
  - inversion H; subst. cbn. lia.
  - cbn [length]. rewrite Nat2N.inj_succ.
    assert (Hn : forall st f i a, run_bytes debug stop r (mk_ps (ps_pos s + 1) st f i a) = Running s' -> ps_pos s' = ps_pos s + N.succ (N.of_nat (length r))).
    { intros st f i a Hr. rewrite (IH _ _ Hr). cbn [ps_pos]. lia. }
    destruct (ps_state s).
    + eapply Hn; eassumption.
    + destruct (is_white_space b); [|eapply Hn; eassumption]. destruct (ps_first s) as [|c rest]; [eapply Hn; eassumption|].
      destruct (parse_first_token debug (c :: rest)) as [[v| | | |]| |]; try discriminate; try (eapply Hn; eassumption).
      destruct (ps_pos s <? _); [discriminate|]. destruct (stop <? _); [discriminate|eapply Hn; eassumption].
    + destruct (is_white_space b); [|eapply Hn; eassumption]. destruct (ps_id s); eapply Hn; eassumption.
    + destruct (is_white_space b); [|eapply Hn; eassumption]. destruct (ps_first s); eapply Hn; eassumption.
Qed.

(* outside ParsingIdToken the identifier buffer is empty *)
Definition id_clean (s : pstate) : Prop := ps_state s <> ParsingIdToken -> ps_id s = [].

Lemma run_bytes_id_clean debug stop : forall bytes s s', id_clean s -> run_bytes debug stop bytes s = Running s' -> id_clean s'.
Proof.
  induction bytes as [|b r IH]; intros s s' Hc H; cbn [run_bytes] in H.
  - inversion H; subst. exact Hc.
  - assert (Hn : forall st f i a, (st <> ParsingIdToken -> i = []) -> run_bytes debug stop r (mk_ps (ps_pos s + 1) st f i a) = Running s' -> id_clean s').
    { intros st f i a Hi Hr. eapply IH; [|exact Hr]. unfold id_clean. cbn [ps_state ps_id]. exact Hi. }
    unfold id_clean in Hc.
    destruct (ps_state s) eqn:Est.
    + eapply Hn; [|exact H]. intros _. apply Hc. discriminate.
    + assert (Hid : ps_id s = []) by (apply Hc; discriminate).
      destruct (is_white_space b); [|eapply Hn; [|exact H]; intros _; exact Hid].
      destruct (ps_first s) as [|c rest]; [eapply Hn; [|exact H]; intros _; exact Hid|].
      destruct (parse_first_token debug (c :: rest)) as [[v| | | |]| |]; try discriminate;
        try (eapply Hn; [|exact H]; intros; first [exact Hid | congruence]).
      destruct (ps_pos s <? _); [discriminate|]. destruct (stop <? _); [discriminate|]. eapply Hn; [|exact H]. intros _. exact Hid.
    + destruct (is_white_space b); [|eapply Hn; [|exact H]; congruence].
      destruct (ps_id s); eapply Hn; try exact H; first [congruence | reflexivity | intros; reflexivity].
    + assert (Hid : ps_id s = []) by (apply Hc; discriminate).
      destruct (is_white_space b); [|eapply Hn; [|exact H]; intros _; exact Hid].
      destruct (ps_first s); eapply Hn; try exact H; intros _; exact Hid.
Qed.

(* a thread that starts inside a line skips to the line feed and is then between tokens *)
Lemma skip_phase debug stop : forall nolf s, ps_state s = SkippingNewLine -> ~ In 10 nolf ->
  run_bytes debug stop (nolf ++ [10]) s
  = Running (mk_ps (ps_pos s + N.of_nat (length nolf) + 1) ParsingFirstToken (ps_first s) (ps_id s) (ps_acc s)).
Proof.
  induction nolf as [|b r IH]; intros s Hst Hno.
  - cbn [app run_bytes length]. rewrite Hst. cbn [N.eqb Pos.eqb run_bytes]. f_equal. f_equal. cbn. lia.
  - cbn [app run_bytes]. rewrite Hst.
    assert (Hb : (b =? 10) = false) by (apply N.eqb_neq; intros ->; apply Hno; now left).
    rewrite Hb. rewrite IH; [|reflexivity|intros Hin; apply Hno; now right].
    cbn [ps_pos ps_first ps_id ps_acc length]. f_equal. f_equal. lia.
Qed.

(* Property C03, parser level: a parser thread started at byte c of the body (c inside a line that ends with the
   line feed at the end of `pre`) emits - up to the point where its stop rule fires - exactly the events that the
   sequential parser emits after `pre`, provided the sequential parser is between tokens at that line start.
   Nothing is split, altered or invented at the seam. *)
Theorem handover_segment debug stop_c (pre suf : list byte) (c : nat) s0 nolf :
  (c < length pre)%nat -> skipn c pre = nolf ++ [10] -> ~ In 10 nolf ->
  run_bytes debug (N.of_nat (length (pre ++ suf))) pre init_state = Running s0 ->
  ps_state s0 = ParsingFirstToken -> ps_first s0 = [] ->
  exists more,
    fst (parse_body debug (pre ++ suf) (N.of_nat (length (pre ++ suf))))
    = rev (ps_acc s0) ++ fst (parse_body debug (skipn c (pre ++ suf)) stop_c) ++ more.
Proof.
  intros Hc Hmid Hno Hseq Hst Hf.
  set (stop_s := N.of_nat (length (pre ++ suf))) in *.
  unfold parse_body. rewrite !parse_loop_run. fold init_state.
  rewrite run_bytes_app, Hseq.
  assert (Hskip : skipn c (pre ++ suf) = (nolf ++ [10]) ++ suf).
  { rewrite skipn_app. replace (c - length pre)%nat with 0%nat by lia. cbn [skipn]. now rewrite Hmid. }
  rewrite Hskip, run_bytes_app, (skip_phase debug stop_c nolf init_state eq_refl Hno).
  cbn [init_state ps_pos ps_first ps_id ps_acc].
  assert (Hlen : length pre = (c + length nolf + 1)%nat).
  { pose proof (f_equal (@length _) Hmid) as E. rewrite skipn_length, app_length in E. cbn [length] in E. lia. }
  pose proof (run_bytes_pos debug stop_s pre init_state s0 Hseq) as Hpos. cbn [init_state ps_pos] in Hpos.
  assert (Hid : ps_id s0 = []).
  { apply (run_bytes_id_clean debug stop_s pre init_state s0); [intros _; reflexivity|exact Hseq|rewrite Hst; discriminate]. }
  set (sc := mk_ps (0 + N.of_nat (length nolf) + 1) ParsingFirstToken [] [] []).
  destruct (chunk_simulates debug stop_c stop_s (N.of_nat c) (ps_acc s0) suf sc s0) as [more Hm].
  - unfold related, sc. cbn [ps_state ps_first ps_id ps_pos ps_acc]. repeat split; try congruence.
    rewrite Hpos, Hlen. lia.
  - unfold no_underflow, sc. cbn [ps_state ps_first ps_pos length]. split; [intros _; lia|discriminate].
  - rewrite Hpos. unfold stop_s. rewrite app_length. lia.
  - exists more. unfold events_of in Hm. exact Hm.
Qed.
