(* Specification of the time table (property C02): the strictly increasing list of
   accepted time steps. *)
From Coq Require Import List NArith.
Import ListNotations.
Open Scope N_scope.

Fixpoint last_of (l : list N) : option N :=
  match l with [] => None | [x] => Some x | _ :: r => last_of r end.

(* a timestamp opens a step iff it is greater than all earlier ones *)
Definition accept (acc : list N) (t : N) : list N :=
  match last_of acc with
  | None => acc ++ [t]
  | Some l => if l <? t then acc ++ [t] else acc
  end.

Definition accepted (ts : list N) : list N := fold_left accept ts [].

